(* modelcli — generic driver around the extracted model.
   stdin : one case per line:   <component> <id> <tok> <tok> ...     tok = 'x' ^ hex
   stdout: one record per line: <id> <tok> <tok> ...
   All case decoding happens inside the extracted Coq code (Model.run). *)
let hexval c = match c with
  | '0'..'9' -> Char.code c - 48
  | 'a'..'f' -> Char.code c - 87
  | 'A'..'F' -> Char.code c - 55
  | _ -> failwith "bad hex"

let decode_tok (s : string) : char list =
  if String.length s = 0 || s.[0] <> 'x' then failwith ("bad token " ^ s);
  let n = (String.length s - 1) / 2 in
  let rec go i acc = if i < 0 then acc
    else go (i - 1) (Char.chr (hexval s.[1 + 2*i] * 16 + hexval s.[2 + 2*i]) :: acc) in
  go (n - 1) []

let encode_tok (l : char list) : string =
  let b = Buffer.create 64 in
  Buffer.add_char b 'x';
  List.iter (fun c -> Buffer.add_string b (Printf.sprintf "%02x" (Char.code c))) l;
  Buffer.contents b

let explode (s : string) : char list = List.init (String.length s) (String.get s)

let () =
  let mode = if Array.length Sys.argv > 1 then Sys.argv.(1) else "run" in
  (try
    while true do
      let line = input_line stdin in
      if String.length line > 0 then begin
        match String.split_on_char ' ' line with
        | comp :: id :: toks ->
          let toks = List.filter (fun t -> t <> "") toks in
          let args = List.map decode_tok toks in
          let out =
            if mode = "judge" then Model.judge (explode comp) args
            else Model.run (explode comp) args in
          print_string id;
          List.iter (fun t -> print_char ' '; print_string (encode_tok t)) out;
          print_newline ()
        | _ -> failwith ("bad line " ^ line)
      end
    done
  with End_of_file -> ())
