#!/usr/bin/env python3
"""Regenerate MANIFEST.json from the table below (kept here so the manifest stays valid and in step)."""
import json, os
V = os.path.dirname(os.path.dirname(os.path.abspath(__file__)))
props = [json.loads(l) for l in open(os.path.join(V, "properties.jsonl"))]
COMMON_NOTE = ("Trusted: Coq 8.16.1 kernel (vm_compute for computed witnesses, no native_compute); the development declares no axiom and "
               "Print Assumptions reports every theorem closed under the global context; the hand-written Gallina model is tied to the code "
               "only by the correspondence run (differential, generator-bounded) of this check; extraction (ExtrOcamlBasic, ExtrOcamlString, and Extract Inlined Constant List.rev => OCaml List.rev), "
               "OCaml driver, Go overlay driver, Python generators. ")
CLAIMED = {
    "C05": ("Theorems (all histories, no bound): C05_judged (model outputs satisfy the independent executable judge), C05_member, C05_window (any k consecutive "
            "dispatches are a permutation of the k backends, from any state), C05_counts (floor/ceil), C05_removed_silent, C05_added_joins, C05_schedules_safe "
            "(every interleaving of lock regions: no panic, deliveries only to currently registered backends). Correspondence: exhaustive op sequences + random "
            "against the real RoundRobinBackend; the judge is applied to every implementation observation.",
            "sync.Mutex mutual exclusion is assumed (each lock region one atomic step); real thread schedules are not exhibited by the model (schedule half = safety only).",
            "Coq proof (induction over op lists, residues-mod-n permutation) + exhaustive/random differential run"),
    "C15": ("Theorems over every timed history: C15_judged, C15_honoured (strictly before max(timeout,Expires) elapsed), C15_never_after, C15_removed, C15_swept (after any "
            "pin-creating event nothing expired for more than one timeout remains, whatever Expires values were seen), C15_bounded, C15_legacy_refuted (the pre-fix code violates it). "
            "Correspondence: histories against the real DialogBasedBackend with time simulated by shifting stored instants; judge applied to every implementation observation. "
            "The proxy-level triggers (BYE answered with any final status, NOTIFY terminated) and the lifetime wiring of the REAL binary are run through the whole-proxy engine by this "
            "check too: termination histories, and real-time histories (dialogTimeout 2 s, Expires 1/3 s, the driver sleeps; pins probed at <= 35 % and >= 130 % of their lifetime) judged by the "
            "history judge of C04, which demands the pinned backend while a pin is young and the rotation's next backend once it is over.",
            "One clock reading per operation in the model (Go reads it up to three times; probes keep a 50 ms margin from every boundary). Expires <= 2^31-1.",
            "Coq proof (invariant over timed histories, refinement to a per-key specification state) + differential run with simulated time"),
    "C18": ("Theorems: C18_glob_correct (matcher = declarative '*' relation), C18_precedence and C18_judged (literal > wildcard > default > none, against the independent judge reading the "
            "configuration itself), C18_stable (answer independent of Go map enumeration order), C18_legacy_unstable_refuted, C18_port_default/explicit. Correspondence: exhaustive tables "
            "x hosts with 50 repeated look-ups on fresh tables + random tables against the real PreConfigRoute/FindRoute.",
            "Patterns over [A-Za-z0-9.*-]; regexp.MatchString trusted to implement the anchored glob.",
            "Coq proof (induction on patterns/tables, permutation invariance of map look-ups) + exhaustive differential run"),
    "C19": ("Theorems over every outcome sequence: C19_judged (independent judge: rotation = exactly the resolved set after success; unchanged for up to 3 consecutive failures; emptied by the 4th), "
            "C19_tracks, C19_tolerates, C19_fourth_empties, C19_success_resets, C19_invariant_reachable, C19_runner_is_obs. Correspondence: exhaustive + random outcome sequences through the real "
            "addressResolved -> notification goroutine -> hostIPChanged -> Add/RemoveBackend with quiescence after each step.",
            "Host registration (ResolveHost/real DNS) is installed by hand in the driver; notification goroutines are awaited (quiescence, as the quantifier says); the proxy's address index "
            "(Proxy.backends) is exercised by the whole-proxy engine, not by this component.",
            "Coq proof (invariant: rotation is a duplicate-free permutation of the resolved set) + exhaustive differential run"),
    "C14": ("Theorems for every well-formed abstract value of the property's grammar, lists of any length: C14_sipuri, C14_addrspec, C14_nameaddr, C14_route, C14_recordroute, "
            "C14_fromto, C14_via, C14_cseq (decode of the reference text yields exactly the denoted components and accessors; encode gives the text back byte for byte; "
            "encode-decode-encode is stable), C14_judge_exact, C14_*_legacy_refuted (the pre-fix decoders/encoders violate it), C14_ipv6_refuted and C14_user_semicolon_refuted "
            "(the two tracked known findings, outside the grammar). Correspondence: grammar-driven values -> reference text (printed by the Coq side) -> real Parse*/String()/accessors "
            "vs. model, judged against the expected observation.",
            "The Via default-port rendering question is settled by the fix b230f5d (sent-by kept as received). IPv6 references and ';'/'?' in the user part are reported as KNOWN-FINDING. "
            "strings.Fields (Via sent-protocol / sent-by, CSeq) is modelled Unicode-aware (Bytes.fields_go): the grammar domain of C14_via / C14_cseq excludes a Unicode-space "
            "sequence inside those tokens (via_usp_necessary / cseq_usp_necessary show why), and a raw stream of such texts and look-alikes is compared model-vs-code.",
            "Coq proof (induction over parameter/element lists, split/index lemmas on byte strings) + grammar-driven differential run"),
    "C16": ("Theorems for ALL byte strings: C16_symmetric (direction independence incl. equal URIs/tags), C16_same_id, C16_callid_discriminates (unconditional), C16_discriminates "
            "(one tag or URI changed, under the boolean separator hypothesis sep_ok), C16_sep_ok_realistic + C16_half_ok_distinct_tags (sep_ok holds for distinct '-'-free tags, any URIs), "
            "C16_K3_refuted (tracked finding outside sep_ok), C16_judged (the group judge accepts the model on every group), C16_no_tag_from/to, C16_get_dialog_inv, "
            "C16_message_symmetric, C16_half_of_rendering (decorations do not matter, with C14_fromto), C16_legacy_refuted. Correspondence: alphabet groups with all one-change neighbours in "
            "8 renderings + random realistic identifiers, judged pairwise on the identifiers the real GetDialog returns.",
            "Discrimination for tag/URI changes is claimed under sep_ok only; the K3 witness is replayed on every run and reported as KNOWN-FINDING.",
            "Coq proof (trichotomy of the byte order, cancellation and prefix-comparability arguments) + group-wise differential run"),
    "C20": ("Theorems for every fault script and every send sequence (no length bound): C20_judged_client/backend (trace judge), C20_obs_judged_client/backend + C20_*_obs_printed "
            "(the count-based judge that is applied to the real code accepts exactly what the extracted runner prints), C20_trace_judge_implies_obs, C20_success_means_written, "
            "C20_error_means_unwritten, C20_no_dup(_backend), C20_failover, C20_later_direct, C20_refused(_backend). Correspondence: the exhaustive fault table (cached connection x "
            "reconnectable path x per-send destination behaviour) for 1-2 (thorough 3) sends against the real FailOverClientTransport/TCPClientTransport/TCPBackend with scripted "
            "net.Conn doubles and real loopback listeners. Inside the whole proxy: TB_send_reuse / TB_send_dial / TB_send_refused (ProxyTB: a TCP backend's "
            "cached connection is reused, a closed one re-dialled in the same send, a refusing peer fails the send) and C02_stale_redial (the same for "
            "a TCP next hop), exercised by histories in which backends close their connections and the next request must arrive on a new one.",
            "PARTIAL: what the peer actually received after a reset, kernel buffering (a write to a connection the peer already reset can still return success) and blocking dial/write "
            "durations are runtime behaviour the model cannot exhibit; the accept-then-reset cell is judged on returns/no panic/attempt bounds only.",
            "Coq proof (case analysis of the two-attempt loops over scripted worlds, invariants along send sequences) + exhaustive fault-table differential run"),
    "C09": ("PARTIAL. Theorems: C09_lockset_sound (for every well-formed trace = every schedule: if each location is Locked by one mutex / Owned by one thread / InitOnly / handed off over a "
            "channel, any two conflicting accesses are ordered by happens-before), C09_init_before_any_fork, C09_discipline (every access site of the table REGENERATED FROM /repo ON THIS RUN "
            "by tools/locktab obeys the discipline the policy assigns its field), C09_policy_complete (every struct field written outside a constructor is classified: new shared state "
            "fails the check), C09_policy_wellformed, C09_lock_order_acyclic (no mutex deadlock cycle), C09_tables (the cached call-graph closures are what their definitions compute), "
            "C09_bridge (instantiation assumptions I0-I6 spelled out). Supporting run: the real proxy (2-4 listeners of one service, UDP+TCP clients, membership changes through the real "
            "resolver path) under the race detector, deliveries counted.",
            "Trusted additionally: the locktab translator (go/ast + go/types over /repo: field accesses, lexically held mutexes, call graph by name, go-roots). Not covered by the theorem: "
            "instruction-level interleavings and the Go memory model beyond lock/fork/channel edges, sync/atomic and RWMutex read locks (Atomic fields are excluded from plain access), "
            "multi-hop ownership transfer of pooled buffers, channel capacity/deadlock on full channels, start-up ordering of main (bridge assumption I5), the TCP-backend path under load. "
            "The race-detector run is supporting evidence only; a report or a lost message there is reported as a violation with the log as replay.",
            "Coq proof (lockset soundness over abstract traces; vm_compute over the access table translated from the source on every run) + race-detector stress run"),
    "C10": ("Theorems: C10_isolated / C10_isolated_fits (for EVERY stale buffer content and datagram: what the repaired UDP parse returns is parse_bytes of the datagram alone), "
            "C10_history (every event sequence from every well-formed pool/queue state, any recycling order), C10_short_discarded (accepted only if the header section is closed by a "
            "blank line and the declared body lies inside the datagram's own bytes; never Panic), C10_pool_exclusive(_udp) (no buffer simultaneously pooled and held, or held twice, "
            "for every Alloc/Free sequence), C10_legacy_refuted. Correspondence: the real startParseMessage loop and ByteArrayPool with deliberately dirty buffers, every cut offset of "
            "sample datagrams, over-/under-declared Content-Length.",
            "C10_history is at the level of parse results (what is relayed for a decoded message is the whole-proxy model's subject). Carries 2*len <= 2^47 (the model's make limit).",
            "Coq proof (refinement of the concrete bufio reader to the abstract byte reader; pool invariant by induction) + differential run with dirty buffers"),
    "C11": ("Theorems: C11_read_slice_abs (what bufio.ReadSlice returns depends on the remaining stream and the window size only), C11_read_line_abs, C11_framing (for EVERY segmentation "
            "into non-empty chunks and every window size the concrete reader loop yields parse_stream of the concatenated bytes), C11_segmentation_independent, C11_exact / "
            "C11_exact_segmented (every list of well-formed messages with keep-alive blank lines, CRLF or LF, header lines of any length, arbitrary bodies is decoded to exactly those "
            "messages), C11_legacy_refuted(_4096) (the pre-fix readLine depends on the segmentation). Correspondence: the real ParseMessage loop over a scripted chunking reader: all "
            "single/double cuts of short sequences, random multi-cuts down to 1-byte segments, windows 16/17/64/4096.",
            "Carries 2*len <= 2^47 (the model's make limit). UnreadByte modelled only directly after ReadByte (the only use). The wire-level TCP client with scripted segments is part of the "
            "whole-proxy engine, not of this component.",
            "Coq proof (refinement bufio-reader model -> abstract reader, fuel shown sufficient) + exhaustive-cuts differential run"),
    "C08": ("PARTIAL. Theorems: decode level — C08_parse_no_panic, C08_parse_terminates (every loop is structural / fuel never exhausted), C08_alloc_bounded (bytes requested from make <= 4*received "
            "+ 64 KiB), C08_parse_no_panic_udp, C08_legacy_refuted (absurd Content-Length -> Panic / 1 GiB requested in the pre-fix model); whole pipeline — C08_no_panic(_gen) and C08_never_err (for EVERY "
            "byte string, event, configuration and state proxy_step returns Ok: no guarded Go operation of decode/learn/stamp/route/pin/relay can go out of bounds), C08_discard_udp / "
            "C08_discard_tcp / C08_garbage_is_close / C08_discard_tcp_after (undecodable input: nothing sent, state unchanged, TCP connection closed), C08_serves_after(_tcp) (the traffic that "
            "follows is served as if the bad input had not occurred), C08_output_bounded, C08_legacy_refuted (Via host '[' panicked before the fix). Correspondence: hostile histories through the "
            "real proxy over UDP and TCP (mutations, hostile field values, thousands of headers/parameters), each ending with a request that must still be served; process death, a barrier "
            "that never returns and > 300 MiB obtained from the OS during one scenario are violations; plus the in-package hostile stream against the bufio/UDP-buffer model.",
            "Real memory use (RSS), goroutine starvation and stalls inside blocking I/O (dial to a black-holed next hop) are runtime behaviour the model cannot exhibit; fmt/regexp/net/bufio "
            "internals are trusted not to panic; the memory ceiling and liveness barrier are supporting evidence.",
            "Coq proof (Panic-carrying result monad: every slice/index/make of the modelled pipeline guarded for all inputs) + hostile-input differential run"),
}

PROXY_NOTE = ("Whole-proxy engine: the model Proxy.proxy_step (one state per listen entry, shared learned table, transport table, pins, rotation) is played against the REAL proxy "
              "started through startProxy from YAML on loopback sockets, one 127.X.Y.0/24 block per scenario, a barrier request after every event; the property's executable judge "
              "(SpecProxy.v / SpecProxy2.v, its own minimal SIP reader) is applied to what the real proxy emitted. Theorems are about the model at the level of decoded messages; the "
              "judge-level link (the executable judge, run on the bytes the model emits, answers 0) is proved as Cxx_judge_bridge_* for C01, C02, C03, C06, C07 and C13 on the "
              "C14 grammar domain - for datagram events and, for C02 C03 C06 C07 C13 (Cxx_judge_bridge_tcp_msg / _tcp_step, proofs/Cxx_bridge_tcp.v), for a message arriving on an "
              "accepted TCP connection - and exercised by the runs for the others. Proxy-generated branches and OS-chosen ports are canonicalised. ")
TB_NOTE = ("Backends reached over TCP (tcp://): ProxyTB.proxy_step_tb is a conservative extension of proxy_step (TB_conservative(_entry/_history): for a "
           "listen entry with UDP backends it IS proxy_step, so the theorems above apply unchanged; TB_copy_faithful*: the copied pipeline differs only "
           "where a backend is reached; TB_payload_agrees: the message written to a TCP backend is the one the UDP model writes; TB_send_reuse/_dial/"
           "_refused/_one_message, TB_at_most_one(_tcp), TB_sticky_step / TB_unpinned_step / TB_rotation_agrees, TB_remove_closes, TB_cached_peer); "
           "its histories (connections dialled, reused, closed by the backend and re-dialled, members removed) are played through the real proxy "
           "inside this check (component proxytb, same judges). The local end of a connection dialled without a local address is taken to be "
           "127.0.0.1 (the kernel's choice on the loopback interface; observed, part of the trusted base). ")
CLAIMED.update({
    "C01": ("Theorems for every message, configuration, state and every relaying path (backend, Route, static route, response by Via; UDP and TCP): C01_relay_preserves (every output is "
            "write_message of a message with the same non-routing view: start line, every (name, value) pair other than Via/Route/Record-Route/Content-Length in order and multiplicity, body), "
            "C01_proxy_step_udp/tcp, C01_stable_on_c14_domain + C01_stable_necessary (the re-encode-stability hypothesis holds on the grammar domain and is visibly necessary: CSeq '0001 INVITE'), "
            "C01_single_content_length(_read) (exactly one Content-Length = body length, also through the judge's own line reader), C01_judge_bridge_partial/request/response and C01_judge_relay "
            "(the executable judge accepts the model's output), C01_legacy_refuted.",
            PROXY_NOTE + TB_NOTE + "Header values are compared modulo surrounding blanks, read as Unicode white space: Go's TrimSpace strips the UTF-8 encodings of the Unicode White_Space runes too, the model (Bytes.trim_space_go, validated against strings.TrimSpace) and the judge do the same, and about one generated extension value in 15 begins/ends with such a rune or a look-alike.",
            "Coq proof (frame lemmas for every state-passing message operation, composed along the pipeline) + whole-proxy differential run with independent judge"),
    "C02": ("Theorems for every response, state, configuration: C02_response_general / C02_response_hop (both layouts: comma list and repeated lines, compact/odd-case names: exactly one send to "
            "received-or-host, numeric-rport-or-sent-by-port, over the entry's transport, with the remaining Via entries intact), C02_single_via_dropped, C02_undecodable_dropped, C02_dest_unsupported, "
            "C02_dest_udp, C02_dest_tcp + C02_tcp_slot_reachable (a TCP Via never leaves as a datagram in any reachable state), C02_independent_of_pins, C02_roundtrip(_return) (the response to a "
            "relayed request returns to the true source / its sent-by with the Via stack that hop sent), C02_process_response; C02_legacy_refuted witness in proofs/C02.v. "
            "Judge link (proofs/C02_bridge.v): C02_judge_bridge_core, _step_udp, _step_drop, _step_unsupported, _step_unresolved (full: judge_C02_event answers 0 on the model's own "
            "output for every response in the Via grammar domain), _step_tcp_sent / _step_tcp_fresh (full when the model wrote on a connection / for the first use of an address), "
            "_step_tcp_partial (general TCP: agreement between the judge's and the model's view of open connections is a hypothesis). C02_stale_redial: a "
            "cached client connection the peer has closed costs one round, the second round dials AND writes (model defect M1, found by the "
            "correspondence and repaired, DESIGN 9.4).",
            PROXY_NOTE + "C02_dest_udp carries a state condition (udp_slot_ok): after a failed oversized datagram FailOverClientTransport forgets its UDP primary for good (model and Go code alike; recorded as an observation).",
            "Coq proof (Via-view of a message, pop/hop/send characterisations, reachable-state invariant) + whole-proxy differential run with independent judge"),
    "C03": ("Theorems for every message, state, configuration: C03_at_most_one(_udp/_tcp) (no event ever sends to two destinations), C03_choice (the hop is exactly choose_hop written from the "
            "property text: first remaining SIP Route entry after the own one, else static route of the To host, else a backend if the Request-URI matches, else nothing), C03_choice_outputs, "
            "C03_backend_member(_event), C03_unsupported_transport_dropped/_event, C03_non_sip_route (the case the quantifier excludes, stated), C03_b1_legacy_refuted. "
            "Judge link (proofs/C03_bridge.v): C03_choose_agree (the judge's reading of the precedence = the model's effective hop, on the grammar domain), "
            "C03_judge_bridge_udp / _step / _step_no_tcp (judge_C03_event answers 0 on the model's output; for a TCP next hop one observation-side premise "
            "remains: when nothing was written the judge's connection bookkeeping must allow silence), C03_agree_step_udp (the judge's and the model's "
            "view of backends and connections stay in agreement along datagram events).",
            PROXY_NOTE + TB_NOTE + "Spirals (a Route set naming the proxy twice: the request is sent to the proxy's own socket and processed again) are played "
            "by the component proxysp, model against code. Service-name patterns within the regular-expression subset of Rx.v; which backend a pin selects is C04, rotation evenness C05.",
            "Coq proof (request pipeline decomposition, route view over all Route headers) + decision-table differential run with independent judge"),
    "C06": ("Theorems for every request/header layout/position: C06_via_pushed + C06_via_position (exactly one Via naming the listener's transport/address/port with the event's branch, "
            "immediately above the first existing Via header, all others beneath in order), C06_rr_policy/_position/_flat (own <sip:addr:port;lr> ahead of all Record-Route entries iff one is "
            "present or must-record-route), C06_decorate_learned / C06_not_learned_untouched / C06_backend_decorates / C06_relayed_request (end to end over process_message), C06_branch, "
            "C06_branch_of_inj/_cookie/C06_branches_distinct, C06_learn_lookup, C06_learning(_response). Judge link (proofs/C06_bridge.v): "
            "C06_judge_bridge_step / _udp (judge_C06_event answers 0 on the model's output, for requests of the grammar domain), C06_agree_step and "
            "C06_lrn_ok_step (the judge's learned table and the model's agree along datagram events).",
            PROXY_NOTE + TB_NOTE + "Freshness of the REAL branches rests on uuid.NewRandom (48 random bits): the driver keeps the set of every branch seen in a run and reports a duplicate; that is a measurement, not a theorem.",
            "Coq proof (insertion-position lemmas, flattened Via/Record-Route views) + whole-proxy differential run with independent judge"),
    "C07": ("Theorems: C07_stamp + C07_stamp_params + C07_kv_set_char (received = source IP overriding a supplied one, rport = source port iff an rport parameter was present, every other "
            "parameter, entry and header untouched), C07_pipeline (stamping iff received-support and request), C07_wiring (every listener kind gets !no-received from the YAML) / C07_wiring_legacy "
            "(the pre-fix argument order gives the never-set defRoute), C07_wired_reachable (accepted AND dialled connections in every reachable state), C07_step_udp / C07_step_tcp. Judge link (proofs/C07_bridge.v): C07_judge_bridge_udp / "
            "C07_judge_bridge_step (judge_C07_event answers 0 on the bytes the model emits, for every request in the Via grammar domain).",
            PROXY_NOTE + TB_NOTE + "The wiring is exercised for real: YAML -> loadConfigFromReader -> startProxy; requests arrive over UDP, accepted TCP connections and connections the proxy dialled itself.",
            "Coq proof (parameter-list characterisation of SetParam, wiring function, reachable-state invariant) + whole-proxy differential run with independent judge"),
    "C04": ("Theorems over every history (no bound on length, dialogs, backends): C04_bind / C04_bind_subscribe (a response with both tags whose CSeq method is INVITE coming from a backend address - or a "
            "SUBSCRIBE response relayed towards a backend - files the dialog under that backend object until now + max(timeout, Expires)), C04_sticky_step(_reverse) (a request of ANY method whose "
            "direction-independent dialog id is pinned to a live backend goes to exactly that address, the rotation cursor and the membership untouched; From/To swapped gives the same id: "
            "dialog_of_symmetric through C16), C04_preserved_message / C04_preserved / C04_preserved_history (every event that is not a re-bind, terminating NOTIFY, final response consuming the "
            "same key, or membership change of that backend keeps the pin: unrelated requests, responses, TCP traffic, other dialogs, other backends' membership), C04_sticky and C04_sticky_pinned "
            "(history form: bind, any admissible history, then a request of the dialog addressed to the service is delivered to the answering backend and nowhere else), C04_unpinned_step / "
            "C04_unpinned_balanced (a request of no live pinned dialog takes the rotation's next backend = C05), bref_round_trip (the pin's textual encoding), key_neq_dialog, C04_legacy_refuted.",
            PROXY_NOTE + TB_NOTE + "Hypotheses visible in the statements: the lifetime is non-negative (a huge Expires wraps), the backend generation < 2^63, and a dialog identifier is not also a "
            "transaction key METHOD-branch of the same table (key_neq_dialog gives the syntactic sufficient condition: the proxy's branches start with the magic cookie). 'Addressed to the service' = "
            "no Route or exactly the own Route entry, no static route for the To host, Request-URI matching the service name. Run: 1-7 (thorough 50) concurrent dialogs over 2-6 backends, both "
            "directions, every method, backend answers to in-dialog requests, foreign dialogs (established by non-backend peers), unrelated traffic in between.",
            "Coq proof (pin-table invariant along histories, direction-independent dialog id, frame lemmas for every non-binding event) + whole-proxy differential run with independent history judge"),
    "C12": ("Theorems over every history: C12_register (a request arriving on TCP connection c files c under (tcp, RESOLVED response host, port, CSeq-method-branch) for 3600 s, every other live entry "
            "untouched), C12_lookup / C12_until_final (a response whose next Via gives that key is written on c and on nothing else, WHATEVER else the table holds; a provisional response keeps "
            "the entry, the final one drops it), keys_differ / tid_inj / full_addr_inj_tid / accept_key_differs (distinct (method, branch) pairs give distinct keys for the same peer address and "
            "sent-by; the accept-level key never collides), C12_preserved / C12_preserved_history (requests and responses of other transactions on other connections from the same address and "
            "with the same sent-by, accepts, closes of other connections, membership changes, provisional responses of the same transaction keep the registration), C12_same_connection (history "
            "form: request on c, any admissible history, then the response: delivered on c), C12_history_ex (two connections, same sent-by, reordered 180/200), C12_legacy_refuted (the pre-fix "
            "keying loses the response for a resolvable name in the sent-by).",
            PROXY_NOTE + "Backends are UDP in the whole-proxy model (the response event arrives over UDP); registration and look-up within 3600 s; connection c not closed in between (stated). Run: "
            "2-5 (thorough 8) client connections from one address, equal / different / NAMED sent-by values, with and without received stamping, 1xx before 2xx, responses reordered across "
            "connections; the accept/receive goroutines and real sockets are exercised only by the run.",
            "Coq proof (transport-table frame lemmas, key injectivity, invariant along histories) + whole-proxy differential run with independent history judge"),
    "C13": ("Theorems for every Route set in any layout: C13_own_popped_iff (the top entry is consumed iff it designates the receiving listener: same port and same or same-resolving host), "
            "C13_next_hop_popped_iff_not_keep, C13_route / C13_route_decoded (the relayed Route entries are exactly skipn (own?1:0 + (next hop stripped?1:0)) of the received ones, near misses "
            "included as the own = false branch), C13_route_view_grammar + C13_route_header_text (link to bytes through the C14 theorems), "
            "C13_keep_setting_decides / C13_keep_env_default (where the keep-next-hop-route setting comes from: the service's own text whenever it is "
            "not empty, the environment variable KEEP_NEXT_HOP_ROUTE only for an empty one). Judge link (proofs/C13_bridge.v): C13_route_headers, "
            "C13_judge_bridge_udp / C13_judge_bridge_step (judge_C13_event answers 0 on the bytes the model emits).",
            PROXY_NOTE + "The real proxy is started under generated keepNextHopRoute spellings and KEEP_NEXT_HOP_ROUTE values. Spirals (Route sets naming the "
            "proxy more than once: one own entry consumed per pass, the request sent to the proxy's own socket and processed again) are played by the "
            "component proxysp (RunProxySp.feed composes proxy_step with itself), model against code, without the per-event judge.",
            "Coq proof (route view flattened over all Route headers, invariance under in-place decoding) + whole-proxy differential run with independent judge"),
    "C17": ("Theorems: C17_same_header_equiv/_refl/_sym/_trans (same_header = equality of the expanded lower-case names, for ALL names), commutation of every look-up/update/insert with "
            "respelling, C17_respell_invariance(_fun) and C17_respell_udp (the whole per-message pipeline on a respelled message: same state, same destinations, outputs that are "
            "serialisations of respelled messages, exactly one Content-Length), C17_relayout_invariance / C17_relayout_udp / C17_written_relaid / C17_pop_via_flat / C17_route_layout "
            "(splitting or joining Via / Route lists), C17_size_counterexample (the one condition: both serialisations on the same side of the 65507-byte datagram limit).",
            PROXY_NOTE + "Metamorphic run: every scenario is played twice through the real proxy, the second time respelled and re-laid-out, and compared pairwise.",
            "Coq proof (simulation up to respelling / re-layout of every message operation, composed along the pipeline) + metamorphic differential run"),
})


def check(pid):
    text, note, tech = CLAIMED[pid]
    return {"property_id": pid,
            "quick_cmd": "python3 tools/check.py %s --tier quick" % pid,
            "thorough_cmd": "python3 tools/check.py %s --tier thorough" % pid,
            "evidence_file": "/verif/evidence/%s.json" % pid,
            "replay_cmd_template": "python3 tools/check.py %s --replay {path}" % pid,
            "engine": "coq-model+correspondence",
            "level_claimed": {"category": "proof", "text": text, "design_ref": "DESIGN.md section 5, " + pid},
            "level_note": COMMON_NOTE + note,
            "technique": tech}


m = {"version": 1,
     "setup_cmd": "make -C /verif setup",
     "hooks": {"guard": "verif",
               "enable": "go test -c -tags verif -overlay <map /repo/zz_verif_*_test.go -> /verif/harness/*_test.go> (no instrumentation is committed to /repo)",
               "baseline_off_cmd": "cd /repo && GOFLAGS=-mod=mod GOPROXY=off GOSUMDB=off GOTOOLCHAIN=local go test -json -vet=off -count=1 -timeout 25m ./...",
               "source_commits": [], "add_only": True},
     "engines": [{"name": "coq-model+correspondence", "path": "/verif/tools/check.py", "serves_properties": sorted(CLAIMED),
                  "kind_free_text": "Coq 8.16 proofs over a hand-written executable Gallina model (coq/), extracted to OCaml (ocaml/modelcli) and compared with the real Go code through an in-package overlay driver (harness/)"}],
     "checks": [check(p) for p in sorted(CLAIMED)],
     "not_applicable": [{"property_id": p["id"], "reason": "check under construction in this session (model and correspondence exist or are being built, theorems not yet complete); will be claimed when its check is complete"}
                        for p in props if p["id"] not in CLAIMED],
     "notes": "See DESIGN.md. fix: commits in /repo and known findings are listed in known_findings.txt."}
json.dump(m, open(os.path.join(V, "MANIFEST.json"), "w"), indent=1)
print("claimed:", sorted(CLAIMED))
