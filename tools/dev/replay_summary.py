"""replay_summary.py FILE...: one line per replay: kind, event, number of impl/model outputs, labels.  Development aid."""
import sys, json
for p in sys.argv[1:]:
    d = json.load(open(p))
    io = d.get("impl_outputs", [])
    mo = d.get("model_outputs", [])
    print(p.split("/")[-1], d.get("kind"), "event", d.get("event"), "of", (d.get("meta") or {}).get("events"),
          "impl", [(l, len(ds)) for l, ds in io], "model", [(l, len(ds)) for l, ds in mo], "|", (d.get("summary") or "")[:100])
