"""tb_try.py [n] [seed]: generate n TCP-backend histories (proxyflows.tb_history), play them against the real proxy and the
model (component proxytb), apply the proxytb judges, print what differs.  Development aid."""
import sys, os, tempfile, random, json
sys.path.insert(0, os.path.join(os.path.dirname(os.path.abspath(__file__)), ".."))
import lib, proxygen as pg, proxyflows as pf, proxycheck as pc
n = int(sys.argv[1]) if len(sys.argv) > 1 else 20
rng = random.Random(int(sys.argv[2]) if len(sys.argv) > 2 else 1)
work = tempfile.mkdtemp(prefix="verif-tb-")
drv = lib.build_driver(work)
blocks = pg.alloc_blocks(n)
cases = []
for i in range(n):
    f = pf.tb_history(rng, blocks[i])
    cases.append(f.s.case("tb%d" % i, {"kind": "tb"}))
cov, failures = pc.explore({"work": work, "drv": drv}, "TB", cases, ["proxytb-C01", "proxytb-C03", "proxytb-C04", "proxytb-C07", "proxytb-C02", "proxytb-C12"],
                           nontrivial=lambda c, ni: any(l.startswith(b"conn:") for outs, _ in ni for l, _ in outs))
print(json.dumps(cov))
impl = lib.run_impl_sharded(drv, cases[:40], work, shards=8)
stat = {}
for c in cases[:40]:
    ev, _ = pg.parse_proxy_obs(pc.strip_notes(impl.get(c.id, []))[0], c.meta["events"])
    for outs, closed in ev:
        for l, _ in outs:
            k = l.split(b":")[0].decode()
            stat[k] = stat.get(k, 0) + 1
        stat["closed"] = stat.get("closed", 0) + len(closed)
    for t in c.toks:
        if t in (b"bdata", b"bclose", b"udp"):
            stat["ev-" + t.decode()] = stat.get("ev-" + t.decode(), 0) + 1
print("labels in the first 40 cases:", stat)
for f in failures[:6]:
    print("FAIL", f["kind"], f.get("judge"), f.get("summary"))
    for k in ("event_input", "impl_outputs", "model_outputs", "judge_says"):
        if k in f:
            print("   ", k, str(f[k])[:1800])
    open("/tmp/tb-fail-%s.json" % f["case_id"], "w").write(json.dumps(f))
