import sys, os, random, tempfile, shutil
sys.path.insert(0, os.path.join(os.path.dirname(os.path.abspath(__file__)), ".."))
import lib, proxygen as pg
from proxygen import msg, placeholder

def scn1(block):
    s = pg.Scenario(block)
    b1, b2 = s.ip(11) + b":5070", s.ip(12) + b":5070"
    li = s.listen(1, udp=5060, tcp=5061, backends=[b1, b2])
    ua = s.udp_ep(s.ip(21), 5060)
    s.udp_ep(s.ip(11), 5070); s.udp_ep(s.ip(12), 5070)
    nh = s.udp_ep(s.ip(31), 5080)
    s.routes.append((b"udp", b"static.example.org", s.ip(31) + b":5080"))
    inv = msg(b"INVITE sip:bob@svc.example.com SIP/2.0", [
        (b"Via", b"SIP/2.0/UDP " + s.ip(21) + b":5060;branch=z9hG4bK-u1;rport"),
        (b"Max-Forwards", b"70"), (b"From", b"<sip:alice@a.example>;tag=1"), (b"To", b"<sip:bob@svc.example.com>"),
        (b"Call-ID", b"c1"), (b"CSeq", b"1 INVITE"), (b"X-Foo", b"bar%41 ;x")], b"hello")
    e0 = s.ev_udp(li, ua, inv)
    ok = msg(b"SIP/2.0 200 OK", [
        (b"Via", b"SIP/2.0/UDP " + s.ip(1) + b":5060;branch=" + placeholder(e0)),
        (b"Via", b"SIP/2.0/UDP " + s.ip(21) + b":5060;branch=z9hG4bK-u1;rport"),
        (b"From", b"<sip:alice@a.example>;tag=1"), (b"To", b"<sip:bob@svc.example.com>;tag=2"),
        (b"Call-ID", b"c1"), (b"CSeq", b"1 INVITE")])
    s.ev_udp(li, (s.ip(12), 5070), ok)
    bye = msg(b"BYE sip:bob@svc.example.com SIP/2.0", [
        (b"Via", b"SIP/2.0/UDP " + s.ip(21) + b":5060;branch=z9hG4bK-u2"),
        (b"From", b"<sip:alice@a.example>;tag=1"), (b"To", b"<sip:bob@svc.example.com>;tag=2"),
        (b"Call-ID", b"c1"), (b"CSeq", b"2 BYE")])
    s.ev_udp(li, ua, bye)
    opt = msg(b"OPTIONS sip:x@static.example.org SIP/2.0", [
        (b"Via", b"SIP/2.0/UDP " + s.ip(21) + b":5060;branch=z9hG4bK-u3"),
        (b"From", b"<sip:alice@a.example>;tag=1"), (b"To", b"<sip:x@static.example.org>"),
        (b"Call-ID", b"c2"), (b"CSeq", b"1 OPTIONS")])
    s.ev_udp(li, ua, opt)
    rt = msg(b"OPTIONS sip:x@other.example.org SIP/2.0", [
        (b"Via", b"SIP/2.0/UDP " + s.ip(21) + b":5060;branch=z9hG4bK-u4"),
        (b"Route", b"<sip:" + s.ip(1) + b":5060;lr>,<sip:" + s.ip(31) + b":5080;lr>"),
        (b"From", b"<sip:alice@a.example>;tag=1"), (b"To", b"<sip:x@other.example.org>"),
        (b"Call-ID", b"c3"), (b"CSeq", b"1 OPTIONS")])
    s.ev_udp(li, ua, rt)
    # TCP
    s.ev_accept(li, s.ip(22), 40000)
    s.ev_data(0, inv.replace(b"/UDP", b"/TCP").replace(b"-u1", b"-t1"))
    return s.case("s1")

work = tempfile.mkdtemp(prefix="verif-smoke-")
drv = lib.build_driver(work)
blocks = pg.alloc_blocks(4)
cases = [scn1(blocks[0])]
impl = lib.run_impl(drv, cases, work)
model = lib.run_model(cases, work)
for c in cases:
    n = c.meta["events"]
    io, mo = impl[c.id], model[c.id]
    ie, it = pg.parse_proxy_obs(io, n); me, mt = pg.parse_proxy_obs(mo, n)
    print("impl trailer", it, "model trailer", mt)
    for k, (a, b) in enumerate(zip(pg.normalise(ie), pg.normalise(me))):
        print("== event", k, "SAME" if a == b else "DIFF")
        if a != b or "-v" in sys.argv:
            print(" impl :", a); print(" model:", b)
shutil.rmtree(work)
