"""gen_properties.py: append to coq/Properties.v the property theorems proved in coq/proofs/*.v.
For each (property, proofs module, lemma name[, new name]) the STATEMENT is copied verbatim from the
proofs file (so it stays visible in Properties.v) and closed by the lemma.  Run by hand after a proofs
file has been reviewed; Properties.v is then compiled, which checks that every copied statement is
exactly (convertible to) what the lemma proves."""
import re, sys, os
V = os.path.dirname(os.path.dirname(os.path.dirname(os.path.abspath(__file__))))
COQ = os.path.join(V, "coq")

SPEC = {
 "C01": (["MsgLemmas", "C01"], [
    ("C01", "C01_relay_preserves"), ("C01", "C01_proxy_step_udp"), ("C01", "C01_proxy_step_tcp"),
    ("C01", "stable_on_c14_domain", "C01_stable_on_c14_domain"), ("C01", "C01_stable_necessary"),
    ("C01", "C01_single_content_length"), ("C01", "C01_single_content_length_read"),
    ("C01", "C01_judge_bridge_partial"), ("C01", "C01_judge_bridge_request"), ("C01", "C01_judge_bridge_response"),
    ("C01", "C01_judge_relay"), ("C01", "C01_legacy_refuted")]),
 "C07": (["C07", "C07_bridge", "C07_bridge_tcp"], [
    ("C07_bridge_tcp", "C07_judge_bridge_tcp_msg"), ("C07_bridge_tcp", "C07_judge_bridge_tcp_step"),
    ("C07", "C07_stamp"), ("C07", "C07_stamp_params"), ("C07", "C07_kv_set_char"), ("C07", "C07_pipeline"),
    ("C07", "C07_wiring"), ("C07", "C07_wiring_legacy"), ("C07", "C07_wired_reachable"),
    ("C07", "C07_step_udp"), ("C07", "C07_step_tcp"),
    ("C07_bridge", "C07_judge_bridge_udp"), ("C07_bridge", "C07_judge_bridge_step")]),
 "C02": (["C06", "C13_bridge", "C07_bridge", "C07", "C02", "C02_bridge", "C02_bridge_tcp"], [
    ("C02_bridge_tcp", "C02_judge_bridge_tcp_core_msg"), ("C02_bridge_tcp", "C02_judge_bridge_tcp_core_step"),
    ("C02_bridge_tcp", "C02_judge_bridge_tcp_step_udp"), ("C02_bridge_tcp", "C02_judge_bridge_tcp_step_drop"),
    ("C02_bridge_tcp", "C02_judge_bridge_tcp_step_tcp_sent"), ("C02_bridge_tcp", "C02_judge_bridge_tcp_step_tcp_fresh"),
    ("C02_bridge", "C02_judge_bridge_core"), ("C02_bridge", "C02_judge_bridge_step_udp"), ("C02_bridge", "C02_judge_bridge_step_drop"),
    ("C02_bridge", "C02_judge_bridge_step_unsupported"), ("C02_bridge", "C02_judge_bridge_step_unresolved"),
    ("C02_bridge", "C02_judge_bridge_step_tcp_partial"), ("C02_bridge", "C02_judge_bridge_step_tcp_sent"),
    ("C02_bridge", "C02_judge_bridge_step_tcp_fresh"),
    ("C02", "C02_response_general"), ("C02", "C02_response_hop"), ("C02", "C02_single_via_dropped"),
    ("C02", "C02_undecodable_dropped"), ("C02", "C02_dest_unsupported"), ("C02", "C02_dest_udp"), ("C02", "C02_dest_tcp"),
    ("C02", "C02_tcp_slot_reachable"), ("C02", "C02_independent_of_pins"), ("C02", "C02_roundtrip_return"),
    ("C02", "C02_roundtrip"), ("C02", "C02_process_response")]),
 "C06": (["C07_bridge", "C13_bridge", "C06", "C13", "C03", "C06_bridge", "C06_bridge_tcp"], [
    ("C06_bridge_tcp", "C06_judge_bridge_tcp_msg"), ("C06_bridge_tcp", "C06_judge_bridge_tcp_step"),
    ("C06_bridge_tcp", "C06_agree_tcp_step"), ("C06_bridge_tcp", "C06_lrn_ok_tcp_step"),
    ("C06_bridge", "C06_judge_bridge_step"), ("C06_bridge", "C06_judge_bridge_udp"), ("C06_bridge", "C06_agree_step"),
    ("C06_bridge", "C06_lrn_ok_step"),
    ("C06", "C06_via_pushed"), ("C06", "C06_via_position"), ("C06", "C06_branch"), ("C06", "C06_rr_policy"),
    ("C06", "C06_rr_position"), ("C06", "C06_rr_flat"), ("C06", "own_record_route_text", "C06_own_record_route_text"),
    ("C06", "C06_decorate_learned"), ("C06", "C06_not_learned_untouched"), ("C06", "C06_backend_decorates"),
    ("C06", "branch_of_inj", "C06_branch_of_inj"), ("C06", "branch_of_cookie", "C06_branch_of_cookie"),
    ("C06", "C06_branches_distinct"), ("C06", "learn_lookup", "C06_learn_lookup"), ("C06", "C06_learning"),
    ("C06", "C06_learning_response"), ("C03", "C06_relayed_request")]),
 "C13": (["C06", "C13", "C13_bridge", "C13_bridge_tcp"], [
    ("C13_bridge_tcp", "C13_judge_bridge_tcp_msg"), ("C13_bridge_tcp", "C13_judge_bridge_tcp_step"),
    ("C13_bridge", "C13_route_headers"), ("C13_bridge", "C13_judge_bridge_udp"), ("C13_bridge", "C13_judge_bridge_step"),
    ("C13", "try_remove_top_route_pops_iff_own", "C13_own_popped_iff"),
    ("C13", "next_hop_by_route_pops_iff_not_keep", "C13_next_hop_popped_iff_not_keep"),
    ("C13", "C13_route"), ("C13", "C13_route_decoded"), ("C13", "route_view_grammar", "C13_route_view_grammar"),
    ("C13", "route_header_text", "C13_route_header_text"),
    ("C13", "C13_keep_setting_decides"), ("C13", "C13_keep_env_default")]),
 "C03": (["C02", "C13_bridge", "C06", "C13", "C03", "C03_bridge", "C03_bridge_tcp"], [
    ("C03_bridge_tcp", "choose_agree_gen", "C03_choose_agree_gen"), ("C03_bridge_tcp", "C03_judge_bridge_tcp_msg"),
    ("C03_bridge_tcp", "C03_judge_bridge_tcp_step"), ("C03_bridge_tcp", "C03_judge_bridge_tcp_step_no_tcp"),
    ("C03_bridge", "choose_agree", "C03_choose_agree"), ("C03_bridge", "C03_judge_bridge_udp"), ("C03_bridge", "C03_judge_bridge_step"),
    ("C03_bridge", "C03_judge_bridge_step_no_tcp"), ("C03_bridge", "agree_step_udp", "C03_agree_step_udp"),
    ("C03", "C03_at_most_one"), ("C03", "C03_at_most_one_udp"), ("C03", "C03_at_most_one_tcp"), ("C03", "C03_choice"),
    ("C03", "C03_choice_outputs"), ("C03", "C03_non_sip_route"), ("C03", "C03_backend_member"),
    ("C03", "C03_backend_member_event"), ("C03", "C03_unsupported_transport_dropped"),
    ("C03", "C03_unsupported_transport_event"), ("C03", "C03_b1_legacy_refuted")]),
}
SPEC.update({k: v for k, v in [
 ("TB", (["C04", "C06", "TB"], "ALL:TB_")), ("C04", (["C04"], "ALL:C04_")), ("C12", (["C04", "C12"], "ALL:C12_")), ("C08", (["C08"], "ALL:C08_")), ("C17", (["C17"], "ALL:C17_")),
]})


# further items of the "ALL:" properties: theorems stated inside a Section (4th element = the closed statement, as
# it reads after End: section variables quantified and passed to the section's definitions) and key lemmas that get
# the property's prefix
EXTRA = {
 "C04": [("C04", "C04_preserved", "C04_preserved",
          ": forall li d addr g ex fx c now branch st ev st' outs,\n"
          "  proxy_step fx c now branch st ev = Ok (st', outs) ->\n"
          "  ev_ok li d addr branch ev -> now < ex -> gen_ok g -> pinned li d addr g ex st -> pinned li d addr g ex st'."),
         ("C04", "dialog_of_symmetric", "C04_dialog_of_symmetric"), ("C04", "bref_round_trip", "C04_bref_round_trip"),
         ("C04", "key_neq_dialog", "C04_key_neq_dialog")],
 "C12": [("C12", "C12_preserved", "C12_preserved",
          ": forall li K c ex fx cf now branch st ev st' outs,\n"
          "  proxy_step fx cf now branch st ev = Ok (st', outs) ->\n"
          "  ev_away li K c fx cf now branch st ev -> now / second <= ex ->\n"
          "  held li K c ex st -> held li K c ex st'."),
         ("C12", "C12_preserved_history", "C12_preserved_history",
          ": forall li K c ex fx cf h st st' outss,\n"
          "  run fx cf st h = Ok (st', outss) -> hist_away li K c ex fx cf st h -> held li K c ex st -> held li K c ex st'."),
         ("C12", "full_addr_inj_tid", "C12_full_addr_inj_tid"), ("C12", "tid_inj", "C12_tid_inj"),
         ("C12", "keys_differ", "C12_keys_differ"), ("C12", "accept_key_differs", "C12_accept_key_differs")],
}

# the proofs file states its theorems with this scope on top
SCOPE = {"C08": ["Local Close Scope Z_scope."], "C17": ["Local Close Scope Z_scope."]}


def statement(mod, name):
    src = open(os.path.join(COQ, "proofs", mod + ".v")).read()
    m = re.search(r"^\s*(?:Theorem|Corollary|Lemma|Example)\s+%s\b(.*?)^\s*Proof\." % re.escape(name), src, re.S | re.M)
    if not m:
        raise SystemExit("statement of %s.%s not found" % (mod, name))
    return m.group(1).strip()


def names_with_prefix(mod, prefix):
    src = open(os.path.join(COQ, "proofs", mod + ".v")).read()
    return [(mod, n) for n in re.findall(r"^(?:Theorem|Corollary)\s+(%s\w+)" % re.escape(prefix), src, re.M)]


def block(pid):
    mods, items = SPEC[pid]
    if isinstance(items, str):
        items = names_with_prefix(mods[-1], items.split(":")[1]) + EXTRA.get(pid, [])
    out = ["", "(* ------------------------------------------------------------------ %s *)" % pid,
           "From Model Require Import Bytes Wire Uri Hdr Message Msg StaticRoute RoundRobin Pins Proxy RunProxy SpecC14 SpecProxy SpecProxy2%s." % (" ProxyTB" if pid == "TB" else ""),
           "From Model.proofs Require %s." % " ".join(mods), "Section P_%s." % pid, "Import %s." % " ".join(mods)] + SCOPE.get(pid, [])
    for it in items:
        mod, name = it[0], it[1]
        new = it[2] if len(it) > 2 else name
        # a theorem stated inside a Section is restated here in its closed form (4th element); "exact" checks it
        st = it[3] if len(it) > 3 else statement(mod, name)
        if not st.endswith("."):
            raise SystemExit("odd statement end for %s" % name)
        out.append("Theorem %s %s" % (new, st))
        out.append("Proof. first [ exact %s.%s | intros; eapply %s.%s; eassumption ]. Qed." % (mod, name, mod, name))
    out.append("End P_%s." % pid)
    return "\n".join(out) + "\n"


if __name__ == "__main__":
    pids = sys.argv[1:]
    p = os.path.join(COQ, "Properties.v")
    s = open(p).read()
    for pid in pids:
        s = re.sub(r"\n\(\* -{40,} %s \*\)\n(?:From [^\n]*\n)+Section P_%s\..*?End P_%s\.\n" % (pid, pid, pid), "", s, flags=re.S)
        s += block(pid)
    open(p, "w").write(s)
    print("appended", pids)
