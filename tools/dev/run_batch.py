"""run_batch.py PROP [shards]: generate PROP's whole-proxy cases (seed 1), run shard 0 of them in ONE driver process with the
proxy's own log on, print which cases report a set-up failure and the log lines around 'Fail'.  Development aid."""
import sys, os, tempfile, random, importlib, subprocess, re
sys.path.insert(0, os.path.join(os.path.dirname(os.path.abspath(__file__)), ".."))
import lib, proxycheck as pc
pid = sys.argv[1]
shards = int(sys.argv[2]) if len(sys.argv) > 2 else 16
work = tempfile.mkdtemp(prefix="verif-dev-")
drv = lib.build_driver(work)
mod = importlib.import_module("props." + pid.lower())
captured = []


def fake(ctx, p, cases, judges, **kw):
    captured.extend(cases)
    raise SystemExit


pc.explore = fake
try:
    mod.PROP.run({"rng": random.Random(int(os.environ.get("VERIF_SEED", "1"))), "tier": "quick", "work": work, "drv": drv})
except SystemExit:
    pass
cases = captured[int(os.environ.get("SHARD", "0"))::shards]
print("cases", len(captured), "in shard 0:", len(cases))
cp, op = os.path.join(work, "b.txt"), os.path.join(work, "b.out")
lib.write_cases(cases, cp)
p = subprocess.run([drv, "-test.run", "^TestVerifDriver$", "-test.timeout", "0"], env=dict(os.environ, VERIF_CASES=cp, VERIF_OUT=op, VERIF_LOG="1"),
                   cwd=work, capture_output=True, timeout=600)
obs = lib.parse_obs(op)
bad = [c.id for c in cases if obs.get(c.id, [b"?"])[:1] in ([b"setup-fail"], [b"start-fail"])]
print("rc", p.returncode, "set-up failures:", bad, [obs[b][:2] for b in bad[:3]])
log = (p.stdout + p.stderr).decode("latin-1")
for m in list(re.finditer(r"[^\n]*(Fail to listen|Fail to start|too many open|already in use)[^\n]*", log))[:12]:
    print(m.group(0)[:400])
print("open fds now:", len(os.listdir("/proc/self/fd")))
