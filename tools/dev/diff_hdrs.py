import sys, json, re
def unshow(s):
    return re.sub(r'\\x([0-9a-f]{2})', lambda m: chr(int(m.group(1),16)), re.sub(r'\.\.\.\(\d+ bytes\)$','',s)).encode('latin-1')
def hdrs(b):
    head = b.split(b"\r\n\r\n")[0].split(b"\r\n")
    return head[0], [(l.split(b":",1)[0], l.split(b":",1)[1].strip()) for l in head[1:] if b":" in l]
d = json.load(open(sys.argv[1]))
i = unshow(d["event_input"][-1])
for l, ds in d["impl_outputs"]:
    for x in ds:
        o = unshow(x)
        si, hi = hdrs(i); so, ho = hdrs(o)
        rt = (b"via", b"v", b"route", b"record-route", b"content-length", b"l")
        ki = [h for h in hi if h[0].lower() not in rt]; ko = [h for h in ho if h[0].lower() not in rt]
        print("start same:", si == so, "n", len(ki), len(ko))
        for a, b in zip(ki, ko):
            if a != b: print("  IN ", a, "\n  OUT", b)
