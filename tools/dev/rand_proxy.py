import sys, os, random, tempfile, shutil, time
sys.path.insert(0, os.path.join(os.path.dirname(os.path.abspath(__file__)), ".."))
import lib, proxygen as pg, proxyflows as pf
N = int(sys.argv[1]) if len(sys.argv) > 1 else 50
seed = int(sys.argv[2]) if len(sys.argv) > 2 else 1
show = int(sys.argv[3]) if len(sys.argv) > 3 else 3
rng = random.Random(seed)
work = tempfile.mkdtemp(prefix="verif-rand-")
drv = lib.build_driver(work)
blocks = pg.alloc_blocks(N)
cases = []
for i in range(N):
    f = pf.random_scenario(rng, blocks[i])
    cases.append(f.s.case("r%d" % i))
t = time.time()
impl = lib.run_impl_sharded(drv, cases, work, shards=8)
t1 = time.time()
model = lib.run_model(cases, work)
print("impl %.1fs model %.1fs" % (t1 - t, time.time() - t1))
bad = 0
nout = 0
for c in cases:
    n = c.meta["events"]
    io, mo = impl.get(c.id, [b"crash"]), model[c.id]
    ie, it = pg.parse_proxy_obs(io, n); me, mt = pg.parse_proxy_obs(mo, n)
    ni, nm = pg.normalise(ie), pg.normalise(me)
    nout += sum(len(o) for o, _ in ni)
    if ni != nm or it != mt:
        bad += 1
        if bad <= show:
            print("#### case", c.id, "impl trailer", [lib.show(x) for x in it][:3], "model trailer", mt[:3])
            for k, (a, b) in enumerate(zip(ni, nm)):
                if a != b:
                    print("== event", k)
                    # find the event input
                    print(" impl :", a); print(" model:", b)
                    break
            if len(ni) != len(nm):
                print("lens", len(ni), len(nm))
            open("/tmp/lastbad-%d.case" % bad, "w").write(c.line() + "\n")
print("cases", N, "bad", bad, "outputs", nout)
shutil.rmtree(work)
