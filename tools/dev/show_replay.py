import sys, json
for p in sys.argv[1:]:
    d = json.load(open(p))
    print("=====", p.split("/")[-1], d.get("kind"), d.get("summary"))
    print(" opts:", d.get("meta", {}).get("opts"))
    print(" INPUT:", *d.get("event_input", []), sep="\n   ")
    for k in ("impl_outputs", "model_outputs"):
        if k in d:
            print(" " + k + ":")
            for l, ds in d[k]:
                for x in ds:
                    print("   ", l, "->", x)
