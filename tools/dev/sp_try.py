"""sp_try.py [n] [seed]: generate n spiral histories (proxyflows.spiral_history), play them against the real proxy and the
model (component proxysp), print what differs.  Development aid."""
import sys, os, tempfile, random, json
sys.path.insert(0, os.path.join(os.path.dirname(os.path.abspath(__file__)), ".."))
import lib, proxygen as pg, proxyflows as pf, proxycheck as pc
n = int(sys.argv[1]) if len(sys.argv) > 1 else 20
rng = random.Random(int(sys.argv[2]) if len(sys.argv) > 2 else 1)
work = tempfile.mkdtemp(prefix="verif-sp-")
drv = lib.build_driver(work)
cov, failures = pc.explore_sp({"work": work, "drv": drv, "tier": "quick", "rng": rng}, "SP", {}, [], quick=n)
print(json.dumps(cov))
for f in failures[:6]:
    print("FAIL", f["kind"], f.get("summary"))
    for k in ("event_input", "impl_outputs", "model_outputs"):
        if k in f:
            print("   ", k, str(f[k])[:2200])
