"""regress_seeds.py PREFIX...: for every stored seeded change whose directory name starts with one of the prefixes, apply it to
/repo, run the quick checks that caught it when it was stored (the `== Cxx` sections of its checks.log that have a VIOLATION
line), undo it, and report whether at least one of them still reports a violation.  Development aid; run it only when
nothing else uses /repo.  Output: one line per seed."""
import sys, os, re, glob, subprocess
V = os.path.dirname(os.path.dirname(os.path.dirname(os.path.abspath(__file__))))
prefixes = sys.argv[1:] or ["R6-"]
seeds = sorted(d for d in glob.glob(os.path.join(V, "seeded", "*")) if any(os.path.basename(d).startswith(p) for p in prefixes))
bad = 0
for d in seeds:
    name = os.path.basename(d)
    log = open(os.path.join(d, "checks.log")).read() if os.path.exists(os.path.join(d, "checks.log")) else ""
    caught, cur = [], None
    for line in log.splitlines():
        m = re.match(r"== (C\d+)", line)
        if m:
            cur = m.group(1)
        elif cur and line.startswith("VIOLATION") and cur not in caught:
            caught.append(cur)
    if os.environ.get("ONLY_UNLOGGED") and caught:
        continue
    if not caught:
        # stored before its check was strengthened (the log was not rewritten): the check of the seed's own property
        try:
            import json
            caught = [json.load(open(os.path.join(d, "meta.json")))["property"]]
        except Exception:
            print("%-70s (no log, no meta: skipped)" % name)
            continue
    p = subprocess.run([os.path.join(V, "tools/dev/try_seed.sh"), os.path.join(d, "patch.diff")] + caught[:2],
                       env=dict(os.environ, NOPROOF="1"), capture_output=True, text=True)
    got = sorted(set(re.findall(r"VIOLATION property=(C\d+)", p.stdout)))
    ok = bool(got)
    bad += 0 if ok else 1
    print("%-70s %s  (was: %s, now: %s)" % (name, "caught" if ok else "MISSED", ",".join(caught), ",".join(got) or p.stdout[-300:].replace("\n", " | ")), flush=True)
print("missed:", bad)
