import sys, os, tempfile, shutil
sys.path.insert(0, os.path.join(os.path.dirname(os.path.abspath(__file__)), ".."))
import lib, proxygen as pg
line = open(sys.argv[1]).read().split("\n")[0]
f = line.split()
c = lib.Case(f[0], f[1], [bytes.fromhex(x[1:]) for x in f[2:]])
# locate events: parse tokens
t = c.toks; i = 0
def nxt():
    global i; i += 1; return t[i-1]
name, keep, dt = nxt(), nxt(), nxt()
nr = int(nxt()); routes = [(nxt(), nxt(), nxt()) for _ in range(nr)]
nh = int(nxt()); hosts = [(nxt(), nxt()) for _ in range(nh)]
nl = int(nxt()); ls = []
for _ in range(nl):
    a, u, tc = nxt(), nxt(), nxt(); nb = int(nxt()); bs = [nxt() for _ in range(nb)]; fl = [nxt() for _ in range(4)]
    ls.append((a, u, tc, bs, fl))
yaml = nxt(); nd = int(nxt()); dyn = [nxt() for _ in range(nd)]
ntl = int(nxt()); tl = [(nxt(), nxt()) for _ in range(ntl)]
nue = int(nxt()); ue = [(nxt(), nxt()) for _ in range(nue)]
nev = int(nxt()); evs = []
for _ in range(nev):
    k = nxt()
    n = {b"udp": 4, b"accept": 3, b"data": 2, b"close": 1, b"badd": 2, b"brem": 2}[k]
    evs.append([k] + [nxt() for _ in range(n)])
print("name", name, "keep", keep, "routes", routes, "hosts", hosts); print("listens", ls); print("tcpl", tl); print(yaml.decode())
work = tempfile.mkdtemp(prefix="verif-show-")
c.meta["events"] = nev
drv = lib.build_driver(work)
if "-rebase" in sys.argv:
    import re
    old = re.match(rb"127\.\d+\.\d+\.", ls[0][0]).group(0)
    nb = pg.alloc_blocks(1)[0]
    c = lib.Case(c.comp, c.id, [t.replace(old, nb) for t in c.toks], c.meta)
impl = lib.run_impl(drv, [c], work); model = lib.run_model([c], work)
ie, it = pg.parse_proxy_obs(impl[c.id], nev); me, mt = pg.parse_proxy_obs(model[c.id], nev)
ni, nm = pg.normalise(ie), pg.normalise(me)
only = int(sys.argv[2]) if len(sys.argv) > 2 and sys.argv[2].isdigit() else None
for k, ev in enumerate(evs):
    if only is not None and k > only: break
    same = k < len(ni) and k < len(nm) and ni[k] == nm[k]
    print("=== EVENT", k, [lib.show(x, 1500) for x in ev], "SAME" if same else "DIFF")
    if not same or (only is not None and k == only):
        print("   impl :", ni[k] if k < len(ni) else None); print("   model:", nm[k] if k < len(nm) else None)
print("trailers", it, mt)
shutil.rmtree(work)
