"""trace_case.py REPLAY.json: replay the case of a replay file against implementation and model and print, per event,
its kind / first line and where implementation and model sent something.  Development aid."""
import sys, os, json, tempfile, shutil
sys.path.insert(0, os.path.join(os.path.dirname(os.path.abspath(__file__)), ".."))
import lib, proxygen as pg, proxycheck as pc
d = json.load(open(sys.argv[1]))
f = d["case_line"].split()
c = lib.Case(f[0], f[1], [bytes.fromhex(x[1:]) for x in f[2:]], d.get("meta", {}))
n = pc.count_events(c)
c.meta["events"] = n
work = tempfile.mkdtemp(prefix="verif-trace-")
drv = lib.build_driver(work)
old = c.meta["block"].encode()
nb = pg.alloc_blocks(1)[0]
c = lib.Case(c.comp, c.id, [t.replace(old, nb) for t in c.toks], dict(c.meta, block=nb.decode()))
impl = lib.run_impl(drv, [c], work)
model = lib.run_model([c], work)
ie, it = pg.parse_proxy_obs(impl[c.id], n)
me, mt = pg.parse_proxy_obs(model[c.id], n)
for k in range(n):
    ev = pc.event_text(c, k)
    head = ev[0] + " " + " ".join(ev[1:4])[:40] + " | " + (ev[-1].split("\\x0d")[0][:70] if ev[0] in ("udp", "data") else "")
    lab = lambda o: [(l.decode(), len(b)) for l, b in o[0]] if o else None
    print(k, head, "| impl", lab(ie[k]) if k < len(ie) else None, ie[k][1] if k < len(ie) else None,
          "| model", lab(me[k]) if k < len(me) else None, me[k][1] if k < len(me) else None)
print("trailers", it, mt)
for a in sys.argv[2:]:          # further arguments: event indices to print in full
    print("EVENT", a, pc.event_text(c, int(a)))
    print(" impl ", ie[int(a)] if int(a) < len(ie) else None)
    print(" model", me[int(a)] if int(a) < len(me) else None)
shutil.rmtree(work)
