"""run_cases.py PROP [n]: build the driver, generate PROP's cases with its own generator hooks disabled (first n
cases of component given by VERIF_ONLY_COMP), run the implementation on them one by one and print raw driver output of
the first case whose observation line cannot be parsed or that crashes.  Development aid."""
import sys, os, tempfile, random, importlib, subprocess
sys.path.insert(0, os.path.join(os.path.dirname(os.path.abspath(__file__)), ".."))
import lib
pid = sys.argv[1]
n = int(sys.argv[2]) if len(sys.argv) > 2 else 20
comp = os.environ.get("VERIF_ONLY_COMP")
work = tempfile.mkdtemp(prefix="verif-dev-")
drv = lib.build_driver(work)
mod = importlib.import_module("props." + pid.lower())
captured = []
orig = lib.differential


def fake(ctx, cases, **kw):
    captured.extend(cases)
    raise SystemExit


lib.differential = fake
try:
    mod.PROP.run({"rng": random.Random(1), "tier": "quick", "work": work, "drv": drv})
except SystemExit:
    pass
cases = [c for c in captured if comp is None or c.comp == comp][:n]
print("cases", len(cases))
for c in cases:
    cp, op = os.path.join(work, "one.txt"), os.path.join(work, "one.out")
    lib.write_cases([c], cp)
    if os.path.exists(op):
        os.remove(op)
    p = subprocess.run([drv, "-test.run", "^TestVerifDriver$", "-test.timeout", "0"], env=dict(os.environ, VERIF_CASES=cp, VERIF_OUT=op),
                       cwd=work, capture_output=True, timeout=120)
    txt = open(op).read() if os.path.exists(op) else ""
    try:
        lib.parse_obs(txt, is_text=True)
        ok = p.returncode == 0 and txt.strip() != ""
    except ValueError:
        ok = False
    if not ok:
        print("CASE", c.id, c.meta, "rc", p.returncode)
        print("OBS:", txt[:600])
        print("STDOUT:", p.stdout.decode("latin-1")[-3000:])
        print("STDERR:", p.stderr.decode("latin-1")[-3000:])
        break
else:
    print("all parsed")
