"""mk_witness.py REPLAY.json Cxx name "comment" [upto_event]: store the case of a replay as corpus/Cxx/name.case (placeholder block).
With upto_event the event list is truncated after that event (cheap minimisation)."""
import sys, os, json
sys.path.insert(0, os.path.join(os.path.dirname(os.path.abspath(__file__)), ".."))
import lib, proxygen as pg, proxycheck as pc
d = json.load(open(sys.argv[1]))
f = d["case_line"].split()
c = lib.Case(f[0], f[1], [bytes.fromhex(x[1:]) for x in f[2:]], d.get("meta", {}))
if len(sys.argv) > 5:
    upto = int(sys.argv[5])
    # locate the event count token and truncate
    t = c.toks; i = 3
    nr = int(t[i]); i += 1 + 3 * nr
    nh = int(t[i]); i += 1 + 2 * nh
    nl = int(t[i]); i += 1
    for _ in range(nl):
        nb = int(t[i + 3]); i += 4 + nb + 4
    i += 1
    nd = int(t[i]); i += 1 + nd
    for _ in range(2):
        n = int(t[i]); i += 1 + 2 * n
    cnt = i; nev = int(t[i]); i += 1
    width = {b"udp": 5, b"accept": 4, b"data": 3, b"close": 2, b"badd": 3, b"brem": 3}
    for k in range(min(nev, upto + 1)):
        i += width[t[i]]
    c.toks = t[:cnt] + [str(min(nev, upto + 1)).encode()] + t[cnt + 1:i]
pc.store_witness(sys.argv[2], sys.argv[3], c, sys.argv[4])
print("stored", sys.argv[2], sys.argv[3], "events", pc.count_events(c))
