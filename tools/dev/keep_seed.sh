#!/bin/bash
# keep_seed.sh <worktree> <name> <Cxx...>: verify a seeded change (suite still passes was checked by its author; here: patch applies,
# demo fails with / passes without), run the named quick checks against it, store it under /verif/seeded/<name>/.
WT=$1; NAME=$2; shift; shift
S=$WT/_seeded
[ -f $S/patch.diff ] || { echo "no patch"; exit 2; }
export GOFLAGS=-mod=mod GOPROXY=off GOSUMDB=off GOTOOLCHAIN=local
SCR=$(mktemp -d /tmp/seedchk-XXXX)
git -C /repo worktree add -q --detach $SCR/wt HEAD
cp $S/zz_seeded_demo_test.go $SCR/wt/
(cd $SCR/wt && go test -vet=off -count=1 -run 'TestSeededDemo$' . > $SCR/demo_orig.log 2>&1; echo "demo on original: exit $?" )
(cd $SCR/wt && git apply $S/patch.diff && go build ./... && go test -vet=off -count=1 -run 'TestSeededDemo$' . > $SCR/demo_mut.log 2>&1; echo "demo with change: exit $?")
tail -3 $SCR/demo_mut.log | cut -c1-300
git -C /repo worktree remove --force $SCR/wt; 
mkdir -p /verif/seeded/$NAME
cp $S/patch.diff $S/zz_seeded_demo_test.go $S/meta.json /verif/seeded/$NAME/
/verif/tools/dev/try_seed.sh $S/patch.diff "$@" | tee $SCR/checks.log
cp $SCR/checks.log /verif/seeded/$NAME/checks.log
rm -rf $SCR
