#!/bin/bash
# all_quick.sh: every claimed property's quick check on the current tree, one summary line each
cd /verif
for p in $(python3 -c "import json;print(' '.join(c['property_id'] for c in json.load(open('MANIFEST.json'))['checks']))"); do
  /usr/bin/time -f "%es" python3 tools/check.py $p --tier quick 2>&1 | tail -3 | cut -c1-250
done
