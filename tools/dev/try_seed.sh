#!/bin/bash
# try_seed.sh <patch.diff> <Cxx> [more Cyy ...]: apply a seeded change to /repo, run the quick checks, undo it.
# The evidence files are put back afterwards (committed evidence comes from runs on the unchanged tree only).
P=$1; shift
git -C /repo apply "$P" || { echo "patch does not apply"; exit 2; }
SAVE=$(mktemp -d /tmp/evsave-XXXX)
cp /verif/evidence/*.json $SAVE/ 2>/dev/null
for c in "$@"; do
  echo "== $c"
  (cd /verif && VERIF_DEV_NOPROOF=${NOPROOF:-} VERIF_DEV_NOBUILD=${NOBUILD:-} timeout 900 python3 tools/check.py $c --tier quick 2>&1 | tail -4 | cut -c1-300)
done
git -C /repo checkout -- .
cp $SAVE/*.json /verif/evidence/ 2>/dev/null
rm -rf $SAVE
git -C /repo status --short | grep -v sipproxy
