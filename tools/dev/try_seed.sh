#!/bin/bash
# try_seed.sh <patch.diff> <Cxx> [more Cyy ...]: apply a seeded change to /repo, run the quick checks, undo it.
P=$1; shift
git -C /repo apply "$P" || { echo "patch does not apply"; exit 2; }
for c in "$@"; do
  echo "== $c"
  (cd /verif && VERIF_DEV_NOPROOF=${NOPROOF:-} VERIF_DEV_NOBUILD=${NOBUILD:-} timeout 900 python3 tools/check.py $c --tier quick 2>&1 | tail -4 | cut -c1-300)
done
git -C /repo checkout -- .
git -C /repo status --short | grep -v sipproxy
