"""coverage.py [Cxx ...]: which statements of /repo do the quick checks execute?  Builds the overlay driver with -cover,
runs every property's quick exploration (results ignored), merges the per-process profiles and prints per-function
coverage plus the uncovered blocks of the non-test sources.  Development aid for finding code no check reaches."""
import sys, os, tempfile, random, importlib, itertools, glob, json, subprocess, shutil
sys.path.insert(0, os.path.join(os.path.dirname(os.path.abspath(__file__)), ".."))
import lib

props = sys.argv[1:] or ["C%02d" % i for i in range(1, 21)]
COV = tempfile.mkdtemp(prefix="verif-cov-")
counter = itertools.count()
orig_sh = lib.sh


def sh(cmd, **kw):
    if cmd and str(cmd[0]).endswith("drv.test"):
        cmd = list(cmd) + ["-test.coverprofile", os.path.join(COV, "c%d.out" % next(counter))]
    return orig_sh(cmd, **kw)


def build_cover(workdir, race=False):
    ov = {"Replace": {}}
    for f in sorted(glob.glob(os.path.join(lib.HARNESS, "*_test.go"))):
        ov["Replace"][os.path.join(lib.REPO, "zz_verif_" + os.path.basename(f))] = f
    ovp = os.path.join(workdir, "overlay.json")
    json.dump(ov, open(ovp, "w"))
    out = os.path.join(workdir, "drv.test")
    cmd = ["go", "test", "-c", "-cover", "-covermode=count", "-overlay", ovp, "-tags", "verif", "-vet=off", "-o", out, "."]
    rc, log = orig_sh(cmd, cwd=lib.REPO, env=dict(lib.GOENV), timeout=1200)
    if rc:
        raise lib.BuildError("cover build failed", log[-3000:])
    return out


lib.sh = sh
lib.build_driver = build_cover
for pid in props:
    work = tempfile.mkdtemp(prefix="verif-cov-%s-" % pid)
    try:
        mod = importlib.import_module("props." + pid.lower())
        drv = build_cover(work)
        ctx = {"work": work, "drv": drv, "tier": "quick", "seed": 1, "rng": random.Random(1000003 + int(pid[1:])), "replay": None}
        r = mod.PROP.run(ctx)
        print(pid, "failures:", len(r["failures"]), flush=True)
    except BaseException as e:      # noqa
        print(pid, "error:", repr(e)[:300], flush=True)
    shutil.rmtree(work, ignore_errors=True)
# merge
blocks = {}
for p in glob.glob(os.path.join(COV, "*.out")):
    for line in open(p):
        if line.startswith("mode:"):
            continue
        k, n, c = line.rsplit(" ", 2)
        b = blocks.setdefault(k, [int(n), 0])
        b[1] += int(c)
merged = os.path.join(COV, "merged.out")
with open(merged, "w") as f:
    f.write("mode: count\n")
    for k, (n, c) in sorted(blocks.items()):
        f.write("%s %d %d\n" % (k, n, c))
rc, out = orig_sh(["go", "tool", "cover", "-func", merged], cwd=lib.REPO, env=dict(lib.GOENV), timeout=600)
print(out)
print("==== uncovered blocks (non-test sources)")
for k, (n, c) in sorted(blocks.items()):
    if c == 0 and "_test.go" not in k and "zz_verif" not in k:
        print(k, "stmts", n)
print("profiles in", COV)
