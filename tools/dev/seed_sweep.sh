#!/bin/bash
# seed_sweep.sh "<seeds>" "<props>": quick checks under other seeds (false-alarm hunt); prints only non-OK lines and a count
cd /verif
SEEDS=${1:-"2 3 4 5"}
PROPS=${2:-"C01 C02 C03 C04 C05 C06 C07 C08 C10 C11 C12 C13 C14 C15 C16 C17 C18 C19 C20"}
SAVE=$(mktemp -d /tmp/evsave-XXXX); cp evidence/*.json $SAVE/
n=0
for s in $SEEDS; do
  for p in $PROPS; do
    out=$(VERIF_SEED=$s VERIF_DEV_NOPROOF=1 python3 tools/check.py $p --tier quick 2>&1 | tail -4 | cut -c1-200)
    n=$((n+1))
    echo "$out" | grep -v '^OK\|^KNOWN-FINDING' | sed "s/^/seed=$s $p: /"
  done
done
cp $SAVE/*.json evidence/; rm -rf $SAVE
echo "runs: $n"
