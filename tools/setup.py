#!/usr/bin/env python3
"""Build the Coq development (full .vo), extract the model, build the OCaml CLI, and make sure the
Go driver compiles against /repo. Offline, from files on disk only."""
import os, shutil, sys, tempfile
sys.path.insert(0, os.path.dirname(os.path.abspath(__file__)))
import lib
try:
    lib.build_coq()
    d = tempfile.mkdtemp(prefix="verif-setup-")
    try:
        lib.build_driver(d)
    finally:
        shutil.rmtree(d, ignore_errors=True)
except lib.BuildError as e:
    print("SETUP FAILED:", e.what)
    print(e.log)
    sys.exit(1)
print("setup ok")
