#!/usr/bin/env python3
"""check.py Cxx [--tier quick|thorough] [--replay FILE]

One run = (1) proof obligations: full Coq build, grep gate, Print Assumptions for the
property's theorems; (2) the driver is rebuilt from /repo's current working tree; (3)
correspondence: corpus + generated cases run on implementation and model, compared record by
record, and the executable judge of Spec.v applied to every implementation observation;
(4) verdict, replay file, evidence.  See DESIGN.md section 3.3."""
import argparse, importlib, json, os, random, shutil, sys, tempfile, time

sys.path.insert(0, os.path.dirname(os.path.abspath(__file__)))
import lib
from lib import Case

TRUSTED_COMMON = [
    "Coq 8.16.1 kernel (coqc; vm_compute used for computed witnesses; no native_compute)",
    "hand-written Gallina model of the Go code (modelled, not verified): tied to /repo by the correspondence run of this check",
    "extraction (ExtrOcamlBasic, ExtrOcamlString: bool/option/list/prod/unit/sumbool -> OCaml, ascii -> char, string -> char list; one further directive: Extract Inlined Constant List.rev => OCaml List.rev), OCaml 4.13.1, ocaml/modelcli.ml",
    "Go overlay driver harness/*.go compiled into /repo's package main; Python generators/comparators in tools/",
]


def load_prop(pid):
    return importlib.import_module("props." + pid.lower()).PROP


def report_violation(pid, replay, no_input):
    print("VIOLATION property=%s replay=%s%s" % (pid, replay, " no-failing-input-found" if no_input else ""))
    sys.stdout.flush()


def main():
    ap = argparse.ArgumentParser()
    ap.add_argument("prop")
    ap.add_argument("--tier", default=os.environ.get("VERIF_TIER", "quick"))
    ap.add_argument("--replay")
    ap.add_argument("--keep", action="store_true")
    a = ap.parse_args()
    pid = a.prop.upper()
    tier = a.tier if a.tier in ("quick", "thorough") else "quick"
    seed = int(os.environ.get("VERIF_SEED", "1") or "1")
    t0 = time.time()
    P = load_prop(pid)
    work = tempfile.mkdtemp(prefix="verif-%s-" % pid)
    violations = 0
    cov = {"obligations": 0, "discharged": 0,
           "checker_cmd": "make -C /verif/coq -j16 (coq_makefile, full .vo) && coqc Print Assumptions; thorough adds coqchk -silent -o",
           "trusted_base": TRUSTED_COMMON + list(getattr(P, "trusted", [])),
           "evaluations": 0, "distinct_nontrivial": 0, "rule": P.rule, "samples": [],
           "traces_validated_against_impl": 0, "exhaustive": False}
    asm_list = []
    try:
        # ---------------- 1. proof obligations
        thms = []
        try:
            if not os.environ.get("VERIF_DEV_NOBUILD"):
                lib.build_coq()
            thms = lib.property_theorems().get(pid, [])
            asm = lib.assumptions()
            cov["obligations"] = len(thms)
            closed = 0
            for t in thms:
                txt = asm.get(t, "<no Print Assumptions output>")
                if txt.startswith("Closed under the global context"):
                    closed += 1
                    asm_list.append("%s: closed under the global context (no axioms)" % t)
                else:
                    asm_list.append("%s: %s" % (t, " ".join(txt.split())[:300]))
                    if "Axioms:" in txt and all(ok in lib.ALLOWED_AXIOMS for ok in lib.axiom_names(txt)):
                        closed += 1
            cov["discharged"] = closed
            cov["theorems"] = thms
            if (not thms or closed != len(thms)) and not os.environ.get("VERIF_DEV_NOPROOF"):
                raise lib.BuildError("theorems of %s missing or depending on undeclared axioms" % pid, "\n".join(asm_list))
            if tier == "thorough" and os.environ.get("VERIF_COQCHK", "1") == "1":
                ok, txt = lib.coqchk()
                cov["coqchk"] = txt[-1500:]
                if not ok:
                    raise lib.BuildError("coqchk rejected the compiled development", txt[-4000:])
        except lib.BuildError as e:
            violations += 1
            rp = lib.write_replay(pid, "proof", {"kind": "proof-obligation", "what": e.what, "log": e.log,
                                                 "theorems": thms})
            report_violation(pid, rp, True)
            raise SystemExit
        # ---------------- 2. implementation from /repo's current tree
        try:
            drv = lib.build_driver(work)
        except lib.BuildError as e:
            violations += 1
            rp = lib.write_replay(pid, "build", {"kind": "driver-build", "what": e.what, "log": e.log})
            report_violation(pid, rp, True)
            raise SystemExit
        # ---------------- 3. correspondence + judge
        rng = random.Random(seed * 1000003 + int(pid[1:]))
        ctx = {"work": work, "drv": drv, "tier": tier, "seed": seed, "rng": rng, "replay": a.replay}
        result = P.run(ctx)            # property-specific exploration, returns dict
        cov.update(result["coverage"])
        known = lib.load_known()
        for f in result["failures"]:
            # f: {kind: judge|mismatch|crash, case..., key: optional known-finding key}
            kf = [k for k in known if k["property"] == pid and k["key"] == f.get("key")]
            if kf:
                print("KNOWN-FINDING: property=%s %s [%s]" % (pid, kf[0]["text"], f.get("summary", "")))
                continue
            violations += 1
            rp = lib.write_replay(pid, f["kind"], f)
            report_violation(pid, rp, f["kind"] != "judge" and not f.get("has_input"))
            if violations >= 5:
                break
    except SystemExit:
        pass
    finally:
        wall = time.time() - t0
        lib.write_evidence(pid, tier, seed, cov, asm_list + list(getattr(P, "assumptions", [])), wall, violations)
        if not a.keep:
            shutil.rmtree(work, ignore_errors=True)
    if violations:
        sys.exit(1)
    print("OK property=%s tier=%s evaluations=%d distinct_nontrivial=%d theorems=%d wall=%.1fs" % (
        pid, tier, cov.get("evaluations", 0), cov.get("distinct_nontrivial", 0), cov.get("obligations", 0), time.time() - t0))
    sys.exit(0)


if __name__ == "__main__":
    main()
