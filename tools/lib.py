"""Shared machinery of the /verif checks: builds (Coq project, extracted model CLI, Go overlay
driver), running cases on both sides, evidence, known findings, violation reporting."""
import fcntl, glob, hashlib, json, os, random, re, shutil, subprocess, sys, tempfile, time

VERIF = os.path.dirname(os.path.dirname(os.path.abspath(__file__)))
REPO = os.environ.get("VERIF_REPO", "/repo")
COQ = os.path.join(VERIF, "coq")
OCAML = os.path.join(VERIF, "ocaml")
HARNESS = os.path.join(VERIF, "harness")
MODELCLI = os.path.join(OCAML, "modelcli")
GOENV = dict(os.environ, GOFLAGS="-mod=mod", GOPROXY="off", GOSUMDB="off", GOTOOLCHAIN="local",
             CGO_ENABLED=os.environ.get("CGO_ENABLED", "0"))

FORBIDDEN = re.compile(r"\b(Admitted|admit|Axiom|Axioms|Parameter|Parameters|Conjecture|Conjectures|"
                       r"Hypothesis|Hypotheses|Variable|Variables|Admit Obligations)\b|"
                       r"Unset Guard|bypass_check|type-in-type|impredicative-set|Unset Universe|Unset Positivity")


class BuildError(Exception):
    def __init__(self, what, log):
        super().__init__(what)
        self.what, self.log = what, log


def sh(cmd, cwd=None, env=None, timeout=3600, inp=None):
    p = subprocess.run(cmd, cwd=cwd, env=env, input=inp, stdout=subprocess.PIPE, stderr=subprocess.STDOUT,
                       timeout=timeout, shell=isinstance(cmd, str))
    return p.returncode, p.stdout.decode("utf-8", "replace")


class Lock:
    def __init__(self, name):
        self.path = os.path.join(VERIF, ".lock-" + name)

    def __enter__(self):
        self.f = open(self.path, "w")
        fcntl.flock(self.f, fcntl.LOCK_EX)

    def __exit__(self, *a):
        fcntl.flock(self.f, fcntl.LOCK_UN)
        self.f.close()


# ----------------------------------------------------------------------------- Coq side
def coq_sources():
    return sorted(glob.glob(os.path.join(COQ, "*.v")) + glob.glob(os.path.join(COQ, "*", "*.v")))


def strip_coq_comments(text):
    """the text with every (nested, possibly multi-line) comment blanked out, line structure kept; string literals are
    respected ("(*" inside a string opens no comment)"""
    out, i, n, depth, in_str = [], 0, len(text), 0, False
    while i < n:
        c = text[i]
        if in_str:
            out.append(c if depth == 0 else (c if c == "\n" else " "))
            if c == '"':
                in_str = False
            i += 1
        elif text.startswith("(*", i):
            depth += 1
            out.append("  ")
            i += 2
        elif depth > 0 and text.startswith("*)", i):
            depth -= 1
            out.append("  ")
            i += 2
        elif depth > 0:
            out.append(c if c == "\n" else " ")
            if c == '"':
                in_str = True
            i += 1
        else:
            out.append(c)
            if c == '"':
                in_str = True
            i += 1
    return "".join(out)


def grep_gate():
    """No admitted proofs, declared axioms or disabled kernel checks anywhere in the development.
    Section-local Variable/Hypothesis/Context are allowed only inside a Section (checked crudely:
    the file must contain 'Section' before the first such line)."""
    bad = []
    for f in coq_sources():
        depth = 0
        text = open(f, encoding="utf-8").read()
        lines = text.split("\n")
        for i, (line, code) in enumerate(zip(lines, strip_coq_comments(text).split("\n")), 1):
            if re.match(r"\s*Section\b", code):
                depth += 1
            if re.match(r"\s*End\b", code) and depth > 0:
                depth -= 1
            m = FORBIDDEN.search(code)
            if m:
                if m.group(1) in ("Variable", "Variables", "Hypothesis", "Hypotheses") and depth > 0:
                    continue
                bad.append("%s:%d: %s" % (os.path.relpath(f, VERIF), i, line.strip()))
    return bad


def property_theorems():
    """Theorem names per property id from Properties.v (names start with Cxx_)."""
    res = {}
    p = os.path.join(COQ, "Properties.v")
    if not os.path.exists(p):
        return res
    for m in re.finditer(r"^\s*Theorem\s+(C\d\d)_(\w+)", open(p).read(), re.M):
        res.setdefault(m.group(1), []).append(m.group(1) + "_" + m.group(2))
    return res


def build_coq():
    """Full .vo build of the Coq project (no -vos), then Print Assumptions for every property
    theorem, then extraction and the OCaml CLI.  Incremental; serialised by a lock."""
    with Lock("build"):
        bad = grep_gate()
        if bad:
            raise BuildError("grep gate: forbidden vernacular in the development", "\n".join(bad))
        if not os.path.exists(os.path.join(COQ, "Makefile")) or \
                os.path.getmtime(os.path.join(COQ, "Makefile")) < os.path.getmtime(os.path.join(COQ, "_CoqProject")):
            rc, log = sh(["coq_makefile", "-f", "_CoqProject", "-o", "Makefile"], cwd=COQ)
            if rc:
                raise BuildError("coq_makefile failed", log)
        noproof = bool(os.environ.get("VERIF_DEV_NOPROOF"))      # development only: model + extraction, proofs skipped
        rc, log = sh(["make", "-j16"] + (["Run.vo"] if noproof else []), cwd=COQ, timeout=3000)
        if rc:
            raise BuildError("Coq build failed (a proof obligation no longer checks)", log[-6000:])
        # Print Assumptions
        thms = property_theorems()
        alog = os.path.join(COQ, "assumptions.log")
        pvo = os.path.join(COQ, "Properties.vo")
        if not noproof and os.path.exists(pvo) and (not os.path.exists(alog) or os.path.getmtime(alog) < os.path.getmtime(pvo)):
            names = [n for l in thms.values() for n in l]
            src = "From Model Require Import Properties.\n" + "".join(
                'Goal True. idtac "@@ %s". Abort.\nPrint Assumptions %s.\n' % (n, n) for n in names)
            d = tempfile.mkdtemp(prefix="verif-asm-")
            try:
                open(os.path.join(d, "Asm.v"), "w").write(src)
                rc, out = sh(["coqc", "-Q", COQ, "Model", "Asm.v"], cwd=d, timeout=1200)
                if rc:
                    raise BuildError("Print Assumptions run failed", out[-4000:])
                open(alog, "w").write(out)
            finally:
                shutil.rmtree(d, ignore_errors=True)
        # extraction + CLI
        gen = os.path.join(OCAML, "gen")
        os.makedirs(gen, exist_ok=True)
        ml = os.path.join(gen, "model.ml")
        runvo = os.path.join(COQ, "Run.vo")
        if not os.path.exists(ml) or os.path.getmtime(ml) < os.path.getmtime(runvo):
            rc, out = sh(["coqc", "-Q", COQ, "Model", os.path.join(COQ, "Extract.v")], cwd=gen, timeout=1200)
            if rc:
                raise BuildError("extraction failed", out[-4000:])
        cli_src = os.path.join(OCAML, "modelcli.ml")
        if not os.path.exists(MODELCLI) or os.path.getmtime(MODELCLI) < max(os.path.getmtime(ml), os.path.getmtime(cli_src)):
            rc, out = sh(["ocamlfind", "ocamlopt", "-O2", "-w", "-a", "-I", "gen", "gen/model.mli", "gen/model.ml",
                          "modelcli.ml", "-o", "modelcli"], cwd=OCAML, timeout=1200)
            if rc:
                raise BuildError("OCaml build of the model CLI failed", out[-4000:])


def assumptions():
    """theorem name -> text printed by Print Assumptions."""
    alog = os.path.join(COQ, "assumptions.log")
    res = {}
    if not os.path.exists(alog):
        return res
    cur = None
    for line in open(alog):
        m = re.match(r"@@ (\w+)", line)
        if m:
            cur = m.group(1)
            res[cur] = ""
        elif cur:
            res[cur] += line
    return {k: v.strip() for k, v in res.items()}


# ----------------------------------------------------------------------------- Go side
def build_driver(workdir, race=False):
    """Compile the driver INTO /repo's package main from its current working tree (overlay)."""
    ov = {"Replace": {}}
    for f in sorted(glob.glob(os.path.join(HARNESS, "*_test.go"))):
        ov["Replace"][os.path.join(REPO, "zz_verif_" + os.path.basename(f))] = f
    ovp = os.path.join(workdir, "overlay.json")
    json.dump(ov, open(ovp, "w"))
    out = os.path.join(workdir, "drv.test")
    cmd = ["go", "test", "-c", "-overlay", ovp, "-tags", "verif", "-vet=off", "-o", out]
    env = dict(GOENV)
    if race:
        cmd.insert(3, "-race")
        env["CGO_ENABLED"] = "1"
    cmd.append(".")
    rc, log = sh(cmd, cwd=REPO, env=env, timeout=1200)
    if rc:
        raise BuildError("Go driver does not build against /repo's current tree", log[-6000:])
    return out


# ----------------------------------------------------------------------------- cases
def tok(b):
    if isinstance(b, str):
        b = b.encode("latin-1")
    elif isinstance(b, bool):
        b = b"1" if b else b"0"
    elif isinstance(b, int):
        b = str(b).encode()
    return "x" + b.hex()


class Case:
    __slots__ = ("comp", "id", "toks", "meta")

    def __init__(self, comp, cid, toks, meta=None):
        self.comp, self.id, self.meta = comp, cid, meta or {}
        self.toks = [t if isinstance(t, bytes) else (t.encode("latin-1") if isinstance(t, str) else
                     (b"1" if t is True else b"0" if t is False else str(t).encode())) for t in toks]

    def line(self, extra=()):
        return " ".join([self.comp, self.id] + ["x" + t.hex() for t in self.toks] + ["x" + t.hex() for t in extra])

    def digest(self):
        h = hashlib.sha256(self.comp.encode())
        for t in self.toks:
            h.update(len(t).to_bytes(4, "big"))
            h.update(t)
        return h.hexdigest()[:16]


def parse_obs(path_or_text, is_text=False):
    res = {}
    it = path_or_text.splitlines() if is_text else open(path_or_text)
    for line in it:
        f = line.split()
        if not f:
            continue
        res[f[0]] = [bytes.fromhex(x[1:]) for x in f[1:]]
    return res


def write_cases(cases, path, extra=None):
    with open(path, "w") as f:
        for c in cases:
            f.write(c.line(extra[c.id] if extra else ()) + "\n")


def run_impl(drv, cases, workdir, tag="impl", timeout=3000, env_extra=None, shards=1):
    """Run the implementation on the cases.  Returns id -> observation tokens; a crashed driver
    yields [b'crash', <tail of output>] for the case it was processing and the rest are re-run."""
    res = {}
    todo = list(cases)
    rounds = 0
    while todo and rounds < 50:
        rounds += 1
        cp = os.path.join(workdir, "%s-cases-%d.txt" % (tag, rounds))
        op = os.path.join(workdir, "%s-obs-%d.txt" % (tag, rounds))
        write_cases(todo, cp)
        env = dict(os.environ, VERIF_CASES=cp, VERIF_OUT=op)
        if env_extra:
            env.update(env_extra)
        try:
            rc, log = sh([drv, "-test.run", "^TestVerifDriver$", "-test.timeout", "0"], env=env, timeout=timeout, cwd=workdir)
        except subprocess.TimeoutExpired:
            rc, log = 124, "driver timed out"
        got = parse_obs(op) if os.path.exists(op) else {}
        res.update(got)
        rest = [c for c in todo if c.id not in got]
        if rc == 0 and not rest:
            break
        if rest:
            # the first unanswered case killed (or wedged) the driver
            res[rest[0].id] = [b"crash", log[-3000:].encode("utf-8", "replace")]
            rest = rest[1:]
        todo = rest
    return res


def run_model(cases, workdir, mode="run", extra=None, tag="model"):
    cp = os.path.join(workdir, "%s-%s-cases.txt" % (tag, mode))
    write_cases(cases, cp, extra)
    with open(cp, "rb") as f:
        p = subprocess.run([MODELCLI, mode], stdin=f, stdout=subprocess.PIPE, stderr=subprocess.PIPE, timeout=3000)
    if p.returncode:
        raise BuildError("model CLI failed", p.stderr.decode()[-3000:])
    return parse_obs(p.stdout.decode(), is_text=True)


def run_parallel(fn, chunks, workers=8):
    from concurrent.futures import ThreadPoolExecutor
    with ThreadPoolExecutor(max_workers=workers) as ex:
        return list(ex.map(fn, chunks))


# ----------------------------------------------------------------------------- findings / evidence
def load_known():
    """known_findings.txt: 'known: property=Cxx key=<predicate> <text>' and 'fixed: ...' lines."""
    res = []
    p = os.path.join(VERIF, "known_findings.txt")
    if os.path.exists(p):
        for line in open(p):
            m = re.match(r"known:\s+property=(C\d+)\s+key=(\S+)\s+(.*)", line.strip())
            if m:
                res.append({"property": m.group(1), "key": m.group(2), "text": m.group(3)})
    return res


def show(b, limit=400):
    s = "".join(chr(c) if 32 <= c < 127 and c != 92 else "\\x%02x" % c for c in b[:limit])
    return s + ("...(%d bytes)" % len(b) if len(b) > limit else "")


def write_replay(prop, kind, payload):
    d = os.path.join(VERIF, "replays")
    os.makedirs(d, exist_ok=True)
    body = json.dumps(payload, indent=1, sort_keys=True)
    h = hashlib.sha256(body.encode()).hexdigest()[:12]
    p = os.path.join(d, "%s-%s-%s.json" % (prop, kind, h))
    open(p, "w").write(body)
    return p


def write_evidence(prop, tier, seed, coverage, assumptions_, wall, violations):
    os.makedirs(os.path.join(VERIF, "evidence"), exist_ok=True)
    ev = {"property_id": prop, "tier": tier, "seed": seed, "level": "proof", "coverage": coverage,
          "assumptions": assumptions_, "wall_s": round(wall, 2), "violations": violations}
    p = os.path.join(VERIF, "evidence", prop + ".json")
    tmp = p + ".tmp%d" % os.getpid()
    json.dump(ev, open(tmp, "w"), indent=1)
    os.replace(tmp, p)
    return p


# ----------------------------------------------------------------------------- proofs: axioms, coqchk
# axioms of Coq's standard library that the development is allowed to depend on (each is named
# in DESIGN.md's trusted base when it is actually used); currently none is used.
ALLOWED_AXIOMS = set()


def axiom_names(txt):
    names = []
    for line in txt.splitlines():
        m = re.match(r"^([A-Za-z_][\w.']*)\s*:", line)
        if m:
            names.append(m.group(1))
    return names


def coqchk_accepts(txt):
    """coqchk -silent -o prints, on success, only its context summary (and exits 0; a module it rejects makes it stop with
    an error instead): accepted = the summary is there and every section of it (axioms, type-in-type, unsafe fixpoints,
    assumed positivity) is empty or holds allowed standard-library axioms only"""
    if "CONTEXT SUMMARY" not in txt or "Error" in txt or "Fatal" in txt:
        return False
    secs = re.findall(r"^\* ([^:\n]+):(.*?)(?=^\* |\Z)", txt, re.S | re.M)
    for name, body in secs:
        body = body.strip()
        if name.startswith("Theory"):
            continue
        if body in ("", "<none>"):
            continue
        if name.startswith("Axioms"):
            names = [l.split()[0] for l in body.splitlines() if l.strip()]
            if all(n in ALLOWED_AXIOMS for n in names):
                continue
        return False
    return True


def coqchk():
    """Independent re-check of Properties.vo and everything it depends on; cached on the .vo mtime."""
    with Lock("coqchk"):
        pvo = os.path.join(COQ, "Properties.vo")
        clog = os.path.join(COQ, "coqchk.log")
        if os.path.exists(clog) and os.path.getmtime(clog) >= os.path.getmtime(pvo):
            txt = open(clog).read()
            return coqchk_accepts(txt), txt
        rc, out = sh(["coqchk", "-silent", "-o", "-Q", COQ, "Model", "Model.Properties"], cwd=COQ, timeout=7200)
        if rc != 0:
            out += "\nError: coqchk exited with status %d\n" % rc
        open(clog, "w").write(out)
        return (rc == 0 and coqchk_accepts(out)), out


# ----------------------------------------------------------------------------- generic differential run
def run_impl_sharded(drv, cases, workdir, shards=8, per_proc=60, **kw):
    if len(cases) < 64 or shards <= 1:
        return run_impl(drv, cases, workdir, **kw)
    # a driver process keeps what the code under test never closes (the sockets of every proxy it started: one UDP
    # socket with an ephemeral port per backend, ...) until it exits: no more than [per_proc] cases per process, so that a
    # long run does not use up the machine's ephemeral ports (a backend whose socket cannot be opened is silently left
    # out of the rotation by CreateRoundRobinBackend: seen as lost deliveries late in a 5000-scenario run)
    if len(cases) > shards * per_proc:
        res = {}
        step = shards * per_proc
        for k in range(0, len(cases), step):
            res.update(run_impl_sharded(drv, cases[k:k + step], workdir, shards=shards, per_proc=per_proc, **kw))
        return res
    chunks = [cases[i::shards] for i in range(shards)]

    def one(ic):
        i, ch = ic
        d = os.path.join(workdir, "shard%d" % i)
        os.makedirs(d, exist_ok=True)
        return run_impl(drv, ch, d, **kw)
    res = {}
    for r in run_parallel(one, list(enumerate(chunks)), workers=shards):
        res.update(r)
    return res


def differential(ctx, cases, project=None, nontrivial=None, key_fn=None, describe=None, judge=True,
                 shards=8, max_failures=20):
    """Run implementation and model on the same cases; compare projected observations; apply the
    executable judge to every implementation observation.  Returns (coverage, failures)."""
    work, drv = ctx["work"], ctx["drv"]
    if os.environ.get("VERIF_DEV_NOJUDGE"):
        judge = False
    impl = run_impl_sharded(drv, cases, work, shards=shards)
    model = run_model(cases, work)
    verdict = {}
    if judge:
        jc = [c for c in cases if impl.get(c.id, [b"crash"])[0] not in (b"crash",)]
        verdict = run_model(jc, work, mode="judge", extra={c.id: impl[c.id] for c in jc})
    failures = []
    seen = set()
    nontriv = 0
    agree = 0
    for c in cases:
        io, mo = impl.get(c.id, [b"crash", b"no output"]), model.get(c.id, [b"missing"])
        d = c.digest()
        if d not in seen:
            seen.add(d)
            if nontrivial is None or nontrivial(c, io):
                nontriv += 1
        pi, pm = (project(c, io), project(c, mo)) if project else (io, mo)
        f = None
        if io and io[0] in (b"crash", b"panic"):
            f = {"kind": "crash", "has_input": True}
        elif judge and verdict.get(c.id, [b"missing"])[0] != b"ok":
            f = {"kind": "judge", "judge_says": [show(t) for t in verdict.get(c.id, [b"missing"])]}
        elif pi != pm:
            f = {"kind": "mismatch"}
        else:
            agree += 1
        if f and len(failures) < max_failures:
            f.update({"component": c.comp, "case_id": c.id, "case_line": c.line(),
                      "case": [show(t) for t in c.toks], "impl": [show(t) for t in io],
                      "model": [show(t) for t in mo], "meta": c.meta})
            if key_fn:
                f["key"] = key_fn(c, io, mo)
            f["summary"] = describe(c, io, mo) if describe else ""
            failures.append(f)
    cov = {"evaluations": len(cases), "distinct_nontrivial": nontriv, "traces_validated_against_impl": agree}
    return cov, failures


def sample_of(cases, n=3):
    return [{"component": c.comp, "case": [show(t, 120) for t in c.toks[:40]], "meta": c.meta} for c in cases[:n]]


def load_corpus(pid):
    """corpus/Cxx/*.case: minimised past failures and legacy witnesses, one case line per line
    ('component id tok...'; '#' comments).  Always run first."""
    res = []
    d = os.path.join(VERIF, "corpus", pid)
    for p in sorted(glob.glob(os.path.join(d, "*.case"))):
        for i, line in enumerate(open(p)):
            line = line.strip()
            if not line or line.startswith("#"):
                continue
            f = line.split()
            res.append(Case(f[0], "corpus-%s-%d" % (os.path.basename(p)[:-5], i),
                            [bytes.fromhex(x[1:]) for x in f[2:]], {"kind": "corpus", "file": os.path.basename(p)}))
    return res
