module locktab

go 1.21
