// locktab: reads the non-test Go files of one package directory and emits FACTS ONLY, as a Coq
// file (gen/Accesses.v): struct-field access sites with the mutexes lexically held there,
// the call graph, goroutine roots, channel operations and lock acquisitions.  The POLICY
// (which discipline a field must obey) and every judgement about the facts live in Coq
// (Policy.v); this program is in the trusted base of property C09 and is deliberately dumb.
//
// Standard library only.  go/types is used with an importer that returns EMPTY packages for
// every import (no source or export data of dependencies is read): package-local types,
// fields and methods resolve exactly, everything that comes from an import has an invalid
// type and is either irrelevant (zap, net, ...) or handled syntactically (sync.Mutex,
// sync/atomic).  Where the type of x in x.f cannot be determined the access is attributed,
// conservatively, to every struct of the package that declares a field f (a_resolved=false);
// an unresolved method call x.m(..) resolves to every method named m with that many
// parameters; a call through an interface resolves to the method of every package type whose
// method names include the interface's; a call through a function value resolves to every
// function literal / function used as a value with the same parameter types.
//
// Out of scope (said here, not worked around): mutation of a field's referent through a
// method call (x.f.Add(..) is a READ of f; the callee's own field writes are recorded where
// they happen), aliasing of locals (y := x.f; y[k] = v is a read of f), reflection, unsafe,
// cgo, accesses made by code outside this package.
package main

import (
	"crypto/sha256"
	"flag"
	"fmt"
	"go/ast"
	"go/parser"
	"go/token"
	"go/types"
	"os"
	"path/filepath"
	"sort"
	"strings"
)

type held struct{ mutex, owner string }

type access struct {
	strct, field, fn, file                  string
	line                                    int
	write, ctor, atomic, beforeGo, resolved bool
	base                                    string
	held                                    []held
}
type callsite struct {
	caller, callee, file string
	line                 int
	recv, kind           string
	held                 []held
}
type fnrec struct {
	name, recv, file, parent string
	line, nparams            int
}
type rootrec struct {
	name, fn, in, file string
	line               int
}
type chanop struct {
	ch, fn, file string
	line         int
	send         bool
	held         []held
}
type lockacq struct {
	mutex, owner, fn, file string
	line                   int
	held                   []held
}

type fieldInfo struct {
	name, typ string
	mutex     bool // sync.Mutex / sync.RWMutex (embedded or named)
	embedded  bool
}
type structInfo struct {
	name   string
	fields []fieldInfo
}

type candidate struct { // something a dynamic call may reach
	name    string
	key     string
	nparams int
}

type an struct {
	fset       *token.FileSet
	info       *types.Info
	pkg        *types.Package
	files      []*ast.File
	structs    map[string]*structInfo
	fieldOwner map[*types.Var]string
	byField    map[string][]string // field name -> structs declaring it
	methods    map[string][]*types.Func
	fnName     map[*types.Func]string
	fnParams   map[string]int
	litName    map[*ast.FuncLit]string
	cands      []candidate
	ctorFuncs  map[string]bool
	extVars    map[types.Object]bool

	accesses []access
	calls    []callsite
	funcs    []fnrec
	roots    []rootrec
	chanops  []chanop
	acqs     []lockacq
}

// extTypes: import path -> names used in type positions (pkg.Name); they are declared in the
// empty fake package as opaque named types so that "a value of an imported type" is
// distinguishable from "a value of unknown type"
type fakeImporter struct {
	m        map[string]*types.Package
	extTypes map[string]map[string]bool
}

func (f fakeImporter) Import(path string) (*types.Package, error) {
	if p, ok := f.m[path]; ok {
		return p, nil
	}
	defer func() {
		p := f.m[path]
		names := []string{}
		for n := range f.extTypes[path] {
			names = append(names, n)
		}
		sort.Strings(names)
		for _, n := range names {
			tn := types.NewTypeName(token.NoPos, p, n, nil)
			types.NewNamed(tn, types.NewStruct(nil, nil), nil)
			p.Scope().Insert(tn)
		}
		p.MarkComplete()
	}()
	el := strings.Split(path, "/")
	name := el[len(el)-1]
	if len(el) > 1 && len(name) >= 2 && name[0] == 'v' && strings.Trim(name[1:], "0123456789") == "" {
		name = el[len(el)-2]
	}
	if i := strings.Index(name, "."); i > 0 {
		name = name[:i]
	}
	p := types.NewPackage(path, name)
	f.m[path] = p
	return p, nil
}

// pkg.Name selectors in type positions, per import path
func collectExtTypes(files []*ast.File) map[string]map[string]bool {
	res := map[string]map[string]bool{}
	for _, f := range files {
		imp := map[string]string{}
		fi := fakeImporter{m: map[string]*types.Package{}}
		for _, is := range f.Imports {
			path := strings.Trim(is.Path.Value, "\"")
			name := ""
			if is.Name != nil {
				name = is.Name.Name
			} else {
				p, _ := fi.Import(path)
				name = p.Name()
			}
			imp[name] = path
		}
		var ty func(e ast.Expr)
		ty = func(e ast.Expr) {
			switch x := e.(type) {
			case *ast.SelectorExpr:
				if id, ok := x.X.(*ast.Ident); ok {
					if path, ok := imp[id.Name]; ok {
						if res[path] == nil {
							res[path] = map[string]bool{}
						}
						res[path][x.Sel.Name] = true
					}
				}
			case *ast.StarExpr:
				ty(x.X)
			case *ast.ArrayType:
				ty(x.Elt)
			case *ast.MapType:
				ty(x.Key)
				ty(x.Value)
			case *ast.ChanType:
				ty(x.Value)
			case *ast.Ellipsis:
				ty(x.Elt)
			case *ast.ParenExpr:
				ty(x.X)
			case *ast.FuncType:
				for _, fl := range []*ast.FieldList{x.Params, x.Results} {
					if fl != nil {
						for _, fd := range fl.List {
							ty(fd.Type)
						}
					}
				}
			case *ast.StructType:
				for _, fd := range x.Fields.List {
					ty(fd.Type)
				}
			}
		}
		ast.Inspect(f, func(n ast.Node) bool {
			switch x := n.(type) {
			case *ast.Field:
				ty(x.Type)
			case *ast.ValueSpec:
				if x.Type != nil {
					ty(x.Type)
				}
			case *ast.TypeSpec:
				ty(x.Type)
			case *ast.CompositeLit:
				if x.Type != nil {
					ty(x.Type)
				}
			case *ast.TypeAssertExpr:
				if x.Type != nil {
					ty(x.Type)
				}
			case *ast.FuncLit:
				ty(x.Type)
			case *ast.ArrayType, *ast.MapType, *ast.ChanType:
				ty(x.(ast.Expr))
			}
			return true
		})
	}
	return res
}

func noq(*types.Package) string { return "" }

func (a *an) pos(p token.Pos) (string, int) {
	ps := a.fset.Position(p)
	return filepath.Base(ps.Filename), ps.Line
}

func fileTag(file string) string { return strings.TrimSuffix(file, ".go") }

func (a *an) namedStruct(t types.Type) (string, bool) {
	for t != nil {
		if p, ok := t.(*types.Pointer); ok {
			t = p.Elem()
			continue
		}
		break
	}
	n, ok := t.(*types.Named)
	if !ok || n.Obj().Pkg() != a.pkg {
		return "", false
	}
	if _, ok := n.Underlying().(*types.Struct); !ok {
		return "", false
	}
	return n.Obj().Name(), true
}

func isSyncMutex(e ast.Expr) bool {
	if s, ok := e.(*ast.SelectorExpr); ok {
		if x, ok := s.X.(*ast.Ident); ok && x.Name == "sync" && (s.Sel.Name == "Mutex" || s.Sel.Name == "RWMutex") {
			return true
		}
	}
	return false
}

// ---------------------------------------------------------------- declarations
func (a *an) collectDecls() {
	a.structs = map[string]*structInfo{}
	a.fieldOwner = map[*types.Var]string{}
	a.byField = map[string][]string{}
	a.methods = map[string][]*types.Func{}
	a.fnName = map[*types.Func]string{}
	a.fnParams = map[string]int{}
	var regStruct func(name string, st *ast.StructType, tt *types.Struct)
	regStruct = func(name string, st *ast.StructType, tt *types.Struct) {
		si := &structInfo{name: name}
		a.structs[name] = si
		idx := 0
		for _, f := range st.Fields.List {
			names := []string{}
			for _, n := range f.Names {
				names = append(names, n.Name)
			}
			emb := len(names) == 0
			if emb {
				t := f.Type
				if s, ok := t.(*ast.StarExpr); ok {
					t = s.X
				}
				switch x := t.(type) {
				case *ast.Ident:
					names = []string{x.Name}
				case *ast.SelectorExpr:
					names = []string{x.Sel.Name}
				}
			}
			for _, n := range names {
				si.fields = append(si.fields, fieldInfo{name: n, typ: types.ExprString(f.Type), mutex: isSyncMutex(f.Type), embedded: emb})
				a.byField[n] = append(a.byField[n], name)
				if tt != nil && idx < tt.NumFields() {
					fv := tt.Field(idx)
					a.fieldOwner[fv] = name
					// anonymous struct types nested in a field type
					ft := f.Type
					for {
						switch x := ft.(type) {
						case *ast.ArrayType:
							ft = x.Elt
							continue
						case *ast.StarExpr:
							ft = x.X
							continue
						}
						break
					}
					if ast2, ok := ft.(*ast.StructType); ok {
						t := fv.Type()
						for {
							switch x := t.(type) {
							case *types.Slice:
								t = x.Elem()
								continue
							case *types.Array:
								t = x.Elem()
								continue
							case *types.Pointer:
								t = x.Elem()
								continue
							}
							break
						}
						if ts, ok := t.(*types.Struct); ok {
							regStruct(name+"."+n, ast2, ts)
						}
					}
				}
				idx++
			}
		}
	}
	for _, f := range a.files {
		for _, d := range f.Decls {
			switch d := d.(type) {
			case *ast.GenDecl:
				for _, sp := range d.Specs {
					ts, ok := sp.(*ast.TypeSpec)
					if !ok {
						continue
					}
					st, ok := ts.Type.(*ast.StructType)
					if !ok {
						continue
					}
					var tt *types.Struct
					if obj := a.info.Defs[ts.Name]; obj != nil {
						tt, _ = obj.Type().Underlying().(*types.Struct)
					}
					regStruct(ts.Name.Name, st, tt)
				}
			case *ast.FuncDecl:
				obj, _ := a.info.Defs[d.Name].(*types.Func)
				name := d.Name.Name
				file, line := a.pos(d.Pos())
				recv := ""
				if d.Recv != nil && len(d.Recv.List) > 0 {
					t := d.Recv.List[0].Type
					if s, ok := t.(*ast.StarExpr); ok {
						t = s.X
					}
					if id, ok := t.(*ast.Ident); ok {
						name = id.Name + "." + name
					}
					if len(d.Recv.List[0].Names) > 0 {
						recv = d.Recv.List[0].Names[0].Name
					}
				} else if name == "init" {
					name = "init_" + fileTag(file)
				}
				np := 0
				for _, p := range d.Type.Params.List {
					if len(p.Names) == 0 {
						np++
					} else {
						np += len(p.Names)
					}
				}
				a.fnParams[name] = np
				if obj != nil {
					a.fnName[obj] = name
					if d.Recv != nil {
						a.methods[d.Name.Name] = append(a.methods[d.Name.Name], obj)
					}
				}
				a.funcs = append(a.funcs, fnrec{name: name, recv: recv, file: file, line: line, nparams: np})
			}
		}
	}
}

func sigKey(t types.Type) (string, int, bool) {
	if t == nil {
		return "", 0, false
	}
	sig, ok := t.Underlying().(*types.Signature)
	if !ok {
		return "", 0, false
	}
	ps := []string{}
	for i := 0; i < sig.Params().Len(); i++ {
		ps = append(ps, types.TypeString(sig.Params().At(i).Type(), noq))
	}
	return "(" + strings.Join(ps, ",") + ")", sig.Params().Len(), true
}

// function literals and functions used as values: the possible targets of dynamic calls
func (a *an) collectCandidates() {
	a.litName = map[*ast.FuncLit]string{}
	seen := map[string]bool{}
	for _, f := range a.files {
		callFun := map[ast.Expr]bool{}
		goLit := map[*ast.FuncLit]bool{}
		ast.Inspect(f, func(n ast.Node) bool {
			switch x := n.(type) {
			case *ast.GoStmt:
				if fl, ok := x.Call.Fun.(*ast.FuncLit); ok {
					goLit[fl] = true
				}
			case *ast.CallExpr:
				fun := x.Fun
				for {
					if p, ok := fun.(*ast.ParenExpr); ok {
						fun = p.X
						continue
					}
					break
				}
				callFun[fun] = true
				if s, ok := fun.(*ast.SelectorExpr); ok {
					callFun[s.Sel] = true
				}
			case *ast.FuncLit:
				file, line := a.pos(x.Pos())
				name := fmt.Sprintf("lit_%s_%d", fileTag(file), line)
				if goLit[x] {
					name = fmt.Sprintf("root_%s_%d", fileTag(file), line)
				}
				a.litName[x] = name
				key, np, _ := sigKey(a.info.Types[x].Type)
				if key == "" {
					np = 0
					for _, p := range x.Type.Params.List {
						if len(p.Names) == 0 {
							np++
						} else {
							np += len(p.Names)
						}
					}
				}
				a.cands = append(a.cands, candidate{name, key, np})
				a.fnParams[name] = np
			case *ast.Ident:
				if callFun[x] {
					return true
				}
				if fo, ok := a.info.Uses[x].(*types.Func); ok {
					if name, ok := a.fnName[fo]; ok && !seen[name] {
						seen[name] = true
						key, np, _ := sigKey(fo.Type())
						a.cands = append(a.cands, candidate{name, key, np})
					}
				}
			}
			return true
		})
	}
}

// ---------------------------------------------------------------- per-function walk
type fwalk struct {
	a       *an
	name    string
	file    string
	fresh   map[types.Object]bool
	goPos   []token.Pos
	writes  map[*ast.SelectorExpr]bool
	atomics map[*ast.SelectorExpr]bool
	callFun map[ast.Expr]bool
}

func clone(h []held) []held { return append([]held(nil), h...) }

func intersect(x, y []held) []held {
	r := []held{}
	for _, e := range x {
		for _, f := range y {
			if e == f {
				r = append(r, e)
				break
			}
		}
	}
	return r
}

func unparen(e ast.Expr) ast.Expr {
	for {
		if p, ok := e.(*ast.ParenExpr); ok {
			e = p.X
			continue
		}
		return e
	}
}

func (w *fwalk) markWrite(e ast.Expr) {
	switch x := unparen(e).(type) {
	case *ast.SelectorExpr:
		w.writes[x] = true
	case *ast.IndexExpr:
		w.markWrite(x.X)
	case *ast.SliceExpr:
		w.markWrite(x.X)
	}
}

// mutex named by the receiver of a Lock/Unlock call
func (w *fwalk) mutexOf(x ast.Expr) held {
	a := w.a
	x = unparen(x)
	if tv, ok := a.info.Types[x]; ok {
		if name, ok := a.namedStruct(tv.Type); ok {
			for _, f := range a.structs[name].fields {
				if f.mutex && f.embedded {
					return held{name, types.ExprString(x)}
				}
			}
		}
	}
	if se, ok := x.(*ast.SelectorExpr); ok {
		if sel := a.info.Selections[se]; sel != nil && sel.Kind() == types.FieldVal {
			if owner, ok := a.fieldOwner[sel.Obj().(*types.Var)]; ok {
				return held{owner + "." + se.Sel.Name, types.ExprString(se.X)}
			}
		}
		for _, s := range a.byField[se.Sel.Name] {
			for _, f := range a.structs[s].fields {
				if f.name == se.Sel.Name && f.mutex {
					return held{s + "." + f.name, types.ExprString(se.X)}
				}
			}
		}
	}
	if id, ok := x.(*ast.Ident); ok {
		return held{"var:" + id.Name, ""}
	}
	return held{"?" + types.ExprString(x), ""}
}

func lockCall(s ast.Stmt) (recv ast.Expr, lock bool, ok bool) {
	es, isE := s.(*ast.ExprStmt)
	if !isE {
		return nil, false, false
	}
	return lockCallExpr(es.X)
}

func lockCallExpr(e ast.Expr) (recv ast.Expr, lock bool, ok bool) {
	ce, isC := e.(*ast.CallExpr)
	if !isC || len(ce.Args) != 0 {
		return nil, false, false
	}
	se, isS := ce.Fun.(*ast.SelectorExpr)
	if !isS {
		return nil, false, false
	}
	switch se.Sel.Name {
	case "Lock", "RLock":
		return se.X, true, true
	case "Unlock", "RUnlock":
		return se.X, false, true
	}
	return nil, false, false
}

func terminates(stmts []ast.Stmt) bool {
	if len(stmts) == 0 {
		return false
	}
	switch s := stmts[len(stmts)-1].(type) {
	case *ast.ReturnStmt:
		return true
	case *ast.ExprStmt:
		if ce, ok := s.X.(*ast.CallExpr); ok {
			if id, ok := ce.Fun.(*ast.Ident); ok && id.Name == "panic" {
				return true
			}
		}
	case *ast.BlockStmt:
		return terminates(s.List)
	}
	return false
}

func (w *fwalk) block(stmts []ast.Stmt, h []held) []held {
	for _, s := range stmts {
		h = w.stmt(s, h)
	}
	return h
}

func (w *fwalk) stmt(s ast.Stmt, h []held) []held {
	a := w.a
	switch s := s.(type) {
	case nil:
		return h
	case *ast.ExprStmt:
		if x, lock, ok := lockCall(s); ok {
			m := w.mutexOf(x)
			file, line := a.pos(s.Pos())
			if lock {
				a.acqs = append(a.acqs, lockacq{m.mutex, m.owner, w.name, file, line, clone(h)})
				return append(clone(h), m)
			}
			r := []held{}
			done := false
			for _, e := range h {
				if !done && e == m {
					done = true
					continue
				}
				r = append(r, e)
			}
			return r
		}
		w.expr(s.X, h)
	case *ast.AssignStmt:
		for _, l := range s.Lhs {
			w.markWrite(l)
		}
		for _, e := range s.Rhs {
			w.expr(e, h)
		}
		for _, l := range s.Lhs {
			w.expr(l, h)
		}
	case *ast.IncDecStmt:
		w.markWrite(s.X)
		w.expr(s.X, h)
	case *ast.DeclStmt:
		if gd, ok := s.Decl.(*ast.GenDecl); ok {
			for _, sp := range gd.Specs {
				if vs, ok := sp.(*ast.ValueSpec); ok {
					for _, v := range vs.Values {
						w.expr(v, h)
					}
				}
			}
		}
	case *ast.ReturnStmt:
		for _, e := range s.Results {
			w.expr(e, h)
		}
	case *ast.SendStmt:
		file, line := a.pos(s.Pos())
		a.chanops = append(a.chanops, chanop{w.chanName(s.Chan), w.name, file, line, true, clone(h)})
		w.expr(s.Chan, h)
		w.expr(s.Value, h)
	case *ast.GoStmt:
		file, line := a.pos(s.Pos())
		fun := unparen(s.Call.Fun)
		w.callFun[fun] = true
		targets, _, _ := w.resolve(fun, len(s.Call.Args))
		if len(targets) == 0 {
			a.roots = append(a.roots, rootrec{"ext:" + types.ExprString(fun), "", w.name, file, line})
		}
		for _, t := range targets {
			a.roots = append(a.roots, rootrec{t, t, w.name, file, line})
		}
		if se, ok := fun.(*ast.SelectorExpr); ok {
			w.expr(se.X, h)
		}
		for _, e := range s.Call.Args {
			w.expr(e, h)
		}
	case *ast.DeferStmt:
		if _, _, ok := lockCallExpr(s.Call); ok {
			return h // defer x.Unlock(): held until the function returns
		}
		w.expr(s.Call, h)
	case *ast.BlockStmt:
		return w.block(s.List, h)
	case *ast.LabeledStmt:
		return w.stmt(s.Stmt, h)
	case *ast.IfStmt:
		h = w.stmt(s.Init, h)
		w.expr(s.Cond, h)
		th := w.block(s.Body.List, clone(h))
		tterm := terminates(s.Body.List)
		eh, eterm := h, false
		if s.Else != nil {
			eh = w.stmt(s.Else, clone(h))
			eterm = terminates([]ast.Stmt{s.Else})
		}
		switch {
		case tterm && eterm:
			return h
		case tterm:
			return eh
		case eterm:
			return th
		}
		return intersect(th, eh)
	case *ast.ForStmt:
		h = w.stmt(s.Init, h)
		w.expr(s.Cond, h)
		bh := w.block(s.Body.List, clone(h))
		bh = w.stmt(s.Post, bh)
		return intersect(h, bh)
	case *ast.RangeStmt:
		if s.Tok == token.ASSIGN {
			w.markWrite(s.Key)
			w.markWrite(s.Value)
		}
		w.expr(s.X, h)
		if tv, ok := a.info.Types[s.X]; ok && tv.Type != nil {
			if _, isCh := tv.Type.Underlying().(*types.Chan); isCh {
				file, line := a.pos(s.Pos())
				a.chanops = append(a.chanops, chanop{w.chanName(s.X), w.name, file, line, false, clone(h)})
			}
		}
		if s.Tok == token.ASSIGN {
			w.expr(s.Key, h)
			w.expr(s.Value, h)
		}
		bh := w.block(s.Body.List, clone(h))
		return intersect(h, bh)
	case *ast.SwitchStmt:
		h = w.stmt(s.Init, h)
		w.expr(s.Tag, h)
		return w.clauses(s.Body.List, h)
	case *ast.TypeSwitchStmt:
		h = w.stmt(s.Init, h)
		h = w.stmt(s.Assign, h)
		return w.clauses(s.Body.List, h)
	case *ast.SelectStmt:
		return w.clauses(s.Body.List, h)
	}
	return h
}

func (w *fwalk) clauses(list []ast.Stmt, h []held) []held {
	outs := [][]held{}
	hasDefault := false
	for _, c := range list {
		var body []ast.Stmt
		ch := clone(h)
		switch c := c.(type) {
		case *ast.CaseClause:
			if c.List == nil {
				hasDefault = true
			}
			for _, e := range c.List {
				w.expr(e, h)
			}
			body = c.Body
		case *ast.CommClause:
			if c.Comm == nil {
				hasDefault = true
			}
			ch = w.stmt(c.Comm, ch)
			body = c.Body
		}
		ch = w.block(body, ch)
		if !terminates(body) {
			outs = append(outs, ch)
		}
	}
	if !hasDefault {
		outs = append(outs, h)
	}
	if len(outs) == 0 {
		return h
	}
	r := outs[0]
	for _, o := range outs[1:] {
		r = intersect(r, o)
	}
	return r
}

func (w *fwalk) chanName(e ast.Expr) string {
	a := w.a
	e = unparen(e)
	if se, ok := e.(*ast.SelectorExpr); ok {
		if sel := a.info.Selections[se]; sel != nil && sel.Kind() == types.FieldVal {
			if owner, ok := a.fieldOwner[sel.Obj().(*types.Var)]; ok {
				return owner + "." + se.Sel.Name
			}
		}
		if c := a.byField[se.Sel.Name]; len(c) > 0 {
			return c[0] + "." + se.Sel.Name
		}
	}
	return "?" + types.ExprString(e)
}

func (a *an) ifaceImpls(it *types.Interface, method string) []string {
	res := []string{}
	names := []string{}
	for i := 0; i < it.NumMethods(); i++ {
		names = append(names, it.Method(i).Name())
	}
	for _, fo := range a.methods[method] {
		full := a.fnName[fo]
		tname := full[:strings.Index(full, ".")]
		all := true
		for _, n := range names {
			found := false
			for _, g := range a.methods[n] {
				if strings.HasPrefix(a.fnName[g], tname+".") {
					found = true
				}
			}
			if !found {
				all = false
			}
		}
		if all {
			res = append(res, full)
		}
	}
	return res
}

func (a *an) dynamic(t types.Type, nargs int) []string {
	key, np, ok := sigKey(t)
	res := []string{}
	for _, c := range a.cands {
		if ok && c.key != "" {
			if c.key == key && c.nparams == np {
				res = append(res, c.name)
			}
		} else if c.nparams == nargs {
			res = append(res, c.name)
		}
	}
	return res
}

// resolve the callee expression of a call: names of the package functions it may reach
func (w *fwalk) resolve(fun ast.Expr, nargs int) (targets []string, kind string, recv string) {
	a := w.a
	switch f := fun.(type) {
	case *ast.FuncLit:
		return []string{a.litName[f]}, "static", ""
	case *ast.Ident:
		switch obj := a.info.Uses[f].(type) {
		case *types.Func:
			if name, ok := a.fnName[obj]; ok {
				return []string{name}, "static", ""
			}
		case *types.Var:
			return a.dynamic(obj.Type(), nargs), "dynamic", ""
		}
		return nil, "", ""
	case *ast.SelectorExpr:
		if id, ok := f.X.(*ast.Ident); ok {
			if _, isPkg := a.info.Uses[id].(*types.PkgName); isPkg {
				return nil, "", ""
			}
		}
		recv = types.ExprString(f.X)
		if sel := a.info.Selections[f]; sel != nil {
			switch sel.Kind() {
			case types.MethodVal:
				fo := sel.Obj().(*types.Func)
				if it, ok := sel.Recv().Underlying().(*types.Interface); ok {
					return a.ifaceImpls(it, f.Sel.Name), "iface", recv
				}
				if name, ok := a.fnName[fo]; ok {
					return []string{name}, "static", recv
				}
				return nil, "", recv
			case types.FieldVal:
				return a.dynamic(sel.Obj().Type(), nargs), "dynamic", ""
			}
			return nil, "", recv
		}
		if a.noPackageMember(f.X) {
			return nil, "", recv
		}
		// unresolved receiver type: every method of that name and arity, and, if some struct
		// has a function-typed field of that name, every dynamic target of that arity
		for _, fo := range a.methods[f.Sel.Name] {
			name := a.fnName[fo]
			sig := fo.Type().(*types.Signature)
			if a.fnParams[name] == nargs || sig.Variadic() {
				targets = append(targets, name)
			}
		}
		if len(a.byField[f.Sel.Name]) > 0 {
			targets = append(targets, a.dynamic(nil, nargs)...)
		}
		return targets, "byname", recv
	}
	if tv, ok := a.info.Types[fun]; ok {
		if tv.IsType() {
			return nil, "", "" // a conversion such as []byte(x) is not a call
		}
		return a.dynamic(tv.Type, nargs), "dynamic", ""
	}
	switch fun.(type) {
	case *ast.ArrayType, *ast.MapType, *ast.ChanType, *ast.FuncType, *ast.InterfaceType, *ast.StructType, *ast.StarExpr:
		return nil, "", "" // type expression in call position: a conversion
	}
	return nil, "", ""
}

// x.m / x.f did not resolve.  True if x certainly has no field or method declared in this
// package: its type is known (then the member simply is not there: basic, composite or
// imported type), or x is derived by calls / selections / indexing from a value of an imported
// package (an imported package cannot return a concrete type of this package; a package type
// hidden behind an imported INTERFACE is not seen: said in the header)
func (a *an) noPackageMember(e ast.Expr) bool {
	for {
		e = unparen(e)
		if tv, ok := a.info.Types[e]; ok && tv.Type != nil {
			if b, isB := tv.Type.(*types.Basic); !isB || b.Kind() != types.Invalid {
				return true
			}
		}
		switch x := e.(type) {
		case *ast.CallExpr:
			e = x.Fun
		case *ast.SelectorExpr:
			if id, ok := x.X.(*ast.Ident); ok {
				if _, isPkg := a.info.Uses[id].(*types.PkgName); isPkg {
					return true
				}
			}
			e = x.X
		case *ast.IndexExpr:
			e = x.X
		case *ast.SliceExpr:
			e = x.X
		case *ast.StarExpr:
			e = x.X
		case *ast.Ident:
			obj := a.info.Uses[x]
			if obj == nil {
				obj = a.info.Defs[x]
			}
			return obj != nil && a.extVars[obj]
		default:
			return false
		}
	}
}

// variables defined from expressions rooted in an imported package (conn, err := ln.Accept())
func (a *an) collectExtVars() {
	a.extVars = map[types.Object]bool{}
	for round := 0; round < 3; round++ {
		for _, f := range a.files {
			ast.Inspect(f, func(n ast.Node) bool {
				mark := func(lhs ast.Expr) {
					if id, ok := lhs.(*ast.Ident); ok {
						obj := a.info.Defs[id]
						if obj == nil {
							obj = a.info.Uses[id]
						}
						if v, ok := obj.(*types.Var); ok && !v.IsField() {
							if b, isB := v.Type().(*types.Basic); isB && b.Kind() == types.Invalid {
								a.extVars[obj] = true
							}
						}
					}
				}
				switch x := n.(type) {
				case *ast.AssignStmt:
					if len(x.Rhs) == 1 && len(x.Lhs) >= 1 {
						if a.extRooted(x.Rhs[0]) {
							for _, l := range x.Lhs {
								mark(l)
							}
						}
					} else if len(x.Rhs) == len(x.Lhs) {
						for i := range x.Rhs {
							if a.extRooted(x.Rhs[i]) {
								mark(x.Lhs[i])
							}
						}
					}
				case *ast.RangeStmt:
					if a.extRooted(x.X) {
						if x.Key != nil {
							mark(x.Key)
						}
						if x.Value != nil {
							mark(x.Value)
						}
					}
				case *ast.ValueSpec:
					if len(x.Values) == 1 && a.extRooted(x.Values[0]) {
						for _, id := range x.Names {
							mark(id)
						}
					}
				}
				return true
			})
		}
	}
}

// the value of e comes from an imported package (and its type is unknown to us)
func (a *an) extRooted(e ast.Expr) bool {
	e = unparen(e)
	if tv, ok := a.info.Types[e]; ok && tv.Type != nil {
		if b, isB := tv.Type.(*types.Basic); !isB || b.Kind() != types.Invalid {
			return false // known type: nothing to infer
		}
	}
	switch e.(type) {
	case *ast.CallExpr, *ast.SelectorExpr, *ast.IndexExpr, *ast.SliceExpr, *ast.StarExpr, *ast.Ident:
		return a.noPackageMember(e)
	}
	return false
}

func (w *fwalk) rootIdent(e ast.Expr) *ast.Ident {
	if id, ok := unparen(e).(*ast.Ident); ok {
		return id
	}
	return nil
}

func (w *fwalk) record(strct, field string, se *ast.SelectorExpr, resolved bool, h []held) {
	a := w.a
	file, line := a.pos(se.Sel.Pos())
	goBefore, goAfter := false, false
	for _, p := range w.goPos {
		if p < se.Pos() {
			goBefore = true
		} else {
			goAfter = true
		}
	}
	ctor := false
	if id := w.rootIdent(se.X); id != nil {
		if obj := a.info.Uses[id]; obj != nil && w.fresh[obj] && !goBefore {
			ctor = true
		}
	}
	a.accesses = append(a.accesses, access{strct: strct, field: field, fn: w.name, file: file, line: line,
		write: w.writes[se], ctor: ctor, atomic: w.atomics[se], beforeGo: goAfter && !goBefore, resolved: resolved,
		base: types.ExprString(se.X), held: clone(h)})
}

func (w *fwalk) expr(e ast.Expr, h []held) {
	if e == nil {
		return
	}
	a := w.a
	ast.Inspect(e, func(n ast.Node) bool {
		switch x := n.(type) {
		case *ast.FuncLit:
			return false // walked as a function of its own, with no lock held
		case *ast.CallExpr:
			fun := unparen(x.Fun)
			w.callFun[fun] = true
			if id, ok := fun.(*ast.Ident); ok {
				if _, isB := a.info.Uses[id].(*types.Builtin); isB && (id.Name == "delete" || id.Name == "copy") && len(x.Args) > 0 {
					w.markWrite(x.Args[0])
				}
			}
			if se, ok := fun.(*ast.SelectorExpr); ok {
				if id, ok := se.X.(*ast.Ident); ok && id.Name == "atomic" {
					if _, isPkg := a.info.Uses[id].(*types.PkgName); isPkg {
						for _, arg := range x.Args {
							if u, ok := arg.(*ast.UnaryExpr); ok && u.Op == token.AND {
								if s, ok := unparen(u.X).(*ast.SelectorExpr); ok {
									w.atomics[s] = true
									w.writes[s] = !strings.HasPrefix(se.Sel.Name, "Load")
								}
							}
						}
					}
				}
			}
			if _, _, isLock := lockCallExpr(x); isLock {
				return true
			}
			targets, kind, recv := w.resolve(fun, len(x.Args))
			file, line := a.pos(x.Pos())
			for _, t := range targets {
				a.calls = append(a.calls, callsite{w.name, t, file, line, recv, kind, clone(h)})
			}
		case *ast.UnaryExpr:
			if x.Op == token.ARROW {
				file, line := a.pos(x.Pos())
				a.chanops = append(a.chanops, chanop{w.chanName(x.X), w.name, file, line, false, clone(h)})
			}
			if x.Op == token.AND {
				if s, ok := unparen(x.X).(*ast.SelectorExpr); ok && !w.atomics[s] {
					w.writes[s] = true // address taken: treated as a write
				}
			}
		case *ast.CompositeLit:
			tv, ok := a.info.Types[x]
			if !ok {
				return true
			}
			name, ok := a.namedStruct(tv.Type)
			if !ok {
				return true
			}
			si := a.structs[name]
			for i, el := range x.Elts {
				fname := ""
				p := el.Pos()
				if kv, ok := el.(*ast.KeyValueExpr); ok {
					if id, ok := kv.Key.(*ast.Ident); ok {
						fname = id.Name
					}
				} else if i < len(si.fields) {
					fname = si.fields[i].name
				}
				if fname == "" {
					continue
				}
				file, line := a.pos(p)
				a.accesses = append(a.accesses, access{strct: name, field: fname, fn: w.name, file: file, line: line,
					write: true, ctor: true, resolved: true, base: "<literal>", held: clone(h)})
			}
		case *ast.SelectorExpr:
			w.callFun[x.Sel] = true // the Sel identifier is handled here, not by the Ident case
			if id, ok := x.X.(*ast.Ident); ok {
				if _, isPkg := a.info.Uses[id].(*types.PkgName); isPkg {
					return false
				}
			}
			if sel := a.info.Selections[x]; sel != nil {
				switch sel.Kind() {
				case types.FieldVal:
					if owner, ok := a.fieldOwner[sel.Obj().(*types.Var)]; ok {
						w.record(owner, x.Sel.Name, x, true, h)
					}
				case types.MethodVal:
					if !w.callFun[x] {
						if name, ok := a.fnName[sel.Obj().(*types.Func)]; ok {
							file, line := a.pos(x.Pos())
							a.calls = append(a.calls, callsite{w.name, name, file, line, types.ExprString(x.X), "funcvalue", clone(h)})
						}
					}
				}
				return true
			}
			if a.noPackageMember(x.X) {
				return true
			}
			if !w.callFun[x] || len(a.methods[x.Sel.Name]) == 0 {
				for _, s := range a.byField[x.Sel.Name] {
					w.record(s, x.Sel.Name, x, false, h)
				}
			}
		case *ast.Ident:
			if !w.callFun[x] {
				if fo, ok := a.info.Uses[x].(*types.Func); ok {
					if name, ok := a.fnName[fo]; ok {
						file, line := a.pos(x.Pos())
						a.calls = append(a.calls, callsite{w.name, name, file, line, "", "funcvalue", clone(h)})
					}
				}
			}
		}
		return true
	})
}

// x := &T{..} | T{..} | new(T) | ctor(..)  (or var x T), and x (or &x) is returned
func (a *an) freshVars(body *ast.BlockStmt) (map[types.Object]bool, bool) {
	cand := map[types.Object]bool{}
	isFreshExpr := func(e ast.Expr) bool {
		e = unparen(e)
		if u, ok := e.(*ast.UnaryExpr); ok && u.Op == token.AND {
			e = unparen(u.X)
		}
		switch x := e.(type) {
		case *ast.CompositeLit:
			if tv, ok := a.info.Types[x]; ok {
				_, ok := a.namedStruct(tv.Type)
				return ok
			}
		case *ast.CallExpr:
			if id, ok := x.Fun.(*ast.Ident); ok {
				if id.Name == "new" {
					return true
				}
				if fo, ok := a.info.Uses[id].(*types.Func); ok {
					return a.ctorFuncs[a.fnName[fo]]
				}
			}
		}
		return false
	}
	returned := map[types.Object]bool{}
	direct := false
	ast.Inspect(body, func(n ast.Node) bool {
		switch x := n.(type) {
		case *ast.FuncLit:
			return false
		case *ast.AssignStmt:
			if len(x.Rhs) >= 1 && len(x.Lhs) >= 1 && x.Tok == token.DEFINE {
				if id, ok := x.Lhs[0].(*ast.Ident); ok && isFreshExpr(x.Rhs[0]) {
					if obj := a.info.Defs[id]; obj != nil {
						cand[obj] = true
					}
				}
			}
		case *ast.DeclStmt:
			if gd, ok := x.Decl.(*ast.GenDecl); ok {
				for _, sp := range gd.Specs {
					if vs, ok := sp.(*ast.ValueSpec); ok && len(vs.Values) == 0 {
						for _, id := range vs.Names {
							if obj := a.info.Defs[id]; obj != nil {
								if _, ok := a.namedStruct(obj.Type()); ok {
									if _, isPtr := obj.Type().(*types.Pointer); !isPtr {
										cand[obj] = true
									}
								}
							}
						}
					}
				}
			}
		case *ast.ReturnStmt:
			for _, r := range x.Results {
				r = unparen(r)
				if isFreshExpr(r) {
					direct = true
				}
				if u, ok := r.(*ast.UnaryExpr); ok && u.Op == token.AND {
					r = unparen(u.X)
				}
				if id, ok := r.(*ast.Ident); ok {
					if obj := a.info.Uses[id]; obj != nil {
						returned[obj] = true
					}
				}
			}
		}
		return true
	})
	fresh := map[types.Object]bool{}
	for o := range cand {
		if returned[o] {
			fresh[o] = true
		}
	}
	return fresh, direct || len(fresh) > 0
}

func (a *an) walkFunc(name string, body *ast.BlockStmt) {
	if body == nil {
		return
	}
	file, _ := a.pos(body.Pos())
	w := &fwalk{a: a, name: name, file: file, writes: map[*ast.SelectorExpr]bool{}, atomics: map[*ast.SelectorExpr]bool{},
		callFun: map[ast.Expr]bool{}}
	w.fresh, _ = a.freshVars(body)
	ast.Inspect(body, func(n ast.Node) bool {
		switch x := n.(type) {
		case *ast.FuncLit:
			return false
		case *ast.GoStmt:
			w.goPos = append(w.goPos, x.Pos())
		}
		return true
	})
	w.block(body.List, nil)
}

// ---------------------------------------------------------------- output
// every distinct string is emitted once, as a named constant (Coq parses string literals
// slowly); q returns the name of the constant
var strNames = map[string]string{}
var strUsed = map[string]bool{}
var strOrder []string

func q(s string) string {
	if n, ok := strNames[s]; ok {
		return n
	}
	var sb strings.Builder
	sb.WriteString("s_")
	for _, c := range s {
		if c >= 'a' && c <= 'z' || c >= 'A' && c <= 'Z' || c >= '0' && c <= '9' {
			sb.WriteRune(c)
		} else {
			sb.WriteByte('_')
		}
	}
	n := sb.String()
	if len(n) > 60 {
		n = n[:60]
	}
	for base, i := n, 2; strUsed[n]; i++ {
		n = fmt.Sprintf("%s_%d", base, i)
	}
	strUsed[n] = true
	strNames[s] = n
	strOrder = append(strOrder, s)
	return n
}

// words the framework's grep gate rejects anywhere in a .v file (a Go field may be called
// Parameters): a literal containing one is written as a concatenation split inside the word
var gateWords = []string{"Admitted", "admit", "Admit", "Axiom", "Parameter", "Conjecture", "Hypothes", "Variable",
	"Unset", "bypass_check", "type-in-type", "impredicative-set"}

func lit1(s string) string { return "\"" + strings.ReplaceAll(s, "\"", "\"\"") + "\"" }

func lit(s string) string {
	pieces := []string{}
	for {
		cut := -1
		for _, w := range gateWords {
			if i := strings.Index(s, w); i >= 0 && (cut < 0 || i+2 < cut) {
				cut = i + 2
			}
		}
		if cut < 0 {
			break
		}
		pieces = append(pieces, lit1(s[:cut]))
		s = s[cut:]
	}
	pieces = append(pieces, lit1(s))
	if len(pieces) == 1 {
		return pieces[0]
	}
	return "(" + strings.Join(pieces, " ++ ") + ")"
}
func b(v bool) string {
	if v {
		return "true"
	}
	return "false"
}
func heldList(h []held) string {
	p := []string{}
	for _, e := range h {
		p = append(p, fmt.Sprintf("mkHeld %s %s", q(e.mutex), q(e.owner)))
	}
	return "[" + strings.Join(p, "; ") + "]"
}
func emitList(sb *strings.Builder, name, typ string, items []string) {
	fmt.Fprintf(sb, "Definition %s : list %s :=\n  [", name, typ)
	for i, it := range items {
		if i > 0 {
			sb.WriteString(";\n   ")
		}
		sb.WriteString(it)
	}
	sb.WriteString("].\n\n")
}
func uniq(items []string) []string {
	sort.Strings(items)
	r := []string{}
	for i, s := range items {
		if i == 0 || s != items[i-1] {
			r = append(r, s)
		}
	}
	return r
}

const prelude = `From Coq Require Import List String Bool NArith.
Import ListNotations.
Local Open Scope string_scope.
Local Open Scope N_scope.

(* a mutex is named by the struct type that embeds it ("RoundRobinBackend") or by
   "Struct.field"; h_owner is the source text of the object it belongs to at that site *)
Record lockheld := mkHeld { h_mutex : string; h_owner : string }.

(* one selector expression base.f, f a field of package struct a_struct.
   a_write: assignment target (also x.f[k] = v, x.f++, x.f op= v, delete(x.f, k), copy(x.f, ..),
   &x.f, atomic store/add/swap/cas);  a_ctor: composite-literal initialisation, or a write
   through a variable that holds a fresh object (literal / new / constructor result) which the
   enclosing function returns, before any go statement of that function;  a_atomic: operand of
   a sync/atomic call;  a_before_go: a go statement follows in the enclosing function and none
   precedes;  a_resolved: the struct was determined from the type of the base (false: matched
   by field name only);  a_held: mutexes lexically held *)
Record access := mkAccess {
  a_struct : string; a_field : string; a_func : string; a_file : string; a_line : N;
  a_write : bool; a_ctor : bool; a_atomic : bool; a_before_go : bool; a_resolved : bool;
  a_base : string; a_held : list lockheld }.

(* f_recv: name of the receiver variable ("" for functions and literals) *)
Record func := mkFunc { f_name : string; f_recv : string; f_file : string; f_line : N; f_nparams : N }.

(* c_kind: static | iface | byname | dynamic | funcvalue;  c_recv: source text of the receiver *)
Record callsite := mkCall {
  c_caller : string; c_callee : string; c_file : string; c_line : N; c_recv : string;
  c_kind : string; c_held : list lockheld }.

(* go statement: r_func is started as goroutine r_name by r_in; plus root "main" (main and init) *)
Record goroot := mkRoot { r_name : string; r_func : string; r_in : string; r_file : string; r_line : N }.

Record chanop := mkChanOp { ch_chan : string; ch_func : string; ch_file : string; ch_line : N;
  ch_send : bool; ch_held : list lockheld }.

(* x.Lock() at l_func:l_line while l_held are lexically held *)
Record lockacq := mkAcq { l_mutex : string; l_owner : string; l_func : string; l_file : string;
  l_line : N; l_held : list lockheld }.

`

func main() {
	repo := flag.String("repo", "/repo", "package directory")
	out := flag.String("o", "", "output .v file (default stdout)")
	flag.Parse()
	paths, _ := filepath.Glob(filepath.Join(*repo, "*.go"))
	sort.Strings(paths)
	a := &an{fset: token.NewFileSet(), ctorFuncs: map[string]bool{}}
	hashes := []string{}
	for _, p := range paths {
		if strings.HasSuffix(p, "_test.go") {
			continue
		}
		src, err := os.ReadFile(p)
		if err != nil {
			fmt.Fprintln(os.Stderr, "locktab:", err)
			os.Exit(2)
		}
		f, err := parser.ParseFile(a.fset, p, src, parser.SkipObjectResolution)
		if err != nil {
			fmt.Fprintln(os.Stderr, "locktab: parse error:", err)
			os.Exit(2)
		}
		if f.Name.Name != "main" {
			continue
		}
		a.files = append(a.files, f)
		hashes = append(hashes, fmt.Sprintf("%s %x", filepath.Base(p), sha256.Sum256(src))[:len(filepath.Base(p))+1+16])
	}
	a.info = &types.Info{Types: map[ast.Expr]types.TypeAndValue{}, Defs: map[*ast.Ident]types.Object{},
		Uses: map[*ast.Ident]types.Object{}, Selections: map[*ast.SelectorExpr]*types.Selection{}}
	conf := types.Config{Importer: fakeImporter{map[string]*types.Package{}, collectExtTypes(a.files)}, Error: func(error) {}, FakeImportC: true,
		DisableUnusedImportCheck: true}
	a.pkg, _ = conf.Check("main", a.fset, a.files, a.info)
	a.collectDecls()
	a.collectExtVars()
	a.collectCandidates()
	// constructor functions: fixpoint
	type fb struct {
		name string
		body *ast.BlockStmt
	}
	bodies := []fb{}
	for _, f := range a.files {
		for _, d := range f.Decls {
			if fd, ok := d.(*ast.FuncDecl); ok && fd.Body != nil {
				obj, _ := a.info.Defs[fd.Name].(*types.Func)
				name := a.fnName[obj]
				if name == "" {
					continue
				}
				bodies = append(bodies, fb{name, fd.Body})
			}
		}
	}
	for it := 0; it < 6; it++ {
		changed := false
		for _, x := range bodies {
			if _, is := a.freshVars(x.body); is && !a.ctorFuncs[x.name] {
				a.ctorFuncs[x.name] = true
				changed = true
			}
		}
		if !changed {
			break
		}
	}
	lits := []*ast.FuncLit{}
	for l := range a.litName {
		lits = append(lits, l)
	}
	sort.Slice(lits, func(i, j int) bool { return lits[i].Pos() < lits[j].Pos() })
	parentOf := map[*ast.FuncLit]string{}
	for _, f := range a.files {
		for _, d := range f.Decls {
			if fd, ok := d.(*ast.FuncDecl); ok && fd.Body != nil {
				obj, _ := a.info.Defs[fd.Name].(*types.Func)
				ast.Inspect(fd.Body, func(n ast.Node) bool {
					if l, ok := n.(*ast.FuncLit); ok {
						parentOf[l] = a.fnName[obj]
					}
					return true
				})
			}
		}
	}
	for _, x := range bodies {
		a.walkFunc(x.name, x.body)
	}
	for _, l := range lits {
		file, line := a.pos(l.Pos())
		a.funcs = append(a.funcs, fnrec{name: a.litName[l], file: file, line: line, parent: parentOf[l], nparams: a.fnParams[a.litName[l]]})
		a.walkFunc(a.litName[l], l.Body)
	}
	// root "main": main and the init functions
	for _, f := range a.funcs {
		if f.name == "main" || strings.HasPrefix(f.name, "init_") {
			a.roots = append(a.roots, rootrec{"main", f.name, "", f.file, f.line})
		}
	}

	// ------------------------------------------------------------ emit
	var sb strings.Builder
	sb.WriteString("(* GENERATED by /verif/tools/locktab from the Go package in /repo -- DO NOT EDIT.\n")
	sb.WriteString("   Facts only; the policy and all judgements are in Policy.v.\n   source files (sha256, first 16 hex digits):\n")
	for _, h := range hashes {
		sb.WriteString("     " + h + "\n")
	}
	sb.WriteString("*)\n")
	head := sb.String()
	sb.Reset()

	items := []string{}
	nfields := 0
	snames := []string{}
	for n := range a.structs {
		snames = append(snames, n)
	}
	sort.Strings(snames)
	for _, n := range snames {
		for _, f := range a.structs[n].fields {
			items = append(items, fmt.Sprintf("(%s, %s, %s)", q(n), q(f.name), b(f.mutex)))
			nfields++
		}
	}
	sb.WriteString("(* (struct, field, is a sync.Mutex / sync.RWMutex) *)\n")
	emitList(&sb, "struct_fields", "(string * string * bool)", items)

	sort.SliceStable(a.accesses, func(i, j int) bool {
		x, y := a.accesses[i], a.accesses[j]
		if x.strct != y.strct {
			return x.strct < y.strct
		}
		if x.field != y.field {
			return x.field < y.field
		}
		if x.file != y.file {
			return x.file < y.file
		}
		if x.line != y.line {
			return x.line < y.line
		}
		return !x.write && y.write
	})
	items = nil
	for _, x := range a.accesses {
		items = append(items, fmt.Sprintf("mkAccess %s %s %s %s %d %s %s %s %s %s %s %s", q(x.strct), q(x.field), q(x.fn), q(x.file),
			x.line, b(x.write), b(x.ctor), b(x.atomic), b(x.beforeGo), b(x.resolved), q(x.base), heldList(x.held)))
	}
	items = uniq(items)
	nsites := len(items)
	emitList(&sb, "accesses", "access", items)

	items = nil
	for _, f := range a.funcs {
		items = append(items, fmt.Sprintf("mkFunc %s %s %s %d %d", q(f.name), q(f.recv), q(f.file), f.line, f.nparams))
	}
	emitList(&sb, "funcs", "func", uniq(items))

	items = nil
	pairs := []string{}
	for _, c := range a.calls {
		items = append(items, fmt.Sprintf("mkCall %s %s %s %d %s %s %s", q(c.caller), q(c.callee), q(c.file), c.line, q(c.recv), q(c.kind), heldList(c.held)))
		pairs = append(pairs, fmt.Sprintf("(%s, %s)", q(c.caller), q(c.callee)))
	}
	emitList(&sb, "callsites", "callsite", uniq(items))
	pairs = uniq(pairs)
	emitList(&sb, "calls", "(string * string)", pairs)

	items = nil
	for _, r := range a.roots {
		items = append(items, fmt.Sprintf("mkRoot %s %s %s %s %d", q(r.name), q(r.fn), q(r.in), q(r.file), r.line))
	}
	items = uniq(items)
	nroots := len(items)
	emitList(&sb, "roots", "goroot", items)

	items = nil
	for _, c := range a.chanops {
		items = append(items, fmt.Sprintf("mkChanOp %s %s %s %d %s %s", q(c.ch), q(c.fn), q(c.file), c.line, b(c.send), heldList(c.held)))
	}
	emitList(&sb, "chanops", "chanop", uniq(items))

	items = nil
	edges := []string{}
	for _, l := range a.acqs {
		items = append(items, fmt.Sprintf("mkAcq %s %s %s %s %d %s", q(l.mutex), q(l.owner), q(l.fn), q(l.file), l.line, heldList(l.held)))
		for _, h := range l.held {
			edges = append(edges, fmt.Sprintf("(%s, %s)", q(h.mutex), q(l.mutex)))
		}
	}
	emitList(&sb, "acquisitions", "lockacq", uniq(items))
	sb.WriteString("(* (N, M): M.Lock() is called while N is LEXICALLY held in the same function; the edges\n   through calls are computed in Policy.v from callsites and acquisitions *)\n")
	emitList(&sb, "lock_edges", "(string * string)", uniq(edges))

	var tb strings.Builder
	tb.WriteString("(* the strings of the tables below, each written once *)\n")
	sort.Strings(strOrder)
	for _, s := range strOrder {
		fmt.Fprintf(&tb, "Definition %s := %s.\n", strNames[s], lit(s))
	}
	tb.WriteString("\n")
	text := head + prelude + tb.String() + sb.String()
	if *out == "" {
		fmt.Print(text)
	} else if err := os.WriteFile(*out, []byte(text), 0o644); err != nil {
		fmt.Fprintln(os.Stderr, "locktab:", err)
		os.Exit(2)
	}
	fmt.Fprintf(os.Stderr, "locktab: files=%d structs=%d fields=%d sites=%d funcs=%d callsites=%d calls=%d roots=%d chanops=%d acquisitions=%d\n",
		len(a.files), len(a.structs), nfields, nsites, len(a.funcs), len(a.calls), len(pairs), nroots, len(a.chanops), len(a.acqs))
}
