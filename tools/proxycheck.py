"""Shared run loop of the whole-proxy property checks: play scenarios against the real proxy and
the model, compare what arrived where event by event, and apply the property's executable judge
(coq/SpecProxy.v, extracted) to the IMPLEMENTATION's observation."""
import os, subprocess, time
import lib, proxygen as pg
from lib import Case


def run_judge(comp, cases, impl, workdir):
    """-> id -> verdict tokens, the judge [comp] applied to the implementation's observation"""
    path = os.path.join(workdir, "judge-%s.txt" % comp)
    with open(path, "w") as f:
        for c in cases:
            obs = impl.get(c.id)
            if obs is None:
                continue
            f.write(" ".join([comp, c.id] + ["x" + t.hex() for t in c.toks] + ["x" + t.hex() for t in obs]) + "\n")
    with open(path, "rb") as f:
        p = subprocess.run([lib.MODELCLI, "judge"], stdin=f, stdout=subprocess.PIPE, stderr=subprocess.PIPE, timeout=3000)
    if p.returncode:
        raise lib.BuildError("model CLI failed in judge mode", p.stderr.decode()[-3000:])
    return lib.parse_obs(p.stdout.decode(), is_text=True)


def strip_notes(toks):
    if b"notes" in toks:
        i = toks.index(b"notes")
        return toks[:i], toks[i + 1:]
    return toks, []


def event_text(c, e):
    """tokens of event e of a proxy case (for reports)"""
    t = c.toks
    i = 3
    nr = int(t[i]); i += 1 + 3 * nr
    nh = int(t[i]); i += 1 + 2 * nh
    nl = int(t[i]); i += 1
    for _ in range(nl):
        nb = int(t[i + 3]); i += 4 + nb + 4
    i += 1
    nd = int(t[i]); i += 1 + nd
    for _ in range(2):
        n = int(t[i]); i += 1 + 2 * n
    nev = int(t[i]); i += 1
    width = {b"udp": 5, b"accept": 4, b"data": 3, b"close": 2, b"badd": 3, b"brem": 3, b"bdata": 4, b"bclose": 3}
    for k in range(nev):
        w = width.get(t[i], 1)
        if k == e:
            return [lib.show(x, 3000) for x in t[i:i + w]]
        i += w
    return []


def explore(ctx, pid, cases, judges, nontrivial=None, known_key=None, max_failures=20, shards=16):
    """differential + judges.  Returns (coverage, failures)."""
    work, drv = ctx["work"], ctx["drv"]
    # the block counter wraps after NBLOCKS allocations: more cases than that are played in waves, so that two cases that
    # were given the same block never run at the same time
    impl_raw = {}
    wave = pg.NBLOCKS - 500
    for w0 in range(0, len(cases), wave):
        if w0:
            time.sleep(65)      # connections of the previous wave's scenarios may sit in TIME_WAIT for a minute
        wd = work if len(cases) <= wave else os.path.join(work, "wave%d" % (w0 // wave))
        os.makedirs(wd, exist_ok=True)
        impl_raw.update(lib.run_impl_sharded(drv, cases[w0:w0 + wave], wd, shards=shards))
    # a scenario whose sockets could not be bound (its address block is still held by a process of another check running
    # at the same time, or a connection of an earlier scenario of the block is still in TIME_WAIT) is played again in a
    # fresh block, twice at most; a proxy that cannot start for another reason fails again and is reported
    def unbound(toks):
        return toks[:1] in ([b"setup-fail"], [b"start-fail"]) or any(t.startswith(b"connect-fail:") and b"address already in use" in t for t in toks)
    for attempt in range(2):
        bad = [i for i, c in enumerate(cases) if unbound(impl_raw.get(c.id, [b""]))]
        if not bad:
            break
        time.sleep(1 + 3 * attempt)      # a foreign process holding the wildcard address of a port goes away, too
        fresh = pg.alloc_blocks(len(bad))
        for i, nb in zip(bad, fresh):
            c = cases[i]
            old = c.meta["block"].encode()
            m = dict(c.meta)
            m["block"] = nb.decode()
            cases[i] = lib.Case(c.comp, c.id, [t.replace(old, nb) for t in c.toks], m)
        rd = os.path.join(work, "retry%d" % attempt)
        os.makedirs(rd, exist_ok=True)
        impl_raw.update(lib.run_impl(drv, [cases[i] for i in bad], rd))
    model = lib.run_model(cases, work)
    impl, notes = {}, {}
    for c in cases:
        o = impl_raw.get(c.id, [b"crash", b"no output"])
        impl[c.id], notes[c.id] = strip_notes(o)
    judged = [c for c in cases if impl[c.id][:1] not in ([b"crash"], [b"panic"], [b"setup-fail"], [b"start-fail"], [b"config-fail"], [b"decode-error"])]
    verdicts = {j: run_judge(j, judged, impl, work) for j in judges}
    failures, seen, nontriv, agree, outputs = [], set(), 0, 0, 0
    for c in cases:
        n = c.meta["events"]
        io, mo = impl[c.id], model.get(c.id, [b"missing"])
        ie, it = pg.parse_proxy_obs(io, n)
        me, mt = pg.parse_proxy_obs(mo, n)
        ni, nm = pg.normalise(ie), pg.normalise(me)
        outputs += sum(len(o) for o, _ in ni)
        d = c.digest()
        if d not in seen:
            seen.add(d)
            if nontrivial is None or nontrivial(c, ni):
                nontriv += 1
        f = None
        if io[:1] in ([b"setup-fail"], [b"start-fail"], [b"config-fail"]):
            f = {"kind": "harness", "has_input": False, "summary": "the driver could not set the scenario up: %s" % [lib.show(x) for x in io[:3]]}
        elif io[:1] in ([b"crash"], [b"panic"]) or it[:1] in ([b"panic"], [b"crash"]):
            f = {"kind": "crash", "has_input": True, "summary": "the proxy process died or panicked: %s" % lib.show(b" ".join(io[-1:]), 1500)}
        elif notes[c.id]:
            f = {"kind": "crash" if b"barrier-timeout" in notes[c.id] else "judge", "has_input": True,
                 "summary": "driver notes: %s" % [lib.show(x) for x in notes[c.id]]}
        else:
            for j in judges:
                v = verdicts[j].get(c.id, [b"missing"])
                if v[:1] != [b"ok"]:
                    e = int(v[1]) if len(v) > 2 and v[0] == b"bad" else -1
                    f = {"kind": "judge", "judge": j, "judge_says": [lib.show(x) for x in v], "event": e,
                         "event_input": event_text(c, e) if e >= 0 else [],
                         "impl_outputs": [(lib.show(l), [lib.show(x, 3000) for x in ds]) for l, ds in (ni[e][0] if 0 <= e < len(ni) else [])],
                         "summary": "%s rejects what the real proxy did at event %d (reason %s)" % (j, e, lib.show(v[2]) if len(v) > 2 else "?")}
                    break
            if f is None and (ni != nm or it != mt):
                k = next((k for k in range(min(len(ni), len(nm))) if ni[k] != nm[k]), min(len(ni), len(nm)))
                f = {"kind": "mismatch", "event": k, "event_input": event_text(c, k),
                     "impl_outputs": [(lib.show(l), [lib.show(x, 3000) for x in ds]) for l, ds in (ni[k][0] if k < len(ni) else [])],
                     "model_outputs": [(lib.show(l), [lib.show(x, 3000) for x in ds]) for l, ds in (nm[k][0] if k < len(nm) else [])],
                     "summary": "model and implementation differ at event %d (correspondence component 'proxy')" % k}
        if f is None:
            agree += 1
        elif len(failures) < max_failures:
            f.update({"component": c.comp, "case_id": c.id, "case_line": c.line(), "meta": c.meta})
            if known_key:
                f["key"] = known_key(c, f)
            failures.append(f)
    cov = {"evaluations": len(cases), "distinct_nontrivial": nontriv, "traces_validated_against_impl": agree,
           "messages_observed": outputs, "events": sum(c.meta["events"] for c in cases)}
    return cov, failures


def explore_tb(ctx, pid, judges, cov, failures, quick=60, thorough=1500):
    """the same property with backends reached over TCP (component "proxytb", model ProxyTB.proxy_step_tb): histories of
    proxyflows.tb_history through the real proxy, differential + the property's judges in their proxytb form.  The
    result is folded into the property's coverage and failure list."""
    import proxyflows as pf
    n = quick if ctx["tier"] == "quick" else thorough
    blocks = pg.alloc_blocks(n)
    cases = []
    for i in range(n):
        # (a request ROUTED to a backend's address after that backend sent a request of its own is relayed with a Via naming
        # the local end of the backend's connection - not a configured listener: C06's judge has no reading for that)
        f = pf.tb_history(ctx["rng"], blocks[i], route_to_backend="proxytb-C06" not in judges)
        cases.append(f.s.case("tb%d" % i, {"kind": "tcp-backends", "backends": len(f.backends)}))
    c2, f2 = explore(ctx, pid, cases, judges,
                     nontrivial=lambda c, ni: any(l.startswith(b"conn:") for outs, _ in ni for l, _ in outs))
    cov["tcp_backend_cases"] = {"evaluations": c2["evaluations"], "distinct_nontrivial": c2["distinct_nontrivial"],
                                "traces_validated_against_impl": c2["traces_validated_against_impl"], "events": c2["events"],
                                "judges": judges}
    for k in ("evaluations", "distinct_nontrivial", "traces_validated_against_impl", "messages_observed", "events"):
        if k in cov and k in c2:
            cov[k] += c2[k]
    failures.extend(f2)
    return cov, failures


def explore_sp(ctx, pid, cov, failures, quick=60, thorough=1500):
    """spirals (component "proxysp"): Route sets that name the proxy more than once, so that it sends the request to one of
    its own sockets and processes it again.  Differential only: the per-event judges read ONE pass (what they would have
    to demand of a spiral is the composition of several), so model and code are compared on what finally leaves the proxy."""
    import proxyflows as pf
    n = quick if ctx["tier"] == "quick" else thorough
    blocks = pg.alloc_blocks(n)
    cases = []
    for i in range(n):
        f = pf.spiral_history(ctx["rng"], blocks[i])
        cases.append(f.s.case("sp%d" % i, {"kind": "spiral"}))
    c2, f2 = explore(ctx, pid, cases, [], nontrivial=lambda c, ni: any(outs for outs, _ in ni))
    cov["spiral_cases"] = {"evaluations": c2["evaluations"], "distinct_nontrivial": c2["distinct_nontrivial"],
                           "traces_validated_against_impl": c2["traces_validated_against_impl"], "events": c2["events"]}
    for k in ("evaluations", "distinct_nontrivial", "traces_validated_against_impl", "messages_observed", "events"):
        if k in cov and k in c2:
            cov[k] += c2[k]
    failures.extend(f2)
    return cov, failures


def load_corpus_rebased(pid):
    cs = lib.load_corpus(pid)
    if not cs:
        return []
    blocks = pg.alloc_blocks(len(cs))
    out = []
    for c, b in zip(cs, blocks):
        r = pg.rebase(c, b)
        r.meta["events"] = count_events(r)
        out.append(r)
    return out


def count_events(c):
    t = c.toks
    i = 3
    nr = int(t[i]); i += 1 + 3 * nr
    nh = int(t[i]); i += 1 + 2 * nh
    nl = int(t[i]); i += 1
    for _ in range(nl):
        nb = int(t[i + 3]); i += 4 + nb + 4
    i += 1
    nd = int(t[i]); i += 1 + nd
    for _ in range(2):
        n = int(t[i]); i += 1 + 2 * n
    return int(t[i])


def store_witness(pid, name, case, comment):
    """write a minimised witness into corpus/ in the placeholder block (done by hand, never at check time)"""
    block = case.meta["block"].encode()
    toks = [t.replace(block, pg.BLOCK0) for t in case.toks]
    d = os.path.join(lib.VERIF, "corpus", pid)
    os.makedirs(d, exist_ok=True)
    with open(os.path.join(d, name + ".case"), "w") as f:
        f.write("# " + comment + "\n")
        f.write(" ".join(["proxy", name] + ["x" + t.hex() for t in toks]) + "\n")
