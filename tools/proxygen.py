"""Whole-proxy scenarios for the "proxy" correspondence component.

A scenario = one service configuration (YAML for the real startProxy + the same data as tokens
for the model), the loopback peers of the driver (UDP sockets, TCP listeners), and an event
list.  Every scenario lives in its own 127.X.Y.0/24 block; blocks are handed out by a
flock-protected counter so that concurrently running checks never share an address."""
import fcntl, os, tempfile
from lib import Case

# ----------------------------------------------------------------------------- address blocks
BLOCK0 = b"127.100.100."          # placeholder prefix used in stored cases (corpus, replays)


NBLOCKS = 100 * 155 - 1      # 127.1XX.YYY. with XX in 00..99 and YYY in 100..254, minus the placeholder


def alloc_blocks(n):
    """n fresh /24 prefixes b'127.1XX.1YY.' (fixed width: re-basing a stored case keeps every
    Content-Length valid)."""
    path = os.path.join(tempfile.gettempdir(), "verif-ipblocks.counter")
    fd = os.open(path, os.O_RDWR | os.O_CREAT, 0o666)
    try:
        fcntl.flock(fd, fcntl.LOCK_EX)
        raw = os.read(fd, 32).decode().strip()
        cur = int(raw) if raw.isdigit() else (os.getpid() * 7919) % NBLOCKS
        os.lseek(fd, 0, 0)
        os.ftruncate(fd, 0)
        os.write(fd, str((cur + n) % NBLOCKS).encode())
    finally:
        fcntl.flock(fd, fcntl.LOCK_UN)
        os.close(fd)
    res = []
    for i in range(n):
        v = 1 + (cur + i) % NBLOCKS       # 127.100.100. (v = 0) is the placeholder block
        res.append(b"127.1%02d.%03d." % (v // 155, 100 + v % 155))
    return res


def rebase(case, block):
    """move a stored case from the placeholder block to a fresh one"""
    return Case(case.comp, case.id, [t.replace(BLOCK0, block) for t in case.toks], dict(case.meta, block=block.decode()))


def placeholder(e):
    return b"z9hG4bK@@@@@@%06d" % e


# ----------------------------------------------------------------------------- SIP text
def msg(start, headers, body=b"", content_length=True, cl_name=b"Content-Length", eol=b"\r\n"):
    out = start + eol
    for n, v in headers:
        out += n + b": " + v + eol
    if content_length:
        out += cl_name + b": " + str(len(body)).encode() + eol
    return out + eol + body


class Scenario:
    def __init__(self, block, name=b"svc.example.com", keep=False, dialog_timeout=1200, keep_env=None):
        """keep: the service's keepNextHopRoute setting, a bool or the text as the YAML shall have it (b"" = the key is
        left out); keep_env: value of the environment variable KEEP_NEXT_HOP_ROUTE the proxy is started under (None = unset)"""
        self.block = block
        self.name, self.dialog_timeout = name, dialog_timeout
        self.keep = keep if isinstance(keep, bytes) else (b"true" if keep else b"false")
        self.keep_env = keep_env
        self.routes, self.hosts, self.listens = [], [], []
        self.tcp_listeners, self.udp_endpoints, self.events = [], [], []
        self.waits = []            # (index of the event it precedes, milliseconds of real time)
        self.yaml_style = {}       # how the same configuration is written down: merge / global / override (see yaml)
        self.meta = {}

    def ip(self, k):
        return self.block + str(k).encode()

    def listen(self, k, udp=5060, tcp=0, backends=(), dyn=False, no_received=None, must_rr=False, dynport=None, dyn_first=False,
               btcp=False):
        """dyn: one more backend entry is a host NAME (resolved later: badd / brem events); dynport: its port (default: the
        port of the first static backend); dyn_first: the name is written before the static entries; btcp: the backends of
        this entry are reached over TCP (tcp://ip:port; the case is then one of the "proxytb" component)"""
        l = {"addr": self.ip(k), "udp": udp, "tcp": tcp, "backends": list(backends), "dyn": dyn, "btcp": btcp,
             "no_received": no_received, "must_rr": must_rr, "dynport_opt": dynport, "dyn_first": dyn_first,
             "dynhost": (b"dyn%d.b%s.test" % (len(self.listens), self.block.replace(b".", b"-"))) if dyn else b""}
        self.listens.append(l)
        return len(self.listens) - 1

    def udp_ep(self, ip, port):
        if (ip, port) not in self.udp_endpoints:
            self.udp_endpoints.append((ip, port))
        return (ip, port)

    def tcp_ln(self, ip, port):
        if (ip, port) not in self.tcp_listeners:
            self.tcp_listeners.append((ip, port))
        return (ip, port)

    # events -------------------------------------------------------------
    def ev_udp(self, li, src, data):
        self.udp_ep(*src)
        self.events.append([b"udp", li, src[0], src[1], data])
        return len(self.events) - 1

    def ev_accept(self, li, ip, port):
        self.events.append([b"accept", li, ip, port])
        return len(self.events) - 1

    def ev_data(self, cid, data):
        self.events.append([b"data", cid, data])
        return len(self.events) - 1

    def ev_close(self, cid):
        self.events.append([b"close", cid])
        return len(self.events) - 1

    def ev_bdata(self, ip, port, data):
        """bytes arriving on the connection the proxy has open TO ip:port (nothing happens when there is none)"""
        self.events.append([b"bdata", ip, port, data])
        return len(self.events) - 1

    def ev_bclose(self, ip, port):
        self.events.append([b"bclose", ip, port])
        return len(self.events) - 1

    def ev_badd(self, li, addr):
        self.events.append([b"badd", li, addr])
        return len(self.events) - 1

    def ev_wait(self, ms):
        """real time passes before the next event (the driver sleeps; the model's clock advances by as much)"""
        self.waits.append((len(self.events), ms))

    def ev_brem(self, li, addr):
        self.events.append([b"brem", li, addr])
        return len(self.events) - 1

    # rendering ----------------------------------------------------------
    def yaml(self):
        y = b"proxies:\n- name: \"" + self.name.replace(b"\\", b"\\\\").replace(b"\"", b"\\\"") + b"\"\n"
        y += b"  dialogTimeout: %d\n" % self.dialog_timeout
        if self.keep != b"":
            y += b"  keepNextHopRoute: \"%s\"\n" % self.keep
        y += b"  listens:\n"
        for l in self.listens:
            y += b"  - address: " + l["addr"] + b"\n"
            if l["udp"]:
                y += b"    udp-port: %d\n" % l["udp"]
            if l["tcp"]:
                y += b"    tcp-port: %d\n" % l["tcp"]
            if l["no_received"] is not None:
                y += b"    no-received: %s\n" % (b"true" if l["no_received"] else b"false")
            if l["must_rr"]:
                y += b"    must-record-route: true\n"
            scheme = b"tcp://" if l.get("btcp") else b"udp://"
            bs = [scheme + b for b in l["backends"]]
            if l["dyn"]:
                port = l["dynport_opt"] or (l["backends"][0].split(b":")[1] if l["backends"] else b"5070")
                l["dynport"] = port
                if l["dyn_first"]:
                    bs.insert(0, scheme + l["dynhost"] + b":" + port)
                else:
                    bs.append(scheme + l["dynhost"] + b":" + port)
            if bs:
                y += b"    backends:\n"
                for b in bs:
                    y += b"    - " + b + b"\n"
        st = self.yaml_style
        if self.routes:
            y += b"  route:\n"
            # consecutive entries with the same protocol and next hop may share one item (several dests): same table
            items = []
            for proto, dest, nh in self.routes:
                if st.get("merge") and items and items[-1][0] == proto and items[-1][2] == nh:
                    items[-1][1].append(dest)
                else:
                    items.append((proto, [dest], nh))
            for proto, dests, nh in items:
                y += b"  - dests:\n" + b"".join(b"    - \"" + d + b"\"\n" for d in dests) + b"    protocol: " + proto + b"\n    nexthop: \"" + nh + b"\"\n"
        # host names: per service, or in the global table of the file; an entry of the service overrides a global one
        glob = [h for k, h in enumerate(self.hosts) if st.get("global") and k % 2 == 0]
        own = [h for h in self.hosts if h not in glob]
        if st.get("override") and self.hosts:
            glob = glob + [(own[-1][0] if own else self.hosts[-1][0], self.ip(3))]
            if not own:
                own = [self.hosts[-1]]
        if own:
            y += b"  hosts:\n"
            for n, i in own:
                y += b"  - name: " + n + b"\n    ip: " + i + b"\n"
        if glob:
            y += b"hosts:\n"
            for n, i in glob:
                y += b"- name: " + n + b"\n  ip: " + i + b"\n"
        return y

    def toks(self):
        t = [self.name, self.keep + (b"|" + self.keep_env if self.keep_env is not None else b""), self.dialog_timeout, len(self.routes)]
        for r in self.routes:
            t += list(r)
        t.append(len(self.hosts))
        for h in self.hosts:
            t += list(h)
        t.append(len(self.listens))
        for l in self.listens:
            t += [l["addr"], l["udp"], l["tcp"], len(l["backends"])] + l["backends"]
            t += [l["dyn"], bool(l["no_received"]), False, l["must_rr"]]
        t.append(self.yaml())
        t.append(len(self.listens))
        t += [l["dynhost"] for l in self.listens]
        t.append(len(self.tcp_listeners))
        for a in self.tcp_listeners:
            t += list(a)
        t.append(len(self.udp_endpoints))
        for a in self.udp_endpoints:
            t += list(a)
        t.append(len(self.events))
        for e in self.events:
            t += e
        if self.waits:
            t += [b"waits", len(self.waits)]
            for i, w in self.waits:
                t += [i, w]
        if self.is_tb():
            t += [b"tcpb", len(self.listens)] + [bool(l.get("btcp")) for l in self.listens]
        return t

    def is_tb(self):
        return any(l.get("btcp") for l in self.listens)

    def case(self, cid, meta=None):
        m = dict(self.meta)
        m.update(meta or {})
        m["block"] = self.block.decode()
        m["events"] = len(self.events)
        # "proxysp": a case in which the proxy sends a request to one of its own sockets (played with repeated barriers)
        return Case("proxysp" if getattr(self, "spiral", False) else "proxytb" if self.is_tb() else "proxy", cid, self.toks(), m)


# ----------------------------------------------------------------------------- observations
def parse_proxy_obs(toks, nevents):
    """-> (list per event of (outputs: list (label, bytes), closed: list int), trailer tokens)"""
    res, i = [], 0
    try:
        for _ in range(nevents):
            if i >= len(toks) or toks[i] in (b"panic", b"err", b"notes", b"crash"):
                break
            n = int(toks[i]); i += 1
            outs = []
            for _ in range(n):
                outs.append((toks[i], toks[i + 1])); i += 2
            c = int(toks[i]); i += 1
            closed = [int(x) for x in toks[i:i + c]]; i += c
            res.append((outs, closed))
    except (ValueError, IndexError):
        return res, [b"unparsable"] + toks[i:]
    return res, toks[i:]


def normalise(events):
    """group per label: UDP datagrams stay separate (order kept), TCP bytes are concatenated"""
    out = []
    for outs, closed in events:
        g = {}
        for lab, data in outs:
            if lab.startswith(b"conn:"):
                g[lab] = [b"".join(g.get(lab, [])) + data]
            else:
                g.setdefault(lab, []).append(data)
        out.append((sorted(g.items()), sorted(closed)))
    return out
