"""Random whole-proxy scenarios: configuration + peers + traffic flows, with knobs that let each
property bias the mix towards its own quantifier.  Everything is derived from the rng given."""
import proxygen as pg
from proxygen import msg, placeholder, Scenario

METHODS = [b"INVITE", b"ACK", b"BYE", b"OPTIONS", b"REGISTER", b"UPDATE", b"INFO", b"NOTIFY", b"SUBSCRIBE",
           b"MESSAGE", b"PRACK", b"X-ODD_tok.1!"]
COMPACT = {b"Via": b"v", b"From": b"f", b"To": b"t", b"Call-ID": b"i", b"Content-Length": b"l", b"Contact": b"m",
           b"Content-Type": b"c", b"Supported": b"k", b"Subject": b"s", b"Event": b"o"}
TOK = b"abcdefghijklmnopqrstuvwxyzABCDEFGHIJKLMNOPQRSTUVWXYZ0123456789"


def tok(rng, lo=1, hi=8, extra=b""):
    alpha = TOK + extra
    return bytes(rng.choice(alpha) for _ in range(rng.randrange(lo, hi + 1)))


def spell(rng, name, mode):
    """respell a header name: canonical / compact / upper / lower / random case"""
    if mode == 0:
        return name
    if mode == 1 and name in COMPACT:
        c = COMPACT[name]
        return c if rng.random() < 0.5 else c.upper()
    if mode == 2:
        return name.upper()
    if mode == 3:
        return name.lower()
    return bytes((ch ^ 0x20) if (65 <= ch <= 90 or 97 <= ch <= 122) and rng.random() < 0.5 else ch for ch in name)


USPACE = [b"\xc2\x85", b"\xc2\xa0", b"\xe1\x9a\x80", b"\xe2\x80\xa8", b"\xe2\x80\xa9", b"\xe2\x80\xaf", b"\xe2\x81\x9f", b"\xe3\x80\x80"] + \
         [b"\xe2\x80" + bytes([0x80 + i]) for i in range(11)]


def go_trim(v):
    """strings.TrimSpace: ASCII white space and the UTF-8 encodings of the Unicode White_Space runes"""
    while True:
        w = v.strip(b" \t\r\n\x0b\x0c")
        for u in USPACE:
            if w.startswith(u):
                w = w[len(u):]
            if w.endswith(u):
                w = w[:-len(u)]
        if w == v:
            return v
        v = w


# the model splits start line, CSeq and Via sent-protocol like strings.Fields (Unicode white space too): generate such input
USP_FIELDS = True

# byte sequences that LOOK like a Unicode space but are not one for strings.TrimSpace: lone
# continuation bytes, a lone start byte, truncated sequences, U+200B (zero width space), an overlong form
NOT_USPACE = [b"\xa0", b"\x85", b"\xc2", b"\xe2\x80", b"\xe2\x80\x8b", b"\xe1\x9a", b"\xc0\xa0", b"\xe3\x80\x81"]


def ext_value(rng, big=False):
    """a header value.  About one in 15 deliberately begins and/or ends with the UTF-8 encoding of a
    Unicode White_Space rune (strings.TrimSpace strips it: the value the proxy holds and relays is
    go_trim(v)) or with a look-alike that is NOT white space (kept as is)."""
    v = ext_value_raw(rng, big)
    if rng.randrange(15) == 0:
        def edge():
            return rng.choice(USPACE) if rng.random() < 0.6 else rng.choice(NOT_USPACE)
        k = rng.randrange(4)
        if k == 0:
            v = edge() + v
        elif k == 1:
            v = v + edge()
        elif k == 2:
            v = edge() + rng.choice([b"", b" ", b"\t"]) + v + rng.choice([b"", b" "]) + edge()
        else:
            v = rng.choice(USPACE) + rng.choice(USPACE) + v + rng.choice(NOT_USPACE) + rng.choice(USPACE)
    return v                # (go_trim is no longer applied: the model trims like strings.TrimSpace)


def ext_value_raw(rng, big=False):
    k = rng.randrange(10)
    if k == 0:
        return b""
    if k == 1:
        return b"%41%sz %d %!v(MISSING)"
    if k == 2:
        return b"\"quoted ; , <x>\" ;p=1, second;q"
    if k == 3:
        return bytes(rng.randrange(128, 256) for _ in range(rng.randrange(1, 20)))      # non-UTF-8
    if k == 4:
        return "héllo 世界".encode("utf-8")
    if k == 5 and big:
        n = rng.choice([100, 1000, 4000, 4090, 4096, 5000, 9000, 16000])
        return bytes(rng.choice(b"abc;,%\"=<> ") for _ in range(n)).strip() or b"x"
    return tok(rng, 1, 30, b";,=%\"<>@:/?&.-_ ").strip()


def body_bytes(rng, big=False):
    k = rng.randrange(8)
    if k < 3:
        return b""
    if k == 3:
        return b"v=0\r\no=- 1 1 IN IP4 127.0.0.1\r\ns=-\r\n\r\nINVITE sip:x SIP/2.0\r\nContent-Length: 99\r\n\r\n"
    if k == 4:
        return bytes(rng.randrange(256) for _ in range(rng.randrange(1, 300)))
    if k == 5 and big:
        return bytes(rng.randrange(256) for _ in range(rng.choice([1000, 4096, 20000, 60000])))
    return b"\x00\r\n\r\n\x00" + tok(rng, 0, 50)


# Expires values: canonical, and legal-but-not-canonical spellings (leading zeros, sign) that a relay must not rewrite
EXPIRES = [b"3600", b"60", b"abc", b"0", b"0600", b"007", b"+60", b"-5", b"00", b"1800"]


class Flows:
    """one scenario under construction"""

    def __init__(self, rng, block, opts=None):
        self.rng, self.o = rng, dict(opts or {})
        o = self.o
        r = rng
        names = o.get("names") or r.choice([
            b"svc.example.com", b"svc.example.com, alt.example.net", b"sos@emergency.example",
            b"urn:service:sos", b"tel:+15551234", b"^sos.*@example.org$", b"b.b@svc.example.com", b"gw.+local",
            # a user@host name that is NOT a regular expression ('+' with nothing to repeat): only the literal comparison can match it
            b"+1555@svc.example.com", b"other.example, +help@desk.example",
            # a plain word without any meta character is STILL a pattern: it matches wherever it occurs in user@host
            b"pbx", b"desk, pbx"])
        # keepNextHopRoute as an operator may write it, and the environment default it overrides unless it is empty
        keep = o.get("keep", r.random() < 0.5)
        keep_env = None
        if r.random() < 0.35:
            keep = r.choice([b"yes", b"On", b"T", b"y", b"1", b"TRUE"] if keep else [b"no", b"off", b"0", b"False", b"maybe", b"n"])
        if r.random() < 0.3:
            keep_env = r.choice([b"true", b"1", b"yes", b"false", b"0", b"", b"on"])
            if r.random() < 0.4:
                keep = b""                      # the key is left out: the environment decides
        self.s = s = Scenario(block, name=names, keep=keep, keep_env=keep_env,
                              dialog_timeout=o.get("dialog_timeout", 1200))
        self.names = names
        # the same table written down differently: several dests per route item, host names in the file's global table,
        # a global entry overridden by the service's own
        s.yaml_style = {"merge": r.random() < 0.5, "global": r.random() < 0.4, "override": r.random() < 0.3}
        nb = o.get("backends", r.choice([0, 1, 2, 2, 3, 4]))
        bp = o.get("backend_port", 5070)
        self.backends = [s.ip(11 + i) + b":%d" % bp for i in range(nb)]
        # btcp: the backends are reached over TCP (tcp://ip:port): they accept connections, and what they send arrives on the
        # connection the proxy opened to them (a stray datagram to their address would be seen, too)
        self.btcp = bool(o.get("btcp", False))
        for b in self.backends:
            s.udp_ep(b.split(b":")[0], bp)
            if self.btcp:
                s.tcp_ln(b.split(b":")[0], bp)
        tcp = 5061 if o.get("tcp", r.random() < 0.3) else 0
        self.li = s.listen(1, udp=5060, tcp=tcp, backends=self.backends, dyn=o.get("dyn", False), btcp=self.btcp,
                           dynport=o.get("dynport"), dyn_first=o.get("dyn_first", False),
                           no_received=o.get("no_received", r.choice([None, None, True, False])),
                           must_rr=o.get("must_rr", r.random() < 0.3))
        self.l2 = None
        if o.get("two_listeners", r.random() < 0.3):
            self.l2 = s.listen(2, udp=5060, tcp=0, backends=[], no_received=r.choice([None, True, False]),
                               must_rr=r.random() < 0.3)
        # host table: names for the listener, next hops, a UA
        s.hosts = [(b"proxy.local", s.ip(1)), (b"hop1.local", s.ip(31)), (b"ua1.local", s.ip(21)),
                   (b"alias.local", s.ip(1))]
        self.uas = [s.udp_ep(s.ip(21 + i), 5060) for i in range(3)]
        self.hops = [s.udp_ep(s.ip(31 + i), 5080) for i in range(3)]
        for ep in self.uas + self.hops:            # every address a sent-by / received / rport combination can name
            for port in (5060, 5080):
                s.udp_ep(ep[0], port)
        s.udp_ep(s.ip(1), 5099)                    # near misses: right host wrong port, foreign host right port
        s.udp_ep(s.ip(3), 5060)
        self.tcphops = [s.tcp_ln(s.ip(35), 5090)] if o.get("tcphops", r.random() < 0.3) else []
        # static routes
        nr = o.get("routes", r.choice([0, 1, 2, 3, 4, 5]))
        # overlapping entries on purpose: a literal that a wildcard listed BEFORE or AFTER it also covers (the literal wins),
        # two wildcards covering the same hosts, a default
        pool = [(b"static.example.org", 0), (b"*.wild.example.org", 1), (b"default", 2), (b"other.example.org", 0),
                (b"tcp.example.org", 3), (b"a.wild.example.org", 2), (b"*.example.org", 2)]
        for dest, hopi in r.sample(pool, min(nr, len(pool))):
            if hopi == 3:
                if self.tcphops:
                    s.routes.append((r.choice([b"tcp", b"TCP"]), dest, s.ip(35) + b":5090"))
                else:
                    s.routes.append((b"tls", dest, s.ip(31) + b":5080"))          # unsupported transport
            else:
                h = self.hops[hopi % len(self.hops)]
                nh = r.choice([h[0] + b":5080", b"hop1.local:5080" if hopi % 3 == 0 else h[0] + b":5080"])
                s.routes.append((r.choice([b"udp", b"UDP"]), dest, nh))
        # an operator groups dests that share a next hop into one route item: make neighbours share protocol and next hop
        # now and then (the YAML style "merge" then writes them as ONE item with several dests, wildcards in any position)
        for k in range(1, len(s.routes)):
            if r.random() < 0.35 and s.routes[k][0].lower() in (b"udp",) and s.routes[k - 1][0].lower() in (b"udp",):
                s.routes[k] = (s.routes[k - 1][0], s.routes[k][1], s.routes[k - 1][2])
        self.dialogs = []          # (callid, (ftag, furi), (ttag, turi), backend or None)
        self.pending = []          # requests sent to a backend: (event, request headers..., ua)
        self.foreign = []          # dialogs seen only in responses of non-backend peers (raw_response)
        self.learned2 = []         # next hops that sent a request to listener 2
        self.seq = 0
        self.conns = []            # client connections opened to the proxy: (cid, ip, port)
        self.next_conn = 0         # connection ids are handed out in order: accepts and the proxy's own dials
        self.out_conn = None       # the connection the proxy dialled to the TCP next hop
        self.rt_conn = None        # the accepted connection Route-carrying requests arrive on
        self.nobranch = False      # the next request's top Via carries no branch

    # ---- pieces
    def from_backend(self, ip, port, data):
        """what a backend sends: a datagram from its address, or bytes on the connection the proxy opened to it"""
        if self.btcp:
            return self.s.ev_bdata(ip, int(port), data)
        return self.s.ev_udp(self.li, (ip, int(port)), data)

    def nid(self):
        self.seq += 1
        return self.seq

    def service_uri(self, hit=True):
        n, r, s = self.names, self.rng, self.s
        if not hit:
            return r.choice([b"sip:nobody@foreign.example.net", b"urn:service:other", b"sip:" + s.ip(1) + b":5999",
                             b"tel:+19990000"])
        if r.random() < 0.15:
            return b"sip:" + r.choice([b"", b"u@"]) + s.ip(1) + r.choice([b":5060", b""])     # listener address
        if n.startswith(b"urn:") or n.startswith(b"tel:"):
            return n
        if b"sos.*" in n:
            return b"sip:sos-" + tok(r, 0, 4) + b"@example.org"
        if n.startswith(b"gw"):
            return b"sip:x@gw" + tok(r, 1, 3) + b"local"
        first = r.choice(n.split(b",")).strip()
        if first in (b"pbx", b"desk"):
            return r.choice([b"sip:" + first, b"sip:alice@" + first + b".example.com", b"sip:x@my" + first + b"host:5070",
                             b"sip:" + first + b"-7@h.example", b"urn:service:" + first])
        if first[:1] in (b"+", b"?"):
            return b"sip:" + first + r.choice([b"", b":5070", b";x=1"])
        if b"@" in first:
            return b"sip:" + first.replace(b"b.b", r.choice([b"b.b", b"bxb"]) if first.startswith(b"b.b") else first.split(b"@")[0])
        return b"sip:" + r.choice([b"", b"bob@", b"bob:pw@"]) + first + r.choice([b"", b":5070", b";transport=tcp", b";x;lr"])

    def via_stack(self, ua, proto=b"UDP", n=None):
        r = self.rng
        n = n if n is not None else r.choice([1, 1, 1, 2, 3])
        vias = []
        top = b"SIP/2.0/" + proto + b" " + r.choice([ua[0] + b":%d" % ua[1], ua[0] + b":%d" % ua[1], ua[0]])
        # a top Via without a branch is legal (RFC 2543 style): no client transaction can be formed from it, the request
        # is relayed all the same
        if not (self.nobranch or r.random() < 0.03):
            top += b";branch=z9hG4bK-g%d" % self.nid()
        # (parameter names in other letter cases are other parameters to the proxy's exact-match look-ups and updates)
        top += r.choice([b"", b";rport", b";rport;x=1", b";received=10.9.9.9", b";rport=1;received=10.9.9.9", b";y", b";rport=5080",
                         b";Received=10.9.9.9", b";RPORT;received=10.9.9.9", b";Rport=7;RECEIVED=10.8.8.8;rport"])
        vias.append(top)
        for i in range(n - 1):
            # hosts further down the stack: names, and sometimes the address of a next hop (a host the proxy learns
            # ONLY from this Via entry: it never sends a request itself)
            host = b"up%d.example.net" % i if r.random() < 0.6 else r.choice(self.hops)[0]
            vias.append(b"SIP/2.0/UDP %s%s;branch=z9hG4bK-g%d%s" % (
                host, r.choice([b"", b":5062"]), self.nid(), r.choice([b"", b";ttl=1;maddr=1.2.3.4", b";received=10.1.1.1"])))
        return vias

    def layout(self, name, values, mode):
        """header lines for a multi-valued header: comma list / repeated lines / mixed"""
        r = self.rng
        lines, i = [], 0
        while i < len(values):
            k = 1 if r.random() < 0.5 else r.randrange(1, len(values) - i + 1)
            lines.append((spell(r, name, mode if r.random() < 0.7 else 0), b",".join(values[i:i + k])))
            i += k
        return lines

    def extras(self):
        r, o = self.rng, self.o
        n = r.choice([0, 0, 1, 2, 3, 6]) if not o.get("many_ext") else r.randrange(0, 41)
        hs = []
        for _ in range(n):
            name = r.choice([b"X-" + tok(r, 1, 6), b"Subject", b"s", b"Contact", b"m", b"User-Agent", b"x-FOO", b"P-Asserted-Identity",
                             b"Supported", b"k", b"Accept", b"Max-Forwards", b"Expires", b"Content-Type", b"c"])
            v = ext_value(r, o.get("big", False) and sum(len(x[1]) for x in hs) < 30000)
            if name == b"Expires":
                v = r.choice(EXPIRES)
            if name == b"Max-Forwards":
                v = b"70"
            hs.append((name, v))
        return hs

    def ft(self, uri, tag, rich):
        r = self.rng
        if not rich:
            v = b"<" + uri + b">"
        else:
            k = r.randrange(4)
            if k == 0 and b";" not in uri and b"?" not in uri:
                v = uri
            elif k == 1:
                v = r.choice([b"\"A. User-1\" <", b"\"A. User-1\" <", b"\"Smith; John\" <"]) + uri + b">"
            elif k == 2:
                v = b"Alice <" + uri + (b";user=phone" if uri.startswith(b"sip:") else b"") + b">"
            else:
                v = b"<" + uri + b">"
        # header parameters before / after the tag; a quoted value may contain '<' '>' ',' when the URI is in <...> form
        quoted_ok = v.startswith(b"<") or b" <" in v or b"\" <" in v
        if rich and quoted_ok and r.random() < 0.15:
            v += b";x-inst=\"<urn:uuid:0-1>\""
        if tag is not None:
            v += b";tag=" + tag
        if rich and r.random() < 0.3:
            v += r.choice([b";x=y", b";x=y", b";q=\"a>b\"" if quoted_ok else b";x=y"])
        return v

    def request(self, method, ruri, ua, frm, to, callid, cseq=None, routes=(), rr=(), proto=b"UDP", nvia=None,
                body=None, extra=None):
        r = self.rng
        mode = self.o.get("spell", r.choice([0, 0, 0, 1, 2, 3, 4]))
        hs = self.layout(b"Via", self.via_stack(ua, proto, nvia), mode)
        core = [(spell(r, b"From", mode), frm), (spell(r, b"To", mode), to), (spell(r, b"Call-ID", mode), callid),
                (spell(r, b"CSeq", mode), cseq or (b"%d " % r.randrange(1, 9999)) + method)]
        if routes:
            core += self.layout(b"Route", list(routes), mode)
        if rr:
            core += self.layout(b"Record-Route", list(rr), mode)
        core += extra if extra is not None else self.extras()
        if self.o.get("shuffle", r.random() < 0.3):
            r.shuffle(core)
        # Via rows need not be contiguous: sometimes the last Via line comes after other headers
        if len(hs) >= 2 and r.random() < 0.25:
            core.insert(r.randrange(0, len(core) + 1), hs.pop())
        hs += core
        b = body if body is not None else body_bytes(r, self.o.get("big", False))
        data = msg(method + b" " + ruri + b" SIP/2.0", hs, b, cl_name=spell(r, b"Content-Length", mode))
        if len(data) > 60000:          # must fit a UDP datagram, also after the proxy has added its Via / Record-Route
            b = b[:max(0, len(b) - (len(data) - 60000))]
            data = msg(method + b" " + ruri + b" SIP/2.0", hs, b, cl_name=spell(r, b"Content-Length", mode))
        return data, hs

    def surplus(self, data):
        """a datagram may be longer than its message (RFC 3261 18.3: the surplus is discarded): sometimes append some"""
        r = self.rng
        if r.random() < 0.08 and len(data) < 50000:
            return data + r.choice([b"a=sendrecv", b"\r\n", b"xx\r\nyy: zz\r\n\r\n", b"\x00\x00", b"INVITE sip:x SIP/2.0\r\n"])
        return data

    # ---- flows
    def uri_pair(self):
        r, s = self.rng, self.s
        a = r.choice([b"sip:alice@a.example", b"sip:alice@" + s.ip(21), b"tel:+1555", b"sip:a-b@h-1.example:5070",
                      b"urn:x:1", b"sip:same@h.example"])
        b = r.choice([b"sip:bob@svc.example.com", b"sip:same@h.example", b"sip:bob@b.example", b"tel:+1666"])
        return a, b

    def to_service(self, method=None, in_dialog=None, hit=True, proto=b"UDP", conn=None):
        """request addressed to the service (goes to a backend); returns event index"""
        r, s = self.rng, self.s
        method = method or r.choice(METHODS)
        ua = r.choice(self.uas)
        if in_dialog is not None:
            callid, (ta, ua_uri), (tb, ub_uri) = in_dialog[:3]
            if r.random() < 0.5:
                frm, to = self.ft(ua_uri, ta, True), self.ft(ub_uri, tb, True)
            else:
                frm, to = self.ft(ub_uri, tb, True), self.ft(ua_uri, ta, True)
        else:
            a, b = self.uri_pair()
            callid = b"cid-%d-%s" % (self.nid(), tok(r, 1, 5, b"-"))
            ta = tok(r, 1, 6, b"-")
            frm, to = self.ft(a, ta, r.random() < 0.5), self.ft(b, None, r.random() < 0.5)
            in_dialog = None
        ruri = self.service_uri(hit)
        data, hs = self.request(method, ruri, ua, frm, to, callid, proto=proto)
        if conn is None:
            e = s.ev_udp(self.li, ua, self.surplus(data))
        else:
            e = s.ev_data(conn, data)
        if hit and self.backends:
            self.pending.append({"e": e, "hs": hs, "ua": ua, "method": method, "callid": callid, "frm": frm, "to": to,
                                 "dialog": in_dialog})
        return e

    def backend_response(self, pend=None, code=None, from_backend=None, add_to_tag=True, own_expires=None):
        """a response to a request that went to a backend, sent from a backend address
        (own_expires: None = sometimes a random one, False = none, bytes = that value)"""
        r, s = self.rng, self.s
        if not self.pending or not self.backends:
            return None
        p = pend or r.choice(self.pending)
        code = code or r.choice([100, 180, 200, 200, 200, 202, 302, 404, 486, 503, 603, 699])
        l = s.listens[self.li]
        vias = [b"SIP/2.0/UDP " + l["addr"] + b":%d;branch=" % l["udp"] + placeholder(p["e"])]
        hs = [(b"Via", vias[0])]
        to = p["to"]
        method = p["method"]
        for n, v in p["hs"]:
            if n.lower() in (b"via", b"v"):
                hs.append((n, v))
            elif n.lower() in (b"from", b"f", b"call-id", b"i", b"cseq", b"record-route", b"expires"):
                hs.append((n, v))
            elif n.lower() in (b"to", b"t"):
                if b"tag=" not in v and add_to_tag and code >= 180:
                    p.setdefault("totag", tok(r, 1, 5, b"-"))
                    v = v + b";tag=" + p["totag"]
                hs.append((n, v))
        # the answer's own Expires (read by the proxy when it binds the dialog, and none of its business otherwise)
        if own_expires is None:
            if not any(n.lower() == b"expires" for n, _ in hs) and r.random() < 0.2:
                hs.append((b"Expires", r.choice(EXPIRES)))
        elif own_expires is not False:
            hs.append((b"Expires", own_expires))
        b = from_backend or r.choice(self.backends)
        ip, port = b.split(b":")
        data = msg(b"SIP/2.0 %d %s" % (code, r.choice([b"OK", b"Ringing", b"Not Found Here", b"x"])), hs,
                   body_bytes(r) if r.random() < 0.3 else b"")
        e = self.from_backend(ip, port, data)
        p["answered_by"] = b
        return e

    def route_request(self, kind=None, hopkind=None):
        """request carrying a Route set"""
        r, s = self.rng, self.s
        l = s.listens[self.li]
        # one time in five (when there is a TCP listener) the request arrives over an accepted TCP connection.  The own
        # entries then name the TCP port: an entry naming the listener's UDP port is NOT the TCP listener's own, the request
        # would be sent to the proxy's own UDP socket and come back in - a feedback loop the model does not play
        over_tcp = bool(l["tcp"]) and r.random() < 0.2
        op = l["tcp"] if over_tcp else l["udp"]
        own = [b"<sip:" + l["addr"] + b":%d;lr>" % op, b"<sip:proxy.local:%d;lr>" % op,
               b"<sip:alias.local:%d;lr>;hp=1" % op, b"\"P\" <sip:u@" + l["addr"] + b":%d;lr;x=1>" % op]
        near = [b"<sip:" + l["addr"] + b":5099;lr>", b"<sip:hop1.local:5060;lr>", b"<sip:" + s.ip(3) + b":5060;lr>"]
        hk = hopkind or r.choice(["udp", "udp", "name", "tcp", "tls", "noport", "tel"])
        h = r.choice(self.hops)
        nxt = {"udp": b"<sip:" + h[0] + b":5080;lr>",
               "name": b"<sip:hop1.local:5080;lr;foo>",
               "tcp": b"<sip:" + s.ip(35) + b":5090;transport=tcp;lr>",
               "tls": b"<sip:" + h[0] + b":5080;transport=tls>",
               "noport": b"<sip:" + h[0] + b";lr>",
               "tel": b"<tel:+1234>"}[hk]
        more = [b"<sip:far%d.example.net;lr>;p=%d" % (i, i) for i in range(r.choice([0, 0, 1, 2, 3]))]
        kind = kind or r.choice(["own", "own+next", "next", "near+next"])
        routes = {"own": [r.choice(own)], "own+next": [r.choice(own), nxt], "next": [nxt],
                  "near+next": [r.choice(near), nxt], "own+own": [r.choice(own), r.choice(own), nxt]}[kind] + more
        a, b = self.uri_pair()
        ua = r.choice(self.uas)
        tohost = r.choice([b"static.example.org", b"x.wild.example.org", b"nowhere.example.net"])
        rr = [b"<sip:up.example.net;lr>"] if r.random() < 0.4 else []
        if over_tcp:
            # one time in three from a client whose top Via has no branch
            if self.rt_conn is None:
                s.ev_accept(self.li, s.ip(22), 43000 + self.next_conn)
                self.rt_conn = self.next_conn
                self.next_conn += 1
            self.nobranch = r.random() < 0.34
            data, hs = self.request(r.choice(METHODS), self.service_uri(r.random() < 0.5), (s.ip(22), 5060), self.ft(a, b"t%d" % self.nid(), True),
                                    self.ft(b"sip:u@" + tohost, None, True), b"rc-%d" % self.nid(), routes=routes, rr=rr, proto=b"TCP")
            self.nobranch = False
            return s.ev_data(self.rt_conn, data)
        data, hs = self.request(r.choice(METHODS), self.service_uri(r.random() < 0.5), ua, self.ft(a, b"t%d" % self.nid(), True),
                                self.ft(b"sip:u@" + tohost, None, True), b"rc-%d" % self.nid(), routes=routes, rr=rr)
        return s.ev_udp(self.li, ua, self.surplus(data))

    def backend_subscribe(self, d, refresh=None, expires=b"600"):
        """see backend_subscribe_ (refresh = a dialog returned earlier: the backend refreshes that subscription)"""
        return self.backend_subscribe_(d, refresh, expires)

    def backend_subscribe_(self, d, refresh, expires):
        """a SUBSCRIBE issued BY a backend (from its configured address), routed to a UA, and the UA's answer relayed back
        towards that backend: the answer binds the dialog to the backend (C04's second way of binding).  Returns the
        dialog as dialog_history keeps it (state 2, answered = that backend), or None."""
        r, s = self.rng, self.s
        if not self.backends:
            return None
        l = s.listens[self.li]
        if refresh is None:
            b = r.choice(self.backends)
            bip, bport = b.split(b":")
            ua = r.choice(self.uas)
            callid = b"bsub-%d-%s" % (d, tok(r, 1, 4, b"-"))
            tb, tu = tok(r, 1, 5, b"-"), tok(r, 1, 5, b"-")
            buri, uuri = b"sip:svc%d@" % d + bip, b"sip:watcher%d@a.example" % d
            frm, to, cseq = b"<" + buri + b">;tag=" + tb, b"<" + uuri + b">", 1
        else:
            b, ua, callid, tb, tu, buri, uuri = (refresh[k] for k in ("answered", "peer", "callid", "ta", "tb", "ua", "ub"))
            bip, bport = b.split(b":")
            frm, to, cseq = b"<" + buri + b">;tag=" + tb, b"<" + uuri + b">;tag=" + tu, refresh["cseq"] + 1
        via = (b"SIP/2.0/TCP " if self.btcp else b"SIP/2.0/UDP ") + b + b";branch=z9hG4bK-bs%d" % self.nid()
        ex = [(b"Expires", expires)] if expires is not None else []
        hs = [(b"Via", via), (b"Route", b"<sip:" + ua[0] + b":%d;lr>" % ua[1]), (b"From", frm), (b"To", to), (b"Call-ID", callid),
              (b"CSeq", b"%d SUBSCRIBE" % cseq), (b"Event", b"presence")] + ex
        e = self.from_backend(bip, bport, msg(b"SUBSCRIBE " + uuri + b" SIP/2.0", hs))
        # the UA's answer: the proxy's Via on top, then the backend's Via as the proxy relayed it (stamped unless no-received)
        echoed = via if l["no_received"] else via + b";received=" + bip
        code = r.choice([200, 200, 202])
        if r.random() < 0.35:
            # a provisional answer first: no To tag yet (no dialog can be formed from it), relayed towards the backend all the same
            rs0 = [(b"Via", b"SIP/2.0/UDP " + l["addr"] + b":%d;branch=" % l["udp"] + placeholder(e)), (b"Via", echoed), (b"From", frm),
                   (b"To", to), (b"Call-ID", callid), (b"CSeq", b"%d SUBSCRIBE" % cseq)]
            s.ev_udp(self.li, ua, msg(b"SIP/2.0 100 Trying", rs0))
        rs = [(b"Via", b"SIP/2.0/UDP " + l["addr"] + b":%d;branch=" % l["udp"] + placeholder(e)), (b"Via", echoed), (b"From", frm),
              (b"To", to if refresh is not None else to + b";tag=" + tu), (b"Call-ID", callid), (b"CSeq", b"%d SUBSCRIBE" % cseq)] + ex
        s.ev_udp(self.li, ua, msg(b"SIP/2.0 %d OK" % code, rs))
        return {"callid": callid, "ta": tb, "tb": tu, "ua": buri, "ub": uuri, "state": 2, "answered": b, "method": b"SUBSCRIBE",
                "peer": ua, "cseq": cseq}

    def cross_listener(self):
        """a next hop learned through the OTHER listener: the hop first sends a request of its own to listener 2 (the
        proxy learns it there); later a request arriving on listener 1 is routed to it (it leaves through listener 2:
        the new Via AND the Record-Route entry must name that listener)"""
        r, s = self.rng, self.s
        if self.l2 is None:
            return None
        h = r.choice(self.hops)
        if h not in self.learned2 or r.random() < 0.25:
            a, b = self.uri_pair()
            other = r.choice([x for x in self.hops if x != h])
            data, hs = self.request(r.choice(METHODS), b"sip:x@elsewhere.example.net", h, self.ft(a, b"x%d" % self.nid(), False),
                                    self.ft(b"sip:u@nowhere.example.net", None, False), b"xl-%d" % self.nid(),
                                    routes=[b"<sip:" + other[0] + b":5080;lr>"] if r.random() < 0.7 else ())
            self.learned2.append(h)
            return s.ev_udp(self.l2, h, data)
        a, b = self.uri_pair()
        ua = r.choice(self.uas)
        rr = [b"<sip:up.example.net;lr>"] if r.random() < 0.6 else []
        data, hs = self.request(r.choice(METHODS), b"sip:x@elsewhere.example.net", ua, self.ft(a, b"y%d" % self.nid(), True),
                                self.ft(b"sip:u@nowhere.example.net", None, True), b"xr-%d" % self.nid(),
                                routes=[b"<sip:" + h[0] + b":5080;lr>"], rr=rr)
        return s.ev_udp(self.li, ua, data)

    def static_request(self, host=None):
        r, s = self.rng, self.s
        host = host or r.choice([b"static.example.org", b"a.wild.example.org", b"b.c.wild.example.org", b"other.example.org",
                                 b"tcp.example.org", b"unrouted.example.net", b"STATIC.example.org"])
        a, _ = self.uri_pair()
        ua = r.choice(self.uas)
        to = self.ft(b"sip:" + r.choice([b"", b"u@"]) + host + r.choice([b"", b":5099"]), None, True)
        rr = [b"<sip:up.example.net;lr>"] if r.random() < 0.3 else []
        data, hs = self.request(r.choice(METHODS), b"sip:someone@" + host, ua, self.ft(a, b"s%d" % self.nid(), True), to,
                                b"sc-%d" % self.nid(), rr=rr)
        return s.ev_udp(self.li, ua, self.surplus(data))

    def raw_response(self, method=None, code=None):
        """a response with an arbitrary Via stack, from a non-backend peer; its dialog (both tags, no
        backend involved) is remembered as a FOREIGN dialog: later requests inside it are addressed to
        the service and must simply be load-balanced"""
        r, s = self.rng, self.s
        n = r.randrange(1, 7)
        l = s.listens[self.li]
        vias = [b"SIP/2.0/UDP " + l["addr"] + b":5060;branch=z9hG4bK-own%d" % self.nid()]
        for i in range(n - 1):
            tr = r.choice([b"UDP", b"UDP", b"udp", b"TCP", b"TLS", b"SCTP"])
            h = r.choice([self.uas[0][0], self.uas[1][0], b"ua1.local", self.hops[0][0]])
            # a Via entry without a branch is legal (RFC 2543 style): no transaction id can be formed from it
            v = b"SIP/2.0/" + tr + b" " + h + r.choice([b"", b":5060", b":5080"]) + \
                (b";branch=z9hG4bK-r%d" % self.nid() if r.random() < 0.8 else r.choice([b"", b";ttl=1"]))
            v += r.choice([b"", b";rport", b";rport=5080", b";rport=5060", b";received=" + self.uas[2][0], b";received=" + self.uas[2][0] + b";rport=5060",
                           b";rport=abc;received=" + self.uas[1][0], b";x=1;y"])
            vias.append(v)
        mode = r.choice([0, 0, 1, 2, 3, 4])
        hs = self.layout(b"Via", vias, mode)
        a, b = self.uri_pair()
        frm, to, callid = self.ft(a, b"f1", True), self.ft(b, b"t1", True), b"rr-%d" % self.nid()
        method = method or r.choice(METHODS + [b"INVITE", b"INVITE"])
        hs += [(spell(r, b"From", mode), frm), (spell(r, b"To", mode), to),
               (spell(r, b"Call-ID", mode), callid), (b"CSeq", b"%d %s" % (r.randrange(1, 99), method))]
        hs += self.extras()
        code = code or r.choice([100, 183, 200, 200, 301, 404, 500, 600])
        self.foreign.append({"callid": callid, "frm": frm, "to": to, "totag": b"t1"})
        data = msg(b"SIP/2.0 %d Some Reason" % code, hs, body_bytes(r), cl_name=spell(r, b"Content-Length", mode))
        src = r.choice(self.hops)
        return s.ev_udp(self.li, src, data)

    def pipelined_tcp(self):
        """two or three requests written back to back on one client connection (one segment): the
        second carries a body of several KiB, so the reader's buffer is refilled while the first
        message still waits in the proxy's queue"""
        r, s = self.rng, self.s
        if not s.listens[self.li]["tcp"] or not self.backends:
            return None
        s.ev_accept(self.li, s.ip(22), 43000 + self.next_conn)
        cid = self.next_conn
        self.next_conn += 1
        chunk = b""
        for k in range(r.choice([2, 2, 3])):
            a, b = self.uri_pair()
            body = bytes(r.randrange(256) for _ in range(r.choice([200, 900, 3000]))) if k == 0 else \
                bytes(r.randrange(256) for _ in range(r.choice([3000, 5000, 9000])))
            data, hs = self.request(r.choice(METHODS), self.service_uri(True), (s.ip(22), 5060), self.ft(a, b"p%d" % self.nid(), True),
                                    self.ft(b, None, True), b"pl-%d" % self.nid(), proto=b"TCP", body=body, extra=[])
            chunk += data
        return s.ev_data(cid, chunk)

    def outbound_tcp(self):
        """a request routed to the TCP next hop (the proxy dials it), then requests coming BACK over that
        connection from the next hop (received-support of connections the proxy opened itself)"""
        r, s = self.rng, self.s
        if not self.tcphops:
            return None
        hop = self.tcphops[0]
        if self.out_conn is None:
            a, b = self.uri_pair()
            ua = r.choice(self.uas)
            data, hs = self.request(r.choice(METHODS), b"sip:x@elsewhere.example.net", ua, self.ft(a, b"o%d" % self.nid(), False),
                                    self.ft(b"sip:u@nowhere.example.net", None, False), b"ob-%d" % self.nid(),
                                    routes=[b"<sip:" + hop[0] + b":%d;transport=tcp;lr>" % hop[1]])
            s.ev_udp(self.li, ua, data)
            self.out_conn = self.next_conn
            self.next_conn += 1
            return self.out_conn
        if r.random() < 0.2:
            # the next hop closes the connection: the proxy's cached client connection is stale, the next request routed
            # there must be written on a connection dialled anew
            s.ev_close(self.out_conn)
            self.out_conn = None
            return None
        # the next hop sends a request of its own over the connection the proxy opened
        sentby = r.choice([b"10.2.2.2:5080", hop[0] + b":%d" % hop[1], b"10.2.2.2"])
        via = b"SIP/2.0/TCP " + sentby + b";branch=z9hG4bK-ob%d" % self.nid() + r.choice([b"", b";rport", b";rport=7;received=10.7.7.7", b";received=10.7.7.7"])
        h = r.choice(self.hops)
        hs = [(b"Via", via), (b"Route", b"<sip:" + h[0] + b":5080;lr>"), (b"From", b"<sip:nh@" + hop[0] + b">;tag=n%d" % self.nid()),
              (b"To", b"<sip:u@nowhere.example.net>"), (b"Call-ID", b"obr-%d" % self.nid()), (b"CSeq", b"1 OPTIONS")]
        s.ev_data(self.out_conn, msg(b"OPTIONS sip:x@elsewhere.example.net SIP/2.0", hs, body_bytes(r)))
        return self.out_conn

    def build(self, n_events):
        r = self.rng
        w = self.o.get("weights", {"svc": 4, "resp": 4, "route": 3, "static": 2, "rawresp": 2, "miss": 1, "indialog": 3})
        if self.l2 is not None and "cross" not in w:
            w = dict(w, cross=4)
        kinds = [k for k, v in w.items() for _ in range(v)]
        if self.s.listens[self.li]["tcp"] and self.next_conn == 0 and not self.s.events:
            # the client connection that Route-carrying requests use is opened FIRST: connection numbers are handed out in
            # order of establishment, dials of the proxy included, and which request makes the proxy dial is its own
            # business - a connection opened later could not be named reliably
            self.s.ev_accept(self.li, self.s.ip(22), 43000)
            self.rt_conn = 0
            self.next_conn = 1
        for _ in range(n_events):
            k = r.choice(kinds)
            if k == "svc":
                self.to_service()
            elif k == "miss":
                self.to_service(hit=False)
            elif k == "resp":
                if self.backend_response() is None:
                    self.to_service()
            elif k == "route":
                self.route_request()
            elif k == "static":
                self.static_request()
            elif k == "cross":
                self.cross_listener()
            elif k == "rawresp":
                self.raw_response()
            elif k == "pipeline":
                if self.pipelined_tcp() is None:
                    self.to_service()
            elif k == "outbound":
                if self.outbound_tcp() is None:
                    self.route_request()
            elif k == "indialog":
                done = [p for p in self.pending if p.get("totag") and p.get("answered_by")] + self.foreign
                if done:
                    p = r.choice(done)
                    # reconstruct the dialog halves from the rendered From/To is not needed: reuse the texts
                    self.in_dialog_request(p)
                else:
                    self.to_service(method=r.choice([b"INVITE", b"SUBSCRIBE", b"INVITE"]))
        return self.s

    def in_dialog_request(self, p):
        r, s = self.rng, self.s
        frm, to = p["frm"], p["to"]
        if b"tag=" not in to:
            to = to + b";tag=" + p["totag"]
        if r.random() < 0.5:
            frm, to = to, frm
        ua = r.choice(self.uas)
        method = r.choice([b"ACK", b"BYE", b"INVITE", b"UPDATE", b"INFO", b"NOTIFY", b"SUBSCRIBE", b"MESSAGE"])
        data, hs = self.request(method, self.service_uri(True), ua, frm, to, p["callid"])
        e = s.ev_udp(self.li, ua, data)
        self.pending.append({"e": e, "hs": hs, "ua": ua, "method": method, "callid": p["callid"], "frm": frm, "to": to,
                             "dialog": None, "totag": None})
        return e


def random_scenario(rng, block, opts=None, n_events=None):
    f = Flows(rng, block, opts)
    f.build(n_events if n_events is not None else rng.randrange(3, 12))
    return f


# ----------------------------------------------------------------------------- dedicated histories
def dialog_history(rng, block, n_dialogs=None, n_backends=None, opts=None, flows=None):
    """C04: concurrent dialogs over several backends; responses come from a backend address;
    in-dialog requests of every method in both directions; unrelated traffic in between."""
    o = dict(opts or {})
    o.setdefault("backends", n_backends or rng.randrange(2, 7))
    o.setdefault("names", b"svc.example.com")
    o.setdefault("tcp", False)
    o.setdefault("two_listeners", False)
    o.setdefault("routes", 1)
    o.setdefault("tcphops", False)
    f = flows if flows is not None else Flows(rng, block, o)
    s, r = f.s, rng
    nd = n_dialogs or r.randrange(1, 8)
    rot = 0                              # the generator's own guess of the rotation (only used to pick who answers)
    dialogs = []
    steps = []
    for d in range(nd):
        same = r.random() < 0.25
        ua_uri = r.choice([b"sip:alice%d@a.example" % d, b"tel:+1555%03d" % d, b"sip:same@h.example" if same else b"sip:u-%d@h-1.example:5070" % d])
        ub_uri = b"sip:same@h.example" if same else r.choice([b"sip:bob@svc.example.com", b"sip:bob%d@b.example" % d, b"urn:x:%d" % d])
        dialogs.append({"callid": b"dlg-%d-%s" % (d, tok(r, 1, 4, b"-")), "ta": tok(r, 1, 5, b"-"), "tb": tok(r, 1, 5, b"-"),
                        "ua": ua_uri, "ub": ub_uri, "state": 0, "method": r.choice([b"INVITE", b"INVITE", b"INVITE", b"SUBSCRIBE"])})
    budget = nd * r.randrange(4, 9)
    while budget > 0:
        budget -= 1
        d = r.choice(dialogs)
        if f.btcp and r.random() < 0.07:
            bip, bport = r.choice(f.backends).split(b":")          # a backend closes the connection the proxy has to it
            s.ev_bclose(bip, int(bport))
            continue
        if f.btcp and f.o.get("route_to_backend", True) and r.random() < 0.05:
            # a request ROUTED (Route header) to a backend's address: when that backend has sent a request of its own on
            # its connection, its address was learned there and the proxy's Via names that connection's transport
            bip, bport = r.choice(f.backends).split(b":")
            a, b = f.uri_pair()
            ua = r.choice(f.uas)
            data, _ = f.request(r.choice(METHODS), b"sip:x@elsewhere.example.net", ua, f.ft(a, b"rb%d" % f.nid(), False),
                                f.ft(b"sip:u@nowhere.example.net", None, False), b"rtb-%d" % f.nid(),
                                routes=[b"<sip:" + bip + b":" + bport + b";transport=tcp;lr>"])
            s.ev_udp(f.li, ua, data)
            continue
        k = r.random()
        if k < 0.15:
            f.to_service(method=r.choice([b"OPTIONS", b"MESSAGE", b"REGISTER", b"INVITE"]))       # unrelated, advances the rotation
            rot += 1
            continue
        if k < 0.2:
            f.static_request()
            continue
        if 0.2 <= k < 0.24 and len(dialogs) < nd + 3:
            # a subscription started BY a backend: the answer relayed towards it binds the dialog to it
            nd_ = f.backend_subscribe(100 + len(dialogs))
            if nd_ is not None:
                dialogs.append(nd_)
            continue
        if k < 0.30:
            # a dialog the backends never saw: established by a response of a non-backend peer, then used
            if f.foreign and r.random() < 0.6:
                f.in_dialog_request(r.choice(f.foreign))
                rot += 1
            else:
                f.raw_response(method=r.choice([b"INVITE", b"INVITE", b"SUBSCRIBE", b"BYE"]), code=r.choice([180, 200, 200]))
            continue
        if d["state"] == 0:
            # initial request
            ua = r.choice(f.uas)
            frm, to = f.ft(d["ua"], d["ta"], r.random() < 0.5), f.ft(d["ub"], None, r.random() < 0.5)
            data, hs = f.request(d["method"], f.service_uri(True), ua, frm, to, d["callid"])
            e = s.ev_udp(f.li, ua, data)
            rot += 1
            d.update({"state": 1, "e": e, "hs": hs, "frm": frm, "to": to})
        elif d["state"] == 1:
            # the backend answers (provisional without / with tag, then final)
            code = r.choice([100, 180, 183, 200, 200, 200])
            b = d.get("answered") or r.choice(f.backends)
            p = {"e": d["e"], "hs": d["hs"], "ua": None, "method": d["method"], "callid": d["callid"], "frm": d["frm"],
                 "to": d["to"], "totag": d["tb"]}
            f.backend_response(p, code=code, from_backend=b, add_to_tag=True)
            if code >= 180:
                d["answered"] = b
            if code >= 200:
                d["state"] = 2
        else:
            # in-dialog request, either direction, any method
            frm, to = f.ft(d["ua"], d["ta"], True), f.ft(d["ub"], d["tb"], True)
            if r.random() < 0.5:
                frm, to = to, frm
            ua = r.choice(f.uas)
            method = r.choice([b"ACK", b"BYE", b"INVITE", b"UPDATE", b"INFO", b"NOTIFY", b"SUBSCRIBE", b"MESSAGE", b"PRACK", b"REFER"])
            extra = None
            if method == b"NOTIFY":
                extra = [(b"Subscription-State", r.choice([b"active;expires=60", b"terminated", b"terminated;reason=timeout", b"pending"])),
                         (b"Event", b"presence")]
            data, hs = f.request(method, f.service_uri(True), ua, frm, to, d["callid"], extra=extra)
            e = s.ev_udp(f.li, ua, data)
            if method != b"BYE" and method != b"ACK" and r.random() < 0.4 and d.get("answered"):
                # the backend answers the in-dialog request (a rejected re-INVITE leaves the dialog alive)
                p = {"e": e, "hs": hs, "ua": None, "method": method, "callid": d["callid"], "frm": frm, "to": to, "totag": None}
                f.backend_response(p, code=r.choice([100, 200, 200, 481, 488, 491, 603]), from_backend=d["answered"], add_to_tag=False)
            if method == b"BYE" and r.random() < 0.7 and d.get("answered"):
                # the backend answers the BYE with ANY final status: the dialog is over, the pin dissolved; a few more
                # requests bearing the dialog's identifiers follow (they are load-balanced like new ones)
                p = {"e": e, "hs": hs, "ua": None, "method": b"BYE", "callid": d["callid"], "frm": frm, "to": to, "totag": None}
                f.backend_response(p, code=r.choice([200, 200, 481, 408, 500, 603]), from_backend=d["answered"], add_to_tag=False)
                d["answered"] = None
                d["after_bye"] = r.randrange(0, 4)
            if "after_bye" in d:
                d["after_bye"] -= 1
                if d["after_bye"] < 0:
                    d["state"] = 3
        if d["state"] == 3:
            dialogs.remove(d)
            if not dialogs:
                break
    return f


def spiral_history(rng, block):
    """"proxysp" cases: requests whose Route set names the proxy more than once (literal address, host-table alias, the other
    listen entry): the first entry is consumed, the next one makes the proxy send the request to one of its OWN sockets,
    where it arrives as a datagram from the proxy's own address and is processed again - until an entry names somebody
    else.  Ordinary requests in between (the proxy's own address has been learned by then)."""
    r = rng
    o = {"backends": r.choice([0, 1, 2]), "tcp": False, "two_listeners": r.random() < 0.5, "routes": r.choice([0, 1, 2]),
         "tcphops": False, "keep": r.random() < 0.3}
    f = Flows(r, block, o)
    s = f.s
    s.spiral = True
    l = s.listens[f.li]
    me = [b"<sip:" + l["addr"] + b":%d;lr>" % l["udp"], b"<sip:proxy.local:%d;lr>" % l["udp"], b"<sip:alias.local;lr>",
          b"\"P\" <sip:u@" + l["addr"] + b";lr;x=1>"]
    if f.l2 is not None:
        l2 = s.listens[f.l2]
        me2 = [b"<sip:" + l2["addr"] + b":%d;lr>" % l2["udp"], b"<sip:" + l2["addr"] + b";lr>"]
    else:
        me2 = me
    for _ in range(r.randrange(2, 7)):
        k = r.random()
        if k < 0.6:
            h = r.choice(f.hops)
            nxt = r.choice([b"<sip:" + h[0] + b":5080;lr>", b"<sip:hop1.local:5080;lr;foo>", b"<sip:" + h[0] + b":5080;lr>;p=1"])
            owns = [r.choice(me)] + [r.choice(me + me2) for _ in range(r.choice([1, 1, 2]))]
            routes = owns + r.choice([[nxt], [nxt, b"<sip:far0.example.net;lr>"], []])
            a, b = f.uri_pair()
            ua = r.choice(f.uas)
            data, _ = f.request(r.choice(METHODS), f.service_uri(r.random() < 0.5), ua, f.ft(a, b"sp%d" % f.nid(), True),
                                f.ft(b"sip:u@nowhere.example.net", None, True), b"sp-%d" % f.nid(), routes=routes,
                                rr=[b"<sip:up.example.net;lr>"] if r.random() < 0.4 else [])
            s.ev_udp(f.li, ua, data)
        elif k < 0.8:
            f.route_request()
        else:
            f.to_service()
    return f


def tb_history(rng, block, n_dialogs=None, route_to_backend=True):
    """backends reached over TCP ("proxytb" cases): a warm-up lets the rotation open a connection to every backend, then a
    dialog history as above in which the backends answer on those connections, and now and then a backend closes its
    connection (the next request for it must be sent on a new one)"""
    r = rng
    if r.random() < 0.25:
        # the set of TCP backends changes (one entry is a host name): a removed member's connection is closed by the proxy
        return membership_history(r, block, btcp=True)
    nb = r.randrange(1, 5)
    o = {"backends": nb, "names": b"svc.example.com", "tcp": False, "two_listeners": False, "routes": r.choice([0, 1]),
         "tcphops": False, "btcp": True, "keep": False, "route_to_backend": route_to_backend}
    f = Flows(r, block, o)
    s = f.s
    for _ in range(r.randrange(0, 2 * nb + 1)):
        f.to_service(method=r.choice([b"OPTIONS", b"MESSAGE", b"REGISTER", b"INVITE"]))
    dialog_history(r, block, n_dialogs=n_dialogs or r.randrange(1, 5), flows=f)
    return f


def membership_history(rng, block, btcp=False):
    """C19 / C05 / C04 at the level of the whole proxy: one backend of the listener is given by host NAME; its addresses
    come and go through the real resolver path (addressResolved -> notification goroutine -> hostIPChanged ->
    Add/RemoveBackend -> the proxy's backend index).  In between: unpinned requests (they go to registered backends
    only, in rotation), dialogs answered by a member (pinned to it), requests of a dialog whose backend has been removed
    (load-balanced again), answers coming from an address that is no member any more (no longer attributed)."""
    r = rng
    # the named entry may stand before the static ones and use another port than they do: every entry keeps ITS OWN
    # scheme and port when its addresses arrive
    other_port = r.random() < 0.5
    o = {"backends": r.choice([0, 0, 1, 2]), "names": b"svc.example.com", "tcp": False, "two_listeners": False,
         "routes": 0, "tcphops": False, "dyn": True, "dyn_first": r.random() < 0.6,
         "backend_port": 5072 if other_port else 5070, "dynport": b"5070"}
    if btcp:
        # the members are reached over TCP: removing one closes the connection the proxy has to it
        o.update({"btcp": True, "keep": False})
    f = Flows(r, block, o)
    s = f.s
    l = s.listens[f.li]
    port = b"5070"
    pool = [s.ip(14 + i) + b":" + port for i in range(4)]
    for a in pool:
        s.udp_ep(a.split(b":")[0], int(port))
        if btcp:
            s.tcp_ln(a.split(b":")[0], int(port))
    static = list(f.backends)
    dynamic = []
    gone = []
    dialogs = []          # pending entries answered by some member
    for _ in range(r.randrange(6, 22)):
        f.backends = static + dynamic          # what backend_response / to_service may use
        k = r.random()
        if k < 0.22 and len(dynamic) < len(pool):
            a = r.choice([x for x in pool if x not in dynamic])
            dynamic.append(a)
            if a in gone:
                gone.remove(a)
            s.ev_badd(f.li, a)
        elif k < 0.36 and dynamic:
            a = r.choice(dynamic)
            dynamic.remove(a)
            gone.append(a)
            s.ev_brem(f.li, a)
        elif k < 0.62:
            f.to_service(method=r.choice([b"INVITE", b"INVITE", b"OPTIONS", b"MESSAGE", b"SUBSCRIBE"]))
        elif k < 0.8 and f.pending and f.backends:
            p = r.choice(f.pending)
            f.backend_response(p, code=r.choice([180, 200, 200]), own_expires=False)
            if p not in dialogs:
                dialogs.append(p)
        elif k < 0.88 and f.pending and gone:
            # an answer from an address that has left the set
            f.backend_response(r.choice(f.pending), code=200, from_backend=r.choice(gone), own_expires=False)
        elif dialogs:
            p = r.choice(dialogs)
            if p.get("totag"):
                f.in_dialog_request(p)
        else:
            f.to_service()
    return f


def timed_history(rng, block):
    """C15 on the real binary, in real time: dialogTimeout 2 s.  Dialogs are pinned by their backend's answer (without
    Expires, or with Expires 1 / 3: lifetime max(2, Expires) seconds); each is probed well inside its lifetime (must reach
    its backend), real time passes beyond the lifetime, and it is probed again (must be load-balanced like a new request);
    unrelated requests advance the rotation in between."""
    r = rng
    # one history in eight: dialogTimeout 0 or -1, which stands for the built-in 1200 s: every probe finds its pin alive
    dt = 2 if r.random() < 0.875 else r.choice([0, -1])
    o = {"backends": r.randrange(2, 5), "names": b"svc.example.com", "tcp": False, "two_listeners": False, "routes": 0,
         "tcphops": False, "dialog_timeout": dt, "keep": False}
    f = Flows(r, block, o)
    s = f.s
    ds = []
    for d in range(r.randrange(1, 4)):
        ua = r.choice(f.uas)
        ta, tb = tok(r, 1, 5, b"-"), tok(r, 1, 5, b"-")
        frm, to = f.ft(b"sip:alice%d@a.example" % d, ta, False), f.ft(b"sip:bob@svc.example.com", None, False)
        callid = b"tm-%d-%s" % (d, tok(r, 1, 4))
        data, hs = f.request(b"INVITE", b"sip:bob@svc.example.com", ua, frm, to, callid, extra=[])
        e = s.ev_udp(f.li, ua, data)
        exp = r.choice([False, False, b"1", b"3"])
        f.backend_response({"e": e, "hs": hs, "ua": ua, "method": b"INVITE", "callid": callid, "frm": frm, "to": to, "totag": tb},
                           code=200, from_backend=r.choice(f.backends), own_expires=exp)
        ds.append({"frm": frm, "to": to + b";tag=" + tb, "callid": callid, "life": 1200 if dt <= 0 else 3 if exp == b"3" else 2})

    def unrelated():
        for _ in range(r.randrange(0, 3)):
            a, b = f.uri_pair()
            data, _ = f.request(r.choice([b"OPTIONS", b"MESSAGE"]), b"sip:bob@svc.example.com", r.choice(f.uas),
                                f.ft(a, b"u%d" % f.nid(), False), f.ft(b, None, False), b"un-%d" % f.nid(), extra=[])
            s.ev_udp(f.li, r.choice(f.uas), data)

    def probe(d):
        frm, to = (d["frm"], d["to"]) if r.random() < 0.5 else (d["to"], d["frm"])
        data, _ = f.request(r.choice([b"INFO", b"UPDATE", b"OPTIONS", b"MESSAGE", b"ACK"]), b"sip:bob@svc.example.com", r.choice(f.uas),
                            frm, to, d["callid"], extra=[])
        s.ev_udp(f.li, r.choice(f.uas), data)

    # a subscription started by a backend (bound by the answer relayed towards it, no Expires: 2 s), refreshed at about
    # 0.7 s by an answer with Expires 5: the binding must then be honoured until 5.7 s, in particular at 2.6 s
    sub = f.backend_subscribe(50, expires=None) if dt > 0 and r.random() < 0.4 else None
    unrelated()
    s.ev_wait(r.choice([300, 500, 700]))                 # <= 35 % of the shortest lifetime
    for d in ds:
        probe(d)
        unrelated()
    if sub is not None:
        sub = f.backend_subscribe(50, refresh=sub, expires=b"5")
        ds.append({"frm": b"<" + sub["ua"] + b">;tag=" + sub["ta"], "to": b"<" + sub["ub"] + b">;tag=" + sub["tb"],
                   "callid": sub["callid"], "life": 1200})      # probed at 2.6 s with the live ones
    s.ev_wait(2600 - s.waits[-1][1])                      # 2.6 s after the start: the 2-second pins are over
    for d in ds:
        if d["life"] != 3:
            probe(d)
            unrelated()
    if any(d["life"] == 3 for d in ds):
        s.ev_wait(1000)                                   # 3.6 s
        for d in ds:
            if d["life"] == 3:
                probe(d)
                unrelated()
    return f


def tcp_history(rng, block, opts=None):
    """C12: several client connections from one address, same or different sent-by, interleaved
    transactions answered by UDP backends (1xx before 2xx, delayed, reordered)."""
    o = dict(opts or {})
    o.update({"tcp": True, "backends": rng.randrange(1, 4), "names": b"svc.example.com", "two_listeners": False, "routes": 0,
              "tcphops": False})
    f = Flows(rng, block, o)
    s, r = f.s, rng
    nconn = r.randrange(2, 6)
    src_ip = s.ip(22)
    s.hosts.append((b"cl.local", src_ip))       # a host-table NAME for the clients' address: a legal sent-by
    conns = []
    for c in range(nconn):
        s.ev_accept(f.li, src_ip, 41000 + c)
        sentby = r.choice([src_ip + b":5060", src_ip + b":5060", src_ip + b":%d" % (5070 + c), src_ip,
                           b"cl.local:5060", b"cl.local"])
        conns.append({"cid": c, "sentby": sentby})
    open_tx = []
    n = 0
    waited = False
    budget = r.randrange(6, 25)
    l = s.listens[f.li]
    while budget > 0:
        budget -= 1
        if open_tx and r.random() < 0.55:
            t = r.choice(open_tx)
            code = r.choice([100, 180, 200, 200, 404]) if not t["prov"] else r.choice([180, 200, 200, 486])
            hs = [(b"Via", b"SIP/2.0/UDP " + l["addr"] + b":%d;branch=" % l["udp"] + placeholder(t["e"])),
                  (b"Via", t["via"]), (b"From", t["frm"]), (b"To", t["to"] + (b";tag=bt%d" % t["n"] if code > 100 else b"")),
                  (b"Call-ID", t["callid"]), (b"CSeq", t["cseq"])]
            b = r.choice(f.backends)
            ip, port = b.split(b":")
            if r.random() < 0.2:
                # the backend answers from ANOTHER socket (legal over UDP): not a registered backend address
                port = b"5071"
                s.udp_ep(ip, 5071)
            s.ev_udp(f.li, (ip, int(port)), msg(b"SIP/2.0 %d X" % code, hs))
            t["prov"] = True
            if code >= 200:
                open_tx.remove(t)
            continue
        live = [c for c in conns if not c.get("dead")]
        if n > 0 and r.random() < 0.06:
            # the clients' address is by now learned over TCP.  A provisional response is relayed to it over UDP, to port 0 (the
            # send fails: the fail-over entry forgets its primary), then once more under the same key: the entry has no primary,
            # and the listener the host was learned through is a TCP one, whose socket cannot be borrowed for a datagram
            b = r.choice(f.backends)
            ip, port = b.split(b":")
            hs0 = [(b"Via", b"SIP/2.0/UDP " + l["addr"] + b":%d;branch=z9hG4bK-own-p0" % l["udp"]),
                   (b"Via", b"SIP/2.0/UDP " + src_ip + b";branch=z9hG4bK-p0-%d;received=" % budget + src_ip + b";rport=0"),
                   (b"From", b"<sip:p0@a.example>;tag=p0"), (b"To", b"<sip:bob@svc.example.com>;tag=q0"), (b"Call-ID", b"p0-%d" % budget),
                   (b"CSeq", b"7 OPTIONS")]
            for _ in range(2):
                s.ev_udp(f.li, (ip, int(port)), msg(b"SIP/2.0 180 Ringing", hs0))
            continue
        if o.get("cleanpass") and open_tx and not waited and r.random() < 0.5:
            # more than a minute passes while transactions are open: the next look-up runs the table's clean-up pass
            # (entries of inbound connections live for an hour: the pending transactions must survive it)
            s.ev_wait(61000)
            waited = True
        if open_tx and live and r.random() < o.get("deaths", 0.08):
            # a connection goes away while transactions are open on it: the client closes it, or sends bytes that do not
            # decode (the proxy closes it); the answers that arrive later have no connection to return on
            c = r.choice(live)
            c["dead"] = True
            if r.random() < 0.5:
                s.ev_close(c["cid"])
            else:
                s.ev_data(c["cid"], b"GARBAGE without a colon\r\n\r\n")
            continue
        if not live:
            if open_tx:
                continue
            break
        c = r.choice(live)
        n += 1
        method = r.choice([b"INVITE", b"OPTIONS", b"MESSAGE", b"REGISTER"])
        rp = r.choice([b"", b";rport"])
        via = b"SIP/2.0/TCP " + c["sentby"] + b";branch=z9hG4bK-c%d-%d" % (c["cid"], n) + rp
        # what an honest backend echoes: the entry as the proxy relayed it (stamped when received-support is on)
        echoed = via
        if not l["no_received"]:
            echoed = b"SIP/2.0/TCP " + c["sentby"] + b";branch=z9hG4bK-c%d-%d" % (c["cid"], n) + \
                     (b";rport=%d" % (41000 + c["cid"]) if rp else b"") + b";received=" + src_ip
        frm, to = b"<sip:u%d@a.example>;tag=f%d" % (c["cid"], n), b"<sip:bob@svc.example.com>"
        callid, cseq = b"tc-%d-%d" % (c["cid"], n), b"%d " % n + method
        data = msg(method + b" sip:bob@svc.example.com SIP/2.0",
                   [(b"Via", via), (b"From", frm), (b"To", to), (b"Call-ID", callid), (b"CSeq", cseq)], body_bytes(r))
        e = s.ev_data(c["cid"], data)
        open_tx.append({"e": e, "via": echoed if r.random() < 0.9 else via, "frm": frm, "to": to, "callid": callid, "cseq": cseq, "n": n, "prov": False})
    return f


def respell_relayout(rng, data):
    """C17: the same message with every header name independently respelled and the Via / Route /
    Record-Route lists re-laid-out (split into lines or joined), order of entries kept"""
    sep = data.find(b"\r\n\r\n")
    if sep < 0:
        return data
    lines = data[:sep].split(b"\r\n")
    out = [lines[0]]
    hs = []
    for l in lines[1:]:
        if b":" not in l:
            return data
        n, v = l.split(b":", 1)
        hs.append((n, v.strip()))
    i = 0
    while i < len(hs):
        n, v = hs[i]
        canon = {b"v": b"Via", b"via": b"Via", b"route": b"Route", b"record-route": b"Record-Route"}.get(n.lower())
        if canon:
            # gather the run of consecutive lines of this header
            entries = []
            while i < len(hs) and {b"v": b"Via", b"via": b"Via", b"route": b"Route", b"record-route": b"Record-Route"}.get(hs[i][0].lower()) == canon:
                entries += [x.strip() for x in hs[i][1].split(b",")]
                i += 1
            j = 0
            while j < len(entries):
                k = rng.randrange(1, len(entries) - j + 1) if rng.random() < 0.5 else 1
                out.append(spell(rng, canon, rng.randrange(5)) + b": " + b",".join(entries[j:j + k]))
                j += k
        else:
            full = {b"f": b"From", b"t": b"To", b"i": b"Call-ID", b"l": b"Content-Length", b"m": b"Contact", b"c": b"Content-Type",
                    b"k": b"Supported", b"s": b"Subject", b"o": b"Event"}.get(n.lower(), n)
            out.append(spell(rng, full, rng.randrange(5)) + b": " + v)
            i += 1
    return b"\r\n".join(out) + data[sep:]


def mutate(rng, data):
    """byte-level damage of a valid message"""
    b = bytearray(data)
    k = rng.randrange(10 if USP_FIELDS else 8)
    if k >= 8:
        # a blank of the start line / a CSeq / a Via sent-protocol replaced by a Unicode space or a look-alike: strings.Fields
        # splits at the former only
        spots = [m.start() for m in __import__("re").finditer(rb" ", bytes(b[:400]))]
        if spots:
            i = rng.choice(spots)
            return bytes(b[:i]) + rng.choice(USPACE + NOT_USPACE) + bytes(b[i + 1:])
        return bytes(b)
    if k == 0 and b:
        return bytes(b[:rng.randrange(len(b))])                           # truncation
    if k == 1 and b:
        for _ in range(rng.randrange(1, 6)):
            b[rng.randrange(len(b))] = rng.randrange(256)                 # flips
        return bytes(b)
    if k == 2 and b:
        i = rng.randrange(len(b))
        return bytes(b[:i] + bytes(rng.randrange(256) for _ in range(rng.randrange(1, 40))) + b[i:])
    if k == 3 and b:
        i = rng.randrange(len(b)); j = min(len(b), i + rng.randrange(1, 60))
        return bytes(b[:i] + b[j:])                                        # deletion
    if k == 4:
        return bytes(b).replace(b"\r\n", b"\n", rng.randrange(1, 4))
    if k == 5:
        return bytes(b).replace(b":", rng.choice([b"", b"::", b" :"]), rng.randrange(1, 3))
    if k == 6:
        return bytes(rng.randrange(256) for _ in range(rng.randrange(0, 200)))
    return bytes(b) + bytes(b)[: rng.randrange(0, 80)]


HOSTILE_CL = [b"-1", b"-0", b"+5", b"99999999999999999999", b"4611686018427387904", b"9223372036854775807", b"2147483648",
              b"100000", b"1e3", b"", b" 3", b"0x10", b"3 3"]
HOSTILE_VIA = [b"SIP/2.0/TCP [;branch=z9hG4bK-h", b"SIP/2.0/UDP [;branch=z9hG4bK-h", b"SIP/2.0/UDP [];branch=z9hG4bK-h",
               b"SIP/2.0/UDP ;branch=x", b"SIP/2.0/UDP", b"SIP/2.0 h", b"SIP/2.0/UDP h:notaport", b"SIP/2.0/UDP [::1]:5060;branch=x",
               b"SIP/2.0/UDP " + b"h" * 5000 + b";branch=z9hG4bK-h", b"SIP/2.0/UDP h:99999999999999999999", b"SIP/2.0/UDP h:-1;branch=z",
               b"SIP/2.0/UDP h;received=[;rport=1;branch=z9hG4bK-h", b"SIP/2.0/TCP h;received=[;branch=z9hG4bK-h",
               b",,,", b"SIP/2.0/UDP h;" + b";".join(b"p%d=%d" % (i, i) for i in range(3000))]


def hostile_history(rng, block, opts=None):
    """C08: valid traffic interleaved with damaged and hostile messages on UDP and TCP; every
    scenario ends with a plain request that must still be served"""
    o = dict(opts or {})
    o.setdefault("tcp", True)
    o.setdefault("backends", rng.randrange(1, 3))
    o.setdefault("names", b"svc.example.com")
    o.setdefault("two_listeners", False)
    f = Flows(rng, block, o)
    s, r = f.s, rng
    conn = None
    nconn = 0
    for _ in range(r.randrange(3, 9)):
        ua = r.choice(f.uas)
        a, b = f.uri_pair()
        kind = r.randrange(6)
        vias = f.via_stack(ua)
        hs = [(b"Via", v) for v in vias] + [(b"From", f.ft(a, b"h1", True)), (b"To", f.ft(b, r.choice([None, b"h2"]), True)),
                                              (b"Call-ID", b"hc-%d" % f.nid()), (b"CSeq", b"1 INVITE")]
        start = r.choice([b"INVITE " + f.service_uri(True) + b" SIP/2.0", b"SIP/2.0 200 OK", b"INVITE sip:x@static.example.org SIP/2.0"])
        cl = True
        body = body_bytes(r)
        if kind == 0:
            hs[0] = (b"Via", r.choice(HOSTILE_VIA))
        elif kind == 1:
            cl = False
            hs.append((r.choice([b"Content-Length", b"l"]), r.choice(HOSTILE_CL)))
        elif kind == 2:
            drop = r.randrange(len(hs))
            hs = hs[:drop] + hs[drop + 1:]                                 # a mandatory header is missing
        elif kind == 3:
            hs += [(b"X-%d" % i, b"v") for i in range(r.choice([100, 1000, 3000]))]
        elif kind == 4:
            i = r.randrange(1, len(hs))
            hs[i] = (hs[i][0], r.choice([b"", b"<", b">", b"<sip:", b";;;", b"sip:", b"\"", b"<sip:a@[>;tag", b"0 ", b"x y z"]))
        data = msg(start, hs, body, content_length=cl)
        if kind == 5:
            data = mutate(r, data)
        if len(data) > 60000:
            data = data[:60000]
        over = False
        if kind == 1:
            try:
                over = int(hs[-1][1]) > len(body)
            except ValueError:
                over = False
        # a TCP reader WAITS for a body that is declared longer than what has arrived (that is not a stall of the
        # proxy): over-declared lengths are sent over UDP only, where the datagram is discarded
        if r.random() < 0.35 and not over and kind != 5:
            if conn is None or r.random() < 0.3:
                s.ev_accept(f.li, s.ip(22), 42000 + nconn)
                conn = nconn
                nconn += 1
            # on TCP the chunk must not end inside a message the proxy would wait for: terminate with a line that cannot parse
            s.ev_data(conn, data + b"\r\n\r\nGARBAGE\r\n\r\n")
            conn = None                                                     # the proxy closes a connection carrying garbage
        else:
            s.ev_udp(f.li, ua, data)
    if r.random() < 0.4:
        # a forged / stray dialog-forming response from a peer that is no backend, then a request inside that dialog
        f.raw_response(method=r.choice([b"INVITE", b"INVITE", b"SUBSCRIBE"]), code=r.choice([183, 200, 200]))
        f.in_dialog_request(f.foreign[-1])
    f.to_service(method=b"OPTIONS")                                         # the proxy keeps serving
    return f
