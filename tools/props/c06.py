"""C06 — one fresh top Via, Record-Route by policy"""
import lib, proxygen as pg, proxyflows as pf, proxycheck as pc


class C06:
    id = "C06"
    rule = ('random whole-proxy scenarios: requests with 0-6 Via and 0-4 Record-Route entries in any layout over the three relaying paths, must-record-route on/off, next hop learned / not learned, one or two listeners; the branch of every pushed Via must be new in the whole run (the driver keeps the set). Non-trivial = a request was relayed; distinct by content hash.')
    trusted = ["UDP/TCP loopback delivery is synchronous and ordered per socket (the barrier argument of DESIGN 3.1); "
               "real DNS is not involved: hosts are IPv4 literals or names of the configured host table"]
    assumptions = ['branch freshness rests on the entropy of uuid.NewRandom (48 bits kept): measured, not proved']

    def run(self, ctx):
        rng, tier = ctx["rng"], ctx["tier"]
        corpus = pc.load_corpus_rebased("C06")
        n = 400 if tier == "quick" else 20000
        blocks = pg.alloc_blocks(n)
        cases = list(corpus)
        hist = {}
        for i in range(n):
            opts = self.opts(rng, i)
            f = pf.random_scenario(rng, blocks[i], opts, n_events=rng.randrange(3, 10))
            c = f.s.case("g%d" % i, {"kind": "generated", "opts": {k: str(v) for k, v in opts.items() if k != "weights"}})
            cases.append(c)
            for k in opts.get("weights", {}):
                hist[k] = hist.get(k, 0) + 1
        cov, failures = pc.explore(ctx, "C06", cases, ['proxy-C06'], nontrivial=self.nontrivial)
        cov["samples"] = [{"component": "proxy", "events": c.meta["events"], "first_event": pc.event_text(c, 0)[:5]} for c in cases[len(corpus):len(corpus) + 2]]
        cov["corpus_cases"] = len(corpus)
        cov["exhaustive"] = False
        pc.explore_tb(ctx, "C06", ["proxytb-C06"], cov, failures)
        return {"coverage": cov, "failures": failures}

    def opts(self, rng, i):
        return {"weights": {"svc": 4, "route": 4, "static": 4, "miss": 1, "resp": 1, "indialog": 2, "rawresp": 0}, "two_listeners": i % 3 == 0}

    def nontrivial(self, c, ni):
        return any(outs for outs, _ in ni)


PROP = C06()
