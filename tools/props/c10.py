"""C10 — a UDP datagram is processed in isolation from every other datagram."""
import lib
from lib import Case
from props import c08rx as G


def set_length(rng, m, declared):
    """rewrite the Content-Length header of a generated message"""
    m.headers = [(a, b, c) if a.lower() not in (b"content-length", b"l") else (a, b"%d" % declared, a + b": " + b"%d" % declared)
                 for a, b, c in m.headers]
    return m


def pool_case(rng, cid):
    maxcap = rng.choice([0, 1, 2, 3, 5, 40960])
    ops, held = [], 0
    for _ in range(rng.randrange(1, 40)):
        if held and rng.random() < 0.5:
            ops.append((b"free", rng.randrange(held)))
            held -= 1
        else:
            ops.append((b"alloc",))
            held += 1
    toks = [maxcap, rng.choice([1, 8, 64]), len(ops)]
    for op in ops:
        toks += list(op)
    return Case("rxpool", cid, toks, {"kind": "pool", "maxcap": maxcap})


class C10:
    id = "C10"
    rule = ("the REAL UDPServerTransport.startParseMessage goroutine, fed through msgParseChannel with buffers taken from a "
            "REAL ByteArrayPool exactly as receiveMessage does (Alloc before the datagram arrives, first n bytes overwritten, "
            "rest of the buffer stale), compared result by result with the Coq model (Pool.v over Bufio.v) and judged against an "
            "independent reference reading of each datagram ALONE. Streams: (a) every cut offset of sample datagrams, into clean "
            "and deliberately dirtied buffers (previous traffic, SIP-looking, line-end soup); (b) Content-Length over-/under-"
            "declared by 1..200 bytes and by the exact size of what the previous datagram left; (c) histories of 2-12 datagrams "
            "20 B - 60 KiB with receive/parse interleaved in random order so that buffers are recycled in every order; "
            "(d) Alloc/Free sequences on the real pool with maxCap 0..5 and 40960 (identity = address of the array); "
            "(e) over the wire: 2-9 datagrams (valid, truncated, over-declared, and keep-alive sized: empty, CRLF, blanks) sent over a "
            "real loopback socket into the REAL receiveMessage goroutine and handed one by one to the REAL parse goroutine on the same "
            "pool, the receive loop running ahead of the parse loop in scripted orders; observed: every decoded message and the number "
            "of buffers sitting in the pool twice. "
            "Non-trivial = a datagram parsed from a buffer that held other bytes before; distinct by content hash.")
    trusted = ["streams (a)-(c): net.UDPConn.ReadFromUDP is replaced by copy(buf, datagram) (n = bytes copied); the parse loop, the pool and ParseMessage are the real code; "
               "stream (e): the receive goroutine and the socket are real too, the two goroutines run on two transport values sharing the pool so that the hand-over can be paced",
               "the parse goroutine is paced by a barrier datagram travelling in its own array, popped from the pool again (checked by address)"]
    assumptions = ["pool clients free only what they hold, once (the receive/parse loops are proved to)"]

    def run(self, ctx):
        rng, tier = ctx["rng"], ctx["tier"]
        quick = tier == "quick"
        cases = []
        # ---- (a) every cut offset
        nsamples = 2 if quick else 50
        for si in range(nsamples):
            m = G.gen_msg(rng, max_line=60 if quick else 300, max_body=40 if quick else 400, lead=b"",
                          nheaders=rng.randrange(1, 4 if quick else 7))
            if not m.body:
                m = set_length(rng, m, 9)
                m.body = b"123\r\n\r\n45"
            d = m.encode()
            for asize in ([256, 65536] if quick else [256, 2048, 65536]):
                for k in range(0, len(d) + 1):
                    dirt = rng.choice([None, G.SIPISH, d, G.rand_body(rng, 200), d[k:] + d])
                    ops = ([(b"dirty", dirt)] if dirt is not None else []) + [(b"recv", d[:k]), (b"parse",)]
                    cases.append(G.udp_case("rxudp", "a%d-%d-%d" % (si, asize, k), asize, ops,
                                            {"kind": "cut", "dirty": dirt is not None}))
        # ---- (b) declared length vs payload
        for i in range(250 if quick else 8000):
            prev = G.gen_msg(rng, max_body=400, lead=b"").encode()
            m = G.gen_msg(rng, max_body=100, lead=b"")
            real = len(m.body)
            delta = rng.choice([1, 2, 3, 10, 36, 200, max(1, len(prev) - len(m.encode())), -1, -2, -real, 0])
            m = set_length(rng, m, max(0, real + delta))
            d = m.encode()
            asize = rng.choice([1024, 65536])
            ops = [(b"recv", prev), (b"parse",), (b"recv", b"x"), (b"parse",), (b"recv", d), (b"parse",)] if rng.random() < 0.5 else \
                  [(b"dirty", prev * 3), (b"recv", d), (b"parse",)]
            cases.append(G.udp_case("rxudp", "b%d" % i, asize, ops, {"kind": "declared", "delta": delta, "dirty": True}))
        # ---- (c) histories, any recycling order
        for i in range(250 if quick else 20000):
            k = rng.randrange(2, 13)
            ops, waiting = [], 0
            big = rng.random() < (0.1 if quick else 0.2)
            for j in range(k):
                m = G.gen_msg(rng, max_line=2000 if big else 100, max_body=60000 if big and rng.random() < 0.3 else 300, lead=b"")
                d = m.encode()
                r = rng.random()
                if r < 0.15:
                    d = d[:rng.randrange(len(d) + 1)]
                elif r < 0.3:
                    m = set_length(rng, m, len(m.body) + rng.randrange(1, 300))
                    d = m.encode()
                ops.append((b"recv", d[:65000]))
                waiting += 1
                while waiting and rng.random() < 0.5:
                    ops.append((b"parse",))
                    waiting -= 1
            ops += [(b"parse",)] * waiting
            cases.append(G.udp_case("rxudp", "c%d" % i, 65536, ops, {"kind": "history", "dirty": True, "n": k}))
        # ---- (d) the pool
        for i in range(300 if quick else 5000):
            cases.append(pool_case(rng, "p%d" % i))
        # ---- (e) over the wire: real socket -> real receiveMessage goroutine -> real parse goroutine, the receive loop
        #      ahead of the parse loop in scripted orders; keep-alive sized datagrams (empty, CRLF, blanks), truncated and
        #      valid ones mixed; the pool must never hold a buffer twice
        TINY = [b"", b"\r\n", b"\r\n\r\n", b" ", b"\n", b"\r", b"\t\r\n", b"\x00", b"\r\n\r", b"x"]
        for i in range(150 if quick else 6000):
            k = rng.randrange(2, 10)
            ops, waiting = [], 0
            for j in range(k):
                r = rng.random()
                if r < 0.3:
                    d = rng.choice(TINY)
                else:
                    m = G.gen_msg(rng, max_line=100, max_body=300 if rng.random() < 0.9 else 20000, lead=b"")
                    d = m.encode()
                    if r < 0.4:
                        d = d[:rng.randrange(len(d) + 1)]
                    elif r < 0.5:
                        d = set_length(rng, m, len(m.body) + rng.randrange(1, 300)).encode()
                ops.append((b"recv", d[:60000]))
                waiting += 1
                while waiting and rng.random() < 0.4:
                    ops.append((b"parse",))
                    waiting -= 1
                if rng.random() < 0.1:
                    ops.append((b"dirty", G.SIPISH))
            ops += [(b"parse",)] * waiting
            cases.append(G.udp_case("rxwire", "w%d" % i, rng.choice([2048, 65536]), ops, {"kind": "wire", "dirty": True, "n": k}))
        corp = lib.load_corpus("C10")
        cases = corp + cases

        def nontrivial(c, io):
            return c.comp in ("rxudp", "rxwire") and c.meta.get("dirty", c.meta.get("kind") == "corpus") and io[:1] not in ([b"0"], [b"crash"])

        def describe(c, io, mo):
            if c.comp == "rxpool":
                return "pool maxCap %s: impl %s, model %s" % (c.toks[0].decode(), [t.decode("latin-1") for t in io],
                                                              [t.decode("latin-1") for t in mo])
            d = next((j for j, (x, y) in enumerate(zip(io, mo)) if x != y), min(len(io), len(mo)))
            return "%s, receive buffer %s bytes: first difference at token %d: impl %s / model %s" % (
                c.meta.get("kind"), c.toks[0].decode(), d, [lib.show(t, 80) for t in io[d:d + 3]], [lib.show(t, 80) for t in mo[d:d + 3]])

        cov, failures = lib.differential(ctx, cases, nontrivial=nontrivial, describe=describe)
        cov["samples"] = lib.sample_of(cases[len(corp) + 50:], 2) + lib.sample_of(cases[-400:], 1)
        cov["exhaustive"] = True
        cov["corpus_cases"] = len(corp)
        hist = {}
        for c in cases:
            hist[c.meta.get("kind", "?")] = hist.get(c.meta.get("kind", "?"), 0) + 1
        cov["stream_histogram"] = hist
        return {"coverage": cov, "failures": failures}


PROP = C10()
