"""C07 — received / rport record the true source when enabled"""
import lib, proxygen as pg, proxyflows as pf, proxycheck as pc


class C07:
    id = "C07"
    rule = ('random whole-proxy scenarios with the YAML no-received option true / false / omitted: requests from several loopback sources whose top Via names another host/port, rport absent / valueless / spoofed, received absent / spoofed, over UDP, over accepted TCP connections and over connections the proxy itself opened to a TCP next hop, relayed on all paths. Non-trivial = a request was relayed; distinct by content hash.')
    trusted = ["UDP/TCP loopback delivery is synchronous and ordered per socket (the barrier argument of DESIGN 3.1); "
               "real DNS is not involved: hosts are IPv4 literals or names of the configured host table"]
    assumptions = []

    def run(self, ctx):
        rng, tier = ctx["rng"], ctx["tier"]
        corpus = pc.load_corpus_rebased("C07")
        n = 400 if tier == "quick" else 20000
        blocks = pg.alloc_blocks(n)
        cases = list(corpus)
        hist = {}
        for i in range(n):
            opts = self.opts(rng, i)
            f = pf.random_scenario(rng, blocks[i], opts, n_events=rng.randrange(3, 10))
            c = f.s.case("g%d" % i, {"kind": "generated", "opts": {k: str(v) for k, v in opts.items() if k != "weights"}})
            cases.append(c)
            for k in opts.get("weights", {}):
                hist[k] = hist.get(k, 0) + 1
        cov, failures = pc.explore(ctx, "C07", cases, ['proxy-C07'], nontrivial=self.nontrivial)
        cov["samples"] = [{"component": "proxy", "events": c.meta["events"], "first_event": pc.event_text(c, 0)[:5]} for c in cases[len(corpus):len(corpus) + 2]]
        cov["corpus_cases"] = len(corpus)
        cov["exhaustive"] = False
        # connections the proxy opens to TCP backends are read with the ITEM's received-support, too: requests the backends
        # send on them (subscriptions of their own) must be stamped like any other
        pc.explore_tb(ctx, "C07", ["proxytb-C07"], cov, failures)
        return {"coverage": cov, "failures": failures}

    def opts(self, rng, i):
        o = {"no_received": [None, True, False][i % 3], "weights": {"svc": 5, "route": 3, "static": 3, "miss": 1, "resp": 2, "indialog": 1, "rawresp": 0}}
        if i % 4 == 1:
            # connections the proxy opened itself (outbound to a TCP next hop) carry requests back: their
            # server transports must have the listener's received-support too
            o.update({"tcphops": True, "tcp": False, "routes": 1, "weights": {"outbound": 6, "svc": 2, "static": 1}})
        return o

    def nontrivial(self, c, ni):
        return any(outs for outs, _ in ni)


PROP = C07()
