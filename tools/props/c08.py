"""C08 — no network input can crash, wedge or balloon the proxy (whole pipeline; the decode-level part is c08rx)"""
import lib, proxygen as pg, proxyflows as pf, proxycheck as pc


class C08:
    id = "C08"
    rule = ("whole-pipeline histories through the real proxy (UDP and TCP listeners): valid traffic interleaved with byte-level mutations "
            "of valid messages (truncation at random offsets, flips, insertions, deletions, bare LF, damaged colons, random bytes) and "
            "structurally valid messages with hostile field values (absurd / negative / non-numeric Content-Length, empty / huge / "
            "bracket-only Via hosts and received values, missing mandatory headers, thousands of headers or parameters, unparsable typed "
            "headers), each history ending with a plain request that must still be served; a crash of the process, a barrier that never "
            "returns (stalled message loop) or > 300 MiB obtained from the OS during a case are violations; outputs are compared with the "
            "model (discard of undecodable input, connection closed). Non-trivial = at least one hostile input was followed by a served "
            "request; distinct by content hash.")
    trusted = ["the Go runtime, fmt, regexp, net and bufio internals are trusted not to panic on their own"]
    assumptions = ["PARTIAL: real memory use (RSS), goroutine starvation and stalls inside blocking I/O (dial to a black-holed next hop) are "
                   "runtime behaviour the model cannot exhibit; the memory ceiling and the liveness barrier of this run are supporting evidence"]

    def run(self, ctx):
        rng, tier = ctx["rng"], ctx["tier"]
        corpus = pc.load_corpus_rebased("C08")
        n = 400 if tier == "quick" else 20000
        blocks = pg.alloc_blocks(n)
        cases = list(corpus)
        for i in range(n):
            if i % 6 == 5:
                # connections that die under open transactions (closed by the client, or by the proxy after undecodable
                # bytes) while the answers still arrive: the relay must cope with the dead connection
                f = pf.tcp_history(rng, blocks[i], {"deaths": 0.3})
                f.to_service(method=b"OPTIONS")
                cases.append(f.s.case("g%d" % i, {"kind": "dying-connections"}))
                continue
            f = pf.hostile_history(rng, blocks[i])
            cases.append(f.s.case("g%d" % i, {"kind": "hostile-history"}))
        cov, failures = pc.explore(ctx, "C08", cases, [], nontrivial=lambda c, ni: bool(ni) and bool(ni[-1][0]))
        # decode level (bufio reader / UDP buffer / ParseMessage), in-package: panic / hang / allocation vs. the Bufio.v model
        from props import c08rx
        cov_rx, f_rx = c08rx.run(ctx)
        cov["decode_level"] = cov_rx
        for k in ("evaluations", "distinct_nontrivial", "traces_validated_against_impl"):
            cov[k] += cov_rx.get(k, 0)
        failures += f_rx
        cov["samples"] = [{"component": "proxy", "events": c.meta["events"], "first_event": pc.event_text(c, 0)[:5]} for c in cases[len(corpus):len(corpus) + 2]]
        cov["corpus_cases"] = len(corpus)
        cov["exhaustive"] = False
        return {"coverage": cov, "failures": failures}


PROP = C08()
