"""C18 — static route look-up: fixed precedence, stable answer."""
import itertools
import lib
from lib import Case

PATTERNS = [b"a.example.com", b"b.example.com", b"aXexample.com", b"*.example.com", b"a.*", b"*",
            b"default", b"example.com", b"*.com", b"a*e.com"]
HOSTS = [b"a.example.com", b"b.example.com", b"aXexample.com", b"example.com", b"default", b"c.org",
         b"a.b", b"ae.com", b"x.a.example.com", b"a.example.comX", b""]
PROTOS = [b"udp", b"tcp", b"tls", b"TLS", b"Tls", b"UDP"]


def nexthop(i, rng):
    h = b"hop%d.net" % i
    k = rng.randrange(4)
    if k == 0:
        return h
    if k == 1:
        return b"127.0.0.%d" % (i + 1)
    return h + b":%d" % rng.choice([5060, 5061, 1, 65535, 7000 + i])


def group(rng, ents):
    """an operator lists several dests under one next hop: make neighbours share protocol and next hop now and then (the
    driver then writes them as ONE route item of the YAML configuration, wildcards in any position)"""
    out = []
    for e in ents:
        if out and rng.random() < 0.4:
            e = (out[-1][0], e[1], out[-1][2])
        out.append(e)
    return out


class C18:
    id = "C18"
    rule = ("exhaustive: every ordered table of <=L entries (L=3 quick, 4 thorough) over the 10-pattern universe x "
            "every host of the 11-host universe, each look-up repeated 50 times on fresh tables (map-order instability "
            "shows as >1 distinct answer); random: tables of 5-12 entries over generated literal/wildcard patterns, "
            "next hops with/without port, protocols udp/tcp/tls in any case; sequences: 6-18 look-ups of DIFFERENT hosts one after the "
            "other on one table object (every ordered pair of patterns, a sample of the triples, random tables), each answer judged by "
            "the precedence rule alone (an answer that depends on earlier look-ups is rejected). Non-trivial = a table with at least two "
            "entries of which at least one matches the host (literally, by wildcard or as default); distinct by content hash.")
    trusted = ["regexp.MatchString is trusted to implement ^...$ with '.*' and escaped dots as Glob.v says (validated by the run)"]
    assumptions = ["patterns over [A-Za-z0-9.*-] (other regexp metacharacters are not escaped by toRegularExp), hosts without LF"]

    def run(self, ctx):
        rng, tier = ctx["rng"], ctx["tier"]
        cases = []
        L = 3 if tier == "quick" else 4
        n = 0
        for k in range(0, L + 1):
            for pats in itertools.product(PATTERNS, repeat=k):
                if k == 4 and len(set(pats)) < 3 and rng.random() < 0.5:
                    continue
                ents = [(rng.choice(PROTOS), p, nexthop(i, rng)) for i, p in enumerate(pats)]
                hosts = HOSTS if k <= 2 else rng.sample(HOSTS, 4 if k == 3 else 2)
                for h in hosts:
                    toks = [len(ents)]
                    for e in ents:
                        toks += list(e)
                    toks += [h, 50 if k >= 2 else 5]
                    cases.append(Case("findroute", "e%d" % n, toks, {"kind": "exhaustive", "entries": k}))
                    n += 1
        exhaustive_n = len(cases)
        m = 400 if tier == "quick" else 20000
        labels = [b"a", b"b", b"ab", b"example", b"com", b"org", b"x-1", b"sip", b"EXAMPLE"]
        for i in range(m):
            ents = []
            for j in range(rng.randrange(5, 13)):
                parts = [rng.choice(labels + [b"*"] * 3) for _ in range(rng.randrange(1, 4))]
                pat = b".".join(parts) if rng.random() < 0.9 else b"default"
                if rng.random() < 0.05:
                    pat = pat.replace(b".", b"")
                nh = nexthop(j, rng)
                if rng.random() < 0.03:
                    nh = b"bad:port"
                ents.append((rng.choice(PROTOS), pat, nh))
            host = b".".join(rng.choice(labels) for _ in range(rng.randrange(1, 4)))
            if rng.random() < 0.3:
                host = rng.choice(ents)[1].replace(b"*", rng.choice(labels))
            toks = [len(ents)]
            for e in ents:
                toks += list(e)
            toks += [host, 50]
            cases.append(Case("findroute", "r%d" % i, toks, {"kind": "random", "entries": len(ents)}))
        # ---- sequences: different hosts looked up one after the other on ONE table object (the answer for a host must
        #      not depend on what was looked up before): every ordered pair/triple of patterns x random host sequences
        seq_n = 0
        for k in (2, 3):
            for pats in itertools.product(PATTERNS, repeat=k):
                if k == 3 and rng.random() < (0.8 if tier == "quick" else 0.0):
                    continue
                ents = [(rng.choice(PROTOS), p, nexthop(i, rng)) for i, p in enumerate(pats)]
                ents = group(rng, ents)
                hs = [rng.choice(HOSTS) for _ in range(rng.randrange(3, 9))]
                hs += [hs[0], hs[1], hs[0]]
                toks = [len(ents)]
                for e in ents:
                    toks += list(e)
                toks += [len(hs)] + hs
                cases.append(Case("findroute-seq", "s%d" % seq_n, toks, {"kind": "sequence", "entries": k}))
                seq_n += 1
        for i in range(200 if tier == "quick" else 10000):
            ents = []
            for j in range(rng.randrange(3, 9)):
                parts = [rng.choice(labels + [b"*"] * 3) for _ in range(rng.randrange(1, 4))]
                ents.append((rng.choice(PROTOS), b".".join(parts) if rng.random() < 0.9 else b"default", nexthop(j, rng)))
            ents = group(rng, ents)
            pool =[b".".join(rng.choice(labels) for _ in range(rng.randrange(1, 4))) for _ in range(4)] + \
                   [rng.choice(ents)[1].replace(b"*", rng.choice(labels)) for _ in range(3)]
            hs = [rng.choice(pool) for _ in range(rng.randrange(4, 16))]
            toks = [len(ents)]
            for e in ents:
                toks += list(e)
            toks += [len(hs)] + hs
            cases.append(Case("findroute-seq", "q%d" % i, toks, {"kind": "sequence-random", "entries": len(ents)}))
            seq_n += 1
        corp = lib.load_corpus("C18")
        cases = corp + cases

        def nontrivial(c, io):
            return int(c.toks[0]) >= 2 and len(io) >= 2 and io[1] == b"some"

        cov, failures = lib.differential(ctx, cases, nontrivial=nontrivial,
                                         project=lambda c, o: o if o[:1] != [b"1"] else o[1:],
                                         describe=lambda c, io, mo: "table of %s entries, host %s: impl answers %s, model %s" % (
                                             c.toks[0].decode(), lib.show(c.toks[-2]), [lib.show(t) for t in io], [lib.show(t) for t in mo]))
        cov["samples"] = lib.sample_of(cases[len(corp) + 200:], 3) + lib.sample_of(cases[-2:], 2)
        cov["exhaustive"] = True
        cov["exhaustive_part"] = exhaustive_n
        cov["random_part"] = m
        cov["sequence_part"] = seq_n
        cov["corpus_cases"] = len(corp)
        hist = {}
        for c in cases:
            hist[c.meta.get("entries", -1)] = hist.get(c.meta.get("entries", -1), 0) + 1
        cov["table_size_histogram"] = {str(k): v for k, v in sorted(hist.items())}
        return {"coverage": cov, "failures": failures}


PROP = C18()
