"""C09 -- concurrent listeners and backend changes never corrupt or kill the proxy.

(a) tools/locktab regenerates the table of facts (field access sites with the mutexes held,
    call graph, goroutine roots, lock acquisitions) from /repo's CURRENT tree; the checker of
    coq/Policy.v is evaluated on it and the three computational theorems are re-proved, first in
    a scratch directory (so that a tree that breaks the discipline does not break the shared Coq
    build of every other property), then -- when they hold -- the table is installed as
    coq/gen/Accesses.v and the project is rebuilt, so that Properties.v speaks about this tree.
(b) -race stress of the real proxy (harness/drv_race_test.go): supporting evidence only."""
import hashlib, os, re, shutil, subprocess, time
import lib
from lib import Case
import proxygen

LOCKTAB = os.path.join(lib.VERIF, "tools", "locktab")
GEN = os.path.join(lib.COQ, "gen", "Accesses.v")

CHK = """From Coq Require Import List String Bool.
From Model Require Import gen.Accesses Policy.
Open Scope string_scope.
Eval vm_compute in ("@@FLAGS@@" ++ (if RR_closed then "1" else "0") ++ (if MH_sound then "1" else "0") ++
  (if ACQ_closed then "1" else "0") ++ (if lock_order_acyclic then "1" else "0") ++ (if policy_fields_exist then "1" else "0")).
Eval vm_compute in ("@@FAIL@@" ++ join ";;" failing_sites).
Eval vm_compute in ("@@UNCL@@" ++ join ";;" unclassified_fields).
Eval vm_compute in ("@@CYCLE@@" ++ join ";;" order_cycles).
Eval vm_compute in ("@@ORDER@@" ++ join ";;" (map (fun e => fst e ++ "->" ++ snd e) ORDER)).
Eval vm_compute in ("@@SENDS@@" ++ join ";;" (map (fun e => fst e ++ "->" ++ snd e) sends_while_locked)).
Eval vm_compute in ("@@WRITTEN@@" ++ join ";;" (map (fun sf => fst sf ++ "." ++ snd sf ++ "=" ++ show_disc (policy_of (fst sf) (snd sf))) written_fields)).
"""
CHKTHM = """From Coq Require Import List String Bool.
From Model Require Import gen.Accesses Policy.
Theorem C09_discipline : forallb site_ok accesses = true.
Proof. vm_compute. reflexivity. Qed.
Theorem C09_policy_complete : forallb classified written_fields = true.
Proof. vm_compute. reflexivity. Qed.
Theorem C09_policy_wellformed : policy_fields_exist = true.
Proof. vm_compute. reflexivity. Qed.
Theorem C09_lock_order_acyclic : lock_order_acyclic = true.
Proof. vm_compute. reflexivity. Qed.
"""


def marker(out, name):
    m = re.search(r'"@@%s@@((?:[^"]|"")*)"' % name, out, re.S)
    if not m:
        return None
    s = m.group(1).replace('""', '"')
    return [x for x in s.split(";;") if x]


def parse_site(s):
    f = s.split("|")
    f += [""] * (9 - len(f))
    return {"field": f[0] + "." + f[1], "function": f[2], "file": f[3], "line": f[4], "access": f[5],
            "required": f[6], "goroutine_roots": [r for r in f[7].split(",") if r],
            "locks_held": [h for h in f[8].split(",") if h]}


def locktab(work):
    """build the translator and run it on /repo's current tree; returns (text, stats)"""
    exe = os.path.join(work, "locktab")
    rc, log = lib.sh(["go", "build", "-o", exe, "."], cwd=LOCKTAB, env=lib.GOENV, timeout=600)
    if rc:
        raise lib.BuildError("tools/locktab does not build", log[-3000:])
    outp = os.path.join(work, "Accesses.v")
    p = subprocess.run([exe, "-repo", lib.REPO, "-o", outp], stdout=subprocess.PIPE, stderr=subprocess.PIPE, timeout=300)
    err = p.stderr.decode("utf-8", "replace")
    if p.returncode:
        raise lib.BuildError("tools/locktab failed on /repo's current tree (does it still parse?)", err[-3000:])
    stats = {k: int(v) for k, v in re.findall(r"(\w+)=(\d+)", err)}
    return open(outp).read(), stats


def scratch_check(work, text):
    """evaluate the checker and re-prove the theorems on the fresh table, outside the project"""
    d = os.path.join(work, "chk")
    os.makedirs(os.path.join(d, "gen"), exist_ok=True)
    open(os.path.join(d, "gen", "Accesses.v"), "w").write(text)
    shutil.copy(os.path.join(lib.COQ, "Policy.v"), os.path.join(d, "Policy.v"))
    open(os.path.join(d, "Chk.v"), "w").write(CHK)
    open(os.path.join(d, "ChkThm.v"), "w").write(CHKTHM)
    res = {"diag": None, "proof_ok": False, "log": ""}
    for f in ("gen/Accesses.v", "Policy.v"):
        rc, out = lib.sh(["coqc", "-Q", ".", "Model", f], cwd=d, timeout=1200)
        if rc:
            raise lib.BuildError("the generated table / Policy.v does not compile (%s)" % f, out[-4000:])
    rc, out = lib.sh(["coqc", "-Q", ".", "Model", "Chk.v"], cwd=d, timeout=1200)
    if rc:
        raise lib.BuildError("evaluation of the policy checker failed", out[-4000:])
    res["diag"] = {k: marker(out, k) for k in ("FLAGS", "FAIL", "UNCL", "CYCLE", "ORDER", "SENDS", "WRITTEN")}
    rc, out = lib.sh(["coqc", "-Q", ".", "Model", "ChkThm.v"], cwd=d, timeout=1200)
    res["proof_ok"] = rc == 0
    res["log"] = out[-3000:]
    return res


class C09:
    id = "C09"
    rule = ("static half: EVERY struct-field access site of /repo's non-test Go files (regenerated on this run by tools/locktab) "
            "is checked against the policy of Policy.v by computation inside Coq (C09_discipline), every field written outside a "
            "constructor must be classified (C09_policy_complete), the acquires-while-holding graph must be acyclic "
            "(C09_lock_order_acyclic); non-trivial = a site of a field that has a discipline (Locked/Confined/InitOnly/HandedOff/Atomic), "
            "distinct by (field, function, line). dynamic half (supporting): the real proxy started through startProxy with 2-4 "
            "listeners of one service, 1-4 UDP senders + 1 TCP sender per listener, driver-owned UDP backends answering 200, "
            "membership changes through dynamicHostResolver.addressResolved every 2 ms; built with -race; quick: 1 run, "
            "thorough: seeds x GOMAXPROCS in {1,2,4,8} x 2-4 listeners; every request id must reach exactly one backend socket and "
            "every response its sender (kernel UDP error counters are read before/after).")
    trusted = ["tools/locktab (Go, go/ast + go/types with empty imported packages): the patterns it recognises are listed in its header; "
               "x.Lock()/defer x.Unlock() and Lock/Unlock pairs (flow-sensitive over if/for/switch), go statements, selector accesses",
               "the instantiation assumptions I0..I6 of proofs/C09.v (lexical lock regions = Acq/Rel events, one thread per goroutine "
               "root instance, constructor writes precede publication, start-up accesses of main precede the listeners)",
               "Go race detector (ThreadSanitizer runtime) for the supporting stress run"]
    assumptions = ["a RoundRobinBackend never contains a RoundRobinBackend and a BackendChangeListenerMgr never registers itself "
                   "(interface calls of these types into themselves are left out of the lock-order graph)",
                   "InitOnly and HandedOff (message tree) fields: the table checks WHICH goroutine roots may touch them; the "
                   "happens-before order itself (start-up order, ownership transfer over msgChannel) is an assumption of the bridge",
                   "channel capacity (1000/10000/40960) and blocking sends while a mutex is held are not modelled",
                   "calls made by imported packages into the package (fmt -> String()) are not call-graph edges"]

    # ------------------------------------------------------------------ static half
    def static_half(self, ctx, cov, failures):
        work = ctx["work"]
        text, stats = locktab(work)
        cov["locktab"] = stats
        cov["accesses_v_sha256"] = hashlib.sha256(text.encode()).hexdigest()[:16]
        t0 = time.time()
        res = scratch_check(work, text)
        cov["scratch_check_s"] = round(time.time() - t0, 1)
        d = res["diag"]
        sites = [parse_site(s) for s in (d["FAIL"] or [])]
        written = d["WRITTEN"] or []
        cov["fields_written_outside_constructors"] = len(written)
        cov["policy_table"] = written
        cov["lock_order_edges"] = d["ORDER"] or []
        cov["sends_while_locked"] = d["SENDS"] or []
        cov["sites"] = stats.get("sites", 0)
        cov["goroutine_roots"] = stats.get("roots", 0)
        cov["evaluations"] = stats.get("sites", 0)
        flags = (d["FLAGS"] or [""])[0]
        ok = res["proof_ok"] and not sites and not d["UNCL"] and not d["CYCLE"] and flags == "11111"
        by_field = {}
        for s in sites:
            by_field.setdefault(s["field"], []).append(s)
        for field, ss in sorted(by_field.items()):
            roots = sorted({r for s in ss for r in s["goroutine_roots"]})
            failures.append({
                "kind": "proof", "key": "race:" + field, "has_input": False, "component": "lockset", "field": field,
                "summary": "C09_discipline fails on /repo's current tree: %s must be %s but %d site(s) are not: %s; goroutine roots reaching them: %s" % (
                    field, ss[0]["required"], len(ss),
                    ", ".join("%s %s:%s (%s, holds [%s])" % (s["function"], s["file"], s["line"], s["access"], ",".join(s["locks_held"])) for s in ss),
                    ", ".join(roots)),
                "sites": ss, "coqc_log": res["log"]})
        for f in d["UNCL"] or []:
            failures.append({"kind": "proof", "key": "unclassified:" + f, "has_input": False, "component": "lockset", "field": f,
                             "summary": "C09_policy_complete fails: field %s is written outside a constructor but Policy.v gives it no discipline "
                                        "(new shared state must be classified)" % f, "coqc_log": res["log"]})
        if d["CYCLE"]:
            failures.append({"kind": "proof", "key": "lock-cycle:" + ",".join(d["CYCLE"]), "has_input": False, "component": "lockset",
                             "summary": "C09_lock_order_acyclic fails: mutexes on a cycle of the acquires-while-holding graph: %s; edges: %s" % (
                                 ", ".join(d["CYCLE"]), ", ".join(d["ORDER"] or [])), "coqc_log": res["log"]})
        if not ok and not failures:
            failures.append({"kind": "proof", "key": "tables", "has_input": False, "component": "lockset",
                             "summary": "the C09 obligations do not check on the regenerated table (flags %s)" % flags, "coqc_log": res["log"]})
        # distinct non-trivial sites: those of classified fields
        cls = {w.split("=")[0] for w in written}
        nontriv = 0
        names = dict(re.findall(r'^Definition (s_\w*) := "((?:[^"]|"")*)"\.$', text, re.M))
        for m in re.finditer(r"mkAccess (\S+) (\S+) ", text):
            if names.get(m.group(1), "") + "." + names.get(m.group(2), "") in cls:
                nontriv += 1
        cov["distinct_nontrivial"] = nontriv
        cov["table_installed"] = False
        if ok:
            old = open(GEN).read() if os.path.exists(GEN) else None
            if old != text:
                with lib.Lock("build"):
                    tmp = GEN + ".tmp%d" % os.getpid()
                    open(tmp, "w").write(text)
                    os.replace(tmp, GEN)
                cov["table_changed"] = True
            try:
                lib.build_coq()
                cov["table_installed"] = True
            except lib.BuildError as e:
                failures.append({"kind": "proof", "key": "project-build", "has_input": False, "component": "lockset",
                                 "summary": "the table checks in isolation but the project does not build with it: " + e.what, "coqc_log": e.log})
        else:
            cov["note"] = ("the regenerated table was NOT installed as coq/gen/Accesses.v: the theorems of Properties.v still speak about the "
                           "last tree that obeyed the discipline; this run reports the violation")
        return ok

    # ------------------------------------------------------------------ dynamic half
    def stress(self, ctx, cov, failures):
        work, tier, rng = ctx["work"], ctx["tier"], ctx["rng"]
        rdir = os.path.join(work, "race")
        os.makedirs(rdir, exist_ok=True)
        race = True
        t0 = time.time()
        try:
            drv = lib.build_driver(rdir, race=True)
        except lib.BuildError as e:
            if "does not build" in e.what and ("cgo" in e.log.lower() or "-race" in e.log):
                race = False
                cov["race_detector"] = "unavailable (%s): plain stress run instead" % e.log.strip().splitlines()[-1][:200]
                drv = lib.build_driver(rdir, race=False)
            else:
                raise
        cov["race_build_s"] = round(time.time() - t0, 1)
        if race:
            cov["race_detector"] = "go test -race (works offline: runtime/race syso ships with the toolchain, CGO_ENABLED=1, gcc present)"
        if tier == "quick":
            plans = [(3, 2, 150, 30, 1, 0, 2)]
        else:
            plans = []
            for procs in (1, 2, 4, 8):
                for nl in (2, 3, 4):
                    plans.append((nl, rng.choice([1, 2, 3]), 400, 80, 1, procs, 2))
            plans += [(3, 2, 300, 60, 0, 0, 2), (4, 3, 400, 100, 1, 0, 2)]
        blocks = proxygen.alloc_blocks(len(plans))
        sent = delivered = 0
        runs = []
        t0 = time.time()
        for i, (pl, blk) in enumerate(zip(plans, blocks)):
            for attempt in range(3):
                c = Case("racestress", "rs%d" % i, [blk.decode().rstrip(".")] + list(pl))
                cp, op = os.path.join(rdir, "case%d.txt" % i), os.path.join(rdir, "obs%d.txt" % i)
                lib.write_cases([c], cp)
                if os.path.exists(op):
                    os.remove(op)
                env = dict(os.environ, VERIF_CASES=cp, VERIF_OUT=op, VERIF_RS_ERRLOG="1",
                           GORACE="halt_on_error=0 exitcode=66 history_size=2")
                try:
                    p = subprocess.run([drv, "-test.run", "^TestVerifDriver$", "-test.timeout", "180s"], env=env, cwd=rdir,
                                       stdout=subprocess.PIPE, stderr=subprocess.STDOUT, timeout=240)
                    rc, log = p.returncode, p.stdout.decode("utf-8", "replace")
                except subprocess.TimeoutExpired as e:
                    rc, log = 124, (e.stdout or b"").decode("utf-8", "replace") + "\n<driver timed out: deadlock?>"
                obs = lib.parse_obs(op).get(c.id) if os.path.exists(op) else None
                # the address block may still be held by a process of another check running at the same time (the block
                # counter wraps): play the plan again in a fresh block; a proxy that cannot start for another reason fails again
                if obs and obs[0] in (b"setup-fail", b"start-fail") and attempt < 2:
                    blk = proxygen.alloc_blocks(1)[0]
                    continue
                break
            base = {"component": "racestress", "case_id": c.id, "case_line": c.line(), "case": [lib.show(t) for t in c.toks],
                    "plan": dict(zip(("listeners", "senders", "msgs", "changes", "tcp", "gomaxprocs", "burst"), pl))}
            if "WARNING: DATA RACE" in log:
                reports = log.split("WARNING: DATA RACE")[1:]
                first = "WARNING: DATA RACE" + reports[0][:6000]
                funcs = sorted(set(re.findall(r"sipproxy\.\(?\*?(\w+)\)?\.(\w+)\(\)", first)))
                where = ", ".join("%s.%s" % f for f in funcs[:8])
                key = "race-detected"
                for fld, pat in (("SelfLearnRoute.route", "SelfLearnRoute"), ("TCPServerTransport.exit", "IsExit"),
                                 ("TCPBackend.conn", "TCPBackend"), ("AddressWithCallback.callbacks", "notifyAddressChanged")):
                    if pat in first:
                        key = "race:" + fld
                        break
                failures.append(dict(base, kind="crash", has_input=True, key=key,
                                     summary="the race detector reports %d data race(s) under parallel load on %d listeners; first report involves %s" % (
                                         len(reports), pl[0], where), race_report=first, exit_code=rc))
                runs.append({"plan": base["plan"], "races": len(reports)})
                continue
            if obs is None or not obs or obs[0] in (b"panic", b"setup-fail", b"start-fail", b"config-fail", b"decode-error"):
                fatal = re.search(r"fatal error: [^\n]*|panic: [^\n]*", log)
                failures.append(dict(base, kind="crash", has_input=True, key="stress-crash",
                                     summary="the proxy died or wedged under parallel load (%s)" % (
                                         fatal.group(0) if fatal else (obs and [lib.show(t) for t in obs[:2]]) or "no observation, rc=%d" % rc),
                                     log=log[-6000:], exit_code=rc))
                continue
            n = [int(x) for x in obs[:9]]
            notes = [x.decode() for x in obs[9:]]
            r = dict(zip(("sent", "delivered_once", "duplicated", "lost", "responses", "responses_missing", "membership_changes",
                          "kernel_udp_errors", "tcp_sent"), n))
            r["plan"] = base["plan"]
            runs.append(r)
            sent += r["sent"]
            delivered += r["delivered_once"]
            lost_ids = [x[5:] for x in notes if x.startswith("lost:")]
            other = [x for x in notes if not x.startswith("lost:")]
            if other:
                failures.append(dict(base, kind="crash", has_input=True, key="stress:" + other[0],
                                     summary="stress run anomalies: %s" % ", ".join(other), log=log[-4000:], counts=r))
            if r["duplicated"]:
                failures.append(dict(base, kind="mismatch", has_input=True, key="duplicated-delivery",
                                     summary="%d request(s) reached more than one backend socket" % r["duplicated"], counts=r))
            if r["lost"] and r["kernel_udp_errors"] == 0:
                # is every lost request one the proxy itself gave up on (send to a backend whose socket was just closed)?
                # (read off the proxy's ERROR-level log entries by their CONTENT, not their wording - a reworded message must
                # not turn the known finding into an alarm: the entry of sendToBackend carries the message it gave up on)
                errs = [l for l in log.splitlines() if "\tERROR\t" in l or '"level":"error"' in l.lower()]
                gave_up = set(i for l in errs for i in re.findall(r"Call-ID: ([\w-]+)", l))
                explained = [i for i in lost_ids if i in gave_up]
                # the known finding is specifically a WRITE on the socket of a backend that was just closed: UDPBackend.Send
                # logs one error entry naming that backend's address (and no message) for each such write.  A request the pool
                # gave up on without any write attempt ("fail to send msg to all the backend", "fail to get next backend") is not it.
                write_failures = len([l for l in errs if "Call-ID:" not in l and re.search(r"\d+\.\d+\.\d+\.\d+:5070", l)])
                if len(explained) == len(lost_ids) and len(lost_ids) == r["lost"] and write_failures >= len(lost_ids):
                    failures.append(dict(base, kind="mismatch", has_input=True, key="request-dropped-when-backend-removed",
                                         summary="%d of %d requests were dropped by the proxy: RoundRobinBackend.Send picked a backend that the resolver "
                                                 "goroutine removed (socket closed) before the write; the send error is logged and the request is not "
                                                 "retried on another backend (ids %s)" % (r["lost"], r["sent"], ",".join(lost_ids[:5])),
                                         counts=r, log="\n".join(errs)[:3000]))
                else:
                    failures.append(dict(base, kind="mismatch", has_input=True, key="lost-requests",
                                         summary="%d of %d requests never reached a backend socket although the kernel dropped nothing (ids %s)" % (
                                             r["lost"], r["sent"], ",".join(lost_ids[:5])), counts=r, log=log[-3000:]))
            elif r["responses_missing"] > r["lost"] and r["kernel_udp_errors"] == 0:
                failures.append(dict(base, kind="mismatch", has_input=True, key="lost-responses",
                                     summary="%d responses did not return to their sender" % (r["responses_missing"] - r["lost"]), counts=r))
            elif r["lost"]:
                r["note"] = "loss not judged: the kernel dropped %d datagrams at this rate" % r["kernel_udp_errors"]
        # one failure entry per key (the same finding shows up in many runs): keep the first, count the rest
        first = {}
        for f in [f for f in failures if f.get("component") == "racestress"]:
            if f["key"] in first:
                first[f["key"]]["occurrences"] += 1
                failures.remove(f)
            else:
                f["occurrences"] = 1
                first[f["key"]] = f
        for f in first.values():
            if f["occurrences"] > 1:
                f["summary"] += " [seen in %d of %d stress runs]" % (f["occurrences"], len(plans))
        cov["stress_s"] = round(time.time() - t0, 1)
        cov["stress_runs"] = runs
        cov["stress_requests"] = sent
        cov["traces_validated_against_impl"] = delivered
        cov["samples"] = [{"component": "racestress", "case": [str(x) for x in plans[0]], "meta": {"fields": "listeners senders msgs changes tcp gomaxprocs burst"}}]

    def run(self, ctx):
        cov, failures = {}, []
        try:
            self.static_half(ctx, cov, failures)
        except lib.BuildError as e:
            failures.append({"kind": "proof", "key": "build", "has_input": False, "component": "lockset",
                             "summary": e.what, "coqc_log": e.log})
        if not os.environ.get("VERIF_C09_NOSTRESS"):
            try:
                self.stress(ctx, cov, failures)
            except lib.BuildError as e:
                failures.append({"kind": "crash", "key": "driver-build", "has_input": False, "component": "racestress",
                                 "summary": e.what, "log": e.log})
        if not os.environ.get("VERIF_C09_NOSTRESS"):
            self.pool_stress(ctx, cov, failures)
        cov["exhaustive"] = True   # the static half covers every recorded site, not a sample
        return {"coverage": cov, "failures": failures}

    def pool_stress(self, ctx, cov, failures):
        """"every request still reaches exactly one backend" under membership changes, on the pool itself: the real
        RoundRobinBackend.Send racing with Add/RemoveBackend, backend doubles that never fail and at least one backend
        registered at every instant (so the known socket-closed finding cannot occur): a failed or panicking dispatch, or a
        delivery count different from the number of dispatches, is a lost / duplicated request."""
        from lib import Case
        plans = [(600, 2, 3, 2), (400, 1, 2, 4)] if ctx["tier"] == "quick" else [(2500, p, c, s) for p in (1, 2) for c in (1, 3) for s in (1, 4)]
        drv = lib.build_driver(ctx["work"])
        stress = [Case("rrstress", "ps%d" % i, list(p), {"kind": "pool-stress", "plan": list(p)}) for i, p in enumerate(plans)]
        got = lib.run_impl(drv, stress, ctx["work"], tag="poolstress")
        tot = {"sends": 0, "errors": 0, "panics": 0, "delivered": 0}
        for c in stress:
            o = got.get(c.id, [b"crash"])
            if o[:1] in ([b"crash"], [b"panic"]) or len(o) < 5:
                failures.append({"kind": "crash", "key": "stress-crash", "has_input": True, "component": "rrstress", "case_line": c.line(),
                                 "summary": "the pool stress died: %s" % [lib.show(t, 300) for t in o[:2]]})
                continue
            sends, errs, panics, delivered = (int(x) for x in o[:4])
            for k_, v in zip(("sends", "errors", "panics", "delivered"), (sends, errs, panics, delivered)):
                tot[k_] += v
            if errs or panics or delivered != sends:
                failures.append({"kind": "judge", "key": "lost-requests", "has_input": True, "component": "rrstress", "case_line": c.line(),
                                 "counts": {"sends": sends, "errors": errs, "panics": panics, "delivered": delivered},
                                 "summary": "requests racing with backend membership changes were lost on the pool: %d dispatches, %d failed, %d "
                                            "panicked (%s), %d delivered although %d backend(s) were registered the whole time and no send can fail"
                                            % (sends, errs, panics, lib.show(o[4], 120), delivered, c.meta["plan"][1])})
        cov["pool_stress"] = tot


PROP = C09()
