"""C04 — in-dialog requests stick to the backend that answered the dialog"""
import lib, proxygen as pg, proxyflows as pf, proxycheck as pc


class C04:
    id = "C04"
    rule = ("histories of 1-7 (thorough: up to 50) concurrent dialogs over 2-6 backends through the real proxy: initial INVITE/SUBSCRIBE, "
            "provisional and final responses sent from a backend address, in-dialog requests of every method (ACK, BYE, re-INVITE, UPDATE, INFO, "
            "NOTIFY, refresh SUBSCRIBE, ...) in both directions (From/To swapped), unrelated requests advancing the rotation in between; "
            "Call-IDs / tags containing '-', equal From and To URIs, tel:/urn: URIs. The judge tracks, from the observations alone, which "
            "backend answered each dialog and checks every later in-dialog request addressed to the service. Non-trivial = at least one "
            "in-dialog request was delivered while its dialog was pinned; distinct by content hash.")
    trusted = ["UDP loopback delivery is synchronous and ordered per socket (barrier argument of DESIGN 3.1)"]
    assumptions = ["within the dialog lifetime (histories last milliseconds; lifetimes are C15's subject)"]

    def run(self, ctx):
        rng, tier = ctx["rng"], ctx["tier"]
        corpus = pc.load_corpus_rebased("C04")
        n = 300 if tier == "quick" else 5000
        blocks = pg.alloc_blocks(n)
        cases = list(corpus)
        for i in range(n):
            nd = rng.randrange(1, 8) if tier == "quick" or i % 10 else rng.randrange(20, 51)
            f = pf.dialog_history(rng, blocks[i], n_dialogs=nd)
            cases.append(f.s.case("g%d" % i, {"kind": "dialog-history", "dialogs": nd, "backends": len(f.backends)}))
        cov, failures = pc.explore(ctx, "C04", cases, ["proxy-C04", "proxy-C03"], nontrivial=lambda c, ni: sum(1 for o, _ in ni if o) >= 3)
        cov["samples"] = [{"component": "proxy", "events": c.meta["events"], "dialogs": c.meta.get("dialogs")} for c in cases[len(corpus):len(corpus) + 3]]
        cov["corpus_cases"] = len(corpus)
        cov["exhaustive"] = False
        pc.explore_tb(ctx, "C04", ["proxytb-C04", "proxytb-C03"], cov, failures)
        return {"coverage": cov, "failures": failures}


PROP = C04()
