"""Shared generators for the byte-level receive path (used by c10.py, c11.py and the parse part
of C08): SIP-looking messages with controllable line lengths / endings / bodies, segmentations,
hostile framing values.  Not a property by itself; `python3 tools/props/c08rx.py [quick|thorough]`
runs the C08 parse-part stream stand-alone (no panic, no hang, no allocation out of proportion
to the bytes received, on the TCP and the UDP receive path)."""
import os, sys

if __name__ == "__main__":
    sys.path.insert(0, os.path.dirname(os.path.dirname(os.path.abspath(__file__))))
import lib
from lib import Case

METHODS = [b"INVITE", b"ACK", b"BYE", b"OPTIONS", b"REGISTER", b"SUBSCRIBE", b"NOTIFY", b"MESSAGE", b"X"]
HNAMES = [b"Via", b"From", b"To", b"Call-ID", b"CSeq", b"Contact", b"Max-Forwards", b"Route", b"Record-Route",
          b"X-A", b"x", b"Subject", b"User-Agent", b"Allow", b"v", b"f", b"t", b"i", b"m", b"Content-Type", b"c"]
HOSTS = [b"a.example.com", b"10.0.0.1", b"h", b"proxy.example.org:5070", b"[x]"]
PRINTABLE = bytes(range(33, 127))
SIPISH = (b"INVITE sip:evil@h SIP/2.0\r\nVia: SIP/2.0/UDP x;branch=z9hG4bKq\r\nContent-Length: 7\r\n\r\nPAYLOAD"
          b"\r\n\r\nSIP/2.0 200 OK\r\nContent-Length: 0\r\n\r\n")


def rand_text(rng, n, alphabet=PRINTABLE):
    return bytes(rng.choice(alphabet) for _ in range(n)) if n < 64 else \
        bytes(rng.choices(alphabet, k=n))


def rand_value(rng, n):
    """n bytes, no CR/LF, no blank at either end (the parser trims)"""
    if n == 0:
        return b""
    inner = PRINTABLE + b"    \t"
    v = bytearray(rng.choices(inner, k=n))
    v[0] = rng.choice(PRINTABLE)
    v[-1] = rng.choice(PRINTABLE)
    return bytes(v)


def rand_body(rng, n):
    if n == 0:
        return b""
    k = rng.randrange(4)
    if k == 0:
        return bytes(rng.choices(range(256), k=n))
    if k == 1:
        return (SIPISH * (n // len(SIPISH) + 1))[:n]
    if k == 2:
        return bytes(rng.choices(b"\r\n\r\n :ab", k=n))
    return rand_text(rng, n)


def start_line(rng):
    if rng.random() < 0.6:
        uri = b"sip:" + rng.choice([b"", b"bob@", b"u1@"]) + rng.choice(HOSTS[:4])
        if rng.random() < 0.3:
            uri += b";transport=" + rng.choice([b"tcp", b"udp"])
        return rng.choice(METHODS) + b" " + uri + b" SIP/2.0"
    return b"SIP/2.0 " + rng.choice([b"100 Trying", b"180 Ringing", b"200 OK", b"404 Not Found", b"486 Busy Here",
                                     b"503 Service Unavailable now"])


class Msg:
    """a generated message: start line, (name, value, raw line) headers, body, line endings"""
    __slots__ = ("start", "headers", "body", "eols", "lead")

    def encode(self):
        out = [self.lead, self.start, self.eols[0]]
        for i, (n, v, raw) in enumerate(self.headers):
            out += [raw, self.eols[1 + i]]
        out += [self.eols[-1], self.body]
        return b"".join(out)


def gen_msg(rng, max_line=200, max_body=300, nheaders=None, eol_mode=None, lead=None, long_line=None):
    m = Msg()
    m.start = start_line(rng)
    nh = rng.randrange(0, 7) if nheaders is None else nheaders
    hs = []
    for _ in range(nh):
        name = rng.choice(HNAMES) if rng.random() < 0.8 else rand_text(rng, rng.randrange(1, 12), b"abcXYZ-")
        if name.lower() in (b"content-length", b"l"):
            name = b"X-L"
        r = rng.random()
        ln = 0 if r < 0.05 else rng.randrange(1, 40) if r < 0.7 else rng.randrange(1, max(2, max_line))
        hs.append((name, rand_value(rng, ln)))
    if long_line is not None:
        hs.insert(rng.randrange(len(hs) + 1), (b"X-Long", rand_value(rng, long_line)))
    body_len = 0 if rng.random() < 0.35 else rng.randrange(0, max_body + 1)
    m.body = rand_body(rng, body_len)
    cl_name = rng.choice([b"Content-Length", b"Content-Length", b"content-length", b"l", b"L", b"CONTENT-LENGTH"])
    hs.insert(rng.randrange(len(hs) + 1), (cl_name, b"%d" % body_len))
    m.headers = []
    for n, v in hs:
        sep = rng.choice([b": ", b": ", b":", b":  ", b":\t"])
        tail = rng.choice([b"", b"", b"", b" ", b"\t "])
        m.headers.append((n, v, n + sep + v + tail))
    mode = eol_mode if eol_mode is not None else rng.choice(["crlf", "crlf", "lf", "mixed"])
    k = len(m.headers) + 2
    if mode == "crlf":
        m.eols = [b"\r\n"] * k
    elif mode == "lf":
        m.eols = [b"\n"] * k
    else:
        m.eols = [rng.choice([b"\r\n", b"\n"]) for _ in range(k)]
    m.lead = (b"\r\n" * rng.choice([0, 0, 0, 1, 2, 3])) if lead is None else lead
    return m


def segment(data, cuts):
    """split at the given (sorted, distinct, 0 < c < len) offsets"""
    out, p = [], 0
    for c in cuts:
        out.append(data[p:c])
        p = c
    out.append(data[p:])
    return [x for x in out if x]


def random_cuts(rng, n, k):
    if n <= 1:
        return []
    return sorted(rng.sample(range(1, n), min(k, n - 1)))


def stream_case(comp, cid, size, chunks, meta=None):
    return Case(comp, cid, [size, len(chunks)] + list(chunks), meta)


def udp_case(comp, cid, asize, ops, meta=None):
    toks = [asize, len(ops)]
    for op in ops:
        toks += list(op)
    return Case(comp, cid, toks, meta)


# ----------------------------------------------------------------------------- hostile framing (C08 parse part)
HOSTILE_CL = [b"-1", b"-0", b"+3", b" 3", b"3 ", b"0x10", b"", b"abc", b"1e3", b"99999", b"65536", b"65537", b"131073",
              b"9223372036854775808", b"-9223372036854775808", b"18446744073709551616",
              b"00000000000000000000000000000000003"]
# Content-Length values for which the code as found reserves memory for bytes that never arrive
# (or dies in make): they run LAST, one driver process at a time, so that a crash or a fatal
# out-of-memory of the unrepaired code costs only that case
ABSURD_CL = [b"1073741824", b"3000000000", b"2147483647", b"4294967296", b"4611686018427387904",
             b"9223372036854775807", b"281474976710656"]


def hostile_messages(rng, n):
    out = []
    base = gen_msg(rng, nheaders=3, eol_mode="crlf", lead=b"").encode()
    for i in range(n):
        r = rng.randrange(9)
        if r == 0:      # hostile Content-Length
            m = gen_msg(rng, nheaders=rng.randrange(0, 4), eol_mode="crlf", lead=b"")
            cl = rng.choice(HOSTILE_CL)
            m.headers = [(a, b, c) if a.lower() not in (b"content-length", b"l") else (a, cl, a + b": " + cl)
                         for a, b, c in m.headers]
            out.append(m.encode())
        elif r == 1:    # truncation
            d = gen_msg(rng).encode()
            out.append(d[:rng.randrange(len(d) + 1)])
        elif r == 2:    # byte mutations
            d = bytearray(gen_msg(rng).encode())
            for _ in range(rng.randrange(1, 6)):
                if d:
                    d[rng.randrange(len(d))] = rng.choice(b"\r\n: \x00\xff;<>[]@%" + bytes([rng.randrange(256)]))
            out.append(bytes(d))
        elif r == 3:    # thousands of headers
            k = rng.choice([100, 1000, 3000])
            out.append(b"OPTIONS sip:h SIP/2.0\r\n" + b"".join(b"h%d: %d\r\n" % (j, j) for j in range(k)) +
                       b"Content-Length: 0\r\n\r\n")
        elif r == 4:    # very long lines, no line end at all, only line ends
            out.append(rng.choice([b"A" * rng.choice([15, 16, 17, 4095, 4096, 4097, 20000]),
                                   b"\r\n" * rng.randrange(1, 50), b"\r" * 20 + b"\n", b":" * 100 + b"\r\n\r\n",
                                   b"INVITE sip:a SIP/2.0\r\n" + b"x" * 70000]))
        elif r == 5:    # random bytes
            out.append(bytes(rng.choices(range(256), k=rng.randrange(0, 300))))
        elif r == 6:    # start line variants
            sl = rng.choice([b"SIP/2.0", b"SIP/2.0 abc OK", b"SIP/2.0 99999999999999999999 OK", b"SIP/", b"INVITE",
                             b"INVITE sip:[ SIP/2.0", b"INVITE  sip:a   SIP/2.0 extra", b"\x00 \x00 \x00", b": : :"])
            out.append(sl + b"\r\nContent-Length: 0\r\n\r\n")
        elif r == 7:    # no Content-Length / duplicate / in the body only
            out.append(rng.choice([b"BYE sip:a SIP/2.0\r\nVia: x\r\n\r\n",
                                   b"BYE sip:a SIP/2.0\r\nl: 2\r\nContent-Length: 5\r\n\r\nabcde",
                                   b"BYE sip:a SIP/2.0\r\nVia: x\r\n\r\nContent-Length: 0\r\n\r\n"]))
        else:
            out.append(base + base[:rng.randrange(len(base))])
    return out


def c08_cases(rng, tier):
    n = 1500 if tier == "quick" else 40000
    cases = []
    msgs = hostile_messages(rng, n)
    for i, d in enumerate(msgs):
        if i % 3 == 0 and len(d) <= 65536:
            asize = rng.choice([128, 1024, 65536])
            ops = [(b"dirty", rand_body(rng, min(asize, 200)))] if rng.random() < 0.5 else []
            ops += [(b"recv", d), (b"parse",)]
            cases.append(udp_case("rxudp-c08", "hu%d" % i, asize, ops, {"kind": "hostile-udp"}))
        else:
            size = rng.choice([16, 64, 4096, 4096])
            if len(d) > 8000:
                size = 4096      # the model's fragment concatenation is quadratic in the number of fragments
            k = rng.choice([0, 1, 3, 10])
            chunks = segment(d, random_cuts(rng, len(d), k))
            cases.append(stream_case("rxstream-c08", "hs%d" % i, size, chunks, {"kind": "hostile-stream"}))
    # the absurd-allocation cases, last
    last = []
    for j, cl in enumerate(ABSURD_CL):
        d = b"INVITE sip:a@h SIP/2.0\r\nVia: SIP/2.0/TCP h\r\nContent-Length: " + cl + b"\r\n\r\nshort"
        last.append(stream_case("rxstream-c08", "ballS%d" % j, 4096, [d], {"kind": "absurd-length"}))
        last.append(udp_case("rxudp-c08", "ballU%d" % j, 65536, [(b"recv", d), (b"parse",)], {"kind": "absurd-length"}))
        # the same claim with MORE than 64 KiB of body actually delivered: the body buffer has to grow, and may grow only
        # in proportion to what has arrived
        big = b"INVITE sip:a@h SIP/2.0\r\nVia: SIP/2.0/TCP h\r\nContent-Length: " + cl + b"\r\n\r\n" + rand_body(rng, 70000 + 10000 * (j % 3))
        last.append(stream_case("rxstream-c08", "ballL%d" % j, 4096, segment(big, random_cuts(rng, len(big), 3)), {"kind": "absurd-length-long-body"}))
    return cases, last


def describe(c, io, mo):
    return "%s: impl ends %s, model %s" % (c.meta.get("kind"), [lib.show(t, 60) for t in io[-3:]],
                                           [lib.show(t, 60) for t in mo[-3:]])


def run(ctx):
    """C08 parse part: (coverage, failures)"""
    rng, tier = ctx["rng"], ctx["tier"]
    cases, last = c08_cases(rng, tier)
    cov, failures = lib.differential(ctx, cases, describe=describe, shards=8)
    # one at a time, unsharded: a fatal out-of-memory kills only that case's driver
    cov2, f2 = lib.differential(ctx, last, describe=describe, shards=1)
    for k in ("evaluations", "distinct_nontrivial", "traces_validated_against_impl"):
        cov[k] += cov2[k]
    return cov, failures + f2


if __name__ == "__main__":
    import random, shutil, tempfile, time
    tier = sys.argv[1] if len(sys.argv) > 1 else "quick"
    t0 = time.time()
    work = tempfile.mkdtemp(prefix="verif-C08RX-")
    try:
        lib.build_coq()
        drv = lib.build_driver(work)
        seed = int(os.environ.get("VERIF_SEED", "1") or "1")
        ctx = {"work": work, "drv": drv, "tier": tier, "seed": seed, "rng": random.Random(seed * 1000003 + 8)}
        cov, failures = run(ctx)
        for f in failures[:5]:
            rp = lib.write_replay("C08", f["kind"], f)
            print("VIOLATION property=C08(parse part) replay=%s [%s]" % (rp, f.get("summary", "")))
        if not failures:
            print("OK C08 parse part tier=%s evaluations=%d wall=%.1fs" % (tier, cov["evaluations"], time.time() - t0))
        sys.exit(1 if failures else 0)
    finally:
        shutil.rmtree(work, ignore_errors=True)
