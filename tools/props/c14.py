"""C14 — headers the proxy decodes are re-encoded without loss or distortion.
Grammar-driven: abstract values -> (Coq reference printer, SpecC14.v) -> text -> real Parse*/String and accessors."""
import lib
from lib import Case

ALNUM = b"abcdefghijklmnopqrstuvwxyzABCDEFGHIJKLMNOPQRSTUVWXYZ0123456789"
SAFE_EXTRA = b"-._~!*'()+%$"          # allowed in "safe" tokens besides alphanumerics
VAL_EXTRA = SAFE_EXTRA + b"=:@/\"[]"  # additionally allowed in parameter / URI-header values


def tok_(rng, alphabet, lo=1, hi=12):
    n = rng.randrange(lo, hi + 1)
    return bytes(rng.choice(alphabet) for _ in range(n))


def safe(rng, lo=1, hi=10):
    r = rng.random()
    if r < 0.7:
        return tok_(rng, ALNUM, lo, hi)
    if r < 0.85:
        return tok_(rng, ALNUM + SAFE_EXTRA, lo, hi)
    return tok_(rng, ALNUM, 1, 3) + rng.choice([b"%41", b"%", b"%s", b"%d%%", b"%!", b"-", b"."]) + tok_(rng, ALNUM, 0, 3)


def val(rng):
    r = rng.random()
    if r < 0.6:
        return safe(rng)
    if r < 0.9:
        return tok_(rng, ALNUM + VAL_EXTRA, 1, 14)
    return rng.choice([b"%41%sz", b"a=b=c", b"1.2.3.4:5060", b"\"q\"", b"x@y", b"%"])


def host(rng):
    r = rng.random()
    if r < 0.4:
        return b"%d.%d.%d.%d" % tuple(rng.randrange(1, 255) for _ in range(4))
    if r < 0.9:
        return b".".join(tok_(rng, ALNUM + b"-", 1, 8) for _ in range(rng.randrange(1, 4)))
    return safe(rng)


def port(rng):
    if rng.random() < 0.5:
        return None
    return rng.choice([1, 5060, 5061, 65535, rng.randrange(1, 65536)])


def param(rng, allow_lr=True):
    r = rng.random()
    if allow_lr and r < 0.2:
        return (b"lr", None)
    k = rng.choice([b"transport", b"ttl", b"maddr", b"user", b"method", b"tag", b"branch", b"received", b"rport", safe(rng), safe(rng)])
    if rng.random() < 0.3:
        return (k, None)
    if k == b"transport":
        return (k, rng.choice([b"udp", b"tcp", b"tls", b"TLS", b"sctp", b"ws"]))
    if k == b"rport":
        return (k, rng.choice([b"5060", b"1", b"65535", b"abc", b"007"]))
    return (k, val(rng))


def params(rng, hi, allow_lr=True):
    return [param(rng, allow_lr) for _ in range(rng.choice([0, 0, 1, 1, 2, 3, hi]))]


def sipuri(rng, bare=False):
    usr = None
    if rng.random() < 0.7:
        usr = (safe(rng), safe(rng) if rng.random() < 0.25 else None)
    u = {"sec": rng.random() < 0.2, "user": usr, "host": host(rng), "port": port(rng),
         "params": [] if bare else params(rng, 6), "headers": [] if bare else
         [(safe(rng), val(rng) if rng.random() < 0.9 else b"") for _ in range(rng.choice([0, 0, 0, 1, 2, 3]))]}
    return u


def other(rng, bare=False):
    r = rng.random()
    if r < 0.5:
        s = b"tel:+" + tok_(rng, b"0123456789-", 3, 12)
        if not bare and rng.random() < 0.6:
            s += b";phone-context=" + host(rng)
        if not bare and rng.random() < 0.3:
            s += b";" + safe(rng) + b"=" + safe(rng)
    elif r < 0.9:
        s = b"urn:" + b":".join(tok_(rng, ALNUM + b"-.", 1, 8) for _ in range(rng.randrange(2, 5)))
    else:
        s = rng.choice([b"http://", b"mailto:", b"im:"]) + tok_(rng, ALNUM + b"@./%", 3, 12)
    return s


def addr(rng, bare=False):
    if rng.random() < 0.7:
        return ("sip", sipuri(rng, bare))
    return ("other", other(rng, bare))


def display(rng):
    r = rng.random()
    if r < 0.35:
        return b""
    if r < 0.6:
        return safe(rng) + rng.choice([b" ", b""])
    if r < 0.9:
        return b"\"" + tok_(rng, ALNUM + b" .;=%@:!", 1, 14) + b"\"" + rng.choice([b" ", b""])
    return rng.choice([b"\"a%41\" ", b"\"100% sure\" ", b"%s ", b"\"semi;colon\" "])


def nameaddr(rng):
    return {"display": display(rng), "addr": addr(rng)}


# ---- token encoders (format of SpecC14.v's decoders) ----
def t_opt(x, enc):
    return [0] if x is None else [1] + enc(x)


def t_param(p):
    return [p[0]] + t_opt(p[1], lambda v: [v])


def t_list(l, enc):
    out = [len(l)]
    for x in l:
        out += enc(x)
    return out


def t_sipuri(u):
    return ([1 if u["sec"] else 0] + t_opt(u["user"], lambda x: [x[0]] + t_opt(x[1], lambda p: [p])) +
            [u["host"]] + t_opt(u["port"], lambda p: [p]) + t_list(u["params"], t_param) +
            t_list(u["headers"], lambda h: [h[0], h[1]]))


def t_addr(a):
    return [1] + t_sipuri(a[1]) if a[0] == "sip" else [0, a[1]]


def t_nameaddr(n):
    return [n["display"]] + t_addr(n["addr"])


def gen_value(rng, kind):
    if kind == "sipuri":
        return t_sipuri(sipuri(rng))
    if kind == "addrspec":
        return t_addr(addr(rng))
    if kind == "nameaddr":
        return t_nameaddr(nameaddr(rng))
    if kind in ("route", "recordroute"):
        n = rng.choice([1, 1, 2, 3, 6])
        return t_list([(nameaddr(rng), params(rng, 5, False)) for _ in range(n)],
                      lambda e: t_nameaddr(e[0]) + t_list(e[1], t_param))
    if kind in ("from", "to"):
        ps = params(rng, 5, False)
        if rng.random() < 0.8:
            ps.insert(rng.randrange(0, len(ps) + 1), (b"tag", safe(rng)))
        if rng.random() < 0.75:
            return [1] + t_nameaddr(nameaddr(rng)) + t_list(ps, t_param)
        return [0] + t_addr(addr(rng, bare=True)) + t_list(ps, t_param)
    if kind == "via":
        n = rng.choice([1, 1, 2, 3, 5])
        els = []
        for _ in range(n):
            ps = params(rng, 8, False)
            if rng.random() < 0.8:
                ps.insert(0, (b"branch", b"z9hG4bK" + safe(rng)))
            els.append((b"SIP", b"2.0", rng.choice([b"UDP", b"TCP", b"TLS", b"SCTP", b"udp", safe(rng)]), host(rng), port(rng), ps))
        return t_list(els, lambda v: [v[0], v[1], v[2], v[3]] + t_opt(v[4], lambda p: [p]) + t_list(v[5], t_param))
    if kind == "cseq":
        return [rng.choice([0, 1, 2 ** 31 - 1, 4294967295, rng.randrange(0, 10 ** 6)]),
                rng.choice([b"INVITE", b"ACK", b"BYE", b"NOTIFY", safe(rng)])]
    raise ValueError(kind)


KINDS = ["sipuri", "addrspec", "nameaddr", "route", "recordroute", "from", "to", "via", "cseq"]

# the two known-finding streams (generated too, tracked, never part of the wf domain)
def known_stream(rng, i):
    if i % 2 == 0:
        h = rng.choice([b"[::1]", b"[2001:db8::1]", b"[fe80::1%25eth0]"])
        txt = b"sip:" + (safe(rng) + b"@" if rng.random() < 0.5 else b"") + h + (b":5060" if rng.random() < 0.5 else b"")
        return ("ipv6", txt, h)
    usr = safe(rng) + rng.choice([b";", b"?"]) + safe(rng)
    h = host(rng)
    return ("user-special", b"sip:" + usr + b"@" + h + b":5070", h)


class C14:
    id = "C14"
    rule = ("grammar-driven: abstract values (SIP/SIPS URI with optional user[:password], IPv4/hostname, optional port, 0-6 URI "
            "parameters valued/valueless with 'lr' anywhere, 0-3 URI headers; tel:/urn:/other URIs with parameters; name-addr with "
            "token/quoted display names; bare addr-spec; Route/Record-Route lists of 1-6; From/To with 0-5 header parameters; Via lists "
            "of 1-5 with any sent-protocol token, optional port, 0-8 parameters; CSeq) are printed by the Coq reference printer "
            "(SpecC14.v), decoded+encoded by the real Parse*/String and by the model; judged: accessors = what the abstract value "
            "denotes, encoding byte-identical, encode-decode-encode stable. Values contain '%', quotes, '=', ':', '@'. "
            "Non-trivial = well-formed value with at least one parameter or list element beyond the first; distinct by content hash. "
            "A separate stream generates IPv6 references and user parts containing ';' or '?' (known findings K1, K2).")
    trusted = ["fmt %s/%d verbs and strings.Split/IndexByte/Fields as modelled in Bytes.v"]
    assumptions = ["compact rendering: no optional white space around ';' '=' ',' '<' '>' (outside every listed quantifier)",
                   "parameter values non-empty when '=' is present (RFC 3261 pvalue = 1*paramchar)"]

    def run(self, ctx):
        rng, tier, work = ctx["rng"], ctx["tier"], ctx["work"]
        n = 4000 if tier == "quick" else 200000
        gens = []
        for i in range(n):
            kind = KINDS[i % len(KINDS)]
            gens.append(Case("codecgen", "g%d" % i, [kind] + gen_value(rng, kind), {"kind": kind}))
        gout = lib.run_model(gens, work, tag="gen")
        cases = lib.load_corpus("C14")
        nc = len(cases)
        notwf = 0
        for g in gens:
            o = gout[g.id]
            if o[0] not in (b"0", b"1"):
                raise lib.BuildError("codecgen failed", repr(o[:3]))
            wf, text, expected = o[0] == b"1", o[1], o[2:]
            if not wf:
                notwf += 1
                continue
            kind = g.meta["kind"]
            cases.append(Case("codec", "c" + g.id[1:], [kind, text, len(expected)] + expected, {"kind": kind, "class": "wf"}))
        nk = 60 if tier == "quick" else 1000
        for i in range(nk):
            cls, txt, h = known_stream(rng, i)
            # expected: a decoder that extracts the host the text denotes
            cases.append(Case("codec", "k%d" % i, ["sipuri", txt, 1, b"host=" + h], {"kind": "sipuri", "class": cls, "host": h.decode()}))

        def key_fn(c, io, mo):
            cls = c.meta.get("class")
            if cls == "ipv6":
                return "sip-uri-ipv6-reference"
            if cls == "user-special":
                return "sip-uri-user-semicolon-or-question-mark"
            return None

        def nontrivial(c, io):
            return c.meta.get("class") == "wf" and len(c.toks) > 14

        # known-stream cases are judged on the host accessor only
        def project(c, o):
            return o
        cov, failures = lib.differential(ctx, cases, nontrivial=nontrivial, key_fn=key_fn, judge=True, max_failures=40,
                                         describe=lambda c, io, mo: "%s %s -> %s" % (c.toks[0].decode(), lib.show(c.toks[1], 80),
                                                                                   lib.show(io[1], 80) if len(io) > 1 else io))
        # collapse the known-finding stream to one line per key
        seen = set()
        out = []
        for f in failures:
            k = f.get("key")
            if k:
                if k in seen:
                    continue
                seen.add(k)
            out.append(f)
        cov["samples"] = lib.sample_of(cases[nc:nc + 3], 3) + lib.sample_of(cases[-1:], 1)
        cov["generated_values"] = n
        cov["rejected_by_wf"] = notwf
        hist = {}
        for c in cases:
            hist[c.meta.get("kind")] = hist.get(c.meta.get("kind"), 0) + 1
        cov["kind_histogram"] = hist
        import proxyflows as pf
        if pf.USP_FIELDS:
            # outside the grammar domain, differential only: Via and CSeq texts whose sent-protocol / number are followed by
            # Unicode white space (strings.Fields splits there) or by look-alikes that are no white space
            raw = []
            for i in range(300 if tier == "quick" else 5000):
                sp = rng.choice(pf.USPACE + pf.NOT_USPACE + [b" ", b"  ", b"\t", b""])
                sp2 = rng.choice(pf.USPACE + [b"", b"", b" "])
                if i % 2 == 0:
                    txt = sp2 + b"SIP/2.0/" + rng.choice([b"UDP", b"TCP"]) + sp + host(rng) + rng.choice([b"", b":5060"]) + sp2 + b";branch=z9hG4bK" + safe(rng)
                    kind = "via"
                else:
                    txt = sp2 + rng.choice([b"1", b"4294967295", b"007"]) + sp + rng.choice([b"INVITE", b"ACK", safe(rng)]) + sp2
                    kind = "cseq"
                raw.append(Case("codec", "u%d" % i, [kind, txt, 0], {"kind": kind, "class": "unicode-space"}))
            c2, f2 = lib.differential(ctx, raw, judge=False, max_failures=10,
                                      describe=lambda c, io, mo: "%s %s -> %s" % (c.toks[0].decode(), lib.show(c.toks[1], 80),
                                                                                lib.show(io[1], 80) if len(io) > 1 else io))
            cov["unicode_space_stream"] = {"evaluations": c2["evaluations"], "agree": c2.get("traces_validated_against_impl")}
            out.extend(f2)
        return {"coverage": cov, "failures": out}


PROP = C14()
