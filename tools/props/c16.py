"""C16 — dialog identity is direction-independent and discriminating."""
import itertools
import lib
from lib import Case

CALLIDS = [b"c1", b"c-1", b"c"]
TAGS = [b"1", b"2", b"a-b", b""]
# (text of the URI, its core = what identifies the endpoint, may be decorated with URI params?)
URIS = [(b"sip:u@h", True), (b"sip:h", True), (b"sip:u@h:5060", True), (b"sip:v@h", True), (b"sip:u@g", True),
        (b"tel:+1", False), (b"urn:s:1", False)]


def render_ft(rng, tag, uri, is_sip, decorate, has_tag=True):
    """one From/To value for the endpoint (tag, uri)"""
    u = uri
    disp = b""
    hparams = []
    if decorate:
        if is_sip and rng.random() < 0.7:
            # URI parameters, URI headers, or both (a URI may carry headers WITHOUT parameters)
            k = rng.random()
            if k < 0.75:
                u = u + rng.choice([b";transport=tcp", b";lr", b";x=1;lr;y", b";user=phone"])
            if k < 0.25 or k >= 0.75:
                u += rng.choice([b"?h=v", b"?Subject=hello", b"?a=b&c=d"])
        disp = rng.choice([b"", b"Alice ", b"\"A. B-1\" ", b"\"-\"", b"\"Smith; John\" ", b"\"x;tag=y\" "])
        hparams = rng.choice([[], [b"x=y"], [b"a", b"b=c-d"]])
    tagp = []
    if has_tag:
        tagp = [b"tag=" + tag] if tag else [rng.choice([b"tag", b"tag="])]
    ps = list(hparams)
    ps.insert(rng.randrange(0, len(ps) + 1) if ps else 0, tagp[0]) if tagp else None
    bare_ok = b";" not in u and b"?" not in u
    if bare_ok and not disp and rng.random() < (0.5 if not decorate else 0.2):
        s = u
    else:
        s = disp + b"<" + u + b">"
    for p in ps:
        s += b";" + p
    return s


def render_msg(rng, callid, a, b, swap, response, decorate, drop_tag=None):
    (ta, ua, sa), (tb, ub, sb) = (b, a) if swap else (a, b)
    fn = rng.choice([b"From", b"f", b"FROM", b"from"]) if decorate else b"From"
    tn = rng.choice([b"To", b"t", b"TO", b"to"]) if decorate else b"To"
    cn = rng.choice([b"Call-ID", b"i", b"call-id", b"CALL-ID"]) if decorate else b"Call-ID"
    f = render_ft(rng, ta, ua, sa, decorate, has_tag=(drop_tag != "from"))
    t = render_ft(rng, tb, ub, sb, decorate, has_tag=(drop_tag != "to"))
    method = rng.choice([b"INVITE", b"BYE", b"NOTIFY"])
    start = b"SIP/2.0 200 OK" if response else method + b" sip:svc@example.com SIP/2.0"
    hs = [b"Via: SIP/2.0/UDP 10.0.0.1:5060;branch=z9hG4bKx", fn + b": " + f, tn + b": " + t, cn + b": " + callid,
          b"CSeq: 1 " + method, b"Content-Length: 0"]
    if decorate:
        body = hs[1:5]
        rng.shuffle(body)
        hs = [hs[0]] + body + [hs[5]]
    return start + b"\r\n" + b"\r\n".join(hs) + b"\r\n\r\n"


def abstract_toks(has, callid, a, b, swap):
    (ta, ua, _), (tb, ub, _) = (b, a) if swap else (a, b)
    return [1 if has else 0, callid, ta, ua, tb, ub]


def group_for(rng, callid, a, b, callids, tags, uris, renderings):
    """the dialog (callid, a, b) and all its one-change neighbours, each in a few renderings"""
    ds = [(callid, a, b)]
    for c in callids:
        if c != callid:
            ds.append((c, a, b))
    for t in tags:
        if t != a[0]:
            ds.append((callid, (t, a[1], a[2]), b))
        if t != b[0]:
            ds.append((callid, a, (t, b[1], b[2])))
    for (u, s) in uris:
        if u != a[1]:
            ds.append((callid, (a[0], u, s), b))
        if u != b[1]:
            ds.append((callid, a, (b[0], u, s)))
    items = []
    for i, (c, x, y) in enumerate(ds):
        rs = renderings if i == 0 else max(1, renderings // 2)
        for r in range(rs):
            swap = bool(r & 1) if i == 0 else rng.random() < 0.5
            response = bool(r & 2) if i == 0 else rng.random() < 0.5
            decorate = bool(r & 4) if i == 0 else rng.random() < 0.5
            items.append((render_msg(rng, c, x, y, swap, response, decorate), abstract_toks(True, c, x, y, swap)))
    # messages lacking a tag belong to no dialog
    for drop in ("from", "to"):
        items.append((render_msg(rng, callid, a, b, False, rng.random() < 0.5, rng.random() < 0.5, drop_tag=drop),
                      abstract_toks(False, callid, a, b, False)))
    return items


def sep_ok(P, Q):
    """the separator hypothesis of theorem C16_discriminates (DESIGN C16): neither half followed by '-' is a
    prefix of the other half"""
    return not (P + b"-").startswith(Q) and not Q.startswith(P + b"-")


class C16:
    id = "C16"
    rule = ("groups: an abstract dialog (Call-ID, two (tag, URI) endpoints) together with ALL its one-change neighbours over the "
            "alphabets (3 Call-IDs incl. '-'-containing, 4 tags incl. empty and 'a-b', 7 URIs: sip with/without user and port, tel, urn; "
            "equal URIs and equal tags on both sides included), the centre rendered in all 8 combinations of orientation x "
            "request/response x decorated (display names, SIP-URI parameters/headers, header parameters, bare addr-spec form, compact/odd-case "
            "header names, shuffled header order), neighbours in random renderings, plus messages lacking a tag; judged pairwise on "
            "equality/inequality of the identifiers real GetDialog returns; quick = a random third of all centres, thorough = all; "
            "plus random long realistic identifiers. Non-trivial = group with >= 2 distinct identifiers and >= 2 equal ones; distinct by content hash.")
    trusted = []
    assumptions = ["compact rendering (no optional white space around ';' '=' '<' '>')",
                   "discrimination is claimed for a change of exactly one of Call-ID / a tag / a URI (as the statement says); "
                   "for URI changes that flip the canonical order under the separator hypothesis sep_ok (known finding K3 otherwise)"]

    def run(self, ctx):
        rng, tier = ctx["rng"], ctx["tier"]
        cases = lib.load_corpus("C16")
        nc = len(cases)
        eps = [(t, u, s) for t in TAGS for (u, s) in URIS]
        centres = [(c, a, b) for c in CALLIDS for a in eps for b in eps]
        if tier == "quick":
            centres = rng.sample(centres, 400)
        for i, (c, a, b) in enumerate(centres):
            items = group_for(rng, c, a, b, CALLIDS, TAGS, URIS, 8)
            toks = [len(items)]
            for (m, ab) in items:
                toks += [m] + ab
            cases.append(Case("dialog", "g%d" % i, toks, {"kind": "alphabet-group", "messages": len(items)}))
        # the tracked finding K3 (theorem C16_K3_refuted): outside the separator hypothesis a URI change can
        # leave the identifier unchanged; must be reported as KNOWN-FINDING, never as a new violation
        k3a = ((b"t", b"urn:x:1-t-urn:x:2", False), (b"t", b"urn:x:1-t-urn:x:2-t-urn:x:1", False))
        k3b = ((b"t", b"urn:x:2-t-urn:x:1", False), (b"t", b"urn:x:1-t-urn:x:2-t-urn:x:1", False))
        items = [(render_msg(rng, b"c", x, y, False, False, False), abstract_toks(True, b"c", x, y, False)) for (x, y) in (k3a, k3b)]
        toks = [len(items)]
        for (mm, ab) in items:
            toks += [mm] + ab
        cases.append(Case("dialog", "k3", toks, {"kind": "known-finding-K3", "messages": 2}))
        # random long realistic identifiers
        m = 200 if tier == "quick" else 5000
        from props import c14
        for i in range(m):
            def ep():
                if rng.random() < 0.75:
                    u = b"sip:" + (c14.safe(rng) + b"@" if rng.random() < 0.8 else b"") + c14.host(rng) + \
                        (b":%d" % rng.randrange(1, 65536) if rng.random() < 0.4 else b"")
                    return (c14.tok_(rng, c14.ALNUM + b"-.", 4, 24), u, True)
                return (c14.tok_(rng, c14.ALNUM + b"-.", 4, 24), c14.other(rng, bare=True), False)
            callids = [c14.tok_(rng, c14.ALNUM + b"-.@", 8, 40) for _ in range(2)]
            a, b = ep(), ep()
            if rng.random() < 0.15:
                b = (b[0], a[1], a[2])
            tags = [a[0], b[0], c14.tok_(rng, c14.ALNUM + b"-", 4, 12)]
            uris = [(a[1], a[2]), (b[1], b[2]), (ep()[1:])]
            items = group_for(rng, callids[0], a, b, callids, tags, uris, 8)
            toks = [len(items)]
            for (mm, ab) in items:
                toks += [mm] + ab
            cases.append(Case("dialog", "r%d" % i, toks, {"kind": "random-group", "messages": len(items)}))

        def key_fn(c, io, mo):
            return c.meta.get("_key")

        def nontrivial(c, io):
            ids = [io[i + 1] for i in range(len(io) - 1) if io[i] == b"ok"]
            return len(set(ids)) >= 2 and len(ids) > len(set(ids))
        cov, failures = lib.differential(ctx, cases, nontrivial=nontrivial, judge=True, max_failures=200)
        # classify judge failures: a collision between two dialogs whose halves violate sep_ok is known finding K3
        byid = {c.id: c for c in cases}
        out, seen = [], set()
        for f in failures:
            if f["kind"] == "judge" and len(f.get("judge_says", [])) == 4 and f["judge_says"][3] == "2":
                c = byid[f["case_id"]]
                i, j = int(f["judge_says"][1]), int(f["judge_says"][2])
                mi = c.toks[1 + 7 * i:8 + 7 * i]
                mj = c.toks[1 + 7 * j:8 + 7 * j]
                Pi, Qi = mi[3] + b"-" + mi[4], mi[5] + b"-" + mi[6]
                Pj, Qj = mj[3] + b"-" + mj[4], mj[5] + b"-" + mj[6]
                f["pair"] = {"first": [lib.show(t) for t in mi[2:]], "second": [lib.show(t) for t in mj[2:]]}
                if not (sep_ok(Pi, Qi) and sep_ok(Qi, Pi) and sep_ok(Pj, Qj) and sep_ok(Qj, Pj)):
                    f["key"] = "dialog-id-separator-ambiguity"
                    if f["key"] in seen:
                        continue
                    seen.add(f["key"])
                f["summary"] = "messages %d and %d of the group differ in exactly one component but get the same identifier" % (i, j)
            out.append(f)
        cov["samples"] = [{"component": "dialog", "first_message_of_group": lib.show(c.toks[1], 600), "abstract": [lib.show(t) for t in c.toks[2:8]],
                           "messages_in_group": c.meta["messages"]} for c in cases[nc:nc + 2]]
        cov["messages"] = sum(c.meta.get("messages", 0) for c in cases)
        cov["exhaustive"] = tier != "quick"
        return {"coverage": cov, "failures": out[:20]}


PROP = C16()
