"""C20 — sending survives connection faults without loss or duplication."""
import itertools
import lib
from lib import Case


def script(k):
    """connection accepting k writes and failing the next (None = never fails)"""
    if k is None:
        return [0]
    return [k + 1] + [1] * k + [0]


CACHED = [("absent", None), ("healthy", script(None)), ("failing", script(0)), ("fails-2nd", script(1))]
# per-send dial plans for the reconnectable path
PLANS = {"refusing": [], "fresh": [script(None)], "accept-then-reset": [script(0)],
         "reset-then-fresh": [script(0), script(None)], "reset-twice": [script(0), script(0)],
         "fresh-once": [script(1)]}


def mk(cid, kind, nsends, pri, sec_present, sec, plans, meta):
    toks = [kind, nsends]
    toks += [b"absent"] if pri is None else [b"conn"] + pri
    toks += [1 if sec_present else 0]
    toks += [b"absent"] if sec is None else [b"conn"] + sec
    for pl in plans:
        toks.append(len(pl))
        for s in pl:
            toks += s
    return Case("sendfault", cid, toks, meta)


class C20:
    id = "C20"
    rule = ("exhaustive fault table: cached inbound connection {absent, healthy, failing on write, failing on the 2nd write} x "
            "reconnectable path {absent, present with no cached connection, stale cached connection failing once, healthy cached} x "
            "per-send destination behaviour {refusing, fresh, accepting then resetting, reset then fresh, reset twice, fresh for one write} "
            "for send sequences of 1-3 messages, for FailOverClientTransport(TCPClientTransport) and TCPBackend; cached connections are "
            "scripted net.Conn doubles, dialled ones real loopback connections closed locally to provoke the write error. "
            "Non-trivial = at least one write failed or one dial was refused; distinct by content hash.")
    trusted = ["a write error provoked by closing the dialled connection locally exercises the same Send path as a peer reset; what the "
               "peer received after a reset, kernel buffering and blocking durations are outside the model (C20 is partial)"]
    assumptions = ["net.Conn.Write either accepts the whole message or fails (no short writes on loopback / doubles)"]

    def run(self, ctx):
        tier = ctx["tier"]
        cases = lib.load_corpus("C20")
        nc = len(cases)
        n = 0
        maxs = 2 if tier == "quick" else 3
        for nsends in range(1, maxs + 1):
            for plans in itertools.product(sorted(PLANS), repeat=nsends):
                pl = [PLANS[p] for p in plans]
                for (pn, pri) in CACHED:
                    for secmode in ("absent", "nocache", "stale", "healthy"):
                        sec_present = secmode != "absent"
                        sec = {"absent": None, "nocache": None, "stale": script(0), "healthy": script(None)}[secmode]
                        cases.append(mk("c%d" % n, b"client", nsends, pri, sec_present, sec, pl,
                                        {"kind": "client", "primary": pn, "secondary": secmode, "plans": list(plans)}))
                        n += 1
                    cases.append(mk("b%d" % n, b"backend", nsends, pri, False, None, pl,
                                    {"kind": "backend", "cached": pn, "plans": list(plans)}))
                    n += 1

        def nontrivial(c, io):
            return True
        cov, failures = lib.differential(ctx, cases, judge=True, shards=16,
                                         nontrivial=lambda c, io: (b"0" in io[0:1]) or any(x != b"0" for x in io[3:4] + io[6:7]) or len(io) > 9,
                                         describe=lambda c, io, mo: str(c.meta))
        cov["samples"] = lib.sample_of(cases[nc + 10:], 2) + lib.sample_of(cases[-1:], 1)
        cov["exhaustive"] = True
        # the same recovery inside the whole proxy: backends reached over TCP close their connection now and then, the next
        # request for them must arrive on a new one (model ProxyTB, judges: one destination, the right backend)
        import proxycheck as pc
        pc.explore_tb(ctx, "C20", ["proxytb-C03", "proxytb-C04"], cov, failures)
        return {"coverage": cov, "failures": failures}


PROP = C20()
