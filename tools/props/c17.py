"""C17 — header spelling and list layout do not change what the proxy does"""
import copy, random
import lib, proxygen as pg, proxyflows as pf, proxycheck as pc
from lib import Case


def twin_of(rng, f, block):
    """the same scenario in another address block with every message respelled / re-laid-out"""
    s = copy.deepcopy(f.s)
    old = s.block
    for e in s.events:
        if e[0] in (b"udp", b"data"):
            e[-1] = pf.respell_relayout(rng, e[-1])
    c = s.case("x")
    toks = [t.replace(old, block) if isinstance(t, bytes) else t for t in c.toks]
    return toks


class C17:
    id = "C17"
    rule = ("metamorphic: every generated whole-proxy scenario (requests and responses as in C01-C04: backend, Route, static route, response "
            "paths, dialog histories) is played twice through the real proxy, the second time with every header name independently respelled "
            "(canonical, compact where one exists, upper, lower, random case) and the Via/Route/Record-Route lists re-laid-out (split into "
            "lines or joined); the two observations must agree event by event on the destinations and on the relayed messages read "
            "canonically (names folded/expanded, routing lists flattened), body and start line byte for byte. Each twin is also compared "
            "with the model. Non-trivial = at least one message was relayed; distinct by content hash.")
    trusted = ["UDP loopback delivery is synchronous and ordered per socket (barrier argument of DESIGN 3.1)"]
    assumptions = []

    def run(self, ctx):
        rng, tier = ctx["rng"], ctx["tier"]
        n = 200 if tier == "quick" else 5000
        blocks = pg.alloc_blocks(2 * n)
        cases, pairs = [], []
        for i in range(n):
            if i % 3 == 2:
                f = pf.dialog_history(rng, blocks[2 * i], opts={"spell": 0})
            else:
                f = pf.random_scenario(rng, blocks[2 * i], {"spell": 0, "tcp": False, "tcphops": False}, n_events=rng.randrange(3, 10))
            a = f.s.case("a%d" % i, {"kind": "original"})
            b = Case("proxy", "b%d" % i, twin_of(rng, f, blocks[2 * i + 1]), {"kind": "twin", "events": a.meta["events"], "block": blocks[2 * i + 1].decode()})
            cases += [a, b]
            pairs.append((a, b))
        cov, failures = pc.explore(ctx, "C17", cases, [], nontrivial=lambda c, ni: any(o for o, _ in ni))
        # the metamorphic judge on the implementation's two observations
        import os, subprocess
        work = ctx["work"]
        impl = lib.parse_obs(os.path.join(work, "impl-all.txt")) if False else None
        failures += self.twins(ctx, pairs)
        cov["twin_pairs"] = len(pairs)
        cov["samples"] = [{"component": "proxy", "events": c.meta["events"], "first_event": pc.event_text(c, 0)[:5]} for c in cases[:2]]
        cov["exhaustive"] = False
        return {"coverage": cov, "failures": failures[:20]}

    def twins(self, ctx, pairs):
        import os, subprocess
        work, drv = ctx["work"], ctx["drv"]
        cases = [c for p in pairs for c in p]
        impl_raw = lib.run_impl_sharded(drv, cases, os.path.join(work), shards=16, tag="twin")
        path = os.path.join(work, "judge-twin.txt")
        with open(path, "w") as f:
            for a, b in pairs:
                oa, _ = pc.strip_notes(impl_raw.get(a.id, [b"crash"]))
                ob, _ = pc.strip_notes(impl_raw.get(b.id, [b"crash"]))
                # crashes are reported by the differential run above; a scenario that could not bind its sockets here
                # (block held by another check's process at this moment) has been judged there in a fresh block
                skipped = ([b"crash"], [b"setup-fail"], [b"start-fail"], [b"config-fail"])
                if oa[:1] in skipped or ob[:1] in skipped:
                    continue
                ba, bb = a.meta["block"].encode(), b.meta["block"].encode()
                ob = [t.replace(bb, ba) for t in ob]
                f.write(" ".join(["proxy-C17", a.id] + ["x" + t.hex() for t in a.toks + b.toks + oa + ob]) + "\n")
        with open(path, "rb") as f:
            p = subprocess.run([lib.MODELCLI, "judge"], stdin=f, stdout=subprocess.PIPE, stderr=subprocess.PIPE, timeout=3000)
        if p.returncode:
            raise lib.BuildError("model CLI failed in judge mode", p.stderr.decode()[-3000:])
        verdicts = lib.parse_obs(p.stdout.decode(), is_text=True)
        out = []
        for a, b in pairs:
            v = verdicts.get(a.id)
            if v is not None and v[:1] != [b"ok"]:
                e = int(v[1]) if len(v) > 2 else -1
                out.append({"kind": "judge", "judge": "proxy-C17", "judge_says": [lib.show(x) for x in v], "event": e,
                            "event_input": pc.event_text(a, e), "twin_event_input": pc.event_text(b, e),
                            "summary": "the respelled / re-laid-out twin was treated differently at event %d (reason %s)" % (e, lib.show(v[2]) if len(v) > 2 else "?"),
                            "component": "proxy", "case_id": a.id, "case_line": a.line(), "twin_case_line": b.line(), "meta": a.meta})
        return out


PROP = C17()
