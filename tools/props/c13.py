"""C13 — Route handling: consume own entry only, keep or strip next hop as configured"""
import lib, proxygen as pg, proxyflows as pf, proxycheck as pc


class C13:
    id = "C13"
    rule = ('random whole-proxy scenarios biased to Route sets of 0-6 entries in any layout whose first entry is the listener by address / alias / alias with or without port, a near miss (right host wrong port, right port foreign host, another listener) or foreign; keep-next-hop-route on/off; display names, valued/valueless URI parameters, header parameters. Non-trivial = a request carrying a Route was relayed; distinct by content hash.')
    trusted = ["UDP/TCP loopback delivery is synchronous and ordered per socket (the barrier argument of DESIGN 3.1); "
               "real DNS is not involved: hosts are IPv4 literals or names of the configured host table"]
    assumptions = ['Route entries are sip: URIs in the compact grammar']

    def run(self, ctx):
        rng, tier = ctx["rng"], ctx["tier"]
        corpus = pc.load_corpus_rebased("C13")
        n = 400 if tier == "quick" else 20000
        blocks = pg.alloc_blocks(n)
        cases = list(corpus)
        hist = {}
        for i in range(n):
            opts = self.opts(rng, i)
            f = pf.random_scenario(rng, blocks[i], opts, n_events=rng.randrange(3, 10))
            c = f.s.case("g%d" % i, {"kind": "generated", "opts": {k: str(v) for k, v in opts.items() if k != "weights"}})
            cases.append(c)
            for k in opts.get("weights", {}):
                hist[k] = hist.get(k, 0) + 1
        cov, failures = pc.explore(ctx, "C13", cases, ['proxy-C13', 'proxy-C03'], nontrivial=self.nontrivial)
        cov["samples"] = [{"component": "proxy", "events": c.meta["events"], "first_event": pc.event_text(c, 0)[:5]} for c in cases[len(corpus):len(corpus) + 2]]
        cov["corpus_cases"] = len(corpus)
        cov["exhaustive"] = False
        # Route sets that name the proxy more than once: exactly ONE own entry is consumed per pass, the request comes back
        pc.explore_sp(ctx, "C13", cov, failures)
        return {"coverage": cov, "failures": failures}

    def opts(self, rng, i):
        return {"keep": i % 2 == 0, "weights": {"route": 10, "svc": 1, "static": 1, "miss": 0, "resp": 0, "indialog": 0, "rawresp": 0}}

    def nontrivial(self, c, ni):
        return any(outs for outs, _ in ni)


PROP = C13()
