"""C02 — responses follow the Via chain"""
import lib, proxygen as pg, proxyflows as pf, proxycheck as pc


class C02:
    id = "C02"
    rule = ('random whole-proxy scenarios biased to responses: 1-6 Via entries in any mix of comma lists and repeated lines (full/compact names), IPv4 or host-table names, ports present/absent, UDP/TCP/TLS/SCTP, received / rport / valueless rport / extra parameters, all status classes, from backends (answering relayed requests) and from arbitrary peers. Non-trivial = a response was relayed; distinct by content hash.')
    trusted = ["UDP/TCP loopback delivery is synchronous and ordered per socket (the barrier argument of DESIGN 3.1); "
               "real DNS is not involved: hosts are IPv4 literals or names of the configured host table"]
    assumptions = ['hosts are IPv4 literals or host-table names (others: destination not determined, any single destination accepted)']

    def run(self, ctx):
        rng, tier = ctx["rng"], ctx["tier"]
        corpus = pc.load_corpus_rebased("C02")
        n = 400 if tier == "quick" else 20000
        blocks = pg.alloc_blocks(n)
        cases = list(corpus)
        hist = {}
        for i in range(n):
            opts = self.opts(rng, i)
            f = pf.random_scenario(rng, blocks[i], opts, n_events=rng.randrange(3, 10))
            c = f.s.case("g%d" % i, {"kind": "generated", "opts": {k: str(v) for k, v in opts.items() if k != "weights"}})
            cases.append(c)
            for k in opts.get("weights", {}):
                hist[k] = hist.get(k, 0) + 1
        cov, failures = pc.explore(ctx, "C02", cases, ['proxy-C02'], nontrivial=self.nontrivial)
        cov["samples"] = [{"component": "proxy", "events": c.meta["events"], "first_event": pc.event_text(c, 0)[:5]} for c in cases[len(corpus):len(corpus) + 2]]
        cov["corpus_cases"] = len(corpus)
        cov["exhaustive"] = False
        # responses arriving on the connections the proxy opened to TCP backends, and responses routed back to them
        pc.explore_tb(ctx, "C02", ["proxytb-C02"], cov, failures)
        return {"coverage": cov, "failures": failures}

    def opts(self, rng, i):
        return {"weights": {"svc": 3, "resp": 5, "rawresp": 6, "route": 1, "static": 1, "indialog": 1, "miss": 1}}

    def nontrivial(self, c, ni):
        return any(outs for outs, _ in ni)


PROP = C02()
