"""C12 — responses to TCP requests return on the connection the request used"""
import lib, proxygen as pg, proxyflows as pf, proxycheck as pc


class C12:
    id = "C12"
    rule = ("histories through the real proxy's TCP listener: 2-5 (thorough: up to 8) simultaneous client connections from ONE loopback address "
            "with equal or different Via sent-by values and pairwise distinct branches, 6-24 interleaved events: requests on the connections, "
            "backend responses (UDP backends) delayed and reordered across connections, 1xx before 2xx; observable = which client socket "
            "received each response. Non-trivial = at least two responses were relayed to TCP clients; distinct by content hash.")
    trusted = ["TCP loopback delivery into the peer's receive queue happens before the write returns (barrier argument of DESIGN 3.1)"]
    assumptions = ["PARTIAL: accept/receive goroutines and real sockets are exercised only by this run; the theorem is about the transport table",
                   "sent-by hosts are IPv4 literals or host-table names (names resolved through real DNS are not generated: no network)"]

    def run(self, ctx):
        rng, tier = ctx["rng"], ctx["tier"]
        corpus = pc.load_corpus_rebased("C12")
        n = 200 if tier == "quick" else 5000
        blocks = pg.alloc_blocks(n)
        cases = list(corpus)
        for i in range(n):
            f = pf.tcp_history(rng, blocks[i])
            cases.append(f.s.case("g%d" % i, {"kind": "tcp-history"}))
        # a few histories in REAL time: 61 s pass while transactions are open, so that the next look-up runs the transport
        # table's clean-up pass (once a minute at most); the registrations of inbound connections live for an hour
        nlong = 3 if tier == "quick" else 16
        for i, b in enumerate(pg.alloc_blocks(nlong)):
            f = pf.tcp_history(rng, b, {"cleanpass": True, "deaths": 0.0})
            cases.append(f.s.case("cp%d" % i, {"kind": "tcp-history-clean-pass"}))

        def nontrivial(c, ni):
            return sum(1 for o, _ in ni for l, _ in o if l.startswith(b"conn:")) >= 2
        cov, failures = pc.explore(ctx, "C12", cases, ["proxy-C12", "proxy-C02"], nontrivial=nontrivial)
        cov["samples"] = [{"component": "proxy", "events": c.meta["events"]} for c in cases[len(corpus):len(corpus) + 3]]
        cov["corpus_cases"] = len(corpus)
        cov["exhaustive"] = False
        # a request a TCP backend sends on the connection the proxy opened to it is a request received over TCP: its
        # response must return on that connection
        pc.explore_tb(ctx, "C12", ["proxytb-C12"], cov, failures)
        return {"coverage": cov, "failures": failures}


PROP = C12()
