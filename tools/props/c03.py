"""C03 — each request goes to exactly one next hop chosen by fixed precedence"""
import lib, proxygen as pg, proxyflows as pf, proxycheck as pc


class C03:
    id = "C03"
    rule = ('random whole-proxy scenarios over the decision table {no Route, own Route only, own+next, next only, near miss+next} x {To host: exact static route, wildcard, only default, none} x {Request-URI: service literal, regex-only, user@host, urn/tel, listener address:port, foreign} x keep-next-hop-route x {UDP, TCP, unsupported next-hop transport}; absence of a second destination is checked behind the barrier; one scenario in eight changes the set of backends through the real resolver path while requests, answers and in-dialog requests go on. Non-trivial = a request was relayed; distinct by content hash.')
    trusted = ["UDP/TCP loopback delivery is synchronous and ordered per socket (the barrier argument of DESIGN 3.1); "
               "real DNS is not involved: hosts are IPv4 literals or names of the configured host table"]
    assumptions = ['Route and To URIs are sip: URIs (others: outside the stated domain, accepted)', 'service-name patterns within the regular-expression subset of Rx.v']

    def run(self, ctx):
        rng, tier = ctx["rng"], ctx["tier"]
        corpus = pc.load_corpus_rebased("C03")
        n = 400 if tier == "quick" else 20000
        blocks = pg.alloc_blocks(n)
        cases = list(corpus)
        hist = {}
        for i in range(n):
            opts = self.opts(rng, i)
            if i % 8 == 7:
                # the set of backends changes while traffic goes on: "a backend" means one registered at that moment
                f = pf.membership_history(rng, blocks[i])
                opts = {"membership": True}
            else:
                f = pf.random_scenario(rng, blocks[i], opts, n_events=rng.randrange(3, 10))
            c = f.s.case("g%d" % i, {"kind": "generated", "opts": {k: str(v) for k, v in opts.items() if k != "weights"}})
            cases.append(c)
            for k in opts.get("weights", {}):
                hist[k] = hist.get(k, 0) + 1
        cov, failures = pc.explore(ctx, "C03", cases, ['proxy-C03'], nontrivial=self.nontrivial)
        cov["samples"] = [{"component": "proxy", "events": c.meta["events"], "first_event": pc.event_text(c, 0)[:5]} for c in cases[len(corpus):len(corpus) + 2]]
        cov["corpus_cases"] = len(corpus)
        cov["exhaustive"] = False
        pc.explore_tb(ctx, "C03", ["proxytb-C03"], cov, failures)
        pc.explore_sp(ctx, "C03", cov, failures)
        return {"coverage": cov, "failures": failures}

    def opts(self, rng, i):
        return {"weights": {"svc": 4, "route": 5, "static": 5, "miss": 2, "resp": 1, "indialog": 1, "rawresp": 1}}

    def nontrivial(self, c, ni):
        return any(outs for outs, _ in ni)


PROP = C03()
