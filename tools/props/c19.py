"""C19 — the backend rotation follows name resolution, with bounded failure tolerance."""
import itertools
import lib
from lib import Case

IPS = [b"127.0.0.11", b"127.0.0.12", b"127.0.0.13", b"127.0.0.14", b"127.0.0.15"]


def subsets(ips):
    res = []
    for k in range(len(ips) + 1):
        for c in itertools.permutations(ips, k):
            res.append(list(c))
    return res


def mk(cid, port, steps, meta):
    toks = [port, len(steps)]
    for s in steps:
        if s is None:
            toks.append(b"fail")
        else:
            toks += [b"ok", len(s)] + list(s)
    return Case("resolver", cid, toks, meta)


class C19:
    id = "C19"
    rule = ("exhaustive: every sequence of resolution outcomes up to length L (L=4 quick, 5 thorough) over {failure} + every "
            "duplicate-free set of the 3 loopback addresses (each set in one order; orders varied randomly); random: sequences up "
            "to length 60 over ordered subsets of 5 addresses; fed to the real addressResolved -> notification goroutine -> "
            "hostIPChanged -> Add/RemoveBackend, with quiescence after each step. Non-trivial = the rotation changed at least "
            "twice; distinct by content hash.")
    trusted = ["the host-name registration (ResolveHost/doResolve, real DNS) is not exercised: the driver installs the entry and the "
               "CreateRoundRobinBackend callback by hand and feeds addressResolved",
               "notification goroutines are awaited (quiescence between steps, as the property's quantifier says)"]
    assumptions = ["resolved address sets are duplicate-free; outcomes delivered with quiescence between steps"]

    def run(self, ctx):
        rng, tier = ctx["rng"], ctx["tier"]
        cases = lib.load_corpus("C19")
        nc = len(cases)
        L = 4 if tier == "quick" else 5
        sets3 = [None] + [list(c) for k in range(4) for c in itertools.combinations(IPS[:3], k)]
        n = 0
        for l in range(1, L + 1):
            for seq in itertools.product(sets3, repeat=l):
                steps = [None if s is None else rng.sample(s, len(s)) for s in seq]
                cases.append(mk("e%d" % n, rng.choice([b"5060", b"7070"]), steps, {"kind": "exhaustive", "len": l}))
                n += 1
        m = 300 if tier == "quick" else 10000
        for i in range(m):
            steps = []
            for _ in range(rng.randrange(5, 61)):
                if rng.random() < 0.45:
                    steps.append(None)
                else:
                    steps.append(rng.sample(IPS, rng.randrange(0, 6)))
            cases.append(mk("r%d" % i, b"5060", steps, {"kind": "random", "len": len(steps)}))

        def nontrivial(c, io):
            return len(set(map(bytes, io))) > 4
        cov, failures = lib.differential(ctx, cases, nontrivial=nontrivial, judge=True,
                                         describe=lambda c, io, mo: "%s steps" % c.toks[1].decode())
        cov["samples"] = lib.sample_of(cases[nc + 300:], 2) + lib.sample_of(cases[-1:], 1)
        cov["exhaustive"] = True
        cov["exhaustive_part"] = n
        cov["random_part"] = m
        # ---- "every addition and removal is also reflected in which source addresses the proxy recognises as its backends
        #      when attributing responses": the whole proxy (started through startProxy with a backend given by host name),
        #      membership changes through the real resolver path interleaved with requests, answers from members and from
        #      addresses that have left, and requests of dialogs whose backend has gone; model vs. real proxy event by event,
        #      and the judges of C04 (pins / rotation) and C03 (a backend destination is a registered backend)
        import proxygen as pg, proxyflows as pf, proxycheck as pc
        nw = 150 if tier == "quick" else 4000
        blocks = pg.alloc_blocks(nw)
        wcases = []
        for i in range(nw):
            f = pf.membership_history(rng, blocks[i])
            wcases.append(f.s.case("mh%d" % i, {"kind": "membership-history", "static_backends": len(f.s.listens[f.li]["backends"])}))
        wcov, wfail = pc.explore(ctx, "C19", wcases, ["proxy-C04", "proxy-C03"], nontrivial=lambda c, ni: sum(1 for o, _ in ni if o) >= 2)
        cov["proxy_level"] = wcov
        cov["evaluations"] += wcov["evaluations"]
        cov["distinct_nontrivial"] += wcov["distinct_nontrivial"]
        cov["traces_validated_against_impl"] += wcov["traces_validated_against_impl"]
        return {"coverage": cov, "failures": failures + wfail}


PROP = C19()
