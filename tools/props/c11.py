"""C11 — TCP framing depends on the bytes, not on how the stream is segmented."""
import lib
from lib import Case
from props import c08rx as G

SIZES = [16, 17, 64, 4096]


def short_sequence(rng, target):
    """a sequence of 2-3 small messages of about [target] bytes: a keep-alive in between, a header line
    longer than the smallest reader windows, LF and CRLF endings, a body containing line ends"""
    best = None
    for _ in range(200):
        ms = [G.gen_msg(rng, max_line=30, max_body=12, nheaders=rng.randrange(0, 3)) for _ in range(rng.choice([2, 2, 3]))]
        ms[0].lead = b""
        ms[1].lead = b"\r\n"
        data = b"".join(m.encode() for m in ms)
        if any(len(raw) > 18 for m in ms for _, _, raw in m.headers) and b"\n" in b"".join(m.body for m in ms):
            if best is None or abs(len(data) - target) < abs(len(best) - target):
                best = data
    return best


class C11:
    id = "C11"
    rule = ("the REAL ParseMessage loop over a scripted segmenting io.Reader behind bufio.NewReaderSize(size), "
            "size in {16,17,64,4096}, compared message by message (start line, ordered header list, body, how the loop "
            "ended) with the Coq reader model, and judged against an independent reference reading of the concatenated "
            "bytes. Exhaustive: every single cut position for every size and every pair of cut positions (size 16 and 17; "
            "all sizes in the thorough tier) of short 2-3 message sequences. Random: sequences of 1-8 messages, header "
            "lines 1 B - 20 KiB, bodies 0 - 60 KiB (random bytes, SIP-looking text, line-end soup), CRLF/LF/mixed "
            "endings, 0-3 CRLF keep-alives, compact and mixed-case Content-Length; 0-40 random cuts, every-k-bytes "
            "segmentation down to 1-byte segments. Receive loop: the REAL TCPServerTransport.receiveMessage goroutine over a scripted "
            "net.Conn (1-8 messages in one segment, every-k-bytes, random cuts), its envelopes queued by the handler and read after the "
            "connection ended (set and order of the delivered messages). Non-trivial = at least one message decoded from at least two "
            "segments; distinct by content hash.")
    trusted = ["the scripted reader stands for net.Conn: one Read returns at most the rest of the current segment and never (0, nil)",
               "bufio.Reader (Go standard library) is modelled in Bufio.v, not verified; this run validates the model against the real one"]
    assumptions = ["well-formed messages: one Content-Length (any spelling) equal to the body length, header names without ':' CR LF, "
                   "values without CR LF, start line decodable; streams up to 2^46 bytes (allocation limit of make)"]

    def run(self, ctx):
        rng, tier = ctx["rng"], ctx["tier"]
        quick = tier == "quick"
        cases = []
        # ---- exhaustive single / double cuts
        seqs = [short_sequence(rng, 90)] if quick else [short_sequence(rng, t) for t in (90, 140, 200)]
        ex = 0
        for si, data in enumerate(seqs):
            L = len(data)
            for size in SIZES:
                cases.append(G.stream_case("rxstream", "x%d-%d-whole" % (si, size), size, [data], {"kind": "whole", "len": L}))
                for a in range(1, L):
                    cases.append(G.stream_case("rxstream", "x%d-%d-%d" % (si, size, a), size, G.segment(data, [a]),
                                               {"kind": "single-cut", "len": L}))
            for size in (SIZES[:2] if quick else SIZES):
                for a in range(1, L):
                    for b in range(a + 1, L):
                        cases.append(G.stream_case("rxstream", "y%d-%d-%d-%d" % (si, size, a, b), size,
                                                   G.segment(data, [a, b]), {"kind": "double-cut", "len": L}))
        ex = len(cases)
        # ---- random sequences and segmentations
        n = 1200 if quick else 60000
        for i in range(n):
            r = rng.random()
            if r < 0.02:
                ms = [G.gen_msg(rng, max_line=20000, max_body=60000, long_line=rng.choice([4095, 4096, 4097, 5000, 8191, 8192, 20000]))
                      for _ in range(rng.randrange(1, 4))]
            elif r < 0.12:
                ms = [G.gen_msg(rng, max_line=6000, max_body=3000, long_line=rng.randrange(4000, 9000)) for _ in range(rng.randrange(1, 4))]
            else:
                ms = [G.gen_msg(rng) for _ in range(rng.randrange(1, 9))]
            data = b"".join(m.encode() for m in ms)
            if rng.random() < 0.1:
                data += b"\r\n" * rng.randrange(1, 4)
            size = rng.choice(SIZES)
            L = len(data)
            r = rng.random()
            if r < 0.25 and L <= 700:
                k = rng.choice([1, 1, 2, 3, 5])
                chunks = [data[j:j + k] for j in range(0, L, k)]
                kind = "every-%d" % k
            elif r < 0.5:
                k = rng.choice([7, 15, 16, 17, 100, 1460, 4095, 4096, 4097])
                chunks = [data[j:j + k] for j in range(0, L, k)] if L // k < 3000 else [data]
                kind = "every-%d" % k
            else:
                chunks = G.segment(data, G.random_cuts(rng, L, rng.randrange(0, 41)))
                kind = "random-cuts"
            cases.append(G.stream_case("rxstream", "r%d" % i, size, chunks,
                                       {"kind": kind, "len": L, "msgs": len(ms), "size": size,
                                        "maxline": max(len(raw) for m in ms for _, _, raw in m.headers)}))
        # ---- the receive loop itself: the REAL TCPServerTransport.receiveMessage reading a scripted connection, its messages
        #      QUEUED by the handler (as Proxy.HandleRawMessage does) and read only when the connection has ended: same bytes,
        #      same messages, in order, however they were segmented and however far the consumer lags behind
        nw = 300 if quick else 8000
        for i in range(nw):
            ms = [G.gen_msg(rng, max_line=200, max_body=600) for _ in range(rng.randrange(1, 9))]
            data = b"".join(m.encode() for m in ms)
            if rng.random() < 0.1:
                data += b"\r\n" * rng.randrange(1, 4)
            L = len(data)
            r = rng.random()
            if r < 0.25:
                chunks, kind = [data], "wire-one-segment"
            elif r < 0.5:
                k = rng.choice([1, 3, 17, 100, 1460, 4096])
                chunks, kind = ([data[j:j + k] for j in range(0, L, k)] if L // k < 3000 else [data]), "wire-every-%d" % k
            else:
                chunks, kind = G.segment(data, G.random_cuts(rng, L, rng.randrange(0, 21))), "wire-random-cuts"
            cases.append(G.stream_case("rxtcpwire", "w%d" % i, 4096, chunks,
                                       {"kind": kind, "len": L, "msgs": len(ms), "size": 4096,
                                        "maxline": max(len(raw) for m in ms for _, _, raw in m.headers)}))
        corp = lib.load_corpus("C11")
        cases = corp + cases

        def nontrivial(c, io):
            return int(c.toks[1]) >= 2 and len(io) >= 1 and io[0] not in (b"0", b"crash", b"panic")

        def describe(c, io, mo):
            return "reader window %s, %s segments, %d bytes: impl decoded %s message(s) and ended %s, model %s / %s" % (
                c.toks[0].decode(), c.toks[1].decode(), sum(len(t) for t in c.toks[2:]),
                io[0].decode("latin-1") if io else "?", io[-2].decode("latin-1") if len(io) > 1 else "?",
                mo[0].decode("latin-1") if mo else "?", mo[-2].decode("latin-1") if len(mo) > 1 else "?")

        cov, failures = lib.differential(ctx, cases, nontrivial=nontrivial, describe=describe)
        cov["samples"] = lib.sample_of(cases[len(corp) + 30:], 2) + lib.sample_of(cases[-2:], 2)
        cov["exhaustive"] = True
        cov["exhaustive_part"] = ex
        cov["random_part"] = n
        cov["corpus_cases"] = len(corp)
        hist, lines = {}, {"<=16": 0, "<=64": 0, "<=4096": 0, ">4096": 0}
        for c in cases:
            k = c.meta.get("kind", "?")
            hist[k] = hist.get(k, 0) + 1
            ml = c.meta.get("maxline")
            if ml is not None:
                lines["<=16" if ml <= 16 else "<=64" if ml <= 64 else "<=4096" if ml <= 4096 else ">4096"] += 1
        cov["segmentation_histogram"] = hist
        cov["longest_header_line_histogram"] = lines
        return {"coverage": cov, "failures": failures}


PROP = C11()
