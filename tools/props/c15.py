"""C15 — dialog pins live exactly as long as promised, are forgotten on termination, table bounded."""
import lib
from lib import Case

SEC = 10 ** 9
MS = 10 ** 6


def mk(cid, timeout, ops, meta):
    toks = [timeout, len(ops)]
    for o in ops:
        toks += list(o)
    return Case("pins", cid, toks, meta)


class C15:
    id = "C15"
    rule = ("histories of add / get / remove / time-passes steps over 1-200 dialog keys and 2-5 backends against the real "
            "DialogBasedBackend (time passes by shifting the stored instants back, see DESIGN 3.1); timeouts 1-30 s, Expires "
            "0..2^31-1, look-ups probed at <=60% and >=100%+50ms of a lifetime, sweeps provoked by adds after long pauses. "
            "Non-trivial = a history in which at least one look-up hits and at least one misses after expiry; distinct by content hash. "
            "Plus dialog histories through the REAL proxy (whole-proxy engine) for the proxy-level triggers of early termination: BYE "
            "answered with any final status, NOTIFY terminated / active / terminated;reason=..., then further requests of the same dialog.")
    trusted = ["time.Time comparison/Add as integer nanoseconds; the clock is read once per operation in the model (Go reads it up to three times; probes keep a 50 ms margin)"]
    assumptions = ["time never goes backwards between operations; Expires <= 2^31-1 (no int64 overflow of the nanosecond arithmetic)"]

    def gen(self, rng, i, big):
        timeout = rng.choice([1, 2, 3, 5, 10, 30, 1200])
        nk = rng.choice([1, 2, 5, 20, 200]) if big else rng.choice([1, 2, 5, 20])
        keys = [b"call%d-t%d-sip:a@h-u%d-sip:b@h" % (j, j, j) for j in range(nk)]
        backs = [b"127.0.0.%d:5060" % (j + 1) for j in range(rng.randrange(2, 6))]
        ops = []
        live = {}   # key -> (created_at, lifetime) in ns, per the SPEC reading
        now = 0
        next_clean = timeout * SEC      # the generator tracks the sweep instants only to keep probes away from them
        for _ in range(rng.randrange(5, 60 if not big else 400)):
            r = rng.random()
            if r < 0.35:
                k = rng.choice(keys)
                e = rng.choice([0, 0, 0, 1, timeout + 1, 2 * timeout, 3600, 10 ** 6, 2 ** 31 - 1])
                ops.append((b"add", k, rng.choice(backs), e))
                live[k] = (now, max(timeout, e) * SEC)
                if next_clean < now:
                    next_clean = now + timeout * SEC
            elif r < 0.65:
                k = rng.choice(keys)
                ops.append((b"get", k, b"", 0))
            elif r < 0.72:
                ops.append((b"remove", rng.choice(keys), b"", 0))
            else:
                # advance to a safe probing point of some live pin, or a long pause
                if live and rng.random() < 0.7:
                    k = rng.choice(sorted(live))
                    t0, L = live[k]
                    frac = rng.choice([0.1, 0.3, 0.6, 1.0, 1.5, 2.5])
                    target = t0 + int(L * frac) + (50 * MS if frac >= 1.0 else 0)
                    dt = target - now
                    if dt <= 0:
                        dt = rng.choice([1, 10, 100]) * MS
                else:
                    dt = rng.choice([MS, 100 * MS, SEC, timeout * SEC // 2, timeout * SEC + 50 * MS, 3 * timeout * SEC])
                # keep away from every boundary by >= 50 ms
                tgt = now + dt
                for (t0, L) in live.values():
                    if abs(tgt - (t0 + L)) < 50 * MS:
                        tgt = t0 + L + 50 * MS
                for _ in range(4):
                    for b in [t0 + L for (t0, L) in live.values()] + [next_clean]:
                        if abs(tgt - b) < 50 * MS:
                            tgt = b + 50 * MS + rng.randrange(1, 70) * MS
                dt = tgt - now
                if dt > 0:
                    ops.append((b"adv", b"", b"", dt))
                    now = tgt
        return mk("h%d" % i, timeout, ops, {"kind": "history", "keys": nk, "timeout": timeout, "len": len(ops)})

    def gen_mass(self, rng, i):
        """many pins (65-400) made within one period, all expired together, then traffic that goes on for several more
        periods: after one further period none of them may be left (whatever the number), the table stays bounded"""
        timeout = rng.choice([1, 2, 5, 30])
        nk = rng.choice([65, 66, 100, 129, 200, 400])
        backs = [b"127.0.0.%d:5060" % (j + 1) for j in range(3)]
        ops = []
        for j in range(nk):
            ops.append((b"add", b"mass%d-t-sip:a@h-u-sip:b@h" % j, rng.choice(backs), rng.choice([0, 0, 1, timeout])))
            if rng.random() < 0.1:
                ops.append((b"adv", b"", b"", rng.choice([1, 5]) * MS))
        ops.append((b"adv", b"", b"", timeout * SEC + 200 * MS))            # every one of them has expired
        for k in range(rng.randrange(2, 6)):
            ops.append((b"add", b"later%d-t-sip:a@h-u-sip:b@h" % k, rng.choice(backs), 0))
            ops.append((b"get", b"mass%d-t-sip:a@h-u-sip:b@h" % rng.randrange(nk), b"", 0))
            ops.append((b"adv", b"", b"", timeout * SEC + 200 * MS))
        ops.append((b"add", b"last-t-sip:a@h-u-sip:b@h", rng.choice(backs), 0))
        return mk("m%d" % i, timeout, ops, {"kind": "mass-expiry", "keys": nk, "timeout": timeout, "len": len(ops)})

    def run(self, ctx):
        rng, tier = ctx["rng"], ctx["tier"]
        cases = lib.load_corpus("C15")
        nc = len(cases)
        m = 600 if tier == "quick" else 20000
        for i in range(m):
            cases.append(self.gen(rng, i, big=(i % 10 == 0)))
        for i in range(24 if tier == "quick" else 600):
            cases.append(self.gen_mass(rng, i))

        def nontrivial(c, io):
            vals = io[0::2]
            hits = sum(1 for v in vals if v not in (b"-", b"none"))
            return hits >= 1 and vals.count(b"none") >= 1
        cov, failures = lib.differential(ctx, cases, nontrivial=nontrivial, judge=True,
                                         describe=lambda c, io, mo: "timeout %s s, %s ops" % (c.toks[0].decode(), c.toks[1].decode()))
        cov["samples"] = lib.sample_of(cases[nc + 1:], 2)
        cov["corpus_cases"] = nc
        # ---- the proxy-level triggers of early termination, through the REAL proxy (whole-proxy engine): a BYE answered by
        #      the backend with ANY final status, a NOTIFY with Subscription-State terminated / active / terminated;reason=,
        #      followed by more requests bearing the dialog's identifiers (load-balanced like new ones); the history judge of
        #      C04 keeps the set of live pins from the observations alone
        import proxygen as pg, proxyflows as pf, proxycheck as pc
        nw = 120 if tier == "quick" else 3000
        blocks = pg.alloc_blocks(nw)
        wcases = []
        for i in range(nw):
            f = pf.dialog_history(rng, blocks[i], n_dialogs=rng.randrange(1, 5))
            wcases.append(f.s.case("t%d" % i, {"kind": "termination-history", "backends": len(f.backends)}))
        # ---- and in REAL time: the real proxy started with dialogTimeout 2 s; pins probed at <= 35 % of their lifetime
        #      (max(2, Expires) seconds) and again >= 600 ms after it is over; the driver sleeps, the model's clock advances by
        #      as much; the judge demands the pinned backend in the first half of the lifetime and the rotation's next backend
        #      once the lifetime is over by 300 ms
        nt = 48 if tier == "quick" else 480
        tblocks = pg.alloc_blocks(nt)
        for i in range(nt):
            f = pf.timed_history(rng, tblocks[i])
            wcases.append(f.s.case("rt%d" % i, {"kind": "real-time-history", "backends": len(f.backends)}))
        wcov, wfail = pc.explore(ctx, "C15", wcases, ["proxy-C04"], nontrivial=lambda c, ni: sum(1 for o, _ in ni if o) >= 3)
        cov["proxy_level"] = wcov
        cov["evaluations"] += wcov["evaluations"]
        cov["distinct_nontrivial"] += wcov["distinct_nontrivial"]
        cov["traces_validated_against_impl"] += wcov["traces_validated_against_impl"]
        return {"coverage": cov, "failures": failures + wfail}


PROP = C15()
