"""C01 — relaying leaves everything the proxy does not own untouched"""
import lib, proxygen as pg, proxyflows as pf, proxycheck as pc


class C01:
    id = "C01"
    rule = ("random whole-proxy scenarios through the real startProxy on loopback: requests (any method token) and responses (100-699) with sip/sips/tel/urn Request-URIs, 0-40 extension headers (compact/odd-case/repeated names, values with '%', quotes, ';', ',', UTF-8 and non-UTF-8 bytes, up to 16 KiB), bodies up to 60 KiB of arbitrary bytes, over the four relaying paths (backend, Route, static route, response by Via), UDP and TCP listeners, all listener options; every relayed message is judged against the message that caused it. Non-trivial = at least one message was relayed; distinct by content hash.")
    trusted = ["UDP/TCP loopback delivery is synchronous and ordered per socket (the barrier argument of DESIGN 3.1); "
               "real DNS is not involved: hosts are IPv4 literals or names of the configured host table"]
    assumptions = ['domain as the property states it: no folded lines, no blank before the colon, single blanks in the start line, Content-Length present']

    def run(self, ctx):
        rng, tier = ctx["rng"], ctx["tier"]
        corpus = pc.load_corpus_rebased("C01")
        n = 400 if tier == "quick" else 20000
        blocks = pg.alloc_blocks(n)
        cases = list(corpus)
        hist = {}
        for i in range(n):
            opts = self.opts(rng, i)
            f = pf.random_scenario(rng, blocks[i], opts, n_events=rng.randrange(3, 10))
            c = f.s.case("g%d" % i, {"kind": "generated", "opts": {k: str(v) for k, v in opts.items() if k != "weights"}})
            cases.append(c)
            for k in opts.get("weights", {}):
                hist[k] = hist.get(k, 0) + 1
        cov, failures = pc.explore(ctx, "C01", cases, ['proxy-C01'], nontrivial=self.nontrivial)
        cov["samples"] = [{"component": "proxy", "events": c.meta["events"], "first_event": pc.event_text(c, 0)[:5]} for c in cases[len(corpus):len(corpus) + 2]]
        cov["corpus_cases"] = len(corpus)
        cov["exhaustive"] = False
        pc.explore_tb(ctx, "C01", ["proxytb-C01"], cov, failures)
        return {"coverage": cov, "failures": failures}

    def opts(self, rng, i):
        o = {"many_ext": i % 3 == 0, "big": i % 5 == 0}
        if i % 6 == 4:
            # requests pipelined on one TCP connection (bodies of several KiB: the reader refills its buffer while the
            # earlier message still waits to be relayed)
            o.update({"tcp": True, "backends": 2, "big": False, "many_ext": False,
                      "weights": {"pipeline": 5, "svc": 2, "resp": 1}})
        return o

    def nontrivial(self, c, ni):
        return any(outs for outs, _ in ni)


PROP = C01()
