"""C05 — unpinned requests rotate evenly over the backends registered right now."""
import lib
from lib import Case

ADDRS = [b"127.0.0.1:7001", b"127.0.0.2:7002", b"127.0.0.3:7003", b"127.0.0.4:7004", b"127.0.0.5:7005"]


def seqs(maxlen, addrs):
    """all sequences of effective ops (add an absent address, remove a present one, dispatch)"""
    out = []

    def rec(prefix, present, left):
        out.append(list(prefix))
        if left == 0:
            return
        for a in addrs:
            if a not in present:
                prefix.append((b"add", a))
                rec(prefix, present | {a}, left - 1)
                prefix.pop()
            else:
                prefix.append((b"remove", a))
                rec(prefix, present - {a}, left - 1)
                prefix.pop()
        prefix.append((b"dispatch", b""))
        rec(prefix, present, left - 1)
        prefix.pop()
    rec([], frozenset(), maxlen)
    return out


def mk(cid, ops, meta):
    toks = [len(ops)]
    for o, a in ops:
        toks += [o, a]
    return Case("rr", cid, toks, meta)


class C05:
    id = "C05"
    rule = ("exhaustive: every sequence of effective operations (add an absent address / remove a present one / dispatch) "
            "up to length L over 4 addresses (L=6 quick, 8 thorough, prefixes included); random: sequences up to length 400 "
            "over 5 addresses that also remove absent addresses; run against the real RoundRobinBackend with recording "
            "Backend doubles. Non-trivial = at least two dispatches with at least two backends registered; distinct by content hash.")
    trusted = ["sync.Mutex mutual exclusion (the small-step theorem treats every lock region as atomic)"]
    assumptions = ["an address is never added while already present (as the property's quantifier says)",
                   "schedule half: every lock region of RoundRobinBackend is one atomic step; the -race stress of the thorough tier is supporting evidence only"]

    def run(self, ctx):
        rng, tier = ctx["rng"], ctx["tier"]
        L = 6 if tier == "quick" else 8
        cases = lib.load_corpus("C05")
        nc = len(cases)
        for i, ops in enumerate(seqs(L, ADDRS[:4] if L <= 6 else ADDRS[:3])):
            if ops:
                cases.append(mk("e%d" % i, ops, {"kind": "exhaustive", "len": len(ops)}))
        ne = len(cases) - nc
        m = 300 if tier == "quick" else 5000
        for i in range(m):
            present = set()
            ops = []
            for _ in range(rng.randrange(10, 401)):
                r = rng.random()
                absent = [a for a in ADDRS if a not in present]
                if r < 0.12 and absent:
                    a = rng.choice(absent)
                    present.add(a)
                    ops.append((b"add", a))
                elif r < 0.22:
                    a = rng.choice(ADDRS)
                    present.discard(a)
                    ops.append((b"remove", a))
                else:
                    ops.append((b"dispatch", b""))
            cases.append(mk("r%d" % i, ops, {"kind": "random", "len": len(ops)}))

        def nontrivial(c, io):
            sent = [io[i + 1] for i in range(len(io) - 1) if io[i] == b"sent" and io[i + 1] != b"none"]
            return len(sent) >= 2 and len(set(sent)) >= 2
        cov, failures = lib.differential(ctx, cases, nontrivial=nontrivial, judge=True,
                                         describe=lambda c, io, mo: "%d ops" % int(c.toks[0]))
        cov["samples"] = lib.sample_of(cases[nc + 500:], 2) + lib.sample_of(cases[-1:], 1)
        cov["exhaustive"] = True
        cov["exhaustive_part"] = ne
        cov["random_part"] = m
        # schedule half ("dispatches racing with membership changes made from other threads"): the real Send against
        # concurrent Add/RemoveBackend, with at least one backend registered at every instant and doubles that never
        # fail: no dispatch may panic, fail, or be delivered other than exactly once.  Supporting evidence for the
        # all-interleavings theorem C05_schedules_safe.
        # (duration ms, permanent backends, churned backends per membership thread, dispatching threads, membership threads)
        plans = [(700, 2, 3, 2, 2), (500, 1, 1, 3, 1), (500, 3, 2, 1, 3)] if tier == "quick" else \
                [(3000, p, c, s, t) for p in (1, 2, 3) for c in (1, 2, 4) for s in (1, 2, 4) for t in (1, 2, 3)]
        stress = [Case("rrstress", "st%d" % i, list(p), {"kind": "race-stress", "plan": list(p)}) for i, p in enumerate(plans)]
        got = lib.run_impl(ctx["drv"], stress, ctx["work"], tag="stress")
        tot = {"sends": 0, "errors": 0, "panics": 0, "delivered": 0}
        for c in stress:
            o = got.get(c.id, [b"crash"])
            if o[:1] in ([b"crash"], [b"panic"]) or len(o) < 5:
                failures.append({"kind": "crash", "has_input": True, "component": "rrstress", "case_id": c.id, "case_line": c.line(),
                                 "summary": "the race stress died: %s" % [lib.show(t, 300) for t in o[:2]], "meta": c.meta})
                continue
            sends, errs, panics, delivered = (int(x) for x in o[:4])
            for k_, v in zip(("sends", "errors", "panics", "delivered"), (sends, errs, panics, delivered)):
                tot[k_] += v
            if errs or panics or delivered != sends:
                failures.append({"kind": "judge", "has_input": True, "component": "rrstress", "case_id": c.id, "case_line": c.line(), "meta": c.meta,
                                 "counts": {"sends": sends, "errors": errs, "panics": panics, "delivered": delivered},
                                 "first_panic": lib.show(o[4], 300),
                                 "summary": "dispatches racing with membership changes: %d sends, %d failed, %d panicked (%s), %d delivered "
                                            "although %d backend(s) were registered the whole time" % (sends, errs, panics, lib.show(o[4], 120), delivered, c.meta["plan"][1])})
                continue
            # quiescent again (every membership thread removed what it had added): the rotation is exactly the permanent
            # backends, in order, and 4k dispatches reach each of the k exactly 4 times
            want = b"RoundRobin://" + b",".join(b"10.0.0.%d:5060" % (i + 1) for i in range(c.meta["plan"][1]))
            if len(o) >= 7 and (o[5] != want or o[6] != b"1"):
                failures.append({"kind": "judge", "has_input": True, "component": "rrstress", "case_id": c.id, "case_line": c.line(), "meta": c.meta,
                                 "summary": "after concurrent membership changes (each thread removed exactly what it had added) the rotation is %s "
                                            "(expected %s) and %s" % (lib.show(o[5], 300), lib.show(want, 300),
                                                                      "rotates evenly" if o[6] == b"1" else "does NOT rotate evenly over the permanent backends")})
        cov["race_stress"] = tot
        cov["evaluations"] += len(stress)
        return {"coverage": cov, "failures": failures}


PROP = C05()
