# make -C /verif setup : build the framework from files on disk only (offline)
.PHONY: setup clean
setup:
	python3 tools/setup.py
clean:
	-$(MAKE) -C coq clean
	rm -rf ocaml/gen ocaml/modelcli ocaml/*.cm* ocaml/*.o coq/Makefile coq/Makefile.conf coq/assumptions.log coq/coqchk.log
