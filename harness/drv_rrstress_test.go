//go:build verif

// "rrstress": dispatches racing with membership changes made from other goroutines, against the
// real RoundRobinBackend with backend doubles that never fail.  Supporting evidence for the
// schedule half of C05 (theorem C05_schedules_safe is about ALL interleavings of the lock
// regions; this run exposes the real code to many of them): with at least one backend
// registered at every instant, no dispatch may panic or fail, and every dispatch is delivered
// exactly once; when the membership threads have finished (each leaves the set as it found it)
// the rotation holds exactly the permanent backends and spreads dispatches evenly over them.
//
//   rrstress: durMs perm churn senders [mthreads]
//     -> sends errors panics delivered firstPanic finalRotation evenAfter
package main

import (
	"fmt"
	"runtime"
	"sync"
	"sync/atomic"
	"time"
)

type countBackend struct {
	addr string
	n    *int64
	own  int64
}

func (c *countBackend) Send(msg *Message) error {
	atomic.AddInt64(c.n, 1)
	atomic.AddInt64(&c.own, 1)
	return nil
}
func (c *countBackend) GetAddress() string { return c.addr }

// closing a real backend (a socket) takes time: give other threads a chance to run meanwhile
func (c *countBackend) Close() { runtime.Gosched() }

func init() {
	components["rrstress"] = func(k *toks, o *out) {
		durMs, perm, churn, senders := k.int(), k.int(), k.int(), k.int()
		mthreads := 1
		if k.rest() > 0 {
			mthreads = k.int()
		}
		if k.bad || perm < 1 || churn < 1 || senders < 1 || mthreads < 1 {
			k.bad = true
			return
		}
		rb := NewRoundRobinBackend()
		var delivered, sends, errs, panics int64
		var firstPanic atomic.Value
		var perms []*countBackend
		for i := 0; i < perm; i++ {
			b := &countBackend{addr: fmt.Sprintf("10.0.0.%d:5060", i+1), n: &delivered}
			perms = append(perms, b)
			rb.AddBackend(b)
		}
		notePanic := func() {
			if r := recover(); r != nil {
				atomic.AddInt64(&panics, 1)
				firstPanic.CompareAndSwap(nil, fmt.Sprint(r))
			}
		}
		stop := make(chan struct{})
		var wg sync.WaitGroup
		for s := 0; s < senders; s++ {
			wg.Add(1)
			go func() {
				defer wg.Done()
				for {
					select {
					case <-stop:
						return
					default:
					}
					func() {
						defer notePanic()
						atomic.AddInt64(&sends, 1)
						if err := rb.Send(nil); err != nil {
							atomic.AddInt64(&errs, 1)
						}
					}()
				}
			}()
		}
		for t := 0; t < mthreads; t++ {
			wg.Add(1)
			go func(t int) {
				defer wg.Done()
				i := 0
				for {
					select {
					case <-stop:
						return
					default:
					}
					// grow by up to [churn] backends, then shrink back to the permanent ones
					func() {
						defer notePanic()
						for j := 0; j < churn; j++ {
							rb.AddBackend(&countBackend{addr: fmt.Sprintf("10.0.%d.%d:5060", t+1, j+1), n: &delivered})
							if i%3 == 0 {
								runtime.Gosched()
							}
						}
					}()
					for j := churn - 1; j >= 0; j-- {
						func() {
							defer notePanic()
							rb.RemoveBackend(fmt.Sprintf("10.0.%d.%d:5060", t+1, j+1))
						}()
						if i%2 == 0 {
							runtime.Gosched()
						}
					}
					i++
				}
			}(t)
		}
		time.Sleep(time.Duration(durMs) * time.Millisecond)
		close(stop)
		wg.Wait()
		o.i64(sends)
		o.i64(errs)
		o.i64(panics)
		o.i64(delivered)
		if p := firstPanic.Load(); p != nil {
			o.s(p.(string))
		} else {
			o.s("")
		}
		// quiescent again: the rotation is the permanent set, and it rotates evenly
		o.s(rb.GetAddress())
		before := make([]int64, len(perms))
		for i, b := range perms {
			before[i] = atomic.LoadInt64(&b.own)
		}
		even := true
		func() {
			defer func() {
				if recover() != nil {
					even = false
				}
			}()
			for i := 0; i < 4*perm; i++ {
				if rb.Send(nil) != nil {
					even = false
				}
			}
		}()
		for i, b := range perms {
			if atomic.LoadInt64(&b.own)-before[i] != 4 {
				even = false
			}
		}
		o.bool(even)
	}
}
