//go:build verif

// "rrstress": dispatches racing with membership changes made from another goroutine, against the
// real RoundRobinBackend with backend doubles that never fail.  Supporting evidence for the
// schedule half of C05 (theorem C05_schedules_safe is about ALL interleavings of the lock
// regions; this run exposes the real code to many of them): with at least one backend
// registered at every instant, no dispatch may panic or fail, and every dispatch is delivered
// exactly once.
package main

import (
	"fmt"
	"runtime"
	"sync"
	"sync/atomic"
	"time"
)

type countBackend struct {
	addr string
	n    *int64
}

func (c *countBackend) Send(msg *Message) error { atomic.AddInt64(c.n, 1); return nil }
func (c *countBackend) GetAddress() string      { return c.addr }
func (c *countBackend) Close()                  {}

func init() {
	components["rrstress"] = func(k *toks, o *out) {
		durMs, perm, churn, senders := k.int(), k.int(), k.int(), k.int()
		if k.bad || perm < 1 || churn < 1 || senders < 1 {
			k.bad = true
			return
		}
		rb := NewRoundRobinBackend()
		var delivered, sends, errs, panics int64
		var firstPanic atomic.Value
		for i := 0; i < perm; i++ {
			rb.AddBackend(&countBackend{fmt.Sprintf("10.0.0.%d:5060", i+1), &delivered})
		}
		stop := make(chan struct{})
		var wg sync.WaitGroup
		for s := 0; s < senders; s++ {
			wg.Add(1)
			go func() {
				defer wg.Done()
				for {
					select {
					case <-stop:
						return
					default:
					}
					func() {
						defer func() {
							if r := recover(); r != nil {
								atomic.AddInt64(&panics, 1)
								firstPanic.CompareAndSwap(nil, fmt.Sprint(r))
							}
						}()
						atomic.AddInt64(&sends, 1)
						if err := rb.Send(nil); err != nil {
							atomic.AddInt64(&errs, 1)
						}
					}()
				}
			}()
		}
		wg.Add(1)
		go func() {
			defer wg.Done()
			i := 0
			for {
				select {
				case <-stop:
					return
				default:
				}
				// grow by up to [churn] backends, then shrink back to the permanent ones
				for j := 0; j < churn; j++ {
					rb.AddBackend(&countBackend{fmt.Sprintf("10.0.1.%d:5060", j+1), &delivered})
					if i%3 == 0 {
						runtime.Gosched()
					}
				}
				for j := churn - 1; j >= 0; j-- {
					rb.RemoveBackend(fmt.Sprintf("10.0.1.%d:5060", j+1))
					if i%2 == 0 {
						runtime.Gosched()
					}
				}
				i++
			}
		}()
		time.Sleep(time.Duration(durMs) * time.Millisecond)
		close(stop)
		wg.Wait()
		o.i64(sends)
		o.i64(errs)
		o.i64(panics)
		o.i64(delivered)
		if p := firstPanic.Load(); p != nil {
			o.s(p.(string))
		} else {
			o.s("")
		}
	}
}
