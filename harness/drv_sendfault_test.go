//go:build verif

package main

import (
	"errors"
	"net"
	"os"
	"sync"
	"syscall"
	"time"
)

// scriptConn is a net.Conn double for a CACHED connection: the first [okLeft] writes succeed,
// the next one fails.  okLeft < 0 = never fails.
type scriptConn struct {
	id     int
	okLeft int
	writes int // successful complete writes
	fails  int
	closed int
}

type fakeAddr struct{}

func (fakeAddr) Network() string { return "tcp" }
func (fakeAddr) String() string  { return "127.0.0.1:1" }

func (c *scriptConn) Read(b []byte) (int, error) { return 0, errors.New("closed") }
func (c *scriptConn) Write(b []byte) (int, error) {
	if c.closed > 0 {
		c.fails++
		return 0, errors.New("use of closed connection")
	}
	if c.okLeft == 0 {
		c.fails++
		// a connection that dies in the middle of a write reports the bytes it had taken (0 < n < len(b) with an
		// error is legal for net.Conn); every other scripted failure does so: nothing complete was written either way
		if c.fails%2 == 1 {
			return len(b) / 3, errors.New("scripted write failure after a partial write")
		}
		return 0, errors.New("scripted write failure")
	}
	if c.okLeft > 0 {
		c.okLeft--
	}
	c.writes++
	return len(b), nil
}
func (c *scriptConn) Close() error                       { c.closed++; return nil }
func (c *scriptConn) LocalAddr() net.Addr                { return fakeAddr{} }
func (c *scriptConn) RemoteAddr() net.Addr               { return fakeAddr{} }
func (c *scriptConn) SetDeadline(t time.Time) error      { return nil }
func (c *scriptConn) SetReadDeadline(t time.Time) error  { return nil }
func (c *scriptConn) SetWriteDeadline(t time.Time) error { return nil }

// faultServer is a loopback listener that can be opened/closed on a fixed port; it counts the
// bytes arriving on each accepted connection (in accept order).
type faultServer struct {
	sync.Mutex
	port  int
	ln    *net.TCPListener
	conns []*net.TCPConn
	got   []int
}

// faultIP is a loopback address no other live driver process uses (derived from the pid): a port that
// a "refusing" fault server has just released may be handed by the kernel to the fault server of a
// concurrently running shard; on a shared address the code under test would then reach THAT listener
// (seen once in ~7 runs as a send that "succeeded" where the script refuses).
func faultIP() net.IP {
	pid := os.Getpid()
	return net.IPv4(127, byte(200+(pid/254/256)%50), byte((pid/254)%256), byte(1+pid%254))
}

func newFaultServer() *faultServer {
	ln, err := net.ListenTCP("tcp", &net.TCPAddr{IP: faultIP(), Port: 0})
	if err != nil {
		panic(err)
	}
	fs := &faultServer{port: ln.Addr().(*net.TCPAddr).Port, ln: ln}
	return fs
}
func (fs *faultServer) setOpen(open bool) {
	if open && fs.ln == nil {
		for i := 0; i < 100; i++ {
			ln, err := net.ListenTCP("tcp", &net.TCPAddr{IP: faultIP(), Port: fs.port})
			if err == nil {
				fs.ln = ln
				return
			}
			time.Sleep(time.Millisecond)
		}
		panic("cannot reopen fault server")
	}
	if !open && fs.ln != nil {
		fs.acceptPending()
		fs.ln.Close()
		fs.ln = nil
	}
}

// accept everything already queued (loopback handshakes complete inside connect())
func (fs *faultServer) acceptPending() {
	if fs.ln == nil {
		return
	}
	for {
		fs.ln.SetDeadline(time.Now().Add(2 * time.Millisecond))
		c, err := fs.ln.AcceptTCP()
		if err != nil {
			return
		}
		fs.conns = append(fs.conns, c)
		fs.got = append(fs.got, 0)
	}
}
func (fs *faultServer) drain() {
	fs.acceptPending()
	buf := make([]byte, 1<<16)
	for i, c := range fs.conns {
		for {
			c.SetReadDeadline(time.Now().Add(2 * time.Millisecond))
			n, err := c.Read(buf)
			fs.got[i] += n
			if err != nil {
				break
			}
		}
	}
}
func (fs *faultServer) close() {
	fs.setOpen(false)
	for _, c := range fs.conns {
		c.Close()
	}
}

// a dialed connection under script: [okLeft] more successful writes, then it is closed locally so
// that the next write fails (the Send code path is the same as for a peer reset)
type dialed struct {
	conn   net.Conn
	okLeft int
}

func init() {
	// sendfault: kind nsends primary sec_present secondary  then per send: ndials {nscript bit..}..
	components["sendfault"] = func(k *toks, o *out) {
		kind := k.str()
		nsends := k.int()
		readCached := func() *scriptConn {
			tag := k.str()
			if tag == "absent" {
				return nil
			}
			n := k.int()
			okLeft := -1
			for i := 0; i < n; i++ {
				b := k.bool()
				if !b && okLeft < 0 {
					okLeft = i
				}
			}
			return &scriptConn{okLeft: okLeft}
		}
		pri := readCached()
		secPresent := k.bool()
		sec := readCached()
		if k.bad {
			return
		}
		if pri != nil {
			pri.id = 0
		}
		if sec != nil {
			sec.id = 1
		}
		fs := newFaultServer()
		defer fs.close()
		var plan []int // okLeft per successful dial of the current send
		var dialedConns []*dialed
		established := func(c net.Conn) {
			// called by the code under test right after a successful dial, before the write
			okLeft := -1
			if len(plan) > 0 {
				okLeft = plan[0]
				plan = plan[1:]
			}
			d := &dialed{conn: c, okLeft: okLeft}
			dialedConns = append(dialedConns, d)
			if okLeft == 0 {
				if tc, ok := c.(*net.TCPConn); ok {
					tc.SetLinger(0)
				}
				c.Close()
			}
			fs.setOpen(len(plan) > 0)
		}
		var sendFn func(*Message) error
		if kind == "client" {
			fo := NewFailOverClientTransport(nil, nil)
			if pri != nil {
				fo.primary = &TCPClientTransport{addr: "cached-primary", reconnectable: false, conn: pri, expire: time.Now().Unix() + 3600}
			}
			if secPresent {
				tc, _ := NewTCPClientTransport(faultIP().String(), fs.port, "127.0.0.1", established)
				if sec != nil {
					tc.conn = sec
				}
				fo.secondary = tc
			}
			sendFn = fo.Send
		} else {
			tb, _ := NewTCPBackend("127.0.0.1:0", net.JoinHostPort(faultIP().String(), itoa(fs.port)), established)
			if pri != nil {
				tb.conn = pri
			}
			sendFn = tb.Send
		}
		msg, _ := NewRequest("OPTIONS", "sip:fault@127.0.0.1", "SIP/2.0")
		msg.AddHeader("Via", "SIP/2.0/TCP 127.0.0.1:5060;branch=z9hG4bKfault")
		msg.AddHeader("Call-ID", "fault")
		b, _ := msg.Bytes()
		mlen := len(b)
		prevGot := []int{}
		for s := 0; s < nsends; s++ {
			nd := k.int()
			plan = plan[:0]
			for i := 0; i < nd; i++ {
				n := k.int()
				okLeft := -1
				for j := 0; j < n; j++ {
					bb := k.bool()
					if !bb && okLeft < 0 {
						okLeft = j
					}
				}
				plan = append(plan, okLeft)
			}
			if k.bad {
				return
			}
			fs.setOpen(len(plan) > 0)
			dialsBefore := len(dialedConns)
			cw := [2]int{}
			cf := [2]int{}
			cc := [2]int{}
			for i, c := range []*scriptConn{pri, sec} {
				if c != nil {
					cw[i], cf[i], cc[i] = c.writes, c.fails, c.closed
				}
			}
			done := make(chan error, 1)
			go func() { done <- sendFn(msg) }()
			var err error
			select {
			case err = <-done:
			case <-time.After(20 * time.Second):
				o.s("hang")
				return
			}
			fs.drain()
			o.bool(err == nil)
			o.i(len(dialedConns) - dialsBefore)
			// successful / failed writes on the cached doubles, and whether they were closed
			for i, c := range []*scriptConn{pri, sec} {
				if c != nil {
					o.i(c.writes - cw[i])
					o.i(c.fails - cf[i])
					o.i(c.closed - cc[i])
				} else {
					o.i(0)
					o.i(0)
					o.i(0)
				}
			}
			// complete messages that arrived per dialed connection during this send
			o.i(len(fs.got))
			for i, g := range fs.got {
				p := 0
				if i < len(prevGot) {
					p = prevGot[i]
				}
				if (g-p)%mlen != 0 {
					o.s("partial")
				} else {
					o.i((g - p) / mlen)
				}
			}
			prevGot = append(prevGot[:0], fs.got...)
			// a dialed connection whose budget of successful writes is used up fails from now on
			for i, d := range dialedConns {
				if d.okLeft > 0 && i < len(fs.got) {
					if fs.got[i]/mlen >= d.okLeft {
						d.okLeft = 0
						if tc, ok := d.conn.(*net.TCPConn); ok {
							tc.SetLinger(0)
						}
						d.conn.Close()
					}
				}
			}
		}
	}
}

func itoa(i int) string {
	if i == 0 {
		return "0"
	}
	s := ""
	for i > 0 {
		s = string(rune('0'+i%10)) + s
		i /= 10
	}
	return s
}

var _ = syscall.EPIPE
