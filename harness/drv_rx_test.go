//go:build verif

package main

import (
	"bufio"
	"fmt"
	"io"
	"net"
	"runtime"
	"time"
)

// Correspondence components for the byte-level receive path (C10, C11, parse part of C08).
//
// rxstream / rxstream-c08 :  size nchunks chunk..
//      -> nmsgs {msg}.. fin balloon          fin = err | panic | hang
//   the REAL ParseMessage loop of TCPServerTransport.receiveMessage over a scripted chunking
//   io.Reader wrapped in bufio.NewReaderSize(r, size)
// rxudp / rxudp-c08 :  asize nops {recv d | parse | dirty pat}..
//      -> nresults {ok msg | err | hang}.. poolsize balloon
//   the REAL UDPServerTransport.startParseMessage goroutine fed through msgParseChannel, buffers
//   from a REAL ByteArrayPool, taken and filled as receiveMessage does (Alloc before the
//   datagram arrives, n = bytes copied, the rest of the buffer keeps what it held)
// rxpool :  maxcap asize nops {alloc | free k}..
//      -> nallocs id.. poolsize
//   the REAL ByteArrayPool; a buffer's identity is the address of its first byte, numbered in
//   order of first appearance
// msg = req method uri version | resp version code reason ; nheaders {name value}.. ; body

const rxWatchdog = 20 * time.Second

// chunkReader delivers the scripted segments: one Read returns at most the rest of the
// current segment (as a TCP connection does), io.EOF after the last one.
type chunkReader struct{ chunks [][]byte }

func (c *chunkReader) Read(p []byte) (int, error) {
	for len(c.chunks) > 0 && len(c.chunks[0]) == 0 {
		c.chunks = c.chunks[1:]
	}
	if len(c.chunks) == 0 {
		return 0, io.EOF
	}
	if len(p) == 0 {
		return 0, nil
	}
	n := copy(p, c.chunks[0])
	c.chunks[0] = c.chunks[0][n:]
	return n, nil
}

func rxPutMsg(o *out, m *Message) {
	switch {
	case m.request != nil:
		o.s("req")
		o.s(m.request.method)
		o.s(m.request.requestURI.String())
		o.s(m.request.version)
	case m.response != nil:
		o.s("resp")
		o.s(m.response.version)
		o.i(m.response.statusCode)
		o.s(m.response.reason)
	default:
		o.s("none")
		o.s("")
		o.s("")
		o.s("")
	}
	o.i(len(m.headers))
	for _, h := range m.headers {
		o.s(h.name)
		if s, ok := h.value.(string); ok {
			o.s(s)
		} else {
			o.s(fmt.Sprint(h.value))
		}
	}
	o.b(m.body)
}

// bytes allocated out of proportion to the bytes received (a generous bound: the decoded
// message, its strings and the reader window are a small multiple of the input)
func rxBalloon(before, after *runtime.MemStats, received int) bool {
	return after.TotalAlloc-before.TotalAlloc > uint64(64*received+(4<<20))
}

func rxStream(k *toks, o *out) {
	size := k.int()
	n := k.int()
	if k.bad || n < 0 || n > k.rest() {
		k.bad = true
		return
	}
	chunks := make([][]byte, 0, n)
	total := 0
	for i := 0; i < n; i++ {
		c := append([]byte(nil), k.bytes()...)
		total += len(c)
		chunks = append(chunks, c)
	}
	if k.bad {
		return
	}
	type result struct {
		msgs []*Message
		fin  string
	}
	done := make(chan result, 1)
	var m0, m1 runtime.MemStats
	runtime.ReadMemStats(&m0)
	go func() {
		var res result
		defer func() {
			if r := recover(); r != nil {
				res.fin = "panic"
			}
			done <- res
		}()
		reader := bufio.NewReaderSize(&chunkReader{chunks: chunks}, size)
		for {
			msg, err := ParseMessage(reader)
			if err != nil {
				res.fin = "err"
				break
			}
			res.msgs = append(res.msgs, msg)
		}
	}()
	var res result
	select {
	case res = <-done:
	case <-time.After(rxWatchdog):
		res.fin = "hang"
	}
	runtime.ReadMemStats(&m1)
	o.i(len(res.msgs))
	for _, m := range res.msgs {
		rxPutMsg(o, m)
	}
	o.s(res.fin)
	o.bool(rxBalloon(&m0, &m1, total))
}

// rxtcpwire: size(=4096) nchunks chunk..  -> nmsgs {msg}.. fin balloon
//   the REAL TCPServerTransport.receiveMessage goroutine reading a scripted connection (one Read = at most the
//   rest of the current segment), handing its messages to a handler that only QUEUES the envelopes, as
//   Proxy.HandleRawMessage does; the queue is read after the connection has ended (a consumer that lags behind
//   the reader), so what is compared is the set and order of messages the receive loop delivered
type scriptedConn struct {
	chunkReader
	closed int
}

type scriptedAddr string

func (a scriptedAddr) Network() string { return "tcp" }
func (a scriptedAddr) String() string  { return string(a) }

func (c *scriptedConn) Write(b []byte) (int, error)        { return len(b), nil }
func (c *scriptedConn) Close() error                       { c.closed++; return nil }
func (c *scriptedConn) LocalAddr() net.Addr                { return scriptedAddr("127.0.0.1:5061") }
func (c *scriptedConn) RemoteAddr() net.Addr               { return scriptedAddr("127.0.0.9:40000") }
func (c *scriptedConn) SetDeadline(t time.Time) error      { return nil }
func (c *scriptedConn) SetReadDeadline(t time.Time) error  { return nil }
func (c *scriptedConn) SetWriteDeadline(t time.Time) error { return nil }

type rxQueueHandler struct{ q []*RawMessage }

func (h *rxQueueHandler) HandleRawMessage(m *RawMessage) { h.q = append(h.q, m) }
func (h *rxQueueHandler) HandleMessage(m *Message)       {}

func rxTCPWire(k *toks, o *out) {
	size := k.int()
	n := k.int()
	if k.bad || size != 4096 || n < 0 || n > k.rest() {
		k.bad = true
		return
	}
	conn := &scriptedConn{}
	total := 0
	for i := 0; i < n; i++ {
		c := append([]byte(nil), k.bytes()...)
		total += len(c)
		conn.chunks = append(conn.chunks, c)
	}
	if k.bad {
		return
	}
	h := &rxQueueHandler{}
	t := NewTCPServerTransportWithConn(conn, false, nil)
	t.msgHandler = h
	done := make(chan string, 1)
	var m0, m1 runtime.MemStats
	runtime.ReadMemStats(&m0)
	go func() {
		fin := "err" // the loop ends when ParseMessage fails (here: at the end of the script)
		defer func() {
			if r := recover(); r != nil {
				fin = "panic"
			}
			done <- fin
		}()
		t.receiveMessage(conn)
	}()
	fin := ""
	select {
	case fin = <-done:
	case <-time.After(rxWatchdog):
		fin = "hang"
	}
	runtime.ReadMemStats(&m1)
	if fin == "hang" {
		o.i(0)
	} else {
		o.i(len(h.q))
		for _, rm := range h.q {
			rxPutMsg(o, rm.Message)
		}
	}
	o.s(fin)
	o.bool(rxBalloon(&m0, &m1, total))
}

var rxSentinel = []byte("OPTIONS sip:barrier@verif SIP/2.0\r\nContent-Length: 0\r\n\r\n")

func rxUDP(k *toks, o *out) {
	asize := k.int()
	nops := k.int()
	if k.bad || asize < 1 {
		k.bad = true
		return
	}
	u := &UDPServerTransport{
		msgParseChannel: make(chan SizedByteArray, 16),
		msgBufPool:      NewByteArrayPool(40960, asize),
	}
	go u.startParseMessage() // stays blocked on the channel after the case
	type pend struct {
		b []byte
		n int
	}
	var queue []pend
	cur := u.msgBufPool.Alloc()
	received := 0
	var results [][]string
	var m0, m1 runtime.MemStats
	runtime.ReadMemStats(&m0)
	hung := false
	for i := 0; i < nops && !k.bad && !hung; i++ {
		switch k.str() {
		case "recv":
			d := k.bytes()
			received += len(d)
			n := copy(cur, d) // ReadFromUDP: the datagram is cut to the buffer
			queue = append(queue, pend{cur, n})
			cur = u.msgBufPool.Alloc()
		case "dirty":
			pat := k.bytes()
			b := u.msgBufPool.Alloc()
			copy(b, pat)
			u.msgBufPool.Free(b)
		case "parse":
			if len(queue) == 0 {
				continue
			}
			it := queue[0]
			queue = queue[1:]
			var got *Message
			u.msgParseChannel <- SizedByteArray{b: it.b, n: it.n, msgHandler: func(m *Message) { got = m }}
			// barrier: the parse loop is sequential, so when the sentinel's handler has run the
			// item before it is finished.  The sentinel travels in its own array, which
			// startParseMessage pushes on the pool: it is popped again so that the pool is
			// exactly as the item left it.
			sb := append([]byte(nil), rxSentinel...)
			sig := make(chan struct{}, 1)
			u.msgParseChannel <- SizedByteArray{b: sb, n: len(sb), msgHandler: func(m *Message) { sig <- struct{}{} }}
			select {
			case <-sig:
				x := u.msgBufPool.Alloc()
				if len(x) == 0 || &x[0] != &sb[0] {
					panic("rxudp: barrier buffer not on top of the pool")
				}
			case <-time.After(rxWatchdog):
				hung = true
			}
			if hung {
				results = append(results, []string{"hang"})
			} else if got != nil {
				oo := &out{}
				oo.s("ok")
				rxPutMsg(oo, got)
				results = append(results, oo.t)
			} else {
				oo := &out{}
				oo.s("err")
				results = append(results, oo.t)
			}
		default:
			k.bad = true
		}
	}
	if k.bad {
		return
	}
	runtime.ReadMemStats(&m1)
	o.i(len(results))
	for _, r := range results {
		if len(r) == 1 && r[0] == "hang" {
			o.s("hang")
		} else {
			o.t = append(o.t, r...)
		}
	}
	o.i(u.msgBufPool.Size())
	// the barrier messages are part of what was received
	o.bool(rxBalloon(&m0, &m1, received+len(results)*len(rxSentinel)))
}

// rxwire: the same case format as rxudp, but the datagrams travel over a REAL loopback socket into
// the REAL UDPServerTransport.receiveMessage goroutine (its Alloc / ReadFromUDP / enqueue code), and
// from there one by one ("parse") into the REAL startParseMessage goroutine, both on the same REAL
// pool.  The two goroutines run on two transport values that share the pool, so that the harness can
// pace the hand-over (receive loop ahead of the parse loop in every scripted order).
//      -> nresults {ok msg | err | hang}.. pooldups balloon
//   pooldups = buffers that sit in the pool more than once at the end (a buffer freed twice)
type rxWireHandler struct{ got *Message }

func (h *rxWireHandler) HandleRawMessage(m *RawMessage) { h.got = m.Message }
func (h *rxWireHandler) HandleMessage(m *Message)       {}

func rxWire(k *toks, o *out) {
	asize := k.int()
	nops := k.int()
	if k.bad || asize < 1 {
		k.bad = true
		return
	}
	ip := faultIP().String()
	u1, err := NewUDPServerTransport(ip, 0, false, nil)
	if err != nil {
		panic(err)
	}
	u1.msgBufPool = NewByteArrayPool(40960, asize)
	h := &rxWireHandler{}
	u1.msgHandler = h
	conn, err := net.ListenUDP("udp", u1.localAddr)
	if err != nil {
		panic(err)
	}
	u1.conn = conn
	defer conn.Close()
	go u1.receiveMessage()
	u2 := &UDPServerTransport{msgParseChannel: make(chan SizedByteArray, 16), msgBufPool: u1.msgBufPool}
	go u2.startParseMessage()
	cl, err := net.DialUDP("udp", &net.UDPAddr{IP: faultIP()}, conn.LocalAddr().(*net.UDPAddr))
	if err != nil {
		panic(err)
	}
	defer cl.Close()
	pending, received := 0, 0
	var results [][]string
	var m0, m1 runtime.MemStats
	runtime.ReadMemStats(&m0)
	hung := false
	ssz := asize
	if ssz < len(rxSentinel) {
		ssz = len(rxSentinel)
	}
	for i := 0; i < nops && !k.bad && !hung; i++ {
		switch k.str() {
		case "recv":
			d := k.bytes()
			received += len(d)
			if _, err := cl.Write(d); err != nil {
				panic(err)
			}
			pending++
			// the receive loop has queued it when the channel holds every datagram not yet handed over
			dl := time.Now().Add(rxWatchdog)
			for len(u1.msgParseChannel) < pending {
				if time.Now().After(dl) {
					hung = true
					break
				}
				time.Sleep(50 * time.Microsecond)
			}
			if hung {
				results = append(results, []string{"hang"})
			}
		case "dirty":
			pat := k.bytes()
			b := u1.msgBufPool.Alloc()
			copy(b, pat)
			u1.msgBufPool.Free(b)
		case "parse":
			if pending == 0 {
				continue
			}
			it := <-u1.msgParseChannel
			pending--
			h.got = nil
			u2.msgParseChannel <- it
			// barrier: a sentinel in an array of its own (full size: the receive loop may take it from the pool later)
			sb := make([]byte, ssz)
			copy(sb, rxSentinel)
			sig := make(chan struct{}, 1)
			u2.msgParseChannel <- SizedByteArray{b: sb, n: len(rxSentinel), msgHandler: func(m *Message) { sig <- struct{}{} }}
			select {
			case <-sig:
			case <-time.After(rxWatchdog):
				hung = true
			}
			if hung {
				results = append(results, []string{"hang"})
			} else if h.got != nil {
				oo := &out{}
				oo.s("ok")
				rxPutMsg(oo, h.got)
				results = append(results, oo.t)
			} else {
				oo := &out{}
				oo.s("err")
				results = append(results, oo.t)
			}
		default:
			k.bad = true
		}
	}
	if k.bad {
		return
	}
	runtime.ReadMemStats(&m1)
	o.i(len(results))
	for _, r := range results {
		if len(r) == 1 && r[0] == "hang" {
			o.s("hang")
		} else {
			o.t = append(o.t, r...)
		}
	}
	u1.msgBufPool.Lock()
	seen := map[*byte]bool{}
	dups := 0
	for _, b := range u1.msgBufPool.pool {
		if len(b) == 0 {
			continue
		}
		if seen[&b[0]] {
			dups++
		}
		seen[&b[0]] = true
	}
	u1.msgBufPool.Unlock()
	o.i(dups)
	o.bool(rxBalloon(&m0, &m1, received+len(results)*ssz))
}

func rxPool(k *toks, o *out) {
	maxcap := k.int()
	asize := k.int()
	nops := k.int()
	if k.bad || asize < 1 {
		k.bad = true
		return
	}
	p := NewByteArrayPool(maxcap, asize)
	ids := map[*byte]int{}
	var held [][]byte
	var got []int
	for i := 0; i < nops && !k.bad; i++ {
		switch k.str() {
		case "alloc":
			b := p.Alloc()
			id, ok := ids[&b[0]]
			if !ok {
				id = len(ids)
				ids[&b[0]] = id
			}
			got = append(got, id)
			held = append(held, b)
		case "free":
			j := k.int()
			if j < 0 || j >= len(held) {
				continue
			}
			b := held[j]
			held = append(held[:j:j], held[j+1:]...)
			p.Free(b)
		default:
			k.bad = true
		}
	}
	if k.bad {
		return
	}
	o.i(len(got))
	for _, id := range got {
		o.i(id)
	}
	o.i(p.Size())
}

func init() {
	components["rxstream"] = rxStream
	components["rxstream-c08"] = rxStream
	components["rxudp"] = rxUDP
	components["rxudp-c08"] = rxUDP
	components["rxpool"] = rxPool
	components["rxwire"] = rxWire
	components["rxtcpwire"] = rxTCPWire
}
