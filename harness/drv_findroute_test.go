//go:build verif

package main

import (
	"fmt"
	"strconv"
	"strings"
)

// findroute: n (proto dest nexthop)*n host reps
// observation: k, then k distinct answers (some proto host port | none), in order of first
// appearance over [reps] look-ups, each on a freshly built table and repeated on it
func init() {
	components["findroute"] = func(k *toks, o *out) {
		n := k.int()
		type ent struct{ p, d, h string }
		cfg := make([]ent, 0, n)
		for i := 0; i < n; i++ {
			cfg = append(cfg, ent{k.str(), k.str(), k.str()})
		}
		host := k.str()
		reps := 50
		if k.rest() > 0 {
			reps = k.int()
		}
		if k.bad {
			return
		}
		seen := map[string]bool{}
		var order [][]string
		var pcr *PreConfigRoute
		for r := 0; r < reps; r++ {
			if r%5 == 0 || pcr == nil {
				pcr = NewPreConfigRoute()
				for _, e := range cfg {
					pcr.AddRouteItem(e.p, e.d, e.h)
				}
			}
			proto, h, port, err := pcr.FindRoute(host)
			var rec []string
			if err != nil {
				rec = []string{"none"}
			} else {
				rec = []string{"some", proto, h, fmt.Sprint(port)}
			}
			key := fmt.Sprint(rec)
			if !seen[key] {
				seen[key] = true
				order = append(order, rec)
			}
		}
		o.i(len(order))
		for _, rec := range order {
			for _, s := range rec {
				o.s(s)
			}
		}
	}
	// findroute-seq: n (proto dest nexthop)*n m host*m
	// observation: m, then one answer per host, all looked up one after the other on ONE table object
	// the table is built the way the binary builds it: YAML text -> loadConfigFromReader -> createPreConfigRoute;
	// neighbouring entries with the same protocol and next hop are written as ONE route item with several dests
	components["findroute-seq"] = func(k *toks, o *out) {
		n := k.int()
		type ent struct{ p, d, h string }
		var ents []ent
		for i := 0; i < n && !k.bad; i++ {
			ents = append(ents, ent{k.str(), k.str(), k.str()})
		}
		m := k.int()
		if k.bad {
			return
		}
		var y strings.Builder
		y.WriteString("proxies:\n- name: \"findroute\"\n")
		if len(ents) > 0 {
			y.WriteString("  route:\n")
		}
		for i := 0; i < len(ents); {
			j := i + 1
			for j < len(ents) && ents[j].p == ents[i].p && ents[j].h == ents[i].h {
				j++
			}
			y.WriteString("  - dests:\n")
			for _, e := range ents[i:j] {
				y.WriteString("    - " + strconv.Quote(e.d) + "\n")
			}
			y.WriteString("    protocol: " + strconv.Quote(ents[i].p) + "\n    nexthop: " + strconv.Quote(ents[i].h) + "\n")
			i = j
		}
		conf, err := loadConfigFromReader(strings.NewReader(y.String()))
		if err != nil || len(conf.Proxies) != 1 {
			o.s("config-fail")
			return
		}
		pcr := createPreConfigRoute(conf.Proxies[0])
		o.i(m)
		for i := 0; i < m && !k.bad; i++ {
			proto, h, port, err := pcr.FindRoute(k.str())
			if err != nil {
				o.s("none")
			} else {
				o.s("some")
				o.s(proto)
				o.s(h)
				o.s(fmt.Sprint(port))
			}
		}
	}
}
