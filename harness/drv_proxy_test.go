//go:build verif

// "proxy" component: the whole proxy, started through the real startProxy from a YAML
// configuration, is driven over real loopback sockets.  Every case lives in its own
// 127.X.Y.0/24 block (addresses are part of the case), so the sockets the proxy never closes
// cannot collide with the next case.  After each event a barrier request is pushed through
// the same receive path (same UDP socket / same TCP connection) and routed to a dedicated
// barrier socket; when it arrives everything the event caused has been sent (one message
// loop per listener, loopback delivery is synchronous), and all peers are drained with
// non-blocking reads.
package main

import (
	"bytes"
	"fmt"
	"net"
	"os"
	"regexp"
	"runtime"
	"sort"
	"strconv"
	"strings"
	"sync"
	"syscall"
	"time"
)

type pxListen struct {
	addr     string
	udp, tcp int
	dynHost  string
	dynIPs   []string
}
type pxUDP struct {
	ip   string
	port int
	c    *net.UDPConn
}
type pxTCPL struct {
	ip   string
	port int
	ln   *net.TCPListener
}
type pxConn struct {
	peer      string // "ip:port" of the driver's listener that accepted a connection the proxy dialled
	ephem     string // "ip:port" of the proxy's end of a connection the proxy dialled
	id        int
	c         net.Conn
	li        int // listener it talks to (driver-initiated), -1 for connections the proxy opened
	eof       bool
	reported  bool
	selfClose bool
}
type pxExtra struct {
	e  int
	br string
}
type pxOut struct {
	label string
	data  []byte
}

var pxOnce sync.Once
var pxSeenBranches = map[string]bool{}
var pxBranchRe = regexp.MustCompile(`^(?i:via|v)\s*:\s*SIP/2\.0/(?:UDP|TCP) ([0-9.]+):(\d+);branch=(z9hG4bK[0-9a-f]{12})(?:;[^\r\n,]*)?\s*$`)

// "proxytb": the same driver; its cases configure tcp:// backends and use two more event kinds (bdata / bclose: the
// connection the proxy has open TO a peer address, whichever number it got)
func init() {
	components["proxy"] = runProxyCase
	components["proxytb"] = func(k *toks, o *out) {
		pxTB = true
		defer func() { pxTB = false }()
		runProxyCase(k, o)
	}
	// "proxysp": spirals - a request whose next hop is one of the proxy's own UDP sockets comes back in and is processed
	// again (and again): the barrier is repeated after every datagram event, so that every pass has been made before the
	// peers are drained, and the OS-chosen source port of the proxy's own client socket is canonicalised where the proxy
	// stamps it (rport of a Via whose received value is a listener address)
	components["proxysp"] = func(k *toks, o *out) {
		pxSp = true
		defer func() { pxSp = false }()
		runProxyCase(k, o)
	}
}

var pxSp bool
var pxRportRe1 = regexp.MustCompile(`(;rport=)\d+((?:;[^;,\r\n]*)*;received=)([0-9.]+)`)
var pxRportRe2 = regexp.MustCompile(`(;received=)([0-9.]+)((?:;[^;,\r\n]*)*;rport=)\d+`)

func (pc *pxCase) canonSpiral(b []byte) []byte {
	own := func(a string) bool {
		for _, l := range pc.listens {
			if l.addr == a {
				return true
			}
		}
		return false
	}
	b = pxRportRe1.ReplaceAllFunc(b, func(m []byte) []byte {
		s := pxRportRe1.FindSubmatch(m)
		if own(string(s[3])) {
			return []byte(string(s[1]) + "0" + string(s[2]) + string(s[3]))
		}
		return m
	})
	b = pxRportRe2.ReplaceAllFunc(b, func(m []byte) []byte {
		s := pxRportRe2.FindSubmatch(m)
		if own(string(s[2])) {
			return []byte(string(s[1]) + string(s[2]) + string(s[3]) + "0")
		}
		return m
	})
	return b
}

// in "proxytb" cases the barrier pushed through a connection the proxy dialled is a RESPONSE (routed to the barrier
// socket by its second Via): a barrier REQUEST arriving from a backend's address would teach the proxy that address
// (self-learned route), which no event of the case does
var pxTB bool

func (pc *pxCase) barrierResp() []byte {
	return []byte("SIP/2.0 200 OK\r\n" +
		"Via: SIP/2.0/UDP " + pc.barAddr + ":5998;branch=z9hG4bKbarrier0\r\n" +
		"Via: SIP/2.0/UDP " + pc.barAddr + ":5999;branch=z9hG4bKbarrier\r\n" +
		"From: <sip:barrier@" + pc.barAddr + ">;tag=b\r\nTo: <sip:barrier@" + pc.barAddr + ">;tag=c\r\n" +
		"Call-ID: barrier\r\nCSeq: 1 OPTIONS\r\nContent-Length: 0\r\n\r\n")
}

// the most recent connection the proxy dialled to ip:port that is still open
func (pc *pxCase) dialledTo(ip string, port int) int {
	id := -1
	for _, c := range pc.conns {
		if c.li == -1 && !c.eof && c.peer == ip+":"+strconv.Itoa(port) {
			id = c.id
		}
	}
	return id
}

func nbRecv(rc syscall.RawConn) (data []byte, eof bool, ok bool) {
	buf := make([]byte, 70000)
	var n int
	var rerr error
	rc.Read(func(fd uintptr) bool {
		n, _, rerr = syscall.Recvfrom(int(fd), buf, syscall.MSG_DONTWAIT)
		return true
	})
	if rerr != nil {
		if rerr == syscall.EAGAIN || rerr == syscall.EWOULDBLOCK || rerr == syscall.EINTR {
			return nil, false, false
		}
		return nil, true, false // reset etc.: the connection is gone
	}
	return buf[:n], n == 0, true
}

func nbAccept(ln *net.TCPListener) net.Conn {
	rc, err := ln.SyscallConn()
	if err != nil {
		return nil
	}
	nfd := -1
	// (a listener's RawConn has no Read; Control runs the function on the descriptor)
	rc.Control(func(fd uintptr) {
		n, _, e := syscall.Accept4(int(fd), syscall.SOCK_CLOEXEC)
		if e == nil {
			nfd = n
		}
	})
	if nfd < 0 {
		return nil
	}
	f := os.NewFile(uintptr(nfd), "acc")
	c, err := net.FileConn(f)
	f.Close()
	if err != nil {
		return nil
	}
	return c
}

func pxPlaceholder(e int) string { return fmt.Sprintf("z9hG4bK@@@@@@%06d", e) }

type pxCase struct {
	listens  []*pxListen
	udps     []*pxUDP
	tcpls    []*pxTCPL
	conns    []*pxConn
	barrier  *net.UDPConn
	barAddr  string
	actual   map[int]string // event -> branch the proxy generated
	more     []pxExtra      // further branches generated during the same event
	nextConn int
	notes    []string
}

func (pc *pxCase) barrierMsg(proto string) []byte {
	return []byte("OPTIONS sip:barrier@" + pc.barAddr + " SIP/2.0\r\n" +
		"Via: SIP/2.0/" + proto + " " + pc.barAddr + ":5999;branch=z9hG4bKbarrier\r\n" +
		"Route: <sip:" + pc.barAddr + ":5999;lr>\r\n" +
		"From: <sip:barrier@" + pc.barAddr + ">;tag=b\r\nTo: <sip:barrier@" + pc.barAddr + ">\r\n" +
		"Call-ID: barrier\r\nCSeq: 1 OPTIONS\r\nContent-Length: 0\r\n\r\n")
}

// wait for one barrier datagram; with a TCP connection also stop when it is closed
func (pc *pxCase) waitBarrier(cn *pxConn) bool {
	buf := make([]byte, 4096)
	deadline := time.Now().Add(3 * time.Second)
	for time.Now().Before(deadline) {
		pc.barrier.SetReadDeadline(time.Now().Add(20 * time.Millisecond))
		n, _, err := pc.barrier.ReadFromUDP(buf)
		if err == nil && n > 0 {
			return true
		}
		if cn != nil {
			pc.pollConn(cn, nil)
			if cn.eof {
				return false
			}
		}
	}
	pc.notes = append(pc.notes, "barrier-timeout")
	return false
}

func (pc *pxCase) udpBarrier(li int) {
	l := pc.listens[li]
	if l.udp <= 0 {
		time.Sleep(20 * time.Millisecond)
		return
	}
	dst := &net.UDPAddr{IP: net.ParseIP(l.addr), Port: l.udp}
	pc.barrier.WriteToUDP(pc.barrierMsg("UDP"), dst)
	pc.waitBarrier(nil)
}

func (pc *pxCase) anyBarrier() {
	for i := range pc.listens {
		pc.udpBarrier(i)
	}
}

var pxPending = map[*pxConn][]byte{}

// non-blocking read of everything available on a connection
func (pc *pxCase) pollConn(cn *pxConn, outs *[]pxOut) {
	if cn.eof {
		return
	}
	var rc syscall.RawConn
	switch c := cn.c.(type) {
	case *net.TCPConn:
		rc, _ = c.SyscallConn()
	}
	if rc == nil {
		return
	}
	for {
		d, eof, ok := nbRecv(rc)
		if eof {
			cn.eof = true
			return
		}
		if !ok {
			return
		}
		pxPending[cn] = append(pxPending[cn], d...)
	}
}

func (pc *pxCase) drain(e int) (outs []pxOut, closed []int) {
	for _, u := range pc.udps {
		rc, _ := u.c.SyscallConn()
		for {
			d, _, ok := nbRecv(rc)
			if !ok {
				break
			}
			outs = append(outs, pxOut{"udp:" + u.ip + ":" + strconv.Itoa(u.port), append([]byte(nil), d...)})
		}
	}
	for _, l := range pc.tcpls {
		for {
			c := nbAccept(l.ln)
			if c == nil {
				break
			}
			cn := &pxConn{id: pc.nextConn, c: c, li: -1, ephem: c.RemoteAddr().String(), peer: l.ip + ":" + strconv.Itoa(l.port)}
			pc.nextConn++
			pc.conns = append(pc.conns, cn)
			outs = append(outs, pxOut{"dial:" + l.ip + ":" + strconv.Itoa(l.port), []byte(strconv.Itoa(cn.id))})
		}
	}
	for _, cn := range pc.conns {
		pc.pollConn(cn, nil)
		if d := pxPending[cn]; len(d) > 0 {
			outs = append(outs, pxOut{"conn:" + strconv.Itoa(cn.id), d})
			delete(pxPending, cn)
		}
		if cn.eof && !cn.reported {
			cn.reported = true
			if !cn.selfClose {
				closed = append(closed, cn.id)
			}
		}
	}
	// learn the branch generated during this event, then canonicalise
	for _, o := range outs {
		if !strings.HasPrefix(o.label, "dial:") {
			pc.learnBranch(e, o.data)
		}
	}
	for i := range outs {
		if !strings.HasPrefix(outs[i].label, "dial:") {
			outs[i].data = pc.canon(outs[i].data)
			if pxSp {
				outs[i].data = pc.canonSpiral(outs[i].data)
			}
		}
	}
	return
}

func (pc *pxCase) learnBranch(e int, msg []byte) {
	// several messages may be concatenated on a TCP stream: look at every header line that
	// precedes the first empty line of each message is more than needed; scan all lines
	for _, line := range strings.Split(string(msg), "\r\n") {
		m := pxBranchRe.FindStringSubmatch(line)
		if m == nil {
			continue
		}
		own := false
		// a Via of the proxy's own making names a listener address: with a listener port, or with the OS-chosen
		// local port of a connection the proxy dialled itself (nobody else lives on a listener address of the block)
		for _, l := range pc.listens {
			if m[1] == l.addr {
				own = true
			}
		}
		// ... or the local end of a connection the proxy dialled without binding a listener address (to a TCP backend)
		for _, c := range pc.conns {
			if c.ephem != "" && c.ephem == m[1]+":"+m[2] {
				own = true
			}
		}
		if !own {
			continue
		}
		br := m[3]
		known := false
		for _, a := range pc.actual {
			if a == br {
				known = true
			}
		}
		for _, x := range pc.more {
			if x.br == br {
				known = true
			}
		}
		if known {
			continue
		}
		if pxSeenBranches[br] {
			pc.notes = append(pc.notes, "duplicate-branch")
		}
		pxSeenBranches[br] = true
		if _, dup := pc.actual[e]; dup {
			// several requests pipelined in one TCP chunk: one fresh branch each; the model uses the
			// event's stand-in for all of them
			pc.more = append(pc.more, pxExtra{e, br})
			continue
		}
		pc.actual[e] = br
	}
}

func (pc *pxCase) canon(b []byte) []byte {
	for e, a := range pc.actual {
		b = bytes.ReplaceAll(b, []byte(a), []byte(pxPlaceholder(e)))
	}
	for _, x := range pc.more {
		b = bytes.ReplaceAll(b, []byte(x.br), []byte(pxPlaceholder(x.e)))
	}
	// the OS-chosen local port of a connection the proxy dialled shows up when the proxy names that
	// transport in a Via / Record-Route: the model writes such a transport without a port
	for _, c := range pc.conns {
		if c.ephem != "" {
			if i := strings.LastIndex(c.ephem, ":"); i > 0 {
				b = bytes.ReplaceAll(b, []byte(c.ephem), []byte(c.ephem[:i]))
			}
		}
	}
	return b
}

func (pc *pxCase) subst(b []byte) []byte {
	for e, a := range pc.actual {
		b = bytes.ReplaceAll(b, []byte(pxPlaceholder(e)), []byte(a))
	}
	return b
}

func (pc *pxCase) closeAll() {
	for _, u := range pc.udps {
		u.c.Close()
	}
	for _, l := range pc.tcpls {
		l.ln.Close()
	}
	for _, c := range pc.conns {
		c.c.Close()
		delete(pxPending, c)
	}
	if pc.barrier != nil {
		pc.barrier.Close()
	}
}

func settleGoroutines(base int) {
	for i := 0; i < 200; i++ {
		if runtime.NumGoroutine() <= base {
			return
		}
		time.Sleep(500 * time.Microsecond)
	}
}

func runProxyCase(k *toks, o *out) {
	pxOnce.Do(func() { dynamicHostResolver.Stop() })
	pc := &pxCase{actual: map[int]string{}}
	defer pc.closeAll()
	// ---- configuration tokens (the model's reading); only the listeners matter here
	_ = k.str() // name
	// keep: the service's keepNextHopRoute text (it is in the YAML), then optionally '|' and the value of the
	// environment variable KEEP_NEXT_HOP_ROUTE the proxy is started under
	keepTok := k.str()
	if p := strings.IndexByte(keepTok, '|'); p >= 0 {
		os.Setenv("KEEP_NEXT_HOP_ROUTE", keepTok[p+1:])
	} else {
		os.Unsetenv("KEEP_NEXT_HOP_ROUTE")
	}
	os.Unsetenv("DEFAULT_DIALOG_TIMEOUT") // a dialogTimeout <= 0 stands for the built-in default (the model's reading)
	_ = k.int()                           // dialog timeout
	for n := k.int(); n > 0 && !k.bad; n-- {
		k.str()
		k.str()
		k.str()
	}
	for n := k.int(); n > 0 && !k.bad; n-- {
		k.str()
		k.str()
	}
	for n := k.int(); n > 0 && !k.bad; n-- {
		l := &pxListen{addr: k.str(), udp: k.int(), tcp: k.int()}
		for m := k.int(); m > 0 && !k.bad; m-- {
			k.str()
		}
		k.bool()
		k.bool()
		k.bool()
		k.bool()
		pc.listens = append(pc.listens, l)
	}
	yamlText := k.bytes()
	nd := k.int()
	for i := 0; i < nd && !k.bad; i++ {
		h := k.str()
		if i < len(pc.listens) {
			pc.listens[i].dynHost = h
		}
	}
	type ap struct {
		ip   string
		port int
	}
	var tl, ue []ap
	for n := k.int(); n > 0 && !k.bad; n-- {
		tl = append(tl, ap{k.str(), k.int()})
	}
	for n := k.int(); n > 0 && !k.bad; n-- {
		ue = append(ue, ap{k.str(), k.int()})
	}
	nev := k.int()
	if k.bad || len(pc.listens) == 0 {
		k.bad = true
		return
	}
	// ---- peers
	oct := strings.Split(pc.listens[0].addr, ".")
	if len(oct) != 4 {
		k.bad = true
		return
	}
	pc.barAddr = oct[0] + "." + oct[1] + "." + oct[2] + ".250"
	var err error
	pc.barrier, err = net.ListenUDP("udp", &net.UDPAddr{IP: net.ParseIP(pc.barAddr), Port: 5999})
	if err != nil {
		o.s("setup-fail")
		o.s(err.Error())
		return
	}
	for _, a := range ue {
		c, err := net.ListenUDP("udp", &net.UDPAddr{IP: net.ParseIP(a.ip), Port: a.port})
		if err != nil {
			o.s("setup-fail")
			o.s(err.Error())
			return
		}
		pc.udps = append(pc.udps, &pxUDP{a.ip, a.port, c})
	}
	for _, a := range tl {
		ln, err := net.ListenTCP("tcp", &net.TCPAddr{IP: net.ParseIP(a.ip), Port: a.port})
		if err != nil {
			o.s("setup-fail")
			o.s(err.Error())
			return
		}
		pc.tcpls = append(pc.tcpls, &pxTCPL{a.ip, a.port, ln})
	}
	// ---- the proxy, through the real wiring
	conf, err := loadConfigFromReader(bytes.NewReader(yamlText))
	if err != nil || len(conf.Proxies) != 1 {
		o.s("config-fail")
		return
	}
	pcfg := conf.Proxies[0]
	if err := startProxy(pcfg, createPreConfigRoute(pcfg), createPreConfigHostResolver(conf.Hosts, pcfg)); err != nil {
		o.s("start-fail")
		o.s(err.Error())
		return
	}
	time.Sleep(2 * time.Millisecond)
	pc.anyBarrier()
	pc.anyBarrier()
	base := runtime.NumGoroutine()
	var ms0 runtime.MemStats
	runtime.ReadMemStats(&ms0)
	defer func() {
		// memory obtained from the OS while the case ran, out of proportion to what was sent (C08)
		var ms1 runtime.MemStats
		runtime.ReadMemStats(&ms1)
		if ms1.HeapSys > ms0.HeapSys+(300<<20) {
			o.s("notes")
			o.s(fmt.Sprintf("memory-balloon:%dMiB", (ms1.HeapSys-ms0.HeapSys)>>20))
		}
	}()
	// ---- the optional tail of the case: "waits" n {event index, ms}: real time the driver lets pass before that event
	waits := map[int]int{}
	{
		p := k.pos
		width := map[string]int{"udp": 4, "accept": 3, "data": 2, "close": 1, "badd": 2, "brem": 2, "bdata": 3, "bclose": 2}
		ok := true
		for e := 0; e < nev && ok; e++ {
			if p >= len(k.t) {
				ok = false
				break
			}
			w, has := width[string(k.t[p])]
			ok = has
			p += 1 + w
		}
		if ok && p+1 < len(k.t) && string(k.t[p]) == "waits" {
			n, _ := strconv.Atoi(string(k.t[p+1]))
			for j := 0; j < n && p+3+2*j < len(k.t); j++ {
				idx, _ := strconv.Atoi(string(k.t[p+2+2*j]))
				msv, _ := strconv.Atoi(string(k.t[p+3+2*j]))
				waits[idx] += msv
			}
		}
	}
	// ---- events
	for e := 0; e < nev && !k.bad; e++ {
		if w := waits[e]; w > 0 {
			time.Sleep(time.Duration(w) * time.Millisecond)
		}
		kind := k.str()
		// bdata / bclose name a connection by the peer the proxy dialled (-1: there is none, the event does nothing)
		named := -2
		if kind == "bdata" || kind == "bclose" {
			ip, port := k.str(), k.int()
			named = pc.dialledTo(ip, port)
			kind = map[string]string{"bdata": "data", "bclose": "close"}[kind]
		}
		switch kind {
		case "udp":
			li, ip, port, data := k.int(), k.str(), k.int(), pc.subst(k.bytes())
			if li < 0 || li >= len(pc.listens) {
				k.bad = true
				break
			}
			var src *pxUDP
			for _, u := range pc.udps {
				if u.ip == ip && u.port == port {
					src = u
				}
			}
			if src == nil {
				k.bad = true
				break
			}
			src.c.WriteToUDP(data, &net.UDPAddr{IP: net.ParseIP(pc.listens[li].addr), Port: pc.listens[li].udp})
			pc.udpBarrier(li)
			if pxSp {
				// a datagram the proxy sent to itself while handling this one is queued behind the first barrier: one more
				// round per possible pass, through every listener
				for round := 0; round < 4; round++ {
					pc.anyBarrier()
				}
			}
		case "accept":
			li, ip, port := k.int(), k.str(), k.int()
			if li < 0 || li >= len(pc.listens) {
				k.bad = true
				break
			}
			// (the fixed source port may still be in TIME_WAIT from an earlier scenario that lived in this address block)
			d := net.Dialer{LocalAddr: &net.TCPAddr{IP: net.ParseIP(ip), Port: port}, Timeout: 2 * time.Second,
				Control: func(network, address string, rc syscall.RawConn) error {
					var e error
					rc.Control(func(fd uintptr) { e = syscall.SetsockoptInt(int(fd), syscall.SOL_SOCKET, syscall.SO_REUSEADDR, 1) })
					return e
				}}
			c, err := d.Dial("tcp", net.JoinHostPort(pc.listens[li].addr, strconv.Itoa(pc.listens[li].tcp)))
			if err != nil {
				pc.notes = append(pc.notes, "connect-fail:"+err.Error())
				pc.nextConn++
				break
			}
			cn := &pxConn{id: pc.nextConn, c: c, li: li}
			pc.nextConn++
			pc.conns = append(pc.conns, cn)
			c.Write(pc.barrierMsg("TCP"))
			pc.waitBarrier(cn)
		case "data":
			cid := named
			if cid == -2 {
				cid = k.int()
			}
			data := pc.subst(k.bytes())
			var cn *pxConn
			for _, c := range pc.conns {
				if c.id == cid {
					cn = c
				}
			}
			if cn == nil {
				break // the model ignores data on a connection that does not exist
			}
			li := cn.li
			if li < 0 {
				li = 0
			}
			if !cn.eof {
				cn.c.Write(data)
				if pxTB && cn.li == -1 {
					cn.c.Write(pc.barrierResp())
				} else {
					cn.c.Write(pc.barrierMsg("TCP"))
				}
				if !pc.waitBarrier(cn) {
					pc.udpBarrier(li)
				}
			}
		case "close":
			cid := named
			if cid == -2 {
				cid = k.int()
			}
			for _, c := range pc.conns {
				if c.id == cid && !c.eof {
					c.selfClose = true
					// the client says it is done (FIN); the proxy's receive loop sees the end of input and must close its
					// side: wait for its FIN (what still arrives is kept), give up after 2 s
					if tc, ok := c.c.(*net.TCPConn); ok {
						tc.CloseWrite()
						deadline := time.Now().Add(2 * time.Second)
						for !c.eof && time.Now().Before(deadline) {
							pc.pollConn(c, nil)
							if !c.eof {
								time.Sleep(200 * time.Microsecond)
							}
						}
						if !c.eof {
							pc.notes = append(pc.notes, "connection-left-open-after-client-fin")
						}
					}
					c.c.Close()
					c.eof = true
					time.Sleep(3 * time.Millisecond)
					li := c.li
					if li < 0 {
						li = 0
					}
					pc.udpBarrier(li)
				}
			}
		case "badd", "brem":
			li, addr := k.int(), k.str()
			if li < 0 || li >= len(pc.listens) || pc.listens[li].dynHost == "" {
				k.bad = true
				break
			}
			l := pc.listens[li]
			ip := addr[:strings.LastIndex(addr, ":")]
			if kind == "badd" {
				l.dynIPs = append(l.dynIPs, ip)
			} else {
				var r []string
				for _, x := range l.dynIPs {
					if x != ip {
						r = append(r, x)
					}
				}
				l.dynIPs = r
			}
			dynamicHostResolver.addressResolved(l.dynHost, append([]string(nil), l.dynIPs...), nil)
			settleGoroutines(base)
			pc.udpBarrier(li)
			time.Sleep(time.Millisecond)
			pc.udpBarrier(li)
		default:
			k.bad = true
		}
		if k.bad {
			break
		}
		outs, closed := pc.drain(e)
		sort.SliceStable(outs, func(i, j int) bool { return outs[i].label < outs[j].label })
		o.i(len(outs))
		for _, x := range outs {
			o.s(x.label)
			o.b(x.data)
		}
		sort.Ints(closed)
		o.i(len(closed))
		for _, c := range closed {
			o.i(c)
		}
	}
	if len(pc.notes) > 0 {
		o.s("notes")
		for _, n := range pc.notes {
			o.s(n)
		}
	}
}
