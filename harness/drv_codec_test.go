//go:build verif

package main

import "strconv"

func oKvs(o *out, l []KeyValue) {
	o.i(len(l))
	for _, p := range l {
		o.s(p.Key)
		o.s(p.Value)
	}
}

func oSipURI(o *out, u *SIPURI) {
	o.s(u.Scheme)
	o.s(u.User)
	o.s(u.Password)
	o.s(u.Host)
	o.i(u.port)
	o.i(u.GetPort())
	o.s(u.GetTransport())
	oKvs(o, u.Parameters)
	oKvs(o, u.Headers)
}

func dialogAddr(a *AddrSpec) string {
	m := NewMessage()
	s, err := m.getDialogAddr(a)
	if err != nil {
		return "<err>"
	}
	return s
}

func oAddrSpec(o *out, a *AddrSpec) {
	if a.IsSIPURI() {
		u, _ := a.GetSIPURI()
		o.s("sip")
		oSipURI(o, u)
	} else {
		o.s("abs")
		o.s(a.String())
	}
	o.s(dialogAddr(a))
}

func oNameAddr(o *out, n *NameAddr) {
	o.s(n.DisplayName)
	oAddrSpec(o, n.Addr)
}

func oOptS(o *out, s string, err error) {
	if err != nil {
		o.s("none")
	} else {
		o.s("some")
		o.s(s)
	}
}

func oViaParam(o *out, v *ViaParam) {
	o.s(v.ProtocolName)
	o.s(v.ProtocolVersion)
	o.s(v.Transport)
	o.s(v.Host)
	o.i(v.port)
	o.i(v.GetPort())
	oKvs(o, v.Params)
	b, err := v.GetBranch()
	oOptS(o, b, err)
	r, err := v.GetReceived()
	oOptS(o, r, err)
	rp, err := v.GetRPort()
	oOptS(o, strconv.Itoa(rp), err)
}

func codecTail(o *out, s string, reparse func(string) (string, error)) {
	s2, err := reparse(s)
	if err != nil {
		o.s("err")
	} else {
		o.s("ok")
		o.s(s2)
	}
}

func init() {
	components["codec"] = func(k *toks, o *out) {
		kind, s := k.str(), k.str()
		if k.bad {
			return
		}
		switch kind {
		case "sipuri":
			u, err := ParseSipURI(s)
			if err != nil {
				o.s("err")
				return
			}
			o.s("ok")
			o.s(u.String())
			oSipURI(o, u)
			codecTail(o, u.String(), func(t string) (string, error) {
				v, e := ParseSipURI(t)
				if e != nil {
					return "", e
				}
				return v.String(), nil
			})
		case "addrspec":
			a, err := ParseAddrSpec(s)
			if err != nil {
				o.s("err")
				return
			}
			o.s("ok")
			o.s(a.String())
			oAddrSpec(o, a)
			codecTail(o, a.String(), func(t string) (string, error) {
				v, e := ParseAddrSpec(t)
				if e != nil {
					return "", e
				}
				return v.String(), nil
			})
		case "nameaddr":
			a, err := ParseNameAddr(s)
			if err != nil {
				o.s("err")
				return
			}
			o.s("ok")
			o.s(a.String())
			oNameAddr(o, a)
			codecTail(o, a.String(), func(t string) (string, error) {
				v, e := ParseNameAddr(t)
				if e != nil {
					return "", e
				}
				return v.String(), nil
			})
		case "via":
			v, err := ParseVia(s)
			if err != nil {
				o.s("err")
				return
			}
			o.s("ok")
			o.s(v.String())
			o.i(v.Size())
			for i := 0; i < v.Size(); i++ {
				p, _ := v.GetParam(i)
				oViaParam(o, p)
			}
			codecTail(o, v.String(), func(t string) (string, error) {
				w, e := ParseVia(t)
				if e != nil {
					return "", e
				}
				return w.String(), nil
			})
		case "route":
			r, err := ParseRoute(s)
			if err != nil {
				o.s("err")
				return
			}
			o.s("ok")
			o.s(r.String())
			o.i(r.GetRouteParamCount())
			for i := 0; i < r.GetRouteParamCount(); i++ {
				p, _ := r.GetRouteParam(i)
				oNameAddr(o, p.nameAddr)
				oKvs(o, p.rrParam)
			}
			codecTail(o, r.String(), func(t string) (string, error) {
				w, e := ParseRoute(t)
				if e != nil {
					return "", e
				}
				return w.String(), nil
			})
		case "recordroute":
			r, err := ParseRecordRoute(s)
			if err != nil {
				o.s("err")
				return
			}
			o.s("ok")
			o.s(r.String())
			o.i(r.GetRecRouteCount())
			for i := 0; i < r.GetRecRouteCount(); i++ {
				p, _ := r.GetRecRoute(i)
				oNameAddr(o, p.nameAddr)
				oKvs(o, p.rrParam)
			}
			codecTail(o, r.String(), func(t string) (string, error) {
				w, e := ParseRecordRoute(t)
				if e != nil {
					return "", e
				}
				return w.String(), nil
			})
		case "from":
			f, err := ParseFromSpec(s)
			if err != nil {
				o.s("err")
				return
			}
			o.s("ok")
			o.s(f.String())
			if f.nameAddr != nil {
				o.s("name")
				oNameAddr(o, f.nameAddr)
			} else {
				o.s("spec")
				oAddrSpec(o, f.addrSpec)
			}
			oKvs(o, f.params)
			tag, err := f.GetTag()
			oOptS(o, tag, err)
			// FromSpec has no GetHost; report the host as To.GetHost would
			a, _ := f.GetAddrSpec()
			if u, e := a.GetSIPURI(); e == nil {
				oOptS(o, u.Host, nil)
			} else {
				oOptS(o, "", e)
			}
			codecTail(o, f.String(), func(t string) (string, error) {
				w, e := ParseFromSpec(t)
				if e != nil {
					return "", e
				}
				return w.String(), nil
			})
		case "to":
			f, err := ParseTo(s)
			if err != nil {
				o.s("err")
				return
			}
			o.s("ok")
			o.s(f.String())
			if f.nameAddr != nil {
				o.s("name")
				oNameAddr(o, f.nameAddr)
			} else {
				o.s("spec")
				oAddrSpec(o, f.addrSpec)
			}
			oKvs(o, f.params)
			tag, err := f.GetTag()
			oOptS(o, tag, err)
			h, err := f.GetHost()
			oOptS(o, h, err)
			codecTail(o, f.String(), func(t string) (string, error) {
				w, e := ParseTo(t)
				if e != nil {
					return "", e
				}
				return w.String(), nil
			})
		case "cseq":
			c, err := ParseCSeq(s)
			if err != nil {
				o.s("err")
				return
			}
			o.s("ok")
			o.s(c.String())
			o.i(c.Seq)
			o.s(c.Method)
			codecTail(o, c.String(), func(t string) (string, error) {
				w, e := ParseCSeq(t)
				if e != nil {
					return "", e
				}
				return w.String(), nil
			})
		default:
			o.s("unknown-kind")
		}
	}
}
