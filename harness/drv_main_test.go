//go:build verif

// Correspondence driver for /verif.  This file is NOT part of the repository: it is compiled
// into /repo's package main with `go test -c -overlay` so that it can call unexported code
// of the tree as it is now.  It reads a case file (one case per line, tokens hex-encoded)
// and writes one observation record per case.
package main

import (
	"bufio"
	"encoding/hex"
	"fmt"
	"os"
	"strconv"
	"strings"
	"testing"
)

type toks struct {
	t   [][]byte
	pos int
	bad bool
}

func (k *toks) bytes() []byte {
	if k.pos >= len(k.t) {
		k.bad = true
		return nil
	}
	r := k.t[k.pos]
	k.pos++
	return r
}
func (k *toks) str() string { return string(k.bytes()) }
func (k *toks) int() int {
	v, err := strconv.Atoi(k.str())
	if err != nil {
		k.bad = true
	}
	return v
}
func (k *toks) bool() bool { return k.int() != 0 }
func (k *toks) rest() int  { return len(k.t) - k.pos }

type out struct{ t []string }

func (o *out) b(b []byte)   { o.t = append(o.t, "x"+hex.EncodeToString(b)) }
func (o *out) s(s string)   { o.b([]byte(s)) }
func (o *out) i(i int)      { o.s(strconv.Itoa(i)) }
func (o *out) i64(i int64)  { o.s(strconv.FormatInt(i, 10)) }
func (o *out) bool(v bool) {
	if v {
		o.s("1")
	} else {
		o.s("0")
	}
}

var components = map[string]func(k *toks, o *out){}

func runCase(comp string, k *toks, o *out) {
	defer func() {
		if r := recover(); r != nil {
			o.t = nil
			o.s("panic")
			o.s(fmt.Sprint(r))
		}
	}()
	f, ok := components[comp]
	if !ok {
		o.s("unknown-component")
		return
	}
	f(k, o)
	if k.bad {
		o.t = nil
		o.s("decode-error")
	}
}

func TestVerifDriver(t *testing.T) {
	if os.Getenv("VERIF_LOG") != "" {
		initLog("", "debug", "text", 50, 1)
	}
	in := os.Getenv("VERIF_CASES")
	outp := os.Getenv("VERIF_OUT")
	if in == "" || outp == "" {
		t.Skip("VERIF_CASES / VERIF_OUT not set")
	}
	fi, err := os.Open(in)
	if err != nil {
		t.Fatal(err)
	}
	defer fi.Close()
	fo, err := os.Create(outp)
	if err != nil {
		t.Fatal(err)
	}
	w := bufio.NewWriterSize(fo, 1<<20)
	defer func() { w.Flush(); fo.Close() }()
	sc := bufio.NewScanner(fi)
	sc.Buffer(make([]byte, 1<<20), 1<<28)
	for sc.Scan() {
		line := sc.Text()
		if line == "" {
			continue
		}
		f := strings.Fields(line)
		if len(f) < 2 {
			t.Fatalf("bad case line %q", line)
		}
		k := &toks{}
		for _, x := range f[2:] {
			b, err := hex.DecodeString(x[1:])
			if err != nil || x[0] != 'x' {
				t.Fatalf("bad token %q", x)
			}
			k.t = append(k.t, b)
		}
		o := &out{}
		runCase(f[0], k, o)
		w.WriteString(f[1])
		for _, x := range o.t {
			w.WriteByte(' ')
			w.WriteString(x)
		}
		w.WriteByte('\n')
		w.Flush()
	}
}
