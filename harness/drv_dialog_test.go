//go:build verif

package main

import (
	"bufio"
	"bytes"
)

func parseBytes(b []byte) (*Message, error) {
	return ParseMessage(bufio.NewReaderSize(bytes.NewReader(b), 65536))
}

func init() {
	// dialog: n { message-bytes has callid ta ua tb ub }..  -> per message: ok id | err | parse-err
	components["dialog"] = func(k *toks, o *out) {
		n := k.int()
		for i := 0; i < n; i++ {
			b := k.bytes()
			for j := 0; j < 6; j++ {
				k.bytes()
			}
			if k.bad {
				return
			}
			msg, err := parseBytes(b)
			if err != nil {
				o.s("parse-err")
				continue
			}
			d, err := msg.GetDialog()
			if err != nil {
				o.s("err")
			} else {
				o.s("ok")
				o.s(d)
			}
		}
	}
}
