//go:build verif

// "racestress" component (property C09, SUPPORTING evidence, not the proof): the real proxy is
// started in-process through startProxy with several listeners of ONE service (so that the
// SelfLearnRoute table, the resolver and the buffer pools are shared the way main.go shares
// them).  Sender goroutines push requests through all listeners in parallel over UDP (and
// TCP), backend sockets owned by the driver answer 200, and another goroutine changes the
// backend membership of every listener through the real
// dynamicHostResolver.addressResolved -> notifyAddressChanged -> hostIPChanged path.
// Deliveries are counted per request id: every request must reach exactly one backend
// socket and every response must come back to its sender.  Built with -race by
// tools/props/c09.py; a race report goes to stderr and makes the binary exit non-zero.
//
// tokens: block("127.X.Y") listeners senders-per-listener msgs-per-sender changes tcp(0/1) gomaxprocs(0=keep) burst(messages between 1 ms pauses)
// output: sent delivered dup lost responses resp_missing changes udp_errs_delta tcp_sent notes... (lost:<id> for every lost request, at most 200)
package main

import (
	"bufio"
	"fmt"
	"net"
	"os"
	"runtime"
	"strconv"
	"strings"
	"sync"
	"sync/atomic"
	"time"
)

func init() { components["racestress"] = runRaceStress }

type rsCounter struct {
	sync.Mutex
	m map[string]int
}

func (c *rsCounter) add(id string) {
	c.Lock()
	c.m[id]++
	c.Unlock()
}

func rsUDPErrors() int64 {
	f, err := os.Open("/proc/net/snmp")
	if err != nil {
		return -1
	}
	defer f.Close()
	sc := bufio.NewScanner(f)
	var hdr []string
	for sc.Scan() {
		fl := strings.Fields(sc.Text())
		if len(fl) == 0 || fl[0] != "Udp:" {
			continue
		}
		if hdr == nil {
			hdr = fl
			continue
		}
		var tot int64
		for i, h := range hdr {
			if (h == "InErrors" || h == "RcvbufErrors" || h == "SndbufErrors") && i < len(fl) {
				v, _ := strconv.ParseInt(fl[i], 10, 64)
				if h != "InErrors" {
					tot += v
				}
			}
		}
		return tot
	}
	return -1
}

func rsHeader(msg string, name string) string {
	for _, line := range strings.Split(msg, "\r\n") {
		if len(line) > len(name) && strings.EqualFold(line[:len(name)+1], name+":") {
			return strings.TrimSpace(line[len(name)+1:])
		}
	}
	return ""
}

// backend socket: count the request, answer 200 to the address of the top Via (the listener)
func rsBackend(c *net.UDPConn, delivered *rsCounter, wg *sync.WaitGroup) {
	defer wg.Done()
	buf := make([]byte, 65536)
	for {
		n, _, err := c.ReadFromUDP(buf)
		if err != nil {
			return
		}
		msg := string(buf[:n])
		id := rsHeader(msg, "Call-ID")
		delivered.add(id)
		via := rsHeader(msg, "Via")
		f := strings.Fields(via)
		if len(f) < 2 {
			continue
		}
		hp := strings.SplitN(f[1], ";", 2)[0]
		dst, err := net.ResolveUDPAddr("udp", hp)
		if err != nil {
			continue
		}
		eol := strings.Index(msg, "\r\n")
		if eol < 0 {
			continue
		}
		c.WriteToUDP([]byte("SIP/2.0 200 OK"+msg[eol:]), dst)
	}
}

func rsRequest(method, proto, ip string, port int, id string) []byte {
	return []byte(method + " sip:svc@race.test SIP/2.0\r\n" +
		"Via: SIP/2.0/" + proto + " " + ip + ":" + strconv.Itoa(port) + ";branch=z9hG4bK" + id + "\r\n" +
		"From: <sip:u" + id + "@" + ip + ">;tag=f" + id + "\r\n" +
		"To: <sip:svc@race.test>\r\n" +
		"Call-ID: " + id + "\r\n" +
		"CSeq: 1 " + method + "\r\n" +
		"Max-Forwards: 70\r\n" +
		"Content-Length: 0\r\n\r\n")
}

func runRaceStress(k *toks, o *out) {
	pxOnce.Do(func() { dynamicHostResolver.Stop() })
	if os.Getenv("VERIF_RS_ERRLOG") != "" {
		initLog("", "error", "text", 50, 1) // errors only: cheap enough not to disturb the run
	}
	block := k.str()
	nl, ns, nm, nch := k.int(), k.int(), k.int(), k.int()
	withTCP := k.bool()
	procs := k.int()
	burst := k.int()
	if burst < 1 {
		burst = 1
	}
	if k.bad || nl < 1 || nl > 4 || ns < 1 || ns > 4 || len(strings.Split(block, ".")) != 3 {
		k.bad = true
		return
	}
	if procs > 0 {
		defer runtime.GOMAXPROCS(runtime.GOMAXPROCS(procs))
	}
	var notes []string
	var notesMu sync.Mutex
	note := func(s string) {
		notesMu.Lock()
		notes = append(notes, s)
		notesMu.Unlock()
	}
	ip := func(last int) string { return block + "." + strconv.Itoa(last) }
	delivered := &rsCounter{m: map[string]int{}}
	responses := &rsCounter{m: map[string]int{}}
	var bwg, rwg sync.WaitGroup
	var closers []func()
	defer func() {
		for _, c := range closers {
			c()
		}
	}()
	// ---- backend sockets: one static and two dynamic addresses per listener
	yaml := "proxies:\n- name: \"race.test\"\n  dialogTimeout: 60\n  listens:\n"
	dynHost := make([]string, nl)
	for li := 0; li < nl; li++ {
		for _, last := range []int{100 + li, 110 + li, 120 + li} {
			c, err := net.ListenUDP("udp", &net.UDPAddr{IP: net.ParseIP(ip(last)), Port: 5070})
			if err != nil {
				o.s("setup-fail")
				o.s(err.Error())
				return
			}
			c.SetReadBuffer(4 << 20)
			closers = append(closers, func() { c.Close() })
			bwg.Add(1)
			go rsBackend(c, delivered, &bwg)
		}
		dynHost[li] = fmt.Sprintf("dyn%d.r%s.test", li, strings.ReplaceAll(block, ".", "-"))
		yaml += "  - address: " + ip(1+li) + "\n    udp-port: 5060\n"
		if withTCP {
			yaml += "    tcp-port: 5060\n"
		}
		yaml += "    backends:\n    - udp://" + ip(100+li) + ":5070\n    - udp://" + dynHost[li] + ":5070\n"
	}
	conf, err := loadConfigFromReader(strings.NewReader(yaml))
	if err != nil || len(conf.Proxies) != 1 {
		o.s("config-fail")
		return
	}
	pcfg := conf.Proxies[0]
	if err := startProxy(pcfg, createPreConfigRoute(pcfg), createPreConfigHostResolver(conf.Hosts, pcfg)); err != nil {
		o.s("start-fail")
		o.s(err.Error())
		return
	}
	time.Sleep(20 * time.Millisecond)
	errs0 := rsUDPErrors()
	// ---- membership changes, concurrently with the traffic
	var stop int32
	var changes int64
	var cwg sync.WaitGroup
	cwg.Add(1)
	go func() {
		defer cwg.Done()
		sets := [][]int{{110}, {110, 120}, {120}, {}}
		for c := 0; c < nch && atomic.LoadInt32(&stop) == 0; c++ {
			for li := 0; li < nl; li++ {
				var ips []string
				for _, b := range sets[(c+li)%len(sets)] {
					ips = append(ips, ip(b+li))
				}
				dynamicHostResolver.addressResolved(dynHost[li], ips, nil)
				atomic.AddInt64(&changes, 1)
			}
			time.Sleep(2 * time.Millisecond)
		}
	}()
	// ---- senders
	var sent, tcpSent int64
	var swg sync.WaitGroup
	for li := 0; li < nl; li++ {
		for s := 0; s < ns; s++ {
			li, s := li, s
			src := ip(150 + li*10 + s)
			c, err := net.ListenUDP("udp", &net.UDPAddr{IP: net.ParseIP(src), Port: 6000})
			if err != nil {
				o.s("setup-fail")
				o.s(err.Error())
				return
			}
			c.SetReadBuffer(4 << 20)
			closers = append(closers, func() { c.Close() })
			rwg.Add(1)
			go func() {
				defer rwg.Done()
				buf := make([]byte, 65536)
				for {
					n, _, err := c.ReadFromUDP(buf)
					if err != nil {
						return
					}
					responses.add(rsHeader(string(buf[:n]), "Call-ID"))
				}
			}()
			swg.Add(1)
			go func() {
				defer swg.Done()
				dst := &net.UDPAddr{IP: net.ParseIP(ip(1 + li)), Port: 5060}
				for m := 0; m < nm; m++ {
					method := "OPTIONS"
					if m%3 == 0 {
						method = "INVITE"
					}
					id := fmt.Sprintf("u-%d-%d-%d", li, s, m)
					// what real clients also send: NAT keep-alives and datagrams that do not decode; they are not
					// requests (nothing is counted), the traffic around them must be unaffected
					if m%7 == 3 {
						c.WriteToUDP([][]byte{[]byte("\r\n\r\n"), {}, []byte("OPTIONS sip:x SIP/2.0\r\nVia: SIP/2.0/UDP h\r\n\r\n"), []byte("\r\n")}[(m/7)%4], dst)
					}
					if _, err := c.WriteToUDP(rsRequest(method, "UDP", src, 6000, id), dst); err != nil {
						note("udp-write-fail")
						continue
					}
					atomic.AddInt64(&sent, 1)
					if m%burst == burst-1 {
						time.Sleep(time.Millisecond)
					}
				}
			}()
		}
		if withTCP {
			li := li
			src := ip(190 + li)
			d := net.Dialer{LocalAddr: &net.TCPAddr{IP: net.ParseIP(src)}, Timeout: 2 * time.Second}
			c, err := d.Dial("tcp", net.JoinHostPort(ip(1+li), "5060"))
			if err != nil {
				note("tcp-connect-fail")
				continue
			}
			closers = append(closers, func() { c.Close() })
			port := c.LocalAddr().(*net.TCPAddr).Port
			rwg.Add(1)
			go func() {
				defer rwg.Done()
				r := bufio.NewReader(c)
				for {
					line, err := r.ReadString('\n')
					if err != nil {
						return
					}
					if len(line) > 8 && strings.EqualFold(line[:8], "Call-ID:") {
						responses.add(strings.TrimSpace(line[8:]))
					}
				}
			}()
			swg.Add(1)
			go func() {
				defer swg.Done()
				for m := 0; m < nm; m++ {
					id := fmt.Sprintf("t-%d-%d", li, m)
					if _, err := c.Write(rsRequest("OPTIONS", "TCP", src, port, id)); err != nil {
						note("tcp-write-fail")
						return
					}
					atomic.AddInt64(&sent, 1)
					atomic.AddInt64(&tcpSent, 1)
					if m%burst == burst-1 {
						time.Sleep(time.Millisecond)
					}
				}
			}()
		}
	}
	swg.Wait()
	// ---- let everything drain: stop when the counts are complete or nothing moves for 1.5 s
	total := int(atomic.LoadInt64(&sent))
	count := func(c *rsCounter) (n int) {
		c.Lock()
		n = len(c.m)
		c.Unlock()
		return
	}
	last, lastChange := -1, time.Now()
	for time.Since(lastChange) < 1500*time.Millisecond {
		cur := count(delivered) + count(responses)
		if cur != last {
			last, lastChange = cur, time.Now()
		}
		if count(delivered) >= total && count(responses) >= total {
			break
		}
		time.Sleep(5 * time.Millisecond)
	}
	atomic.StoreInt32(&stop, 1)
	cwg.Wait()
	errs1 := rsUDPErrors()
	// liveness after load: one more request per listener must still go through
	for li := 0; li < nl; li++ {
		id := fmt.Sprintf("alive-%d", li)
		src := ip(199)
		c, err := net.ListenUDP("udp", &net.UDPAddr{IP: net.ParseIP(src), Port: 6001 + li})
		if err != nil {
			note("alive-setup-fail")
			continue
		}
		c.WriteToUDP(rsRequest("OPTIONS", "UDP", src, 6001+li, id), &net.UDPAddr{IP: net.ParseIP(ip(1 + li)), Port: 5060})
		c.SetReadDeadline(time.Now().Add(2 * time.Second))
		buf := make([]byte, 65536)
		if n, _, err := c.ReadFromUDP(buf); err != nil || rsHeader(string(buf[:n]), "Call-ID") != id {
			note(fmt.Sprintf("listener-%d-dead-after-load", li))
		}
		c.Close()
		delivered.Lock()
		delete(delivered.m, id)
		delivered.Unlock()
	}
	dup, once := 0, 0
	delivered.Lock()
	nlost := 0
	for li := 0; li < nl; li++ {
		for m := 0; m < nm; m++ {
			ids := []string{}
			for s := 0; s < ns; s++ {
				ids = append(ids, fmt.Sprintf("u-%d-%d-%d", li, s, m))
			}
			if withTCP {
				ids = append(ids, fmt.Sprintf("t-%d-%d", li, m))
			}
			for _, id := range ids {
				if delivered.m[id] == 0 && nlost < 200 {
					note("lost:" + id)
					nlost++
				}
			}
		}
	}
	for _, n := range delivered.m {
		if n == 1 {
			once++
		} else {
			dup++
		}
	}
	delivered.Unlock()
	o.i(total)
	o.i(once)
	o.i(dup)
	o.i(total - once - dup)
	o.i(count(responses))
	o.i(total - count(responses))
	o.i64(atomic.LoadInt64(&changes))
	o.i64(errs1 - errs0)
	o.i64(atomic.LoadInt64(&tcpSent))
	notesMu.Lock()
	for _, n := range notes {
		o.s(n)
	}
	notesMu.Unlock()
}
