//go:build verif

package main

import (
	"errors"
	"fmt"
	"io"
	"net"
	"runtime"
	"strings"
	"sync"
	"sync/atomic"
	"time"
)

var rrHung int32

// fakeBackend implements Backend and records what it receives.
type fakeBackend struct {
	addr   string
	sent   int
	closed int
}

func (f *fakeBackend) Send(msg *Message) error { f.sent++; return nil }
func (f *fakeBackend) GetAddress() string      { return f.addr }
func (f *fakeBackend) Close()                  { f.closed++ }

func init() {
	// rr: nops {op arg}..
	components["rr"] = func(k *toks, o *out) {
		n := k.int()
		rr := NewRoundRobinBackend()
		all := map[string][]*fakeBackend{}
		msg := NewMessage()
		// a pool operation that does not return (a lock left locked) must not wedge the run: 2 s watchdog per operation;
		// after the first hang of a process the remaining cases answer "hang" at once
		if atomic.LoadInt32(&rrHung) != 0 {
			o.s("hang")
			return
		}
		call := func(f func()) bool {
			done := make(chan struct{})
			go func() { f(); close(done) }()
			select {
			case <-done:
				return true
			case <-time.After(2 * time.Second):
				atomic.StoreInt32(&rrHung, 1)
				return false
			}
		}
		for i := 0; i < n; i++ {
			op, a := k.str(), k.str()
			if k.bad {
				return
			}
			switch op {
			case "add":
				b := &fakeBackend{addr: a}
				all[a] = append(all[a], b)
				if !call(func() { rr.AddBackend(b) }) {
					o.s("hang")
					return
				}
				o.s("added")
			case "remove":
				before := 0
				for _, b := range all[a] {
					before += b.closed
				}
				if !call(func() { rr.RemoveBackend(a) }) {
					o.s("hang")
					return
				}
				after := 0
				for _, b := range all[a] {
					after += b.closed
				}
				o.s("removed")
				o.bool(after > before)
			case "dispatch":
				before := map[*fakeBackend]int{}
				for _, l := range all {
					for _, b := range l {
						before[b] = b.sent
					}
				}
				var err error
				if !call(func() { err = rr.Send(msg) }) {
					o.s("hang")
					return
				}
				got := "none"
				cnt := 0
				for _, l := range all {
					for _, b := range l {
						if b.sent != before[b] {
							got = b.addr
							cnt += b.sent - before[b]
						}
					}
				}
				if cnt > 1 {
					got = "MULTI"
				}
				if (err == nil) != (cnt == 1) {
					got = "ERRMISMATCH"
				}
				o.s("sent")
				o.s(got)
			default:
				k.bad = true
				return
			}
		}
		o.s("final")
		addrs := ""
		if !call(func() { addrs = rr.GetAddress() }) {
			o.s("hang")
			return
		}
		s := strings.TrimPrefix(addrs, "RoundRobin://")
		if s == "" {
			o.i(0)
		} else {
			parts := strings.Split(s, ",")
			o.i(len(parts))
			for _, p := range parts {
				o.s(p)
			}
		}
	}

	// pins: timeout_s nops {op k b n}..   time passes by shifting the stored instants back
	components["pins"] = func(k *toks, o *out) {
		timeout := k.int()
		n := k.int()
		if k.bad {
			return
		}
		dbb := NewDialogBasedBackend(int64(timeout))
		backs := map[string]*fakeBackend{}
		for i := 0; i < n; i++ {
			op, key, b, num := k.str(), k.str(), k.str(), k.int()
			if k.bad {
				return
			}
			switch op {
			case "add":
				fb, ok := backs[b]
				if !ok {
					fb = &fakeBackend{addr: b}
					backs[b] = fb
				}
				dbb.AddBackend(key, fb, num)
				o.s("-")
			case "get":
				be, err := dbb.GetBackend(key)
				if err != nil {
					o.s("none")
				} else {
					o.s(be.GetAddress())
				}
			case "remove":
				dbb.RemoveDialog(key)
				o.s("-")
			case "adv":
				d := time.Duration(num)
				for _, v := range dbb.backends {
					v.expire = v.expire.Add(-d)
				}
				dbb.nextCleanTime = dbb.nextCleanTime.Add(-d)
				o.s("-")
			default:
				k.bad = true
				return
			}
			o.i(len(dbb.backends))
		}
	}

	// resolver: port nsteps { fail | ok n addr.. }..
	// A private DynamicHostResolver value (no periodic goroutine, no DNS) is fed through the real
	// addressResolved; its callback is the closure CreateRoundRobinBackend registers.
	components["resolver"] = func(k *toks, o *out) {
		port := k.str()
		n := k.int()
		if k.bad {
			return
		}
		r := &DynamicHostResolver{interval: time.Hour, hostIPs: make(map[string]*AddressWithCallback)}
		rr := NewRoundRobinBackend()
		lst := &recListener{}
		rr.AddBackendChangeListener(lst)
		const host = "backend.verif.test"
		scheme := "tcp" // tcp backends need no socket until the first send
		r.hostIPs[host] = NewAddressWithCallback()
		r.hostIPs[host].callbacks = append(r.hostIPs[host].callbacks, func(hostname string, newIPs []string, removedIPs []string) {
			rr.hostIPChanged(scheme, "127.0.0.1:0", hostname, newIPs, removedIPs, port, func(c net.Conn) {})
		})
		base := runtime.NumGoroutine()
		for i := 0; i < n; i++ {
			kind := k.str()
			var addrs []string
			var err error
			if kind == "fail" {
				err = errors.New("no such host")
			} else {
				m := k.int()
				addrs = make([]string, 0, m)
				for j := 0; j < m; j++ {
					addrs = append(addrs, k.str())
				}
			}
			if k.bad {
				return
			}
			removedBefore := lst.removed
			r.addressResolved(host, addrs, err)
			// quiescence: the notification goroutine (if any) has finished
			for w := 0; runtime.NumGoroutine() > base && w < 200000; w++ {
				runtime.Gosched()
				if w > 1000 {
					time.Sleep(50 * time.Microsecond)
				}
			}
			s := strings.TrimPrefix(rr.GetAddress(), "RoundRobin://")
			if s == "" {
				o.i(0)
			} else {
				parts := strings.Split(s, ",")
				o.i(len(parts))
				for _, p := range parts {
					o.s(p)
				}
			}
			lst.Lock()
			o.i(lst.removed - removedBefore)
			lst.Unlock()
			cur := r.GetAddrsOfHost(host)
			o.i(len(cur))
			for _, a := range cur {
				o.s(a)
			}
		}
	}
}

type recListener struct {
	sync.Mutex
	added, removed int
}

func (l *recListener) HandleBackendAdded(b Backend, p *RoundRobinBackend) {
	l.Lock()
	l.added++
	l.Unlock()
}
func (l *recListener) HandleBackendRemoved(b Backend, p *RoundRobinBackend) {
	l.Lock()
	l.removed++
	l.Unlock()
}

var _ = fmt.Sprint
var _ = io.EOF
