(* RunBufio.v — correspondence components for the byte-level receive path (bufio reader model,
   UDP receive buffer pool, ParseMessage over a segmented stream).  [run_bufio]/[judge_bufio]
   return None for a component name that is not theirs.

   rxstream / rxstream-c08 :  size nchunks chunk..
        -> nmsgs {msg}.. fin balloon          fin = err | panic | hang
   rxudp / rxudp-c08 :  asize nops {recv d | parse | dirty pat}..
        -> nresults {ok msg | err | panic}.. poolsize balloon
   rxpool :  maxcap asize nops {alloc | free k}..
        -> nallocs id.. poolsize
   msg = req method uri version | resp version code reason ; nheaders {name value}.. ; body *)
From Coq Require Import List Ascii String ZArith Bool.
From Model Require Import Bytes Wire Uri Message Bufio Pool SpecRx.
Import ListNotations.

Definition e_msg (m : message) : list bytes :=
  (match m_start m with
   | SReq me u v => [s2b "req"; me; addr_spec_print u; v]
   | SResp v c r => [s2b "resp"; v; itoa c; r]
   end) ++ e_list (fun h => [h_name h; hval_print (h_val h)]) (m_headers m) ++ [m_body m].

Definition e_end (e : conn_end) : bytes :=
  match e with EndErr => s2b "err" | EndPanic => s2b "panic" | EndFuel => s2b "fuel" end.

(* allocation out of proportion: more than the bound proved in C08_alloc_bounded *)
Definition balloon (alloc : Z) (received : nat) (parses : nat) : bool :=
  Z.ltb (4 * Z.of_nat received + 65536 * Z.of_nat parses) alloc.

Definition d_stream_case : dec (nat * list bytes) := d_pair d_nat (d_list d_bytes).
Definition run_rxstream (args : list bytes) : list bytes :=
  match run_dec d_stream_case args with
  | Some (size, cs) =>
      let '(ms, e, a) := parse_conn_full size cs in
      e_nat (List.length ms) :: flat_map e_msg ms ++
      [e_end e; e_bool (balloon a (List.length (List.concat cs)) 1)]
  | None => [s2b "decode-error"]
  end.

Definition d_uev : dec uev :=
  dlet o := d_bytes in
  if beq o (s2b "recv") then (dlet d := d_bytes in d_ret (URecv d))
  else if beq o (s2b "parse") then d_ret UParse
  else if beq o (s2b "dirty") then (dlet d := d_bytes in d_ret (UDirty d))
  else (fun _ => None).
Definition d_udp_case : dec (nat * list uev) := d_pair d_nat (d_list d_uev).
Definition e_udp_result (r : res message * Z) : list bytes :=
  match fst r with
  | Ok m => s2b "ok" :: e_msg m
  | Err => [s2b "err"]
  | Panic => [s2b "panic"]
  end.
Definition recv_bytes (evs : list uev) : nat :=
  fold_left (fun n e => match e with URecv d => (n + List.length d)%nat | _ => n end) evs 0%nat.
(* buffers that sit in the pool more than once (a buffer freed twice); 0 in every reachable state: C10_pool_exclusive_udp *)
Definition pool_dups (p : pool) : nat :=
  let ids := map fst (p_stack p) in (List.length ids - List.length (nodup Nat.eq_dec ids))%nat.
(* [wire]: the rxwire component reports the duplicates in the pool instead of its size (the harness' barrier
   buffers join the real pool there, so its size is not comparable) *)
Definition run_rxudp_gen (wire : bool) (args : list bytes) : list bytes :=
  match run_dec d_udp_case args with
  | Some (asize, evs) =>
      let '(u, outs) := udp_run udp_parse_a (new_udp (640 * 64) asize) evs in
      let a := fold_left (fun z r => (z + snd r)%Z) outs 0%Z in
      e_nat (List.length outs) :: flat_map e_udp_result outs ++
      [e_nat (if wire then pool_dups (u_pool u) else pool_size (u_pool u)); e_bool (balloon a (recv_bytes evs) (List.length outs))]
  | None => [s2b "decode-error"]
  end.
Definition run_rxudp := run_rxudp_gen false.

Definition d_pop : dec pop :=
  dlet o := d_bytes in
  if beq o (s2b "alloc") then d_ret QAlloc
  else if beq o (s2b "free") then (dlet k := d_nat in d_ret (QFree k))
  else (fun _ => None).
Definition d_pool_case : dec (nat * nat * list pop) := d_pair (d_pair d_nat d_nat) (d_list d_pop).
(* held: oldest first *)
Fixpoint pool_sim (p : pool) (held : list pbuf) (ops : list pop) : list nat * pool :=
  match ops with
  | [] => ([], p)
  | QAlloc :: r => let '(b, p') := pool_alloc p in
                   let '(ids, pf) := pool_sim p' (held ++ [b]) r in (fst b :: ids, pf)
  | QFree k :: r => match drop_nth k held with
                    | Some (b, held') => pool_sim (pool_free p b) held' r
                    | None => pool_sim p held r
                    end
  end.
Definition run_rxpool (args : list bytes) : list bytes :=
  match run_dec d_pool_case args with
  | Some (maxcap, asize, ops) =>
      let '(ids, p) := pool_sim (new_pool maxcap asize) [] ops in
      e_list (fun i => [e_nat i]) ids ++ [e_nat (pool_size p)]
  | None => [s2b "decode-error"]
  end.

Definition run_bufio (comp : bytes) (args : list bytes) : option (list bytes) :=
  if (beq comp (s2b "rxstream") || beq comp (s2b "rxstream-c08") || beq comp (s2b "rxtcpwire"))%bool then Some (run_rxstream args)
  else if (beq comp (s2b "rxudp") || beq comp (s2b "rxudp-c08"))%bool then Some (run_rxudp args)
  else if beq comp (s2b "rxwire") then Some (run_rxudp_gen true args)
  else if beq comp (s2b "rxpool") then Some (run_rxpool args)
  else None.

(* ---- judges: the case tokens, then the implementation's observation ---- *)
Definition d_omsg : dec omsg :=
  dlet k := d_bytes in dlet a := d_bytes in dlet b := d_bytes in dlet c := d_bytes in
  dlet hs := d_list (d_pair d_bytes d_bytes) in dlet body := d_bytes in
  d_ret {| o_kind := k; o_a := a; o_b := b; o_c := c; o_headers := hs; o_body := body |}.
Definition verdict (b : bool) : list bytes := [if b then s2b "ok" else s2b "bad"].

Definition d_stream_obs : dec (list omsg * bytes * bool) :=
  dlet ms := d_list d_omsg in dlet fin := d_bytes in dlet bl := d_bool in d_ret (ms, fin, bl).
Definition judge_rxstream (c08 : bool) (args : list bytes) : list bytes :=
  match d_stream_case args with
  | Some ((size, cs), obs) =>
      match run_dec d_stream_obs obs with
      | Some (ms, fin, bl) => verdict (if c08 then judge_C08_rx fin bl else judge_C11 cs ms fin)
      | None => [s2b "decode-error"]
      end
  | None => [s2b "decode-error"]
  end.

(* one result: ok msg | err | anything else (panic, hang) *)
Definition d_udp_result : dec (option (option omsg)) :=
  dlet t := d_bytes in
  if beq t (s2b "ok") then (dlet m := d_omsg in d_ret (Some (Some m)))
  else if beq t (s2b "err") then d_ret (Some None)
  else d_ret None.
Fixpoint all_some {A} (l : list (option A)) : option (list A) :=
  match l with
  | [] => Some []
  | Some a :: r => match all_some r with Some r' => Some (a :: r') | None => None end
  | None :: _ => None
  end.
Definition uop_of (e : uev) : uop :=
  match e with URecv d => ORecv d | UParse => OParse | UDirty p => ODirty p end.
Definition judge_rxudp_gen (c08 wire : bool) (args : list bytes) : list bytes :=
  match d_udp_case args with
  | Some ((asize, evs), obs) =>
      match run_dec (dlet rs := d_list d_udp_result in dlet sz := d_nat in dlet bl := d_bool in
                     d_ret (rs, sz, bl)) obs with
      | Some (rs, sz, bl) =>
          match all_some rs with
          | None => [s2b "bad"; s2b "panic-or-hang"]
          | Some rs' =>
              if (wire && negb (Nat.eqb sz 0))%bool then [s2b "bad"; s2b "buffer-pooled-twice"]
              else verdict (if c08 then negb bl else judge_C10 asize (map uop_of evs) rs')
          end
      | None => [s2b "decode-error"]
      end
  | None => [s2b "decode-error"]
  end.
Definition judge_rxudp (c08 : bool) := judge_rxudp_gen c08 false.

Definition judge_rxpool (args : list bytes) : list bytes :=
  match d_pool_case args with
  | Some ((_, _, ops), obs) =>
      match run_dec (dlet ids := d_list d_nat in dlet sz := d_nat in d_ret (ids, sz)) obs with
      | Some (ids, _) => verdict (judge_C10_pool ops ids)
      | None => [s2b "decode-error"]
      end
  | None => [s2b "decode-error"]
  end.

Definition judge_bufio (comp : bytes) (args : list bytes) : option (list bytes) :=
  if (beq comp (s2b "rxstream") || beq comp (s2b "rxtcpwire"))%bool then Some (judge_rxstream false args)
  else if beq comp (s2b "rxstream-c08") then Some (judge_rxstream true args)
  else if beq comp (s2b "rxudp") then Some (judge_rxudp false args)
  else if beq comp (s2b "rxudp-c08") then Some (judge_rxudp true args)
  else if beq comp (s2b "rxwire") then Some (judge_rxudp_gen false true args)
  else if beq comp (s2b "rxpool") then Some (judge_rxpool args)
  else None.
