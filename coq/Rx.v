(* Rx.v — the subset of Go regexp syntax in which service names are written (DESIGN 2.1):
   literal characters, '.', postfix '*' '+' '?', a leading '^', a trailing '$'.
   [rx_compile] = None stands for "regexp.Compile fails" (a quantifier with nothing to
   repeat) — the name is then matched literally only.  Patterns using any other
   metacharacter are outside the stated domain ([rx_in_subset] = false). *)
From Coq Require Import List Ascii String Bool.
From Model Require Import Bytes.
Import ListNotations.

Inductive atom := ALit (c : ascii) | AAny.
Inductive quant := QOne | QStar | QPlus | QOpt.
Record rx := { rx_bol : bool; rx_items : list (atom * quant); rx_eol : bool }.

Definition is_quant (c : ascii) : bool :=
  (Ascii.eqb c "*" || Ascii.eqb c "+" || Ascii.eqb c "?")%bool.
Definition is_meta_unsupported (c : ascii) : bool :=
  existsb (Ascii.eqb c) (list_ascii_of_string "[](){}|\^$").

Definition rx_in_subset (p : bytes) : bool :=
  let body := match p with c :: r => if Ascii.eqb c "^" then r else p | [] => [] end in
  let body := match rev body with c :: r => if Ascii.eqb c "$" then rev r else body | [] => [] end in
  negb (existsb is_meta_unsupported body) &&
  (fix nodouble (l : bytes) : bool :=
     match l with
     | a :: ((b :: _) as r) => negb (is_quant a && is_quant b) && nodouble r
     | _ => true
     end) body.

Definition quant_of (c : ascii) : quant :=
  if Ascii.eqb c "*" then QStar else if Ascii.eqb c "+" then QPlus else QOpt.
Definition atom_of (c : ascii) : atom := if Ascii.eqb c "." then AAny else ALit c.

Fixpoint rx_items_of (l : bytes) : option (list (atom * quant)) :=
  match l with
  | [] => Some []
  | c :: r =>
      if is_quant c then None               (* nothing to repeat *)
      else match r with
           | q :: r' =>
               if is_quant q then
                 match rx_items_of r' with Some its => Some ((atom_of c, quant_of q) :: its) | None => None end
               else match rx_items_of r with Some its => Some ((atom_of c, QOne) :: its) | None => None end
           | [] => Some [(atom_of c, QOne)]
           end
  end.

Definition rx_compile (p : bytes) : option rx :=
  let '(bol, body) := match p with
                      | c :: r => if Ascii.eqb c "^" then (true, r) else (false, p)
                      | [] => (false, []) end in
  let '(eol, body) := match rev body with
                      | c :: r => if Ascii.eqb c "$" then (true, rev r) else (false, body)
                      | [] => (false, []) end in
  match rx_items_of body with
  | Some its => Some {| rx_bol := bol; rx_items := its; rx_eol := eol |}
  | None => None
  end.

Definition atom_ok (a : atom) (c : ascii) : bool :=
  match a with ALit x => Ascii.eqb x c | AAny => negb (Ascii.eqb c (ascii_of_nat 10)) end.

Fixpoint rx_here (eol : bool) (its : list (atom * quant)) (s : bytes) : bool :=
  match its with
  | [] => if eol then match s with [] => true | _ => false end else true
  | (a, q) :: r =>
      let star := (fix star (s : bytes) : bool :=
                     rx_here eol r s || match s with c :: s' => atom_ok a c && star s' | [] => false end) in
      match q with
      | QOne => match s with c :: s' => atom_ok a c && rx_here eol r s' | [] => false end
      | QOpt => rx_here eol r s || match s with c :: s' => atom_ok a c && rx_here eol r s' | [] => false end
      | QStar => star s
      | QPlus => match s with c :: s' => atom_ok a c && star s' | [] => false end
      end
  end.

(* MatchString: unanchored search *)
Fixpoint rx_search (eol : bool) (its : list (atom * quant)) (s : bytes) : bool :=
  rx_here eol its s || match s with _ :: s' => rx_search eol its s' | [] => false end.
Definition rx_match (r : rx) (s : bytes) : bool :=
  if rx_bol r then rx_here (rx_eol r) (rx_items r) s else rx_search (rx_eol r) (rx_items r) s.
