(* ProxyTB.v — backends reached over TCP (`tcp://ip:port` entries of a `backends:` list), as a CONSERVATIVE
   EXTENSION of Proxy.v: backend.go TCPBackend (Send / connect / Close), ProxyItem.connectionEstablished.
   A listen entry whose backends are TCP keeps, per backend object, the connection the object has cached
   ([bcache]); everything that does not touch a backend is Proxy.v's own function, called as it is.  For a
   listen entry whose backends are UDP the step IS Proxy.proxy_step (definitionally: [proxy_step_tb] calls it),
   so every theorem about proxy_step applies to those entries unchanged (proofs/TB.v: TB_conservative).

   What the Go code does for a TCP backend (backend.go):
     TCPBackend.Send: up to two rounds { no cached connection: dial (a failed dial skips the round);
                      write on the cached connection; a failed write closes and forgets it }.
     connect -> connectionEstablished -> ProxyItem.connectionEstablished: the new connection gets a
                      TCPServerTransport of its own (created with the ITEM's receivedSupport) that reads it;
                      what arrives on it is processed like any TCP input (peer = the backend's address).
     RemoveBackend -> TCPBackend.Close: the cached connection is closed (the object is gone with it). *)
From Coq Require Import List Ascii String ZArith Bool.
From Model Require Import Bytes Uri Hdr Message Msg Rx Glob StaticRoute RoundRobin Pins Proxy.
Import ListNotations.
Open Scope Z_scope.

(* backend object -> the connection it has cached.  The object is named by listen entry, address and generation
   (Proxy.pin_val_backend), as the pins name it. *)
Definition bcache := list (bytes * nat).
Definition tb_key (li : nat) (a : bytes) (g : nat) : bytes := itoa (Z.of_nat li) ++ "/"%char :: pin_val_backend a g.
Definition is_tb (tb : list bool) (li : nat) : bool := match nth_opt tb li with Some b => b | None => false end.

Definition with_p (x : ctx) (p : pstate) : ctx :=
  {| x_learned := x_learned x; x_p := p; x_conns := x_conns x; x_world := x_world x; x_outs := x_outs x |}.

(* the local end of a connection dialled without a local address (net.Dial("tcp", backendAddr)): the kernel's
   choice; on the loopback interface that is 127.0.0.1 with an OS-chosen port (written 0 like every dialled
   connection's).  Nothing the proxy sends names this transport: a backend's address is never learned. *)
Definition tb_local : stransport := {| t_kind := KTcpConn; t_addr := s2b "127.0.0.1"; t_port := 0 |}.

(* TCPBackend.Send of the object (a, g) of listen entry e_li *)
Definition tcp_backend_send (e : env) (a : bytes) (g : nat) (b : bytes) (x : ctx) (cache : bcache)
  : ctx * bcache * list output * bool :=
  match last_index_byte ":"%char a with
  | None => (x, cache, [], false)
  | Some pos =>
      let ip := firstn pos a in
      let port := atoi_val (skipn (S pos) a) in
      let key := tb_key (e_li e) a g in
      (* both rounds dial the same address: a refused dial fails the send *)
      let dial (cache0 : bcache) :=
        if existsb (fun '(h, pt) => beq h ip && Z.eqb pt port) (w_tcp_listeners (x_world x)) then
          let c := w_next_conn (x_world x) in
          let cn := {| cn_id := c; cn_li := e_li e; cn_open := true; cn_peer := ip; cn_peer_port := port;
                       cn_from := tb_local; cn_received_support := e_item_rs e |} in
          ({| x_learned := x_learned x; x_p := x_p x; x_conns := x_conns x ++ [cn];
              x_world := {| w_tcp_listeners := w_tcp_listeners (x_world x); w_next_conn := S c |};
              x_outs := x_outs x |},
           aset key c cache0, [(DDial ip port c, []); (DConn c, b)], true)
        else (x, cache0, [], false) in
      match alookup key cache with
      | Some c => if conn_open (x_conns x) c then (x, cache, [(DConn c, b)], true)
                  else dial (adel key cache)          (* the write fails: closed, forgotten, second round *)
      | None => dial cache
      end
  end.

(* Backend.Send: the pinned object, or the rotation's next member (its current object) *)
Definition backend_send_tb (e : env) (b : bref) (bytes_ : bytes) (x : ctx) (cache : bcache)
  : ctx * bcache * list output * bool :=
  match b with
  | BObj a g => tcp_backend_send e a g bytes_ x cache
  | BRR =>
      let '(r', o) := rr_dispatch (ps_rr (x_p x)) in
      let x1 := with_p x (with_rr (x_p x) r') in
      match o with
      | Some a => match alookup a (ps_backends (x_p x)) with
                  | Some g => tcp_backend_send e a g bytes_ x1 cache
                  | None => (x1, cache, [], false)
                  end
      | None => (x1, cache, [], false)
      end
  end.

(* sendToBackend (Proxy.send_to_backend with the TCP send) *)
Definition send_to_backend_tb (e : env) (m : message) (x : ctx) (cache : bcache) : ctx * message * bcache :=
  let p := x_p x in
  if negb (ps_has_rr p) then (x, m, cache)
  else
    match first_transport (e_lc e) with
    | None => (x, m, cache)
    | Some t0 =>
        let '(m1, r) := find_backend_by_dialog e p m in
        let '(p1, ob) := match r with Ok v => v | _ => (p, None) end in
        let b := match ob with Some b => b | None => BRR end in
        let m2 := px_add_record_route (pa_must_rr (wire_proxy (e_lc e))) t0 (px_add_via e t0 m1) in
        let '(x2, cache2, outs, ok) := backend_send_tb e b (write_message m2) (with_p x p1) cache in
        if ok then
          let '(m3, tid) := mtry s_client_transaction m2 in
          let p3 := match tid with
                    | Ok (Some t) => with_pins (x_p x2) (pins_add (e_now e) t (bref_val b) (get_expires m3 0) (ps_pins (x_p x2)))
                    | _ => x_p x2 end in
          ({| x_learned := x_learned x2; x_p := p3; x_conns := x_conns x2; x_world := x_world x2; x_outs := x_outs x2 ++ outs |},
           m3, cache2)
        else (x2, m2, cache2)
    end.

(* HandleMessage: only the branch that ends at the backends differs *)
Definition handle_message_tb (e : env) (from : stransport) (m : message) (x : ctx) (cache : bcache) : ctx * message * bcache :=
  if is_request m then
    let '(m1, r) := next_request_hop (c_keep_next_hop (e_cfg e)) (route_table_of (e_cfg e)) m in
    match r with
    | Ok _ => let '(x', m') := handle_message e from m x in (x', m', cache)
    | _ =>
        if is_my_message (new_my_name (c_name (e_cfg e))) from m1 then send_to_backend_tb e m1 x cache
        else (x, m1, cache)
    end
  else let '(x', m') := handle_message e from m x in (x', m', cache).

(* handleRawMessage + handleDialog + HandleMessage (Proxy.process_message, ending in handle_message_tb) *)
Definition process_message_tb (e : env) (peer : bytes) (peer_port : Z) (from : stransport) (rs : bool)
           (tcp : option nat) (m0 : message) (x : ctx) (cache : bcache) : res (ctx * bcache) :=
  let '(m1, l1) :=
    if (is_request m0 && negb (amem peer (ps_backends (x_p x))))%bool then
      let '(m', vs) := s_all_via_params m0 in
      (m', fold_left (fun l v => learn (v_host v) from l)
                     (match vs with Ok l => l | _ => [] end) (learn peer from (x_learned x)))
    else (m0, x_learned x) in
  let m2 := if (is_request m1 && rs)%bool then fst (s_set_received peer peer_port m1) else m1 in
  let '(m3, rp) :=
    match tcp with
    | Some c =>
        if is_request m2 then
          let '(m', hop) := mtry next_response_hop m2 in
          match hop with
          | Ok oh =>
              let host0 := match oh with Some (h, _, _) => h | None => [] end in
              let port := match oh with Some (_, p, _) => p | None => 0 end in
              match (if has_prefix (s2b "[") host0
                     then (if (fx_bracket_host (e_fx e) && negb (has_suffix (s2b "]") host0 && Nat.leb 2 (List.length host0)))%bool
                           then Ok host0 else slice_chk host0 1 (List.length host0 - 1))
                     else Ok host0) with
              | Panic => (m', Panic)
              | Err => (m', Err)
              | Ok host =>
                  match oh with
                  | None => (m', Ok (x_p x))
                  | Some _ =>
                      let '(m'', tid) := mtry s_client_transaction m' in
                      match tid with
                      | Ok (Some t) =>
                          let host_r := if fx_resolved_key (e_fx e)
                                        then match get_ip (e_cfg e) host with Some i => i | None => host end else host in
                          let '(p1, rk) := get_transport (now_s e) (s2b "tcp") host_r port t (x_p x) in
                          match rk with
                          | Ok key => (m'', Ok (set_primary key (PConn c (now_s e + 3600)) p1))
                          | _ => (m'', Ok p1)
                          end
                      | _ => (m'', Ok (x_p x))
                      end
                  end
              end
          | _ => (m', Ok (x_p x))
          end
        else (m2, Ok (x_p x))
    | None => (m2, Ok (x_p x))
    end in
  match rp with
  | Panic => Panic
  | Err => Err
  | Ok p1 =>
      let m4 := fst (mtry (try_remove_top_route (e_cfg e) from) m3) in
      let '(m5, p2) :=
        if is_response m4 then
          let '(m', r) := handle_dialog e peer peer_port p1 m4 in
          (m', match r with Ok p' => p' | _ => p1 end)
        else (m4, p1) in
      let x1 := {| x_learned := l1; x_p := p2; x_conns := x_conns x; x_world := x_world x; x_outs := x_outs x |} in
      let '(x2, _, cache2) := handle_message_tb e from m5 x1 cache in
      Ok (x2, cache2)
  end.

Fixpoint tcp_messages_tb (fuel : nat) (e : env) (c : conn) (s : bytes) (x : ctx) (cache : bcache) : res (ctx * bcache) :=
  match fuel with
  | O => Ok (x, cache)
  | S f =>
      match trim_left s with
      | [] => Ok (x, cache)
      | _ =>
          match parse_message s with
          | Ok (m, rest) =>
              match process_message_tb e (cn_peer c) (cn_peer_port c) (cn_from c) (cn_received_support c)
                                       (Some (cn_id c)) m x cache with
              | Ok (x1, cache1) => tcp_messages_tb f e c rest x1 cache1
              | Err => Err
              | Panic => Panic
              end
          | _ => Ok ({| x_learned := x_learned x; x_p := x_p x; x_conns := close_conn (cn_id c) (x_conns x);
                        x_world := x_world x; x_outs := x_outs x |}, cache)
          end
      end
  end.

Definition run_ctx_tb (st : state) (cache : bcache) (li : nat) (f : ctx -> bcache -> res (ctx * bcache))
  : res (state * bcache * list output) :=
  match nth_p (st_proxies st) li with
  | None => Ok (st, cache, [])
  | Some p =>
      match f {| x_learned := st_learned st; x_p := p; x_conns := st_conns st; x_world := st_world st; x_outs := [] |} cache with
      | Ok (x, cache') => Ok ({| st_learned := x_learned x; st_proxies := set_nth_p (st_proxies st) li (x_p x);
                                 st_conns := x_conns x; st_world := x_world x |}, cache', x_outs x)
      | Err => Err
      | Panic => Panic
      end
  end.

(* the listen entry an event belongs to *)
Definition ev_li (st : state) (ev : event) : option nat :=
  match ev with
  | EvUdp li _ _ _ | EvTcpAccept li _ _ | EvBackendAdd li _ | EvBackendRemove li _ => Some li
  | EvTcpData c _ | EvTcpClose c =>
      match find (fun x => Nat.eqb (cn_id x) c) (st_conns st) with Some cn => Some (cn_li cn) | None => None end
  end.

Definition lift_step (r : res (state * list output)) (cache : bcache) : res (state * bcache * list output) :=
  match r with Ok (st', outs) => Ok (st', cache, outs) | Err => Err | Panic => Panic end.

(* one event.  [tb] = per listen entry: its backends are TCP *)
Definition proxy_step_tb (tb : list bool) (fx : fixes) (c : cfg) (now : Z) (branch : bytes)
           (st : state) (cache : bcache) (ev : event) : res (state * bcache * list output) :=
  if negb (match ev_li st ev with Some li => is_tb tb li | None => false end)
  then lift_step (proxy_step fx c now branch st ev) cache
  else
  match ev with
  | EvUdp li src sport data =>
      match nth_opt (c_listens c) li with
      | None => Ok (st, cache, [])
      | Some lc =>
          let e := mk_env fx c (item_rs_of (fx_wiring fx)) li lc now branch in
          match parse_message data with
          | Ok (m, _) =>
              run_ctx_tb st cache li (fun x ch =>
                process_message_tb e src sport {| t_kind := KUdp; t_addr := lc_addr lc; t_port := lc_udp lc |}
                                   (e_item_rs e) None m x ch)
          | _ => Ok (st, cache, [])
          end
      end
  | EvTcpData cid data =>
      match find (fun x => Nat.eqb (cn_id x) cid) (st_conns st) with
      | Some cn =>
          if cn_open cn then
            let li := cn_li cn in
            match nth_opt (c_listens c) li with
            | Some lc =>
                let e := mk_env fx c (item_rs_of (fx_wiring fx)) li lc now branch in
                run_ctx_tb st cache li (fun x ch => tcp_messages_tb (S (List.length data)) e cn data x ch)
            | None => Ok (st, cache, [])
            end
          else Ok (st, cache, [])
      | None => Ok (st, cache, [])
      end
  | EvBackendRemove li addr =>
      (* RemoveBackend: Close() of the object closes its cached connection *)
      match nth_p (st_proxies st) li with
      | Some p =>
          let victim := if mem_bytes addr (rr_map (ps_rr p))
                        then match alookup addr (ps_backends p) with
                             | Some g => alookup (tb_key li addr g) cache
                             | None => None end
                        else None in
          match proxy_step fx c now branch st ev with
          | Ok (st', outs) =>
              Ok (match victim with
                  | Some cid => {| st_learned := st_learned st'; st_proxies := st_proxies st';
                                   st_conns := close_conn cid (st_conns st'); st_world := st_world st' |}
                  | None => st' end, cache, outs)
          | Err => Err
          | Panic => Panic
          end
      | None => Ok (st, cache, [])
      end
  | _ => lift_step (proxy_step fx c now branch st ev) cache      (* accept, close, add: no backend is used *)
  end.
