(* Resolver.v — resolver.go: addressResolved ; util.go: strArraySub ; backend.go: hostIPChanged,
   createHostPort.  One host-name entry feeding one RoundRobin pool; notifications are
   applied in order (the property quantifies over outcome sequences "with quiescence
   between steps"). *)
From Coq Require Import List Ascii String ZArith Bool.
From Model Require Import Bytes RoundRobin.
Import ListNotations.

Definition str_array_sub (a1 a2 : list bytes) : list bytes :=
  filter (fun s => negb (mem_bytes s a2)) a1.

Record rentry := { re_addrs : list bytes; re_failed : nat }.
Definition rentry_init : rentry := {| re_addrs := []; re_failed := 0 |}.

(* outcome of one resolution attempt *)
Inductive outcome := RFail | ROk (addrs : list bytes).

(* addressResolved: returns the new entry and the notification (new, removed) if any *)
Definition address_resolved (e : rentry) (o : outcome) : rentry * option (list bytes * list bytes) :=
  match o with
  | RFail =>
      let f := S (re_failed e) in
      if (Nat.ltb 3 f && negb (Nat.eqb (List.length (re_addrs e)) 0))%bool
      then ({| re_addrs := []; re_failed := 0 |}, Some ([], re_addrs e))
      else ({| re_addrs := re_addrs e; re_failed := f |}, None)
  | ROk addrs =>
      let nw := str_array_sub addrs (re_addrs e) in
      let rm := str_array_sub (re_addrs e) addrs in
      ({| re_addrs := addrs; re_failed := 0 |},
       match nw, rm with [], [] => None | _, _ => Some (nw, rm) end)
  end.

Definition is_ipv6 (ip : bytes) : bool := contains_byte ":"%char ip.
Definition create_host_port (ip port : bytes) : bytes :=
  if is_ipv6 ip then s2b "[" ++ ip ++ s2b "]:" ++ port else ip ++ ":"%char :: port.

(* hostIPChanged: add every new address, then remove every vanished one *)
Definition host_ip_changed (port : bytes) (nw rm : list bytes) (s : rr) : rr * list rr_out :=
  let s1 := fold_left (fun s ip => rr_add (create_host_port ip port) s) nw s in
  fold_left (fun '(s, outs) ip => let '(s', c) := rr_remove (create_host_port ip port) s in
                                  (s', outs ++ [ORemoved c])) rm (s1, []).

(* one step of the composed system for host name number [i] (each name has its own entry
   and port, all feed the same pool) *)
Definition resolver_step (port : bytes) (st : rentry * rr) (o : outcome) : (rentry * rr) * list rr_out :=
  let '(e, s) := st in
  let '(e', n) := address_resolved e o in
  match n with
  | None => ((e', s), [])
  | Some (nw, rm) => let '(s', outs) := host_ip_changed port nw rm s in ((e', s'), outs)
  end.
