(* RoundRobin.v — backend.go: RoundRobinBackend (index, backends slice, backendMap).
   Atomic model (one Send = one step) and small-step model (Send takes the pool lock three
   separate times; membership changes and other dispatchers may run in between). *)
From Coq Require Import List Ascii String ZArith Bool Arith.
From Model Require Import Bytes.
Import ListNotations.

Record rr := { rr_index : nat; rr_backends : list bytes; rr_map : list bytes }.
Definition rr_init : rr := {| rr_index := 0; rr_backends := []; rr_map := [] |}.

Fixpoint remove_first (a : bytes) (l : list bytes) : list bytes :=
  match l with
  | [] => []
  | x :: r => if beq a x then r else x :: remove_first a r
  end.
Fixpoint remove_all (a : bytes) (l : list bytes) : list bytes :=
  match l with
  | [] => []
  | x :: r => if beq a x then remove_all a r else x :: remove_all a r
  end.

(* AddBackend: append to the slice, set the map entry *)
Definition rr_add (a : bytes) (s : rr) : rr :=
  {| rr_index := rr_index s; rr_backends := rr_backends s ++ [a];
     rr_map := if mem_bytes a (rr_map s) then rr_map s else rr_map s ++ [a] |}.

(* RemoveBackend: only if the map knows the address; removes (and closes) the first slice
   element with that address; deletes the map entry.  Returns whether a backend was closed. *)
Definition rr_remove (a : bytes) (s : rr) : rr * bool :=
  if mem_bytes a (rr_map s) then
    ({| rr_index := rr_index s; rr_backends := remove_first a (rr_backends s);
        rr_map := remove_all a (rr_map s) |}, mem_bytes a (rr_backends s))
  else (s, false).

(* Send without interference: getNextBackendIndex; getBackendCount; getBackend(index) *)
Definition rr_dispatch (s : rr) : rr * option bytes :=
  let n := List.length (rr_backends s) in
  match n with
  | O => (s, None)
  | S _ =>
      let i := (rr_index s + 1) mod n in
      ({| rr_index := i; rr_backends := rr_backends s; rr_map := rr_map s |},
       nth_opt (rr_backends s) (i mod n))
  end.

Inductive rr_op := RAdd (a : bytes) | RRemove (a : bytes) | RDispatch.
Inductive rr_out := OAdded | ORemoved (closed : bool) | OSent (to : option bytes).

Definition rr_step (s : rr) (o : rr_op) : rr * rr_out :=
  match o with
  | RAdd a => (rr_add a s, OAdded)
  | RRemove a => let '(s', c) := rr_remove a s in (s', ORemoved c)
  | RDispatch => let '(s', r) := rr_dispatch s in (s', OSent r)
  end.

Fixpoint rr_run (s : rr) (ops : list rr_op) : rr * list rr_out :=
  match ops with
  | [] => (s, [])
  | o :: r => let '(s1, x) := rr_step s o in
              let '(s2, xs) := rr_run s1 r in (s2, x :: xs)
  end.

(* ---------------- small-step: every lock region is one atomic step ---------------- *)
(* program counter of one in-flight Send *)
Inductive rr_pc :=
| PcStart                                (* before getNextBackendIndex *)
| PcCount (idx : nat)                    (* index obtained, before getBackendCount *)
| PcLoop (idx : nat) (lft : nat).       (* in the for loop, [lft] iterations remain *)

Inductive rr_sop :=
| SAdd (a : bytes) | SRemove (a : bytes)
| SSpawn                                 (* a new Send starts *)
| SStep (tid : nat).                     (* thread [tid] performs its next lock region *)

(* what a Send finally did *)
Inductive rr_sout := SNone | SDelivered (tid : nat) (to : bytes) | SFailed (tid : nat).

Record rr_ss := { ss_rr : rr; ss_threads : list (option rr_pc) }.  (* None = finished *)

Fixpoint set_nth {A} (l : list A) (n : nat) (x : A) : list A :=
  match l, n with
  | [], _ => []
  | _ :: r, O => x :: r
  | y :: r, S m => y :: set_nth r m x
  end.

(* [Panic] would be a division by zero or an index out of range in the Go code *)
Definition rr_sstep (st : rr_ss) (o : rr_sop) : res (rr_ss * rr_sout) :=
  let s := ss_rr st in
  match o with
  | SAdd a => Ok ({| ss_rr := rr_add a s; ss_threads := ss_threads st |}, SNone)
  | SRemove a => Ok ({| ss_rr := fst (rr_remove a s); ss_threads := ss_threads st |}, SNone)
  | SSpawn => Ok ({| ss_rr := s; ss_threads := ss_threads st ++ [Some PcStart] |}, SNone)
  | SStep tid =>
      match nth_opt (ss_threads st) tid with
      | None | Some None => Ok (st, SNone)
      | Some (Some pc) =>
          let n := List.length (rr_backends s) in
          let fin out := Ok ({| ss_rr := s; ss_threads := set_nth (ss_threads st) tid None |}, out) in
          match pc with
          | PcStart =>
              if Nat.eqb n 0 then fin (SFailed tid)
              else let i := (rr_index s + 1) mod n in
                   Ok ({| ss_rr := {| rr_index := i; rr_backends := rr_backends s; rr_map := rr_map s |};
                          ss_threads := set_nth (ss_threads st) tid (Some (PcCount i)) |}, SNone)
          | PcCount i =>
              if Nat.eqb n 0 then fin (SFailed tid)
              else Ok ({| ss_rr := s; ss_threads := set_nth (ss_threads st) tid (Some (PcLoop i n)) |}, SNone)
          | PcLoop i lft =>
              if Nat.eqb n 0 then
                (* getBackend returns an error; index++; next iteration or give up *)
                match lft with
                | S (S l') => Ok ({| ss_rr := s; ss_threads := set_nth (ss_threads st) tid (Some (PcLoop (S i) (S l'))) |}, SNone)
                | _ => fin (SFailed tid)
                end
              else match nth_opt (rr_backends s) (i mod n) with
                   | Some b => fin (SDelivered tid b)
                   | None => Panic            (* index out of range *)
                   end
          end
      end
  end.

Fixpoint rr_srun (st : rr_ss) (ops : list rr_sop) : res (rr_ss * list rr_sout) :=
  match ops with
  | [] => Ok (st, [])
  | o :: r =>
      let! (st1, x) := rr_sstep st o in
      let! (st2, xs) := rr_srun st1 r in
      Ok (st2, x :: xs)
  end.
