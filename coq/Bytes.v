(* Bytes.v — byte strings as the Go code sees them (Go [string]/[[]byte] = list of bytes),
   and the handful of [strings]/[strconv] functions the proxy calls, modelled at byte level.
   Definitions only (executable, total); facts about them live in BytesLemmas.v. *)
From Coq Require Import List Ascii String ZArith NArith Bool Lia.
Import ListNotations.
Open Scope list_scope.

Definition byte := ascii.
Definition bytes := list ascii.
Definition s2b (s : string) : bytes := list_ascii_of_string s.

(* Result of a Go function that may return an error or panic.  Error texts are never
   compared with the implementation, so [Err] carries none. *)
Inductive res (A : Type) : Type :=
| Ok (a : A)
| Err
| Panic.
Arguments Ok {A} a.
Arguments Err {A}.
Arguments Panic {A}.

Definition rbind {A B} (r : res A) (f : A -> res B) : res B :=
  match r with Ok a => f a | Err => Err | Panic => Panic end.
Notation "'let!' x ':=' r 'in' k" := (rbind r (fun x => k))
  (at level 200, x pattern, r at level 100, k at level 200, right associativity).
Definition rmap {A B} (f : A -> B) (r : res A) : res B :=
  match r with Ok a => Ok (f a) | Err => Err | Panic => Panic end.
Definition of_opt {A} (o : option A) : res A :=
  match o with Some a => Ok a | None => Err end.
Definition is_ok {A} (r : res A) : bool := match r with Ok _ => true | _ => false end.
Definition is_panic {A} (r : res A) : bool := match r with Panic => true | _ => false end.

(* ---- equality and order ---- *)
Fixpoint beq (a b : bytes) : bool :=
  match a, b with
  | [], [] => true
  | x :: a', y :: b' => Ascii.eqb x y && beq a' b'
  | _, _ => false
  end.

Definition byte_ltb (x y : ascii) : bool := N.ltb (N_of_ascii x) (N_of_ascii y).

(* Go's [<] on strings: lexicographic on bytes *)
Fixpoint blt (a b : bytes) : bool :=
  match a, b with
  | _, [] => false
  | [], _ :: _ => true
  | x :: a', y :: b' => if Ascii.eqb x y then blt a' b' else byte_ltb x y
  end.

(* ---- searching ---- *)
Fixpoint index_byte (c : ascii) (s : bytes) : option nat :=
  match s with
  | [] => None
  | x :: r => if Ascii.eqb x c then Some O
              else match index_byte c r with Some n => Some (S n) | None => None end
  end.

Fixpoint last_index_byte (c : ascii) (s : bytes) : option nat :=
  match s with
  | [] => None
  | x :: r => match last_index_byte c r with
              | Some n => Some (S n)
              | None => if Ascii.eqb x c then Some O else None
              end
  end.

Definition contains_byte (c : ascii) (s : bytes) : bool :=
  match index_byte c s with Some _ => true | None => false end.

Fixpoint has_prefix (p s : bytes) : bool :=
  match p, s with
  | [], _ => true
  | x :: p', y :: s' => Ascii.eqb x y && has_prefix p' s'
  | _ :: _, [] => false
  end.

Definition has_suffix (p s : bytes) : bool := has_prefix (rev p) (rev s).

(* strings.Split(s, sep) for a one-byte separator: always at least one piece *)
Fixpoint split_byte (c : ascii) (s : bytes) : list bytes :=
  match s with
  | [] => [[]]
  | x :: r =>
      if Ascii.eqb x c then [] :: split_byte c r
      else match split_byte c r with
           | [] => [[x]]
           | h :: t => (x :: h) :: t
           end
  end.

Fixpoint join_byte (c : ascii) (l : list bytes) : bytes :=
  match l with
  | [] => []
  | [a] => a
  | a :: r => a ++ c :: join_byte c r
  end.

Fixpoint join_with (sep : bytes) (l : list bytes) : bytes :=
  match l with
  | [] => []
  | [a] => a
  | a :: r => a ++ sep ++ join_with sep r
  end.

(* ---- white space.  [is_space], [trim_left], [trim_space], [fields]: ASCII white space only
   (what skipWhiteSpace and the judges' own line reading use).  [trim_space_go] below is
   strings.TrimSpace proper, which also strips the UTF-8 encodings of the other Unicode
   White_Space runes. ---- *)
Definition is_space (c : ascii) : bool :=
  let n := N_of_ascii c in
  (N.eqb n 9 || N.eqb n 10 || N.eqb n 11 || N.eqb n 12 || N.eqb n 13 || N.eqb n 32)%bool.

Fixpoint trim_left (s : bytes) : bytes :=
  match s with
  | c :: r => if is_space c then trim_left r else s
  | [] => []
  end.
Definition trim_right (s : bytes) : bytes := rev (trim_left (rev s)).
Definition trim_space (s : bytes) : bytes := trim_right (trim_left s).

(* ---- strings.TrimSpace.  Go strips, from both ends, the runes r with unicode.IsSpace(r):
   the six ASCII ones and U+0085, U+00A0, U+1680, U+2000..U+200A, U+2028, U+2029, U+202F,
   U+205F, U+3000.  Runes are decoded with utf8.DecodeRuneInString / DecodeLastRuneInString;
   a byte that does not start (resp. end) a valid encoding decodes to RuneError (width 1),
   which is not a space, so invalid bytes are never stripped.  The encodings of the
   non-ASCII spaces are two or three bytes long and begin with a UTF-8 start byte followed by
   continuation bytes only, hence "the rune decoded at the left (right) end is one of these
   spaces" is exactly "the string begins (ends) with one of these byte sequences".
   TrimSpace = TrimRightFunc(TrimLeftFunc(s, IsSpace), IsSpace) (its ASCII fast path computes the
   same thing). ---- *)
Definition is_ascii (c : ascii) : bool := N.ltb (N_of_ascii c) 128.
(* U+0085 = C2 85, U+00A0 = C2 A0 *)
Definition usp2 (a b : ascii) : bool :=
  let x := N_of_ascii a in let y := N_of_ascii b in
  (N.eqb x 194 && (N.eqb y 133 || N.eqb y 160))%bool.
(* U+1680 = E1 9A 80; U+2000..U+200A = E2 80 80 .. E2 80 8A; U+2028 = E2 80 A8; U+2029 = E2 80 A9;
   U+202F = E2 80 AF; U+205F = E2 81 9F; U+3000 = E3 80 80 *)
Definition usp3 (a b c : ascii) : bool :=
  let x := N_of_ascii a in let y := N_of_ascii b in let z := N_of_ascii c in
  ((N.eqb x 225 && N.eqb y 154 && N.eqb z 128)
   || (N.eqb x 226 && N.eqb y 128 &&
       ((N.leb 128 z && N.leb z 138) || N.eqb z 168 || N.eqb z 169 || N.eqb z 175))
   || (N.eqb x 226 && N.eqb y 129 && N.eqb z 159)
   || (N.eqb x 227 && N.eqb y 128 && N.eqb z 128))%bool.
(* the same sequences read backwards (for the right end, on the reversed string) *)
Definition usp2r (a b : ascii) : bool := usp2 b a.
Definition usp3r (a b c : ascii) : bool := usp3 c b a.

(* [s] begins with a two-byte sequence [p2] or a three-byte sequence [p3] *)
Definition uprefix (p2 : ascii -> ascii -> bool) (p3 : ascii -> ascii -> ascii -> bool) (s : bytes) : bool :=
  match s with
  | c :: c2 :: r2 => (p2 c c2 || match r2 with c3 :: _ => p3 c c2 c3 | [] => false end)%bool
  | _ => false
  end.
Definition starts_with_uspace (s : bytes) : bool := uprefix usp2 usp3 s.
Definition ends_with_uspace (s : bytes) : bool := uprefix usp2r usp3r (rev s).

(* strip ASCII white space and [p2]/[p3] sequences from the left until neither applies
   (structurally recursive: [r2], [r3] are sub-terms of [s]) *)
Fixpoint trim_left_u (p2 : ascii -> ascii -> bool) (p3 : ascii -> ascii -> ascii -> bool) (s : bytes) : bytes :=
  match s with
  | [] => []
  | c :: r =>
      if is_space c then trim_left_u p2 p3 r
      else match r with
           | [] => s
           | c2 :: r2 =>
               if p2 c c2 then trim_left_u p2 p3 r2
               else match r2 with
                    | [] => s
                    | c3 :: r3 => if p3 c c2 c3 then trim_left_u p2 p3 r3 else s
                    end
           end
  end.
Definition trim_left_go (s : bytes) : bytes := trim_left_u usp2 usp3 s.       (* TrimLeftFunc(s, unicode.IsSpace) *)
Definition trim_left_go_r (s : bytes) : bytes := trim_left_u usp2r usp3r s.   (* the right end, on the reversed string *)
Definition trim_right_go (s : bytes) : bytes := rev (trim_left_go_r (rev s)). (* TrimRightFunc(s, unicode.IsSpace) *)
Definition trim_space_go (s : bytes) : bytes := trim_right_go (trim_left_go s).

(* the blank-separated words, ASCII white space only: what the judges' own line readers use
   (SpecProxy, SpecProxy2).  The MODEL of the Go code uses [fields_go] below. *)
Fixpoint fields_aux (s : bytes) (cur : bytes) : list bytes :=
  match s with
  | [] => match cur with [] => [] | _ => [rev cur] end
  | c :: r => if is_space c
              then match cur with [] => fields_aux r [] | _ => rev cur :: fields_aux r [] end
              else fields_aux r (c :: cur)
  end.
Definition fields (s : bytes) : list bytes := fields_aux s [].

(* strings.Fields.  Go splits around runs of runes r with unicode.IsSpace(r): the six ASCII blanks
   and the Unicode White_Space runes listed at [trim_space_go].  The string is decoded left to
   right (`range` / utf8.DecodeRuneInString); a byte that does not begin a valid encoding is a
   one-byte rune (RuneError) that is not a space.  A space rune begins at position i exactly when
   the bytes at i are one of the [usp2] / [usp3] sequences: their lead bytes (C2, E1, E2, E3) are
   never continuation bytes, so such a sequence cannot begin inside a valid multi-byte rune, and
   an invalid byte before it is consumed alone.  So: scan left to right; an ASCII blank, a [usp2]
   pair or a [usp3] triple is a separator (skip 1 / 2 / 3 bytes), any other byte joins the current
   field.  Structural recursion as in [trim_left_u]; [cur] is the current field, reversed; linear.
   Callers: Message.parse_request_line, Message.parse_status_line (message.go parseRequestLine /
   parseStatusLine), Hdr.parse_via_param (via.go, the text before the first ';'), Hdr.parse_cseq
   (cseq.go). *)
Definition flush_field (cur : bytes) (k : list bytes) : list bytes :=
  match cur with [] => k | _ => rev cur :: k end.
Fixpoint fields_go_aux (s : bytes) (cur : bytes) : list bytes :=
  match s with
  | [] => flush_field cur []
  | c :: r =>
      if is_space c then flush_field cur (fields_go_aux r [])
      else match r with
           | [] => fields_go_aux r (c :: cur)
           | c2 :: r2 =>
               if usp2 c c2 then flush_field cur (fields_go_aux r2 [])
               else match r2 with
                    | [] => fields_go_aux r (c :: cur)
                    | c3 :: r3 =>
                        if usp3 c c2 c3 then flush_field cur (fields_go_aux r3 [])
                        else fields_go_aux r (c :: cur)
                    end
           end
  end.
Definition fields_go (s : bytes) : list bytes := fields_go_aux s [].

(* no Unicode-space byte sequence begins anywhere in [s] (ASCII blanks are not looked at) *)
Fixpoint no_usp (s : bytes) : bool :=
  match s with
  | [] => true
  | _ :: r => negb (starts_with_uspace s) && no_usp r
  end.

(* ---- case ---- *)
Definition lower_byte (c : ascii) : ascii :=
  let n := N_of_ascii c in
  if (N.leb 65 n && N.leb n 90)%bool then ascii_of_N (n + 32) else c.
Definition to_lower (s : bytes) : bytes := map lower_byte s.
(* strings.EqualFold restricted to ASCII letters *)
Definition equal_fold (a b : bytes) : bool := beq (to_lower a) (to_lower b).

(* ---- numbers ---- *)
Definition is_digit (c : ascii) : bool :=
  let n := N_of_ascii c in (N.leb 48 n && N.leb n 57)%bool.
Definition digit_val (c : ascii) : Z := Z.of_N (N_of_ascii c) - 48.

Fixpoint digits_val (s : bytes) (acc : Z) : option Z :=
  match s with
  | [] => Some acc
  | c :: r => if is_digit c then digits_val r (acc * 10 + digit_val c) else None
  end.

Definition int_min : Z := - 9223372036854775808.
Definition int_max : Z := 9223372036854775807.

(* strconv.Atoi on a 64-bit platform: optional sign, at least one decimal digit,
   nothing else, value must fit int64 *)
Definition atoi (s : bytes) : option Z :=
  match s with
  | [] => None
  | c :: r =>
      let neg := Ascii.eqb c "-" in
      let ds := if (neg || Ascii.eqb c "+")%bool then r else s in
      match ds with
      | [] => None
      | _ => match digits_val ds 0 with
             | None => None
             | Some v => let z := if neg then (- v)%Z else v in
                         if (Z.leb int_min z && Z.leb z int_max)%bool then Some z else None
             end
      end
  end.

Fixpoint utoa_fuel (fuel : nat) (n : N) (acc : bytes) : bytes :=
  match fuel with
  | O => acc
  | S f =>
      let acc' := ascii_of_N (48 + N.modulo n 10) :: acc in
      let q := N.div n 10 in
      if N.eqb q 0 then acc' else utoa_fuel f q acc'
  end.
Definition utoa (n : N) : bytes := utoa_fuel (S (N.size_nat n)) n [].
(* fmt %d *)
Definition itoa (z : Z) : bytes :=
  if Z.ltb z 0 then "-"%char :: utoa (Z.to_N (- z)) else utoa (Z.to_N z).

(* ---- Go slice expressions.  s[a:b] panics unless a <= b <= len s ---- *)
Definition slice (s : bytes) (a b : nat) : bytes := firstn (b - a) (skipn a s).
Definition slice_chk (s : bytes) (a b : nat) : res bytes :=
  if (Nat.leb a b && Nat.leb b (List.length s))%bool then Ok (slice s a b) else Panic.
Definition from (s : bytes) (a : nat) : bytes := skipn a s.

(* ---- association lists standing for Go maps keyed by strings ---- *)
Section Assoc.
  Context {V : Type}.
  Fixpoint alookup (k : bytes) (m : list (bytes * V)) : option V :=
    match m with
    | [] => None
    | (k', v) :: r => if beq k k' then Some v else alookup k r
    end.
  (* m[k] = v : overwrite in place if present, else append (insertion order kept) *)
  Fixpoint aset (k : bytes) (v : V) (m : list (bytes * V)) : list (bytes * V) :=
    match m with
    | [] => [(k, v)]
    | (k', v') :: r => if beq k k' then (k', v) :: r else (k', v') :: aset k v r
    end.
  Fixpoint adel (k : bytes) (m : list (bytes * V)) : list (bytes * V) :=
    match m with
    | [] => []
    | (k', v') :: r => if beq k k' then adel k r else (k', v') :: adel k r
    end.
  Definition amem (k : bytes) (m : list (bytes * V)) : bool :=
    match alookup k m with Some _ => true | None => false end.
End Assoc.

Definition mem_bytes (s : bytes) (l : list bytes) : bool := existsb (beq s) l.

Fixpoint nth_opt {A} (l : list A) (n : nat) : option A :=
  match l, n with
  | [], _ => None
  | x :: _, O => Some x
  | _ :: r, S m => nth_opt r m
  end.

(* the VALUE strconv.Atoi returns when its error is ignored (`port, _ = strconv.Atoi(s)`):
   0 on a syntax error, the clamped value on a range error *)
Definition atoi_val (s : bytes) : Z :=
  match atoi s with
  | Some z => z
  | None =>
      match s with
      | [] => 0%Z
      | c :: r =>
          let neg := Ascii.eqb c "-" in
          let ds := if (neg || Ascii.eqb c "+")%bool then r else s in
          match ds with
          | [] => 0%Z
          | _ => match digits_val ds 0 with
                 | None => 0%Z
                 | Some _ => if neg then int_min else int_max
                 end
          end
      end
  end.

Definition ch (s : string) : ascii := match s with String c _ => c | EmptyString => zero end.
