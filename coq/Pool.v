(* Pool.v — byte_array_pool.go (ByteArrayPool: Alloc / Free / maxCap) and the UDP receive path of
   transport.go (UDPServerTransport.receiveMessage / startParseMessage).

   A Go []byte handed out by the pool is modelled as (id, contents): the id stands for the
   identity of the backing array (make returns a fresh one), the contents are what the array
   holds.  The pool is a stack (Alloc pops what Free pushed last).  ReadFromUDP overwrites the
   first n bytes of the buffer and leaves the rest as it was: whatever an earlier datagram left
   there is still there when the parser gets the buffer. *)
From Coq Require Import List Ascii String ZArith Bool Arith Lia.
From Model Require Import Bytes Message Bufio.
Import ListNotations.
Local Open Scope nat_scope.

Definition pbuf := (nat * bytes)%type.

Record pool := mkpool {
  p_maxcap : nat;
  p_asize : nat;
  p_stack : list pbuf;        (* head = top = bp.pool[len-1] *)
  p_next : nat                (* identity of the next array make() returns *)
}.
Definition new_pool (maxcap asize : nat) : pool := mkpool maxcap asize [] 0.

Definition pool_alloc (p : pool) : pbuf * pool :=
  match p_stack p with
  | [] => ((p_next p, repeat Ascii.zero (p_asize p)), mkpool (p_maxcap p) (p_asize p) [] (S (p_next p)))
  | b :: r => (b, mkpool (p_maxcap p) (p_asize p) r (p_next p))
  end.
Definition pool_size (p : pool) : nat := List.length (p_stack p).
(* if n <= 0 || n < bp.maxCap { push }  -- otherwise the buffer is dropped (garbage) *)
Definition pool_free (p : pool) (b : pbuf) : pool :=
  let n := List.length (p_stack p) in
  if (Nat.eqb n 0 || Nat.ltb n (p_maxcap p))%bool
  then mkpool (p_maxcap p) (p_asize p) (b :: p_stack p) (p_next p)
  else p.

(* ---- any client of the pool: Alloc, and Free of something it holds ---- *)
Inductive pev := PAlloc | PFree (id : nat).
Definition pstate := (pool * list pbuf)%type.          (* the pool and what is held outside *)

Fixpoint take_held (id : nat) (held : list pbuf) : option (pbuf * list pbuf) :=
  match held with
  | [] => None
  | b :: r => if Nat.eqb (fst b) id then Some (b, r)
              else match take_held id r with
                   | Some (x, r') => Some (x, b :: r')
                   | None => None
                   end
  end.
(* None: the event breaks the protocol (freeing what is not held) *)
Definition pstep (s : pstate) (e : pev) : option pstate :=
  let '(p, held) := s in
  match e with
  | PAlloc => let '(b, p') := pool_alloc p in Some (p', b :: held)
  | PFree id => match take_held id held with
                | Some (b, held') => Some (pool_free p b, held')
                | None => None
                end
  end.
Fixpoint prun (s : pstate) (evs : list pev) : option pstate :=
  match evs with
  | [] => Some s
  | e :: r => match pstep s e with Some s' => prun s' r | None => None end
  end.
Definition pool_ids (s : pstate) : list nat := map fst (p_stack (fst s)) ++ map fst (snd s).

(* ---- the UDP transport ---- *)
(* ReadFromUDP(buf): the datagram is cut to the buffer; the tail of the buffer is untouched *)
Definition recv (buf d : bytes) : bytes * nat :=
  let n := Nat.min (List.length d) (List.length buf) in
  (firstn n d ++ skipn n buf, n).

Record udp := mkudp {
  u_pool : pool;
  u_cur : pbuf;                         (* held by the receive loop, waiting in ReadFromUDP *)
  u_queue : list (pbuf * nat)           (* msgParseChannel, oldest first *)
}.
Definition new_udp (maxcap asize : nat) : udp :=
  let '(b, p) := pool_alloc (new_pool maxcap asize) in mkudp p b [].

Inductive uev :=
| URecv (d : bytes)                     (* a datagram arrives: receive loop iteration *)
| UParse                                (* parse loop iteration (nothing to do if the queue is empty) *)
| UDirty (pat : bytes).                 (* test support: Alloc, scribble, Free *)

Definition udp_step {A} (parse : bytes -> nat -> A) (u : udp) (e : uev) : udp * list A :=
  match e with
  | URecv d =>
      let '(id, buf) := u_cur u in
      let '(buf', n) := recv buf d in
      let '(nb, p') := pool_alloc (u_pool u) in
      (mkudp p' nb (u_queue u ++ [((id, buf'), n)]), [])
  | UParse =>
      match u_queue u with
      | [] => (u, [])
      | ((id, buf), n) :: q =>
          let r := parse buf n in
          (mkudp (pool_free (u_pool u) (id, buf)) (u_cur u) q, [r])
      end
  | UDirty pat =>
      let '((id, buf), p') := pool_alloc (u_pool u) in
      (mkudp (pool_free p' (id, fst (recv buf pat))) (u_cur u) (u_queue u), [])
  end.
Fixpoint udp_run {A} (parse : bytes -> nat -> A) (u : udp) (evs : list uev) : udp * list A :=
  match evs with
  | [] => (u, [])
  | e :: r => let '(u1, o1) := udp_step parse u e in
              let '(u2, o2) := udp_run parse u1 r in (u2, o1 ++ o2)
  end.

(* the specification: a queue of datagrams (cut to the buffer size), each decoded by itself *)
Fixpoint udp_spec (asize : nat) (q : list bytes) (evs : list uev) : list (res message) :=
  match evs with
  | [] => []
  | URecv d :: r => udp_spec asize (q ++ [firstn asize d]) r
  | UParse :: r => match q with
                   | [] => udp_spec asize q r
                   | d :: q' => parse_bytes d :: udp_spec asize q' r
                   end
  | UDirty _ :: r => udp_spec asize q r
  end.
Definition queued_dgrams (u : udp) : list bytes := map (fun '((_, buf), n) => firstn n buf) (u_queue u).
Definition udp_ids (u : udp) : list nat :=
  map fst (p_stack (u_pool u)) ++ fst (u_cur u) :: map (fun x => fst (fst x)) (u_queue u).
