(* StaticRoute.v — preconfig_route.go: NewPreRouteItem, AddRouteItem, FindRoute. *)
From Coq Require Import List Ascii String ZArith Bool.
From Model Require Import Bytes Glob.
Import ListNotations.
Open Scope Z_scope.

Record route_item := { ri_proto : bytes; ri_dest : bytes; ri_host : bytes; ri_port : Z }.

Definition colon : ascii := ":"%char.

(* NewPreRouteItem: LastIndex ':' ; Atoi ; default 5060 / 5061 for tls (any case) *)
Definition new_pre_route_item (proto dest nexthop : bytes) : option route_item :=
  match last_index_byte colon nexthop with
  | None =>
      Some {| ri_proto := proto; ri_dest := dest; ri_host := nexthop;
              ri_port := if equal_fold (s2b "tls") proto then 5061 else 5060 |}
  | Some pos =>
      match atoi (skipn (S pos) nexthop) with
      | None => None
      | Some p => Some {| ri_proto := proto; ri_dest := dest;
                          ri_host := firstn pos nexthop; ri_port := p |}
      end
  end.

(* The table: the Go map [items] together with the order in which destinations were first
   configured ([dests]); modelled as one association list kept in first-insertion order,
   a later AddRouteItem for the same dest overwrites in place. *)
Definition route_table := list (bytes * route_item).

Definition add_route_item (t : route_table) (proto dest nexthop : bytes) : route_table :=
  match new_pre_route_item proto dest nexthop with
  | Some it => aset dest it t
  | None => t
  end.

Fixpoint first_glob (t : route_table) (host : bytes) : option route_item :=
  match t with
  | [] => None
  | (d, it) :: r => if glob d host then Some it else first_glob r host
  end.

Definition find_route (t : route_table) (host : bytes) : option route_item :=
  match alookup host t with
  | Some it => Some it
  | None =>
      match first_glob t host with
      | Some it => Some it
      | None => alookup (s2b "default") t
      end
  end.

(* the pre-fix code scanned the Go map in its (random) iteration order: [order] is that
   order, a permutation of the table *)
Definition find_route_legacy (order t : route_table) (host : bytes) : option route_item :=
  match alookup host t with
  | Some it => Some it
  | None =>
      match first_glob order host with
      | Some it => Some it
      | None => alookup (s2b "default") t
      end
  end.

(* The Go code after the fix, spelled out with the map and the order slice kept apart:
   [m] is the Go map in WHATEVER order the runtime enumerates it (look-ups by key only),
   [dests] the slice of destinations in first-configuration order. *)
Fixpoint scan_dests (m : route_table) (dests : list bytes) (host : bytes) : option route_item :=
  match dests with
  | [] => None
  | d :: r =>
      match alookup d m with
      | Some it => if glob (ri_dest it) host then Some it else scan_dests m r host
      | None => scan_dests m r host
      end
  end.

Definition find_route_go (m : route_table) (dests : list bytes) (host : bytes) : option route_item :=
  match alookup host m with
  | Some it => Some it
  | None =>
      match scan_dests m dests host with
      | Some it => Some it
      | None => alookup (s2b "default") m
      end
  end.
