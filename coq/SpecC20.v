(* SpecC20.v — property C20 as an EXECUTABLE predicate over the event trace of ONE send
   (the io_event type is the only thing shared with SendFault.v; no *_send function is
   called here).

   C20: "Sending towards a peer survives connection faults: if the connection cached for a
   destination fails on write, the same send falls back to a fresh connection to that
   destination and the message is written there exactly once; a send reports success only if
   the whole message was written on some connection, and a destination that refuses
   connections yields an error rather than a hang or crash.  Later messages go straight to the
   working path."

   [judge_C20_send tr ok] reads the trace [tr] of one Send call and its verdict [ok]:
   (1) ok = true  : exactly one [EWrite _ true] in the trace, and it is the last write event
                    (hence every other write of the trace failed, nothing is written after
                    the message got through: no duplication);
       ok = false : no [EWrite _ true] at all (an error is never reported for a message that
                    was in fact written, success never without a complete write);
   (2) every failed write [EWrite c false] is immediately followed by [EClose c] and no later
       event of the trace writes to c (the failed connection is forgotten);
   (3) termination bound: at most 2 dial attempts ([EDial _]) and at most 3 writes. *)
From Coq Require Import List Bool Arith.
From Model Require Import SendFault.
Import ListNotations.

Definition ev_is_write (e : io_event) : bool :=
  match e with EWrite _ _ => true | _ => false end.
Definition ev_is_okwrite (e : io_event) : bool :=
  match e with EWrite _ true => true | _ => false end.
Definition ev_is_dial (e : io_event) : bool :=
  match e with EDial _ => true | _ => false end.
Definition ev_writes_to (c : nat) (e : io_event) : bool :=
  match e with EWrite c' _ => Nat.eqb c c' | _ => false end.

(* (2): each failed write is followed at once by the close of that connection, which is
   never written to again in this trace *)
Fixpoint failed_forgotten (tr : list io_event) : bool :=
  match tr with
  | [] => true
  | EWrite c false :: r =>
      match r with
      | EClose c' :: r' =>
          Nat.eqb c c' && negb (existsb (ev_writes_to c) r') && failed_forgotten r
      | _ => false
      end
  | _ :: r => failed_forgotten r
  end.

Definition judge_C20_send (tr : list io_event) (ok : bool) : bool :=
  let ws := filter ev_is_write tr in
  let nok := List.length (filter ev_is_okwrite tr) in
  (if ok then Nat.eqb nok 1 && ev_is_okwrite (last ws (EClose 0))
   else Nat.eqb nok 0)
  && failed_forgotten tr
  && Nat.leb (List.length (filter ev_is_dial tr)) 2
  && Nat.leb (List.length ws) 3.

(* a sequence of sends: each one is judged on its own trace *)
Definition judge_C20 (l : list (list io_event * bool)) : bool :=
  forallb (fun '(tr, ok) => judge_C20_send tr ok) l.

(* ---- the OBSERVATION the correspondence run takes of one send (counts, because the real
   code offers no event trace): verdict, successful dials, per cached connection (ids 0, 1)
   the numbers of accepted writes / failed writes / closes, and per dialled connection
   (ids 2 .. next-1) the number of accepted writes.  [obs_of_trace] computes it from a model
   trace; the Go driver counts the same things on its connection doubles. ---- *)
Record conn_counts := { cc_ok : nat; cc_fail : nat; cc_close : nat }.
Record send_obs := { so_ok : bool; so_dials : nat; so_c0 : conn_counts; so_c1 : conn_counts;
                     so_dialled : list nat }.

Definition count_ev (f : io_event -> bool) (tr : list io_event) : nat := List.length (filter f tr).
Definition is_write (c : nat) (ok : bool) (e : io_event) : bool :=
  match e with EWrite c' ok' => Nat.eqb c c' && Bool.eqb ok ok' | _ => false end.
Definition is_close (c : nat) (e : io_event) : bool :=
  match e with EClose c' => Nat.eqb c c' | _ => false end.
Definition is_dial_ok (e : io_event) : bool := match e with EDial (Some _) => true | _ => false end.
Definition counts_of (c : nat) (tr : list io_event) : conn_counts :=
  {| cc_ok := count_ev (is_write c true) tr; cc_fail := count_ev (is_write c false) tr;
     cc_close := count_ev (is_close c) tr |}.
Definition obs_of_trace (next : nat) (tr : list io_event) (ok : bool) : send_obs :=
  {| so_ok := ok; so_dials := count_ev is_dial_ok tr; so_c0 := counts_of 0 tr; so_c1 := counts_of 1 tr;
     so_dialled := map (fun c => count_ev (is_write c true) tr) (seq 2 (next - 2)) |}.

(* C20 on one observed send:
   - success iff the message was accepted exactly once over ALL connections, an error iff
     it was accepted nowhere (no loss reported as success, no duplication, no false error);
   - a cached connection is written at most once per send, and a failed write on it is
     followed by its close (it is forgotten, not retried);
   - at most two successful dials (termination bound of the retry loops). *)
Definition cached_ok (c : conn_counts) : bool :=
  Nat.leb (cc_ok c + cc_fail c) 1 && Nat.leb (cc_fail c) (cc_close c).
Definition judge_C20_obs (o : send_obs) : bool :=
  let total := cc_ok (so_c0 o) + cc_ok (so_c1 o) + list_sum (so_dialled o) in
  Nat.eqb total (if so_ok o then 1 else 0)
  && cached_ok (so_c0 o) && cached_ok (so_c1 o)
  && Nat.leb (so_dials o) 2.
