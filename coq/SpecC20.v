(* SpecC20.v — property C20 as an EXECUTABLE predicate over the event trace of ONE send
   (the io_event type is the only thing shared with SendFault.v; no *_send function is
   called here).

   C20: "Sending towards a peer survives connection faults: if the connection cached for a
   destination fails on write, the same send falls back to a fresh connection to that
   destination and the message is written there exactly once; a send reports success only if
   the whole message was written on some connection, and a destination that refuses
   connections yields an error rather than a hang or crash.  Later messages go straight to the
   working path."

   [judge_C20_send tr ok] reads the trace [tr] of one Send call and its verdict [ok]:
   (1) ok = true  : exactly one [EWrite _ true] in the trace, and it is the last write event
                    (hence every other write of the trace failed, nothing is written after
                    the message got through: no duplication);
       ok = false : no [EWrite _ true] at all (an error is never reported for a message that
                    was in fact written, success never without a complete write);
   (2) every failed write [EWrite c false] is immediately followed by [EClose c] and no later
       event of the trace writes to c (the failed connection is forgotten);
   (3) termination bound: at most 2 dial attempts ([EDial _]) and at most 3 writes. *)
From Coq Require Import List Bool Arith.
From Model Require Import SendFault.
Import ListNotations.

Definition ev_is_write (e : io_event) : bool :=
  match e with EWrite _ _ => true | _ => false end.
Definition ev_is_okwrite (e : io_event) : bool :=
  match e with EWrite _ true => true | _ => false end.
Definition ev_is_dial (e : io_event) : bool :=
  match e with EDial _ => true | _ => false end.
Definition ev_writes_to (c : nat) (e : io_event) : bool :=
  match e with EWrite c' _ => Nat.eqb c c' | _ => false end.

(* (2): each failed write is followed at once by the close of that connection, which is
   never written to again in this trace *)
Fixpoint failed_forgotten (tr : list io_event) : bool :=
  match tr with
  | [] => true
  | EWrite c false :: r =>
      match r with
      | EClose c' :: r' =>
          Nat.eqb c c' && negb (existsb (ev_writes_to c) r') && failed_forgotten r
      | _ => false
      end
  | _ :: r => failed_forgotten r
  end.

Definition judge_C20_send (tr : list io_event) (ok : bool) : bool :=
  let ws := filter ev_is_write tr in
  let nok := List.length (filter ev_is_okwrite tr) in
  (if ok then Nat.eqb nok 1 && ev_is_okwrite (last ws (EClose 0))
   else Nat.eqb nok 0)
  && failed_forgotten tr
  && Nat.leb (List.length (filter ev_is_dial tr)) 2
  && Nat.leb (List.length ws) 3.

(* a sequence of sends: each one is judged on its own trace *)
Definition judge_C20 (l : list (list io_event * bool)) : bool :=
  forallb (fun '(tr, ok) => judge_C20_send tr ok) l.
