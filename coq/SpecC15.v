(* SpecC15.v — property C15 as an EXECUTABLE predicate over observables only.

   C15: "A dialog's backend pin is honoured for at least the configured dialog timeout - or
   the Expires value of the response that established it, if larger - and never after that
   lifetime has elapsed.  It is dissolved early when [terminated] ...  Expired pins are purged
   as traffic continues - none survives more than one further dialog-timeout period of ongoing
   traffic, whatever Expires values messages carry - so the table of remembered pins cannot
   grow without bound."

   A case is (timeout_s, history); a history is a list of [pin_op] (Pins.v supplies only the
   TYPES pin_op / pin_out here).  An observation gives, per step, what the step returned and
   how many pins the table held right after it.

   The judge shares no code with the model (it never calls pins_get / pins_add / pins_clean /
   pins_step / pins_lifetime / wrap64).  It keeps its own specification state:
     - the current time [t] (ns, starts at 0, PAdvance dt adds dt);
     - per key the LAST binding made for it and not terminated since:
       backend, creation time, lifetime = max(timeout_s, expire_s) seconds.
   The only primitives used are the association-list functions of Bytes.v (alookup / aset /
   adel), whose meaning is proved in BytesLemmas.v. *)
From Coq Require Import List ZArith Bool.
From Model Require Import Bytes Pins.
Import ListNotations.
Open Scope Z_scope.

(* ------------------------------------------------------------------ domain of C15 *)
Definition c15_max_seconds : Z := 2147483647.            (* 2^31 - 1 *)
Definition c15_ns (seconds : Z) : Z := seconds * 1000000000.

Definition pin_op_ok (o : pin_op) : bool :=
  match o with
  | PAdd _ _ e => Z.leb 0 e && Z.leb e c15_max_seconds
  | PAdvance dt => Z.leb 0 dt                               (* time never runs backwards *)
  | PGet _ | PRemove _ => true
  end.

Definition pins_domain (timeout_s : Z) (ops : list pin_op) : bool :=
  Z.leb 0 timeout_s && Z.leb timeout_s c15_max_seconds && forallb pin_op_ok ops.

(* ------------------------------------------------------------------ specification state *)
Record c15_binding := { cb_backend : bytes; cb_created : Z; cb_lifetime : Z }.
Definition c15_bindings := list (bytes * c15_binding).

(* effect of a step on the specification state.  A look-up changes nothing: whether the
   implementation forgets an expired pin when it is looked up is not observable through
   answers, only through the size, and for sizes only an upper bound is judged. *)
Definition c15_next (timeout_s : Z) (st : Z * c15_bindings) (o : pin_op) : Z * c15_bindings :=
  let '(t, bs) := st in
  match o with
  | PAdd k b e =>
      (t, aset k {| cb_backend := b; cb_created := t;
                    cb_lifetime := c15_ns (Z.max timeout_s e) |} bs)
  | PGet _ => (t, bs)
  | PRemove k => (t, adel k bs)
  | PAdvance dt => (t + dt, bs)
  end.

(* the answer C15 prescribes for a look-up of [k] at time [t]: the backend of k's binding if
   the lifetime has not elapsed (strictly before created + lifetime), nothing otherwise *)
Definition c15_expected (t : Z) (k : bytes) (bs : c15_bindings) : option bytes :=
  match alookup k bs with
  | Some bd => if Z.ltb t (cb_created bd + cb_lifetime bd) then Some (cb_backend bd) else None
  | None => None
  end.

(* a binding that, at time [t], has not been expired for more than one dialog timeout *)
Definition c15_recent (timeout_s t : Z) (kb : bytes * c15_binding) : bool :=
  Z.leb t (cb_created (snd kb) + cb_lifetime (snd kb) + c15_ns timeout_s).

Definition c15_opt_eqb (a b : option bytes) : bool :=
  match a, b with
  | None, None => true
  | Some x, Some y => beq x y
  | _, _ => false
  end.
Definition c15_out_eqb (a b : pin_out) : bool :=
  match a, b with
  | PNone, PNone => true
  | PGot x, PGot y => c15_opt_eqb x y
  | _, _ => false
  end.

(* one step: [st] is the specification state BEFORE the step, [out] what was observed *)
Definition c15_out_ok (timeout_s : Z) (st : Z * c15_bindings) (o : pin_op)
                      (out : pin_out * nat) : bool :=
  let '(t, bs) := st in
  let bs' := snd (c15_next timeout_s st o) in
  let '(r, n) := out in
  (* never more pins remembered than keys bound and not terminated (hence never more than
     keys bound so far) *)
  Nat.leb n (List.length bs') &&
  match o with
  | PGet k => c15_out_eqb r (PGot (c15_expected t k bs))
  | PAdd _ _ _ =>
      c15_out_eqb r PNone &&
      (* right after an add nothing expired for more than one timeout is still remembered *)
      Nat.leb n (List.length (filter (c15_recent timeout_s t) bs'))
  | PRemove _ | PAdvance _ => c15_out_eqb r PNone
  end.

Fixpoint c15_check (timeout_s : Z) (st : Z * c15_bindings) (ops : list pin_op)
                   (outs : list (pin_out * nat)) : bool :=
  match ops, outs with
  | [], [] => true
  | o :: ops', out :: outs' =>
      c15_out_ok timeout_s st o out && c15_check timeout_s (c15_next timeout_s st o) ops' outs'
  | _, _ => false                                            (* lengths differ *)
  end.

Definition judge_C15 (timeout_s : Z) (ops : list pin_op) (outs : list (pin_out * nat)) : bool :=
  c15_check timeout_s (0, []) ops outs.

(* the specification state after a history (used to state the size corollary) *)
Definition c15_after (timeout_s : Z) (ops : list pin_op) : Z * c15_bindings :=
  fold_left (c15_next timeout_s) ops (0, []).
