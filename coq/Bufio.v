(* Bufio.v — executable model of bufio.Reader (Go 1.23 source) at the level the proxy uses it,
   and of message.go readLine / skipWhiteSpace / ParseMessage written over it; the per-connection
   loop of TCPServerTransport.receiveMessage; the UDP parse step (reader over the pool buffer).

   Reader state.  The physical buffer b.buf (always exactly [rd_size] bytes) is kept as three
   pieces  buf[0:r] ++ buf[r:w] ++ buf[w:]  = rd_pre ++ rd_live ++ rd_suf , so that
   r = length rd_pre, w = r + length rd_live; [image] is the buffer image.  [rd_err] is b.err
   (the only error the modelled connection produces is io.EOF, so a boolean).  [rd_chunks] is
   what the underlying connection will still deliver: one list element per segment; an
   underlying Read(p) returns min(len p, len segment) bytes of the current segment (this is what
   net.Conn, bytes.Buffer and the scripted reader of the driver do), and (0, EOF) when nothing
   is left.

   What is NOT modelled: lastByte/lastRuneSize bookkeeping (UnreadByte is modelled for the only
   way the proxy calls it: directly after a successful ReadByte, where it is r--), Peek,
   Discard, ReadRune, WriteTo, io.ErrNoProgress (needs an underlying reader returning (0,nil)).

   Three defects of the code as found are kept as [*_legacy] definitions next to the repaired
   ones: readLine appending to the slice ReadLine returned (an alias of b.buf), the UDP reader
   wrapping the whole pool buffer, and make([]byte, contentLength) before reading. *)
From Coq Require Import List Ascii String ZArith Bool Arith Lia.
From Model Require Import Bytes Message.
Import ListNotations.
Local Open Scope nat_scope.

Record rd := mkrd {
  rd_size : nat;
  rd_pre : bytes;          (* buf[0:r]  : already consumed, still physically there *)
  rd_live : bytes;         (* buf[r:w]  : buffered, unread *)
  rd_suf : bytes;          (* buf[w:]   : stale *)
  rd_err : bool;           (* b.err != nil (io.EOF) *)
  rd_chunks : list bytes   (* segments still to come from the connection *)
}.

Definition image (st : rd) : bytes := rd_pre st ++ rd_live st ++ rd_suf st.
Definition rpos (st : rd) : nat := List.length (rd_pre st).
Definition wpos (st : rd) : nat := List.length (rd_pre st) + List.length (rd_live st).
(* the abstraction: the bytes this reader will still deliver *)
Definition alpha (st : rd) : bytes := rd_live st ++ List.concat (rd_chunks st).

Definition bufio_size (n : nat) : nat := Nat.max n 16.       (* NewReaderSize: max(size, 16) *)
Definition new_reader (n : nat) (cs : list bytes) : rd :=
  mkrd (bufio_size n) [] [] (repeat Ascii.zero (bufio_size n)) false cs.

(* the underlying Read(p), len p = space: data, "returned io.EOF", remaining segments *)
Definition under_read (space : nat) (cs : list bytes) : bytes * bool * list bytes :=
  match cs with
  | [] => ([], true, [])
  | c :: r => match skipn space c with
              | [] => (firstn space c, false, r)
              | c' => (firstn space c, false, c' :: r)
              end
  end.

(* last byte and what precedes it (linear; List.rev is quadratic when executed) *)
Fixpoint unsnoc (l : bytes) : option (bytes * ascii) :=
  match l with
  | [] => None
  | x :: r => match unsnoc r with
              | None => Some ([], x)
              | Some (i, z) => Some (x :: i, z)
              end
  end.

(* fill: slide buf[r:w] to the front, then ONE underlying Read into buf[w:].
   Panic = "bufio: tried to fill full buffer". *)
Definition fill (st : rd) : res rd :=
  let room := skipn (List.length (rd_live st)) (image st) in
  match room with
  | [] => Panic
  | _ => let '(d, e, cs') := under_read (List.length room) (rd_chunks st) in
         Ok (mkrd (rd_size st) [] (rd_live st ++ d) (skipn (List.length d) room) (rd_err st || e) cs')
  end.

(* advance r by k *)
Definition consume (k : nat) (st : rd) : rd :=
  mkrd (rd_size st) (rd_pre st ++ firstn k (rd_live st)) (skipn k (rd_live st)) (rd_suf st)
       (rd_err st) (rd_chunks st).
Definition clear_err (st : rd) : rd :=
  mkrd (rd_size st) (rd_pre st) (rd_live st) (rd_suf st) false (rd_chunks st).

(* ---- ReadSlice('\n') ---- *)
Inductive rs_status := RsOk | RsEof | RsFull.

Fixpoint read_slice_f (fuel : nat) (st : rd) : res (bytes * rs_status * rd) :=
  match index_byte LF (rd_live st) with
  | Some i => Ok (firstn (S i) (rd_live st), RsOk, consume (S i) st)
  | None =>
      if rd_err st then Ok (rd_live st, RsEof, clear_err (consume (List.length (rd_live st)) st))
      else if Nat.leb (rd_size st) (List.length (rd_live st))
      then Ok (rd_live st, RsFull, consume (List.length (rd_live st)) st)   (* line = b.buf *)
      else match fuel with
           | O => Err                                                        (* never reached *)
           | S f => match fill st with
                    | Ok st' => read_slice_f f st'
                    | Err => Err
                    | Panic => Panic
                    end
           end
  end.
(* every fill either uses up a segment, or fills the window (then the next round returns), or
   meets the end of the stream (then the next round returns) *)
Definition read_slice (st : rd) : res (bytes * rs_status * rd) :=
  read_slice_f (S (List.length (rd_chunks st))) st.

(* b.r-- (ReadLine pushing the CR back).  Panic = "tried to rewind past start of buffer" *)
Definition unread1 (st : rd) : res rd :=
  match unsnoc (rd_pre st) with
  | Some (p, c) => Ok (mkrd (rd_size st) p (c :: rd_live st) (rd_suf st) (rd_err st) (rd_chunks st))
  | None => Panic
  end.

(* drop "\n" or "\r\n" at the end of a line returned by ReadSlice *)
Definition drop_eol (line : bytes) : bytes :=
  match unsnoc line with
  | Some (i, c) => if Ascii.eqb c LF
                   then match unsnoc i with
                        | Some (j, c2) => if Ascii.eqb c2 CR then j else i
                        | None => i
                        end
                   else line
  | None => []
  end.

(* ---- ReadLine: None = (nil, false, err); Some (line, isPrefix) ---- *)
Definition read_line_b (st : rd) : res (option (bytes * bool) * rd) :=
  match read_slice st with
  | Ok (line, RsFull, st1) =>
      match unsnoc line with
      | Some (i, c) => if Ascii.eqb c CR
                       then match unread1 st1 with
                            | Ok st2 => Ok (Some (i, true), st2)
                            | Err => Err
                            | Panic => Panic
                            end
                       else Ok (Some (line, true), st1)
      | None => Ok (Some (line, true), st1)
      end
  | Ok (line, _, st1) =>
      match line with
      | [] => Ok (None, st1)
      | _ => Ok (Some (drop_eol line, false), st1)
      end
  | Err => Err
  | Panic => Panic
  end.

(* ---- ReadByte / UnreadByte ---- *)
Fixpoint read_byte_f (fuel : nat) (st : rd) : res (option ascii * rd) :=
  match rd_live st with
  | c :: _ => Ok (Some c, consume 1 st)
  | [] => if rd_err st then Ok (None, clear_err st)
          else match fuel with
               | O => Err                                                    (* never reached *)
               | S f => match fill st with
                        | Ok st' => read_byte_f f st'
                        | Err => Err
                        | Panic => Panic
                        end
               end
  end.
Definition read_byte (st : rd) : res (option ascii * rd) := read_byte_f 2 st.

(* UnreadByte directly after a successful ReadByte (r > 0, lastByte = buf[r-1]); Err =
   ErrInvalidUnreadByte *)
Definition unread_byte (st : rd) : res rd :=
  match unsnoc (rd_pre st) with
  | Some (p, c) => Ok (mkrd (rd_size st) p (c :: rd_live st) (rd_suf st) (rd_err st) (rd_chunks st))
  | None => Err
  end.

(* ---- Read(p), len p = n: data, "returned an error", state ---- *)
Definition read_b (n : nat) (st : rd) : res (bytes * bool * rd) :=
  match n with
  | O => match rd_live st with
         | [] => Ok ([], rd_err st, clear_err st)
         | _ => Ok ([], false, st)
         end
  | _ =>
      match rd_live st with
      | [] =>
          if rd_err st then Ok ([], true, clear_err st)
          else if Nat.leb (rd_size st) n
          then (* large read, empty buffer: straight into p *)
            let '(d, e, cs') := under_read n (rd_chunks st) in
            Ok (d, e, mkrd (rd_size st) (rd_pre st) [] (rd_suf st) false cs')
          else (* b.r = b.w = 0; one Read into b.buf; copy *)
            let img := image st in
            let '(d, e, cs') := under_read (List.length img) (rd_chunks st) in
            match d with
            | [] => Ok ([], e, mkrd (rd_size st) [] [] img false cs')
            | _ => let k := Nat.min n (List.length d) in
                   Ok (firstn k d, false,
                       mkrd (rd_size st) (firstn k d) (skipn k d) (skipn (List.length d) img) e cs')
            end
      | _ => let k := Nat.min n (List.length (rd_live st)) in
             Ok (firstn k (rd_live st), false, consume k st)
      end
  end.

(* ---- io.ReadFull(reader, p), len p = want.  None = error (EOF / unexpected EOF) ---- *)
Fixpoint read_full_f (fuel : nat) (st : rd) (want : nat) (acc : bytes) : res (option bytes * rd) :=
  match want with
  | O => Ok (Some acc, st)
  | _ =>
      match fuel with
      | O => Err                                                             (* never reached *)
      | S f =>
          match read_b want st with
          | Ok (d, e, st1) =>
              let want' := want - List.length d in
              if e then (match want' with O => Ok (Some (acc ++ d), st1) | _ => Ok (None, st1) end)
              else read_full_f f st1 want' (acc ++ d)
          | Err => Err
          | Panic => Panic
          end
      end
  end.
Definition read_full (st : rd) (want : nat) : res (option bytes * rd) := read_full_f (S want) st want [].

(* ---- message.go readLine, repaired: the first fragment is copied, further fragments are
   appended to the copy.  None = error ---- *)
Fixpoint read_line_more (fuel : nat) (st : rd) (acc : bytes) : res (option bytes * rd) :=
  match fuel with
  | O => Err                                                                 (* never reached *)
  | S f =>
      match read_line_b st with
      | Ok (None, st1) => Ok (None, st1)
      | Ok (Some (b, true), st1) => read_line_more f st1 (acc ++ b)
      | Ok (Some (b, false), st1) => Ok (Some (acc ++ b), st1)
      | Err => Err
      | Panic => Panic
      end
  end.
Definition read_line_c (st : rd) : res (option bytes * rd) :=
  match read_line_b st with
  | Ok (None, st1) => Ok (None, st1)
  | Ok (Some (l, false), st1) => Ok (Some l, st1)
  | Ok (Some (l, true), st1) => read_line_more (S (List.length (alpha st1))) st1 l
  | Err => Err
  | Panic => Panic
  end.

(* ---- message.go readLine as found: [line] is the slice ReadLine returned, i.e. buf[0:len]
   with capacity rd_size (isPrefix only happens with r = 0); a later fill overwrites it.
   append(line, b...) writes into b.buf while capacity lasts, else copies the CURRENT bytes of
   the alias into a fresh array. ---- *)
Inductive lbuf := Alias (len : nat) | Owned (b : bytes).
Definition write_image (st : rd) (off : nat) (b : bytes) : rd :=
  let img := image st in
  let img' := firstn off img ++ b ++ skipn (off + List.length b) img in
  let r := List.length (rd_pre st) in
  let n := List.length (rd_live st) in
  mkrd (rd_size st) (firstn r img') (firstn n (skipn r img')) (skipn (r + n) img') (rd_err st) (rd_chunks st).
Definition lbuf_bytes (l : lbuf) (st : rd) : bytes :=
  match l with Alias len => firstn len (image st) | Owned b => b end.
Definition lbuf_append (l : lbuf) (b : bytes) (st : rd) : lbuf * rd :=
  match l with
  | Owned x => (Owned (x ++ b), st)
  | Alias len => if Nat.leb (len + List.length b) (rd_size st)
                 then (Alias (len + List.length b), write_image st len b)
                 else (Owned (firstn len (image st) ++ b), st)
  end.
Fixpoint read_line_legacy_more (fuel : nat) (st : rd) (line : lbuf) : res (option bytes * rd) :=
  match fuel with
  | O => Err
  | S f =>
      match read_line_b st with
      | Ok (None, st1) => Ok (None, st1)
      | Ok (Some (b, isp), st1) =>
          let '(line', st2) := lbuf_append line b st1 in
          if isp then read_line_legacy_more f st2 line' else Ok (Some (lbuf_bytes line' st2), st2)
      | Err => Err
      | Panic => Panic
      end
  end.
Definition read_line_legacy (st : rd) : res (option bytes * rd) :=
  match read_line_b st with
  | Ok (None, st1) => Ok (None, st1)
  | Ok (Some (l, false), st1) => Ok (Some l, st1)
  | Ok (Some (l, true), st1) =>
      read_line_legacy_more (S (List.length (alpha st1))) st1 (Alias (List.length l))
  | Err => Err
  | Panic => Panic
  end.

(* ---- skipWhiteSpace (its error is ignored by ParseMessage) ---- *)
Fixpoint skip_ws_f (fuel : nat) (st : rd) : res rd :=
  match fuel with
  | O => Err                                                                 (* never reached *)
  | S f =>
      match read_byte st with
      | Ok (None, st1) => Ok st1
      | Ok (Some c, st1) =>
          if is_space c then skip_ws_f f st1
          else match unread_byte st1 with
               | Ok st2 => Ok st2
               | Err => Ok st1
               | Panic => Panic
               end
      | Err => Err
      | Panic => Panic
      end
  end.
Definition skip_ws (st : rd) : res rd := skip_ws_f (S (List.length (alpha st))) st.

(* ---- the message body.  make([]byte, len, cap) requests cap bytes; above [make_limit] the
   runtime panics ("makeslice: len out of range"; 2^47 is the amd64 bound for byte slices).
   The second component of the results is the number of bytes requested from make. ---- *)
Definition make_limit : Z := 140737488355328.     (* 2^47 *)
Definition body_step : Z := 65536.
Definition make_ok (n : Z) : bool := Z.leb n make_limit.

(* as found: msg.body = make([]byte, contentLength); io.ReadFull(reader, msg.body).  (The read
   is cut at "one more byte than can still arrive": it fails in the same way.) *)
Definition read_body_legacy (st : rd) (n : Z) : res (option bytes * rd) * Z :=
  if make_ok n
  then (read_full st (Z.to_nat (Z.min n (Z.of_nat (List.length (alpha st)) + 1))), n)
  else (Panic, n).

(* repaired (message.go readBody): capacity min(n, 64 KiB) first, doubled (at most up to n)
   only when everything allocated so far has been filled with received bytes *)
Fixpoint read_body_f (fuel : nat) (st : rd) (n cap : Z) (have : bytes) (alloc : Z)
  : res (option bytes * rd) * Z :=
  if Z.leb n (Z.of_nat (List.length have)) then (Ok (Some have, st), alloc)
  else match fuel with
       | O => (Err, alloc)                                                   (* never reached *)
       | S f =>
           let grow := Z.eqb (Z.of_nat (List.length have)) cap in
           let cap' := if grow then Z.min n (2 * cap) else cap in
           let alloc' := if grow then (alloc + cap')%Z else alloc in
           if grow && negb (make_ok cap') then (Panic, alloc')
           else match read_full st (Z.to_nat (cap' - Z.of_nat (List.length have))) with
                | Ok (Some d, st1) => read_body_f f st1 n cap' (have ++ d) alloc'
                | Ok (None, st1) => (Ok (None, st1), alloc')
                | Err => (Err, alloc')
                | Panic => (Panic, alloc')
                end
       end.
Definition read_body_c (st : rd) (n : Z) : res (option bytes * rd) * Z :=
  let c0 := Z.min n body_step in
  read_body_f (S (List.length (alpha st))) st n c0 [] c0.

(* ---- ParseMessage, generic in readLine and in the body reader ---- *)
Definition line_reader := rd -> res (option bytes * rd).
Definition body_reader := rd -> Z -> res (option bytes * rd) * Z.

(* Message.parse_header_line with a linear-time trim (List.rev is quadratic when executed);
   equal to it: C11.parse_header_line_c_eq *)
Definition rv {A} (l : list A) : list A := rev_append l [].
Definition parse_header_line_c (line : bytes) : res header :=
  match index_byte ":"%char line with
  | None => Err
  | Some pos => Ok {| h_name := firstn pos line;
                      h_val := HRaw (rv (trim_left_go_r (rv (trim_left_go (skipn (S pos) line))))) |}
  end.

Fixpoint parse_headers_c (rl : line_reader) (fuel : nat) (st : rd) (acc : list header)
  : res (list header * rd) :=
  match fuel with
  | O => Err                                                                 (* never reached *)
  | S f =>
      match rl st with
      | Ok (None, _) => Err
      | Ok (Some [], st1) => Ok (rv acc, st1)
      | Ok (Some line, st1) =>
          match parse_header_line_c line with
          | Ok h => parse_headers_c rl f st1 (h :: acc)
          | Err => Err
          | Panic => Panic
          end
      | Err => Err
      | Panic => Panic
      end
  end.

Definition bindz {A B} (r : res A) (k : A -> res B * Z) : res B * Z :=
  match r with Ok a => k a | Err => (Err, 0%Z) | Panic => (Panic, 0%Z) end.

Definition parse_message_g (rl : line_reader) (rb : body_reader) (st : rd) : res (message * rd) * Z :=
  bindz (skip_ws st) (fun st0 =>
  bindz (rl st0) (fun '(o, st1) =>
  match o with
  | None => (Err, 0%Z)
  | Some [] => (Err, 0%Z)            (* no first line: GetHeaderInt fails *)
  | Some l0 =>
      bindz (parse_start_line l0) (fun sl =>
      bindz (parse_headers_c rl (S (List.length (alpha st1))) st1 []) (fun '(hs, st2) =>
      let m := {| m_start := sl; m_headers := hs; m_body := [] |} in
      bindz (get_header_int (s2b "Content-Length") m) (fun cl =>
      if Z.ltb cl 0 then (Err, 0%Z)
      else match rb st2 cl with
           | (Ok (Some body, st3), a) => (Ok ({| m_start := sl; m_headers := hs; m_body := body |}, st3), a)
           | (Ok (None, _), a) => (Err, a)
           | (Err, a) => (Err, a)
           | (Panic, a) => (Panic, a)
           end)))
  end)).

Definition parse_message_ca : rd -> res (message * rd) * Z := parse_message_g read_line_c read_body_c.
Definition parse_message_c (st : rd) : res (message * rd) := fst (parse_message_ca st).
Definition parse_message_legacy_a : rd -> res (message * rd) * Z :=
  parse_message_g read_line_legacy read_body_legacy.
Definition parse_message_legacy (st : rd) : res (message * rd) := fst (parse_message_legacy_a st).

(* ---- the per-connection loop: messages until the first error; how it ended; bytes
   requested from make over the whole connection ---- *)
Inductive conn_end := EndErr | EndPanic | EndFuel.
Fixpoint parse_conn_f (pm : rd -> res (message * rd) * Z) (fuel : nat) (st : rd)
  : list message * conn_end * Z :=
  match fuel with
  | O => ([], EndFuel, 0%Z)
  | S f =>
      match pm st with
      | (Ok (m, st1), a) => let '(ms, e, a') := parse_conn_f pm f st1 in (m :: ms, e, (a + a')%Z)
      | (Err, a) => ([], EndErr, a)
      | (Panic, a) => ([], EndPanic, a)
      end
  end.
Definition parse_conn_full (size : nat) (cs : list bytes) : list message * conn_end * Z :=
  parse_conn_f parse_message_ca (S (List.length (List.concat cs))) (new_reader size cs).
Definition parse_conn (size : nat) (cs : list bytes) : list message := fst (fst (parse_conn_full size cs)).
Definition parse_conn_legacy_full (size : nat) (cs : list bytes) : list message * conn_end * Z :=
  parse_conn_f parse_message_legacy_a (S (List.length (List.concat cs))) (new_reader size cs).

(* ---- the UDP parse step: bufio.NewReaderSize(bytes.NewBuffer(X), n); ParseMessage.
   bytes.Buffer delivers min(len p, what is left) per Read, i.e. it is one segment. ---- *)
Definition one_chunk (b : bytes) : list bytes := match b with [] => [] | _ => [b] end.
Definition res_fst {A B} (r : res (A * B)) : res A :=
  match r with Ok (a, _) => Ok a | Err => Err | Panic => Panic end.
(* repaired: X = b[:n] *)
Definition udp_parse_a (buf : bytes) (n : nat) : res message * Z :=
  let '(r, a) := parse_message_ca (new_reader n (one_chunk (firstn n buf))) in (res_fst r, a).
Definition udp_parse (buf : bytes) (n : nat) : res message := fst (udp_parse_a buf n).
(* as found: X = the whole pool buffer *)
Definition udp_parse_legacy (buf : bytes) (n : nat) : res message :=
  res_fst (parse_message_legacy (new_reader n (one_chunk buf))).
(* the same reader defect alone, with the repaired ParseMessage *)
Definition udp_parse_wholebuf (buf : bytes) (n : nat) : res message :=
  res_fst (parse_message_c (new_reader n (one_chunk buf))).
(* what a datagram means, by itself *)
Definition parse_bytes (d : bytes) : res message := res_fst (parse_message d).
