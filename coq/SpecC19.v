(* SpecC19.v — property C19 as an EXECUTABLE predicate over observables only.
   "For a backend given by host name the set of backends in rotation tracks name resolution:
    after each successful resolution the rotation contains exactly the resolved addresses (new
    ones added, vanished ones removed and closed); up to three consecutive resolution failures
    leave the set untouched and the fourth empties it."
   The judge keeps its OWN spec state (resolved set S, consecutive failures f, last rotation)
   and never calls the model's transition functions (address_resolved, host_ip_changed,
   resolver_step, rr_add, rr_remove).  From Resolver.v it uses only the [outcome] type and
   [create_host_port] (the "ip:port" / "[ipv6]:port" formatting). *)
From Coq Require Import List Ascii String Bool Arith.
From Model Require Import Bytes Resolver.
Import ListNotations.
Open Scope list_scope.

(* equality of lists of byte strings *)
Fixpoint lbeq (a b : list bytes) : bool :=
  match a, b with
  | [], [] => true
  | x :: a', y :: b' => beq x y && lbeq a' b'
  | _, _ => false
  end.

(* duplicate-freeness, decided with mem_bytes *)
Fixpoint nodup_b (l : list bytes) : bool :=
  match l with
  | [] => true
  | x :: r => negb (mem_bytes x r) && nodup_b r
  end.

(* every element of [a] occurs in [b] *)
Definition subset_b (a b : list bytes) : bool := forallb (fun x => mem_bytes x b) a.

(* number of elements of [a] that do not occur in [b]  ( |a \ b| ) *)
Definition count_vanished (a b : list bytes) : nat :=
  List.length (filter (fun x => negb (mem_bytes x b)) a).

Definition is_nil (l : list bytes) : bool := match l with [] => true | _ => false end.

(* one observation: rotation after the step, removal (close) notifications of the step,
   the entry's address list after the step *)
Definition c19_obs := (list bytes * nat * list bytes)%type.

(* cur (S in the statement): currently resolved set; f: consecutive failures so far; prev: rotation before the step *)
Fixpoint judge_C19_from (port : bytes) (cur : list bytes) (f : nat) (prev : list bytes)
         (os : list outcome) (obs : list c19_obs) : bool :=
  match os, obs with
  | [], [] => true
  | o :: os', (rot, rmv, ent) :: obs' =>
      match o with
      | ROk A =>
          let expd := map (fun ip => create_host_port ip port) A in
          nodup_b rot && subset_b rot expd && subset_b expd rot   (* rotation = resolved set *)
          && Nat.eqb rmv (count_vanished cur A)                     (* vanished ones closed *)
          && lbeq ent A
          && judge_C19_from port A 0 rot os' obs'
      | RFail =>
          if (Nat.ltb 3 (f + 1) && negb (is_nil cur))%bool
          then (* the fourth consecutive failure empties the set *)
            is_nil rot && Nat.eqb rmv (List.length cur) && is_nil ent
            && judge_C19_from port [] 0 [] os' obs'
          else (* tolerated: nothing changes *)
            lbeq rot prev && Nat.eqb rmv 0 && lbeq ent cur
            && judge_C19_from port cur (f + 1) prev os' obs'
      end
  | _, _ => false                                 (* one observation per step, no more no less *)
  end.

Definition judge_C19 (port : bytes) (os : list outcome) (obs : list c19_obs) : bool :=
  judge_C19_from port [] 0 [] os obs.

(* the property's quantifier: every successful resolution delivers a duplicate-free set *)
Definition c19_domain (os : list outcome) : bool :=
  forallb (fun o => match o with ROk A => nodup_b A | RFail => true end) os.
