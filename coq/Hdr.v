(* Hdr.v — via.go, route.go, record_route.go, from_spec.go, to.go, cseq.go. *)
From Coq Require Import List Ascii String ZArith Bool.
From Model Require Import Bytes Uri.
Import ListNotations.
Open Scope Z_scope.

(* ---- Via ---- *)
Record via_param := { v_name : bytes; v_version : bytes; v_transport : bytes;
                      v_host : bytes; v_port : Z; v_params : list kv }.

Definition parse_via_param (s : bytes) : res via_param :=
  match split_byte ";"%char s with
  | [] => Err
  | t0 :: ps =>
      match fields_go t0 with
      | [proto; sentby] =>
          match split_byte "/"%char proto with
          | [n; v; t] =>
              let mk h p := Ok {| v_name := n; v_version := v; v_transport := t; v_host := h;
                                  v_port := p; v_params := map kv_split ps |} in
              match split_byte ":"%char sentby with
              | [h] => mk h 0
              | [h; p] => match atoi p with Some port => mk h port | None => Err end
              | _ => Err
              end
          | _ => Err
          end
      | _ => Err
      end
  end.

Fixpoint parse_all {A} (f : bytes -> res A) (l : list bytes) : res (list A) :=
  match l with
  | [] => Ok []
  | s :: r => let! a := f s in let! rest := parse_all f r in Ok (a :: rest)
  end.

Definition parse_via (s : bytes) : res (list via_param) :=
  parse_all parse_via_param (split_byte ","%char s).

Definition via_get_port (v : via_param) : Z :=
  if negb (Z.eqb (v_port v) 0) then v_port v
  else if beq (v_transport v) (s2b "TLS") then 5061 else 5060.

(* ViaParam.String: the sent-by is written as received (no default port is added) *)
Definition via_param_print (v : via_param) : bytes :=
  v_name v ++ "/"%char :: v_version v ++ "/"%char :: v_transport v ++ " "%char ::
  (if Z.eqb (v_port v) 0 then v_host v else v_host v ++ ":"%char :: itoa (v_port v)) ++
  print_params ";"%char (v_params v).
(* the pre-fix rendering always added ":<GetPort()>" *)
Definition via_param_print_legacy (v : via_param) : bytes :=
  v_name v ++ "/"%char :: v_version v ++ "/"%char :: v_transport v ++ " "%char ::
  v_host v ++ ":"%char :: itoa (via_get_port v) ++ print_params ";"%char (v_params v).

Definition via_print (l : list via_param) : bytes :=
  join_byte ","%char (map via_param_print l).

Definition create_via_param (transport host : bytes) (port : Z) : via_param :=
  {| v_name := s2b "SIP"; v_version := s2b "2.0"; v_transport := transport; v_host := host;
     v_port := port; v_params := [] |}.

Definition via_get_received (v : via_param) : option bytes := kv_get (s2b "received") (v_params v).
Definition via_get_rport (v : via_param) : option Z :=
  match kv_get (s2b "rport") (v_params v) with Some r => atoi r | None => None end.
Definition via_get_branch (v : via_param) : option bytes := kv_get (s2b "branch") (v_params v).
Definition via_set_param (name value : bytes) (v : via_param) : via_param :=
  {| v_name := v_name v; v_version := v_version v; v_transport := v_transport v; v_host := v_host v;
     v_port := v_port v; v_params := kv_set name value (v_params v) |}.

(* ---- Route / Record-Route (identical element syntax) ---- *)
Record route_param := { r_addr : name_addr; r_params : list kv }.

Definition parse_route_param (s : bytes) : res route_param :=
  match index_byte ">"%char s with
  | None => Err
  | Some pos =>
      let! na := parse_name_addr (firstn (S pos) s) in
      match trim_space_go (skipn (S pos) s) with
      | [] => Ok {| r_addr := na; r_params := [] |}
      | c :: rest =>
          if Ascii.eqb c ";"%char then
            let! ps := parse_generic_params (split_byte ";"%char rest) in
            Ok {| r_addr := na; r_params := ps |}
          else Err
      end
  end.
Definition parse_route (s : bytes) : res (list route_param) :=
  parse_all parse_route_param (split_byte ","%char s).

(* RouteParam.Write: every parameter is preceded by ';' *)
Definition route_param_print (r : route_param) : bytes :=
  name_addr_print (r_addr r) ++ print_params ";"%char (r_params r).
(* the pre-fix code wrote the parameters without any separator *)
Definition route_param_print_legacy (r : route_param) : bytes :=
  name_addr_print (r_addr r) ++ flat_map kv_print (r_params r).
Definition route_print (l : list route_param) : bytes :=
  join_byte ","%char (map route_param_print l).

(* ParseRecordRoute additionally rejects an empty list (cannot happen: Split yields >= 1) *)
Definition parse_record_route (s : bytes) : res (list route_param) :=
  let! l := parse_route s in match l with [] => Err | _ => Ok l end.

(* ---- From / To ---- *)
Inductive ft_addr := FtName (n : name_addr) | FtSpec (a : addr_spec).
Record fromto := { ft_addr_of : ft_addr; ft_params : list kv }.

(* [cut]: how many bytes of the bare addr-spec are kept when a ';' follows at [pos]:
   [pos] after the fix, [pos+1] before it *)
Definition parse_fromto_with (cut : nat -> nat) (s : bytes) : res fromto :=
  let finish (a : ft_addr) (params : bytes) :=
    match params with
    | [] => Ok {| ft_addr_of := a; ft_params := [] |}
    | _ => let! ps := parse_generic_params (split_byte ";"%char params) in
           Ok {| ft_addr_of := a; ft_params := ps |}
    end in
  match index_byte "<"%char s with
  | Some la =>
      match index_byte ">"%char s with
      | None => Err
      | Some ra =>
          if Nat.ltb ra la then Err
          else let! na := parse_name_addr (firstn (S ra) s) in
               let rest := skipn (S ra) s in
               match index_byte ";"%char rest with
               | Some pos => finish (FtName na) (skipn (S pos) rest)
               | None => finish (FtName na) []
               end
      end
  | None =>
      match index_byte ";"%char s with
      | None => let! a := parse_addr_spec s in finish (FtSpec a) []
      | Some pos => let! a := parse_addr_spec (firstn (cut pos) s) in
                    finish (FtSpec a) (skipn (S pos) s)
      end
  end.
Definition parse_fromto := parse_fromto_with (fun pos => pos).
Definition parse_fromto_legacy := parse_fromto_with S.

Definition fromto_print (f : fromto) : bytes :=
  (match ft_addr_of f with
   | FtName n => name_addr_print n
   | FtSpec a => addr_spec_print a
   end) ++ print_params ";"%char (ft_params f).

Definition fromto_addr_spec (f : fromto) : addr_spec :=
  match ft_addr_of f with FtName n => na_addr n | FtSpec a => a end.
Definition fromto_tag (f : fromto) : option bytes := kv_get (s2b "tag") (ft_params f).
(* To.GetHost *)
Definition fromto_host (f : fromto) : option bytes :=
  match fromto_addr_spec f with ASip u => Some (u_host u) | AAbs _ => None end.

(* ---- CSeq ---- *)
Record cseq := { cs_seq : Z; cs_method : bytes }.
Definition parse_cseq (s : bytes) : res cseq :=
  match fields_go s with
  | [n; m] => match atoi n with Some z => Ok {| cs_seq := z; cs_method := m |} | None => Err end
  | _ => Err
  end.
Definition cseq_print (c : cseq) : bytes := itoa (cs_seq c) ++ " "%char :: cs_method c.
