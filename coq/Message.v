(* Message.v — message.go: ParseMessage over the ABSTRACT reader (the remaining bytes; the
   bufio-level reader is Bufio.v and is proved to refine this one), the ordered header list
   with lazily decoded typed values, every getter/pop/insert the proxy uses, Write. *)
From Coq Require Import List Ascii String ZArith Bool.
From Model Require Import Bytes Uri Hdr.
Import ListNotations.
Open Scope Z_scope.

Inductive hval :=
| HRaw (s : bytes)
| HVia (l : list via_param)
| HRoute (l : list route_param)
| HRecRoute (l : list route_param)
| HFrom (f : fromto)
| HTo (f : fromto)
| HCSeq (c : cseq).
Record header := { h_name : bytes; h_val : hval }.

Inductive start_line :=
| SReq (method : bytes) (uri : addr_spec) (version : bytes)
| SResp (version : bytes) (code : Z) (reason : bytes).

Record message := { m_start : start_line; m_headers : list header; m_body : bytes }.

Definition is_request (m : message) : bool := match m_start m with SReq _ _ _ => true | _ => false end.
Definition is_response (m : message) : bool := negb (is_request m).
Definition with_headers (m : message) (hs : list header) : message :=
  {| m_start := m_start m; m_headers := hs; m_body := m_body m |}.

(* ---- compact header names (message.go init) ---- *)
Definition compact_pairs : list (string * string) :=
  [("accept-contact", "a"); ("referred-by", "b"); ("content-type", "c"); ("content-encoding", "e");
   ("from", "f"); ("call-id", "i"); ("supported", "k"); ("content-length", "l"); ("contact", "m");
   ("event", "o"); ("refer-to", "r"); ("subject", "s"); ("to", "t"); ("allow-events", "u"); ("via", "v")]%string.
Definition compact_table : list (bytes * bytes) :=
  flat_map (fun '(n, c) => [(s2b n, s2b c); (s2b c, s2b n)]) compact_pairs.
Definition get_compact (name : bytes) : option bytes := alookup (to_lower name) compact_table.

(* isSameHeader(name_1, name_2) *)
Definition same_header (n1 n2 : bytes) : bool :=
  equal_fold n1 n2 ||
  match get_compact n2 with Some c => equal_fold n1 c | None => false end.

Fixpoint find_header_pos_from (name : bytes) (hs : list header) (i : nat) : option nat :=
  match hs with
  | [] => None
  | h :: r => if same_header (h_name h) name then Some i else find_header_pos_from name r (S i)
  end.
Definition find_header_pos (name : bytes) (hs : list header) : option nat := find_header_pos_from name hs 0.

Fixpoint get_header (name : bytes) (hs : list header) : option header :=
  match hs with
  | [] => None
  | h :: r => if same_header (h_name h) name then Some h else get_header name r
  end.
Definition has_header (name : bytes) (m : message) : bool :=
  match get_header name (m_headers m) with Some _ => true | None => false end.

(* apply [f] to the value of the first header with that name *)
Fixpoint update_header (name : bytes) (f : hval -> hval) (hs : list header) : list header :=
  match hs with
  | [] => []
  | h :: r => if same_header (h_name h) name then {| h_name := h_name h; h_val := f (h_val h) |} :: r
              else h :: update_header name f r
  end.
(* RemoveHeader: the first one *)
Fixpoint remove_header (name : bytes) (hs : list header) : list header :=
  match hs with
  | [] => []
  | h :: r => if same_header (h_name h) name then r else h :: remove_header name r
  end.

Definition get_raw (name : bytes) (m : message) : res bytes :=
  match get_header name (m_headers m) with
  | Some h => match h_val h with HRaw s => Ok s | _ => Err end
  | None => Err
  end.
(* GetHeaderInt *)
Definition get_header_int (name : bytes) (m : message) : res Z :=
  let! s := get_raw name m in of_opt (atoi s).
Definition get_expires (m : message) (def : Z) : Z :=
  match get_header_int (s2b "Expires") m with Ok z => z | _ => def end.
Definition get_call_id (m : message) : res bytes := get_raw (s2b "Call-ID") m.

(* ---- lazy typed getters: return the (possibly updated) message and the decoded value ---- *)
Definition get_via (m : message) : res (message * list via_param) :=
  match get_header (s2b "Via") (m_headers m) with
  | None => Err
  | Some h =>
      match h_val h with
      | HVia l => Ok (m, l)
      | HRaw s => let! l := parse_via s in
                  Ok (with_headers m (update_header (s2b "Via") (fun _ => HVia l) (m_headers m)), l)
      | _ => Err
      end
  end.
Definition get_route (m : message) : res (message * list route_param) :=
  match get_header (s2b "Route") (m_headers m) with
  | None => Err
  | Some h =>
      match h_val h with
      | HRoute l => Ok (m, l)
      | HRaw s => let! l := parse_route s in
                  Ok (with_headers m (update_header (s2b "Route") (fun _ => HRoute l) (m_headers m)), l)
      | _ => Err
      end
  end.
Definition get_from (m : message) : res (message * fromto) :=
  match get_header (s2b "From") (m_headers m) with
  | None => Err
  | Some h =>
      match h_val h with
      | HFrom f => Ok (m, f)
      | HRaw s => let! f := parse_fromto s in
                  Ok (with_headers m (update_header (s2b "From") (fun _ => HFrom f) (m_headers m)), f)
      | _ => Err
      end
  end.
Definition get_to (m : message) : res (message * fromto) :=
  match get_header (s2b "To") (m_headers m) with
  | None => Err
  | Some h =>
      match h_val h with
      | HTo f => Ok (m, f)
      | HRaw s => let! f := parse_fromto s in
                  Ok (with_headers m (update_header (s2b "To") (fun _ => HTo f) (m_headers m)), f)
      | _ => Err
      end
  end.
(* GetCSeq: like the other typed getters it stores the decoded value in the header, so the
   header is re-encoded ("%d %s") when the message is written *)
Definition get_cseq_m (m : message) : res (message * cseq) :=
  match get_header (s2b "CSeq") (m_headers m) with
  | None => Err
  | Some h => match h_val h with
              | HCSeq c => Ok (m, c)
              | HRaw s => let! c := parse_cseq s in
                          Ok (with_headers m (update_header (s2b "CSeq") (fun _ => HCSeq c) (m_headers m)), c)
              | _ => Err
              end
  end.
Definition get_cseq (m : message) : res cseq := rmap snd (get_cseq_m m).

(* GetMethod *)
Definition get_method_m (m : message) : res (message * bytes) :=
  match m_start m with
  | SReq meth _ _ => Ok (m, meth)
  | SResp _ _ _ => let! (m1, c) := get_cseq_m m in Ok (m1, cs_method c)
  end.
Definition get_method (m : message) : res bytes := rmap snd (get_method_m m).

(* PopVia: pop one via-param, or remove the header when it held at most one *)
Definition pop_via (m : message) : res message :=
  let! (m1, l) := get_via m in
  match l with
  | _ :: (_ :: _) as rest =>
      Ok (with_headers m1 (update_header (s2b "Via") (fun _ => HVia rest) (m_headers m1)))
  | _ => Ok (with_headers m1 (remove_header (s2b "Via") (m_headers m1)))
  end.
(* PopRoute *)
Definition pop_route (m : message) : res message :=
  let! (m1, l) := get_route m in
  match l with
  | _ :: (_ :: _) as rest =>
      Ok (with_headers m1 (update_header (s2b "Route") (fun _ => HRoute rest) (m_headers m1)))
  | _ => Ok (with_headers m1 (remove_header (s2b "Route") (m_headers m1)))
  end.

(* AddVia: before the first Via header, else at position 0 *)
Definition insert_at {A} (n : nat) (x : A) (l : list A) : list A := firstn n l ++ x :: skipn n l.
Definition add_via (v : via_param) (m : message) : message :=
  let pos := match find_header_pos (s2b "Via") (m_headers m) with Some i => i | None => O end in
  with_headers m (insert_at pos {| h_name := s2b "Via"; h_val := HVia [v] |} (m_headers m)).

(* findRecordRoutePos / AddRecordRoute *)
Definition find_record_route_pos (hs : list header) : nat :=
  match find_header_pos (s2b "Record-Route") hs with
  | Some p => p
  | None =>
      match find_header_pos (s2b "From") hs, find_header_pos (s2b "Max-Forwards") hs with
      | Some p1, Some p2 => Nat.min p1 p2
      | Some p1, None => p1
      | None, Some p2 => p2
      | None, None => O
      end
  end.
Definition add_record_route (r : route_param) (m : message) : message :=
  with_headers m (insert_at (find_record_route_pos (m_headers m))
                            {| h_name := s2b "Record-Route"; h_val := HRecRoute [r] |} (m_headers m)).

(* ForEachVia: decode every Via header that parses (in place), collect all via-params *)
Fixpoint decode_all_vias (hs : list header) : list header * list via_param :=
  match hs with
  | [] => ([], [])
  | h :: r =>
      let '(r', vs) := decode_all_vias r in
      if same_header (h_name h) (s2b "Via") then
        match h_val h with
        | HVia l => (h :: r', l ++ vs)
        | HRaw s => match parse_via s with
                    | Ok l => ({| h_name := h_name h; h_val := HVia l |} :: r', l ++ vs)
                    | _ => (h :: r', vs)
                    end
        | _ => (h :: r', vs)
        end
      else (h :: r', vs)
  end.

(* SetReceived on the first via-param of the first Via header *)
Definition set_received (peer : bytes) (port : Z) (m : message) : message :=
  match get_via m with
  | Ok (m1, v :: rest) =>
      let v1 := via_set_param (s2b "received") peer v in
      let v2 := if kv_has (s2b "rport") (v_params v1) then via_set_param (s2b "rport") (itoa port) v1 else v1 in
      with_headers m1 (update_header (s2b "Via") (fun _ => HVia (v2 :: rest)) (m_headers m1))
  | Ok (m1, []) => m1
  | _ => m
  end.

Definition top_via (m : message) : res (message * via_param) :=
  let! (m1, l) := get_via m in
  match l with v :: _ => Ok (m1, v) | [] => Err end.

(* GetClientTransaction: "<CSeq method>-<top Via branch>" *)
Definition get_client_transaction (m : message) : res (message * bytes) :=
  let! (m0, c) := get_cseq_m m in
  let! (m1, v) := top_via m0 in
  let! b := of_opt (via_get_branch v) in
  Ok (m1, cs_method c ++ "-"%char :: b).

Definition is_final_response (m : message) : bool :=
  match m_start m with
  | SResp _ code _ => let c := Z.quot code 100 in (Z.leb 2 c && Z.leb c 6)%bool
  | _ => false
  end.

(* ---- dialog identifier (message.go GetDialog, dialog.go) ---- *)
Definition dialog_addr (a : addr_spec) : bytes :=
  match a with ASip u => sip_uri_print_with false false u | AAbs s => s end.

(* the two halves are ordered by the pair (address, tag) so that the result does not depend
   on which party is in From *)
Definition dialog_first (fa ft ta tt : bytes) : bool :=
  blt fa ta || (beq fa ta && blt ft tt).
Definition dialog_string (callid ft fa tt ta : bytes) : bytes :=
  let h1 := ft ++ "-"%char :: fa in
  let h2 := tt ++ "-"%char :: ta in
  if dialog_first fa ft ta tt then callid ++ "-"%char :: h1 ++ "-"%char :: h2
  else callid ++ "-"%char :: h2 ++ "-"%char :: h1.
(* the pre-fix code ordered by address only *)
Definition dialog_string_legacy (callid ft fa tt ta : bytes) : bytes :=
  let h1 := ft ++ "-"%char :: fa in
  let h2 := tt ++ "-"%char :: ta in
  if blt fa ta then callid ++ "-"%char :: h1 ++ "-"%char :: h2
  else callid ++ "-"%char :: h2 ++ "-"%char :: h1.

Definition get_dialog (m : message) : res (message * bytes) :=
  let! cid := get_call_id m in
  let! (m1, f) := get_from m in
  let! ftag := of_opt (fromto_tag f) in
  let! (m2, t) := get_to m1 in
  let! ttag := of_opt (fromto_tag t) in
  Ok (m2, dialog_string cid ftag (dialog_addr (fromto_addr_spec f)) ttag (dialog_addr (fromto_addr_spec t))).

(* ---- Write ---- *)
Definition hval_print (v : hval) : bytes :=
  match v with
  | HRaw s => s
  | HVia l => via_print l
  | HRoute l => route_print l
  | HRecRoute l => route_print l
  | HFrom f => fromto_print f
  | HTo f => fromto_print f
  | HCSeq c => cseq_print c
  end.
Definition crlf : bytes := [ascii_of_nat 13; ascii_of_nat 10].
Definition start_line_print (s : start_line) : bytes :=
  match s with
  | SReq meth uri ver => meth ++ " "%char :: addr_spec_print uri ++ " "%char :: ver
  | SResp ver code reason => ver ++ " "%char :: itoa code ++ " "%char :: reason
  end.
Definition header_print (h : header) : bytes := h_name h ++ s2b ": " ++ hval_print (h_val h) ++ crlf.
Definition write_message (m : message) : bytes :=
  start_line_print (m_start m) ++ crlf ++
  flat_map header_print (filter (fun h => negb (same_header (h_name h) (s2b "Content-Length"))) (m_headers m)) ++
  s2b "Content-Length: " ++ itoa (Z.of_nat (List.length (m_body m))) ++ crlf ++ crlf ++ m_body m.

(* ---- ParseMessage over the abstract reader ---- *)
Definition LF : ascii := ascii_of_nat 10.
Definition CR : ascii := ascii_of_nat 13.

Definition strip_cr (l : bytes) : bytes :=
  match rev l with
  | c :: r => if Ascii.eqb c CR then rev r else l
  | [] => []
  end.

(* bufio ReadLine + the continuation loop of readLine: the bytes up to the next LF (one CR
   before it dropped); a last line without LF is returned as it is; EOF = error *)
Definition read_line (s : bytes) : option (bytes * bytes) :=
  match s with
  | [] => None
  | _ => match index_byte LF s with
         | Some i => Some (strip_cr (firstn i s), skipn (S i) s)
         | None => Some (s, [])
         end
  end.

Definition parse_request_line (line : bytes) : res start_line :=
  match fields_go line with
  | [m; u; v] => let! uri := parse_addr_spec u in Ok (SReq m uri v)
  | _ => Err
  end.
Definition parse_status_line (line : bytes) : res start_line :=
  match fields_go line with
  | v :: c :: (_ :: _) as reason =>
      match atoi c with
      | Some code => Ok (SResp v code (join_byte " "%char reason))
      | None => Err
      end
  | _ => Err
  end.
Definition parse_start_line (line : bytes) : res start_line :=
  if has_prefix (s2b "SIP/") line then parse_status_line line else parse_request_line line.

Definition parse_header_line (line : bytes) : res header :=
  match index_byte ":"%char line with
  | None => Err
  | Some pos => Ok {| h_name := firstn pos line; h_val := HRaw (trim_space_go (skipn (S pos) line)) |}
  end.

(* header lines until the empty line; structurally recursive on [fuel] = number of bytes + 1
   (every line consumes at least one byte), never exhausted *)
Fixpoint parse_headers (fuel : nat) (s : bytes) (acc : list header) : res (list header * bytes) :=
  match fuel with
  | O => Err
  | S f =>
      match read_line s with
      | None => Err
      | Some ([], rest) => Ok (rev acc, rest)
      | Some (line, rest) => let! h := parse_header_line line in parse_headers f rest (h :: acc)
      end
  end.

Definition parse_message (s : bytes) : res (message * bytes) :=
  let s0 := trim_left s in                               (* skipWhiteSpace *)
  match read_line s0 with
  | None => Err
  | Some ([], _) => Err     (* cannot happen after trim_left; GetHeaderInt would fail anyway *)
  | Some (l0, rest) =>
      let! st := parse_start_line l0 in
      let! (hs, rest1) := parse_headers (S (List.length rest)) rest [] in
      let m := {| m_start := st; m_headers := hs; m_body := [] |} in
      let! cl := get_header_int (s2b "Content-Length") m in
      if Z.ltb cl 0 then Err
      else if Z.ltb (Z.of_nat (List.length rest1)) cl then Err      (* io.ReadFull: unexpected EOF *)
      else let n := Z.to_nat cl in
           Ok ({| m_start := st; m_headers := hs; m_body := firstn n rest1 |}, skipn n rest1)
  end.

(* the per-connection loop of TCPServerTransport.receiveMessage: messages until the first
   decode error (then the connection is closed); [fuel] = number of bytes + 1 *)
Fixpoint parse_stream (fuel : nat) (s : bytes) : list message :=
  match fuel with
  | O => []
  | S f => match parse_message s with
           | Ok (m, rest) => m :: parse_stream f rest
           | _ => []
           end
  end.
