(* SpecC05.v — property C05 (round-robin spreading of unpinned requests) as an EXECUTABLE
   predicate over observables only.

   The judge reads a history of pool operations, the output observed for each of them
   (on the implementation, or on the model) and the final rotation list, and says whether
   the statement of C05 holds of that observation.  It shares no code with the model
   RoundRobin.v beyond the two alphabets [rr_op] / [rr_out]: it never calls rr_step,
   rr_dispatch, rr_add, rr_remove, remove_first, ...  It keeps its own notion of "the set
   of backends registered right now" (add inserts, remove deletes) and of "the dispatches
   made since the set last changed".

   C05: "Requests not pinned to a dialog are spread over the service's current backends in
   strict rotation: between two changes of the backend set any k consecutive dispatches
   over k backends reach each backend exactly once, so after N dispatches every backend
   has received floor(N/k) or ceil(N/k).  A dispatch always goes to a backend registered
   at that moment, a removed backend receives nothing further, an added one joins the
   rotation, and with no backend registered the request is dropped without disturbing the
   proxy."
   Domain: sequences of add / remove / dispatch in which an address is never added while
   it is already present ([rr_domain]). *)
From Coq Require Import List Ascii String Bool Arith.
From Model Require Import Bytes RoundRobin.
Import ListNotations.
Open Scope list_scope.

(* ---- the registered set, tracked by the judge itself ---- *)
Definition c05_del (a : bytes) (reg : list bytes) : list bytes :=
  filter (fun x => negb (beq a x)) reg.

Definition c05_reg_step (reg : list bytes) (o : rr_op) : list bytes :=
  match o with
  | RAdd a => a :: reg
  | RRemove a => c05_del a reg
  | RDispatch => reg
  end.

Fixpoint c05_nodup (l : list bytes) : bool :=
  match l with
  | [] => true
  | x :: r => negb (mem_bytes x r) && c05_nodup r
  end.

(* [l] has no repetition and is a rearrangement of [reg] *)
Definition c05_perm (l reg : list bytes) : bool :=
  c05_nodup l && Nat.eqb (List.length l) (List.length reg)
  && forallb (fun x => mem_bytes x reg) l.

Definition c05_is_empty (l : list bytes) : bool :=
  match l with [] => true | _ => false end.

(* One dispatch that returned [b], judged against the registered set [reg] (k = |reg|) and
   [run] = the backends returned by the preceding dispatches since the set last changed,
   most recent first.
     - b is registered                                                        (a)
     - b differs from the k-1 dispatches before it: every window of k
       consecutive dispatches of the run hits k different backends            (b)
     - the dispatch k places earlier, when there is one, went to b as well    (b') *)
Definition c05_dispatch_ok (reg run : list bytes) (b : bytes) : bool :=
  let k := List.length reg in
  mem_bytes b reg
  && negb (mem_bytes b (firstn (k - 1) run))
  && match nth_opt run (k - 1) with
     | Some b' => beq b b'
     | None => true
     end.

Fixpoint c05_judge (reg run : list bytes) (ops : list rr_op) (outs : list rr_out)
                   (final : list bytes) : bool :=
  match ops, outs with
  | [], [] => c05_perm final reg                                               (* (d) *)
  | RAdd a :: ops', OAdded :: outs' =>
      c05_judge (c05_reg_step reg (RAdd a)) [] ops' outs' final
  | RRemove a :: ops', ORemoved closed :: outs' =>
      Bool.eqb closed (mem_bytes a reg)                                        (* (c) *)
      && c05_judge (c05_reg_step reg (RRemove a)) [] ops' outs' final
  | RDispatch :: ops', OSent None :: outs' =>
      c05_is_empty reg                                                         (* (a) *)
      && c05_judge reg run ops' outs' final
  | RDispatch :: ops', OSent (Some b) :: outs' =>
      c05_dispatch_ok reg run b                                                (* (a) (b) *)
      && c05_judge reg (b :: run) ops' outs' final
  | _, _ => false                                                              (* (e) *)
  end.

Definition judge_C05 (ops : list rr_op) (outs : list rr_out) (final : list bytes) : bool :=
  c05_judge [] [] ops outs final.

(* ---- the domain of the property: no address is added while it is present ---- *)
Fixpoint c05_domain (reg : list bytes) (ops : list rr_op) : bool :=
  match ops with
  | [] => true
  | o :: r =>
      match o with
      | RAdd a => negb (mem_bytes a reg)
      | _ => true
      end && c05_domain (c05_reg_step reg o) r
  end.

Definition rr_domain (ops : list rr_op) : bool := c05_domain [] ops.
