(* Pins.v — backend.go: DialogBasedBackend (dialog/transaction -> backend, with expiry).
   Time is explicit: every operation carries [now] (nanoseconds, non-decreasing along a
   history).  Go reads the clock up to three times inside AddBackend; the model uses one
   instant per call (DESIGN, C15 caveat). *)
From Coq Require Import List Ascii String ZArith Bool.
From Model Require Import Bytes.
Import ListNotations.
Open Scope Z_scope.

Definition second : Z := 1000000000.
Definition two63 : Z := 9223372036854775808.
(* int64 wrap-around of Go's Duration arithmetic *)
Definition wrap64 (z : Z) : Z := (z + two63) mod (2 * two63) - two63.

Record pin := { pin_backend : bytes; pin_expire : Z }.
Record pins := { p_timeout : Z;                 (* ns *)
                 p_tab : list (bytes * pin);
                 p_next_clean : Z }.

(* NewDialogBasedBackend(timeoutSeconds) at time [now] *)
Definition pins_new (timeout_s now : Z) : pins :=
  let t := wrap64 (timeout_s * second) in
  {| p_timeout := t; p_tab := []; p_next_clean := now + t |}.

(* cleanExpiredDialog *)
Definition pins_clean (now : Z) (tab : list (bytes * pin)) : list (bytes * pin) :=
  filter (fun kv => negb (Z.ltb (pin_expire (snd kv)) now)) tab.

(* GetBackend: honoured only strictly before expiry; an expired entry is deleted *)
Definition pins_get (now : Z) (k : bytes) (p : pins) : pins * option bytes :=
  match alookup k (p_tab p) with
  | Some e =>
      if Z.ltb now (pin_expire e) then (p, Some (pin_backend e))
      else ({| p_timeout := p_timeout p; p_tab := adel k (p_tab p); p_next_clean := p_next_clean p |}, None)
  | None => (p, None)
  end.

(* the lifetime AddBackend uses: float64(expireSeconds) > timeout.Seconds() *)
Definition pins_lifetime (p : pins) (expire_s : Z) : Z :=
  if Z.ltb (p_timeout p) (expire_s * second) then wrap64 (expire_s * second) else p_timeout p.

(* AddBackend after the fix: the next sweep is due one timeout from now *)
Definition pins_add (now : Z) (k b : bytes) (expire_s : Z) (p : pins) : pins :=
  let e := now + pins_lifetime p expire_s in
  let tab := aset k {| pin_backend := b; pin_expire := e |} (p_tab p) in
  if Z.ltb (p_next_clean p) now
  then {| p_timeout := p_timeout p; p_tab := pins_clean now tab; p_next_clean := now + p_timeout p |}
  else {| p_timeout := p_timeout p; p_tab := tab; p_next_clean := p_next_clean p |}.

(* the pre-fix code: nextCleanTime = expire of the entry just added *)
Definition pins_add_legacy (now : Z) (k b : bytes) (expire_s : Z) (p : pins) : pins :=
  let e := now + pins_lifetime p expire_s in
  let tab := aset k {| pin_backend := b; pin_expire := e |} (p_tab p) in
  if Z.ltb (p_next_clean p) now
  then {| p_timeout := p_timeout p; p_tab := pins_clean now tab; p_next_clean := e |}
  else {| p_timeout := p_timeout p; p_tab := tab; p_next_clean := p_next_clean p |}.

Definition pins_remove (k : bytes) (p : pins) : pins :=
  {| p_timeout := p_timeout p; p_tab := adel k (p_tab p); p_next_clean := p_next_clean p |}.

Inductive pin_op :=
| PAdd (k b : bytes) (expire_s : Z)
| PGet (k : bytes)
| PRemove (k : bytes)
| PAdvance (dt : Z).               (* time passes: dt >= 0 ns *)

Inductive pin_out := PNone | PGot (b : option bytes).

(* state = (now, table) *)
Definition pins_step (st : Z * pins) (o : pin_op) : (Z * pins) * pin_out :=
  let '(now, p) := st in
  match o with
  | PAdd k b e => ((now, pins_add now k b e p), PNone)
  | PGet k => let '(p', r) := pins_get now k p in ((now, p'), PGot r)
  | PRemove k => ((now, pins_remove k p), PNone)
  | PAdvance dt => ((now + Z.max 0 dt, p), PNone)
  end.

Fixpoint pins_run (st : Z * pins) (ops : list pin_op) : (Z * pins) * list (pin_out * nat) :=
  match ops with
  | [] => (st, [])
  | o :: r => let '(st1, x) := pins_step st o in
              let '(st2, xs) := pins_run st1 r in
              (st2, (x, List.length (p_tab (snd st1))) :: xs)
  end.
