(* RunProxyTB.v — the "proxytb" correspondence component: whole-proxy cases whose backends are reached over TCP
   (ProxyTB.proxy_step_tb), and the judges applied to what the real proxy did in them.

   Two event kinds are added to RunProxy's: "bdata ip port bytes" = bytes arriving on the connection the proxy has
   open TO the peer ip:port (the most recent one it dialled there that is still open), "bclose ip port" = that peer
   closes it.  Which backend the rotation picks is the proxy's business, so a generated case cannot name such a
   connection by number; when there is none the event does nothing (model and driver alike).

   The judges are the ones of SpecProxy / SpecProxy2, unchanged: the events are resolved to connection numbers with the
   judge's OWN bookkeeping (jstate), and - for the judges that look at WHICH backend got a request - what was written
   on a connection to a current TCP backend is presented under the label of that backend's address. *)
From Coq Require Import List Ascii String ZArith Bool.
From Model Require Import Bytes Wire Uri Hdr Message Msg Proxy RunProxy ProxyTB SpecProxy SpecProxy2.
Import ListNotations.
Open Scope Z_scope.

Inductive tevent := TE (ev : event) | TBData (ip : bytes) (port : Z) (data : bytes) | TBClose (ip : bytes) (port : Z).
Definition d_tevent : dec tevent :=
  fun l => match l with
           | k :: r =>
               if beq k (s2b "bdata") then
                 (dlet ip := d_bytes in dlet port := d_int in dlet data := d_bytes in d_ret (TBData ip port data)) r
               else if beq k (s2b "bclose") then (dlet ip := d_bytes in dlet port := d_int in d_ret (TBClose ip port)) r
               else (dlet ev := d_event in d_ret (TE ev)) l
           | [] => None
           end.
Record tb_case := { tc_pc : proxy_case; tc_events : list tevent; tc_tb : list bool }.
Definition d_tcpb : dec (list bool) :=
  fun l => match l with
           | t :: r => if beq t (s2b "tcpb") then d_list d_bool r else None
           | [] => None
           end.
(* as RunProxy.d_proxy_case; after the events (and the optional waits): "tcpb" n {flag per listen entry} *)
Definition d_tb_case : dec tb_case :=
  dlet c := d_cfg in
  dlet _ := d_bytes in dlet _ := d_list d_bytes in
  dlet tl := d_list (d_pair d_bytes d_int) in
  dlet ue := d_list (d_pair d_bytes d_int) in
  dlet evs := d_list d_tevent in
  dlet ws := d_waits in
  dlet tb := d_tcpb in
  d_ret {| tc_pc := {| pc_cfg := c; pc_tcp_listeners := tl; pc_udp_endpoints := ue; pc_events := []; pc_waits := ws |};
           tc_events := evs; tc_tb := tb |}.

(* ------------------------------------------------------------------ the model side *)
Definition is_dialled (c : conn) : bool := match t_kind (cn_from c) with KTcpConn => true | _ => false end.
Definition dialled_to (cs : list conn) (ip : bytes) (port : Z) : option nat :=
  fold_left (fun acc c => if (cn_open c && is_dialled c && beq (cn_peer c) ip && Z.eqb (cn_peer_port c) port)%bool
                          then Some (cn_id c) else acc) cs None.
Definition resolve (st : state) (te : tevent) : option event :=
  match te with
  | TE ev => Some ev
  | TBData ip port data => option_map (fun c => EvTcpData c data) (dialled_to (st_conns st) ip port)
  | TBClose ip port => option_map EvTcpClose (dialled_to (st_conns st) ip port)
  end.

Fixpoint run_events_tb (tb : list bool) (c : cfg) (ue : list (bytes * Z)) (ws : list (nat * Z)) (e : nat)
         (st : state) (cache : bcache) (evs : list tevent) : list bytes :=
  match evs with
  | [] => []
  | te :: r =>
      match resolve st te with
      | None => e_list e_output [] ++ e_list (fun n => [e_nat n]) [] ++ run_events_tb tb c ue ws (S e) st cache r
      | Some ev =>
          match proxy_step_tb tb current_fixes c (time_of ws e) (branch_of e) st cache ev with
          | Ok (st', cache', outs) =>
              e_list e_output (filter (visible ue) outs)
              ++ e_list (fun n => [e_nat n]) (closed_by_proxy ev (st_conns st) (st_conns st'))
              ++ run_events_tb tb c ue ws (S e) st' cache' r
          | Err => [s2b "err"]
          | Panic => [s2b "panic"]
          end
      end
  end.

Definition run_proxytb (args : list bytes) : list bytes :=
  match run_dec d_tb_case args with
  | Some tc =>
      let pc := tc_pc tc in
      run_events_tb (tc_tb tc) (pc_cfg pc) (pc_udp_endpoints pc) (pc_waits pc) 0
                    (init_state (pc_cfg pc) 0 (pc_tcp_listeners pc)) [] (tc_events tc)
  | None => [s2b "decode-error"]
  end.

(* ------------------------------------------------------------------ the judge side *)
Definition j_conn_to (st : jstate) (ip : bytes) (port : Z) : option nat :=
  fold_left (fun acc x => let '(id, (_, i, p)) := x in if (beq i ip && Z.eqb p port)%bool then Some id else acc) (js_conns st) None.
(* an event that names nothing: a close of a connection that never existed (keeps the numbering of the events) *)
Definition j_noop (st : jstate) : event := EvTcpClose (js_next_conn st + 1000000)%nat.
Definition j_resolve (st : jstate) (te : tevent) : event :=
  match te with
  | TE ev => ev
  | TBData ip port data => match j_conn_to st ip port with Some c => EvTcpData c data | None => j_noop st end
  | TBClose ip port => match j_conn_to st ip port with Some c => EvTcpClose c | None => j_noop st end
  end.
Definition j_ev_li (st : jstate) (ev : event) : nat :=
  match ev with
  | EvUdp li _ _ _ => li
  | EvTcpData c _ => match find (fun x => Nat.eqb (fst x) c) (js_conns st) with Some (_, (li, _, _)) => unmark li | None => O end
  | _ => O
  end.
(* bytes written on a connection to a current backend of a TCP listen entry, shown under that backend's address *)
Definition relabel (tb : list bool) (st : jstate) (li : nat) (outs : list (bytes * bytes)) : list (bytes * bytes) :=
  let cs := js_conns st ++ dialled li outs in
  map (fun o =>
         if is_conn_label (fst o) then
           match atoi (skipn 5 (fst o)) with
           | Some id =>
               match find (fun x => Nat.eqb (fst x) (Z.to_nat id)) cs with
               | Some (_, (mli, ip, port)) =>
                   let cli := unmark mli in      (* the record of a dialled connection carries the mark (SpecProxy.dial_mark) *)
                   let a := ip ++ ":"%char :: itoa port in
                   if (is_tb tb cli && mem_bytes a (match nth_opt (js_backends st) cli with Some l => l | None => [] end))%bool
                   then (udp_label ip port, snd o) else o
               | None => o
               end
           | None => o
           end
         else o) outs.
(* ... except for a request the PROPERTY routes to an explicit next hop (the judge's own reading of the precedence: a
   Route entry or a static route): when that hop happens to be a backend's address, what is written there is bytes on
   a connection like for any other TCP next hop, not a delivery "to a backend" *)
Definition to_the_service (c : cfg) (st : jstate) (ev : event) : bool :=
  match j_input st ev with
  | Some i =>
      match j_read (ji_data i), nth_opt (c_listens c) (ji_li i) with
      | Some m, Some lc =>
          match j_request m with
          | Some q => match j_choose_d (ji_dialled st i) c lc (ji_tcp i) q with HHop _ => false | _ => true end
          | None => true
          end
      | _, _ => true
      end
  | None => true
  end.
Fixpoint tb_prepare (c : cfg) (tb : list bool) (relab : bool) (st : jstate) (tes : list tevent)
         (obs : list (list (bytes * bytes) * list nat)) : list event * list (list (bytes * bytes) * list nat) :=
  match tes, obs with
  | te :: tr, (outs, closed) :: or_ =>
      let ev := j_resolve st te in
      let outs' := if (relab && to_the_service c st ev)%bool then relabel tb st (j_ev_li st ev) outs else outs in
      let '(evs, os) := tb_prepare c tb relab (js_step_c st ev outs closed) tr or_ in
      (ev :: evs, (outs', closed) :: os)
  | _, _ => ([], [])
  end.

Definition with_events (pc : proxy_case) (evs : list event) : proxy_case :=
  {| pc_cfg := pc_cfg pc; pc_tcp_listeners := pc_tcp_listeners pc; pc_udp_endpoints := pc_udp_endpoints pc;
     pc_events := evs; pc_waits := pc_waits pc |}.

Definition judge_tb (relab : bool)
           (run : proxy_case -> list event -> list (list (bytes * bytes) * list nat) -> option (nat * nat))
           (args : list bytes) : list bytes :=
  match d_tb_case args with
  | Some (tc, obs) =>
      match run_dec (d_rep d_obs_event (List.length (tc_events tc))) obs with
      | Some o =>
          let '(evs, os) := tb_prepare (pc_cfg (tc_pc tc)) (tc_tb tc) relab (js_init (pc_cfg (tc_pc tc))) (tc_events tc) o in
          match run (with_events (tc_pc tc) evs) evs os with
          | None => [s2b "ok"]
          | Some (e, why) => [s2b "bad"; e_nat e; e_nat why]
          end
      | None => [s2b "decode-error"]
      end
  | None => [s2b "decode-error"]
  end.
Definition judge_tb_with (relab : bool) (f : proxy_case -> jstate -> event -> list (bytes * bytes) -> list nat -> nat) : list bytes -> list bytes :=
  judge_tb relab (fun pc evs os => j_run f pc (js_init (pc_cfg pc)) evs os).
Definition judge_tb_hist : list bytes -> list bytes :=
  judge_tb true (fun pc evs os => j04_run pc (js_init (pc_cfg pc)) [] None evs os).
(* C12: a request a backend sends on its connection is a request received over TCP like any other *)
Definition judge_tb_hist12 : list bytes -> list bytes :=
  judge_tb false (fun pc evs os => j12_run pc (js_init (pc_cfg pc)) [] [] evs os).
