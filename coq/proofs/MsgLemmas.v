(* proofs/MsgLemmas.v — general facts about the header list of Message.v and the state-passing
   getters of Msg.v, shared by the whole-proxy proofs (C01, ...):

     - get_header / update_header / remove_header / insert_at / same_header,
     - the NON-ROUTING VIEW of a message ([view]): start line text, the (name, printed value)
       list of every header that is not Via / Route / Record-Route / Content-Length, body,
     - [stable]: raw From / To / CSeq values re-encode to themselves when decoded,
     - [preserves x]: the M-computation [x] keeps [stable] and [view]; closure under
       mret / mbind / mtry / mlift / mmodify, and one frame lemma per getter of Msg.v.

   No axioms, no admits. *)
From Coq Require Import List Ascii String ZArith Bool Lia.
From Model Require Import Bytes BytesLemmas Uri Hdr Message Msg.
Import ListNotations.
Open Scope list_scope.

#[local] Arguments same_header : simpl never.
#[local] Arguments s2b : simpl never.

(* ================================================================== 1. header list *)

Lemma get_header_in name hs h :
  get_header name hs = Some h -> In h hs /\ same_header (h_name h) name = true.
Proof.
  induction hs as [|a r IH]; simpl; intros H; [discriminate|].
  destruct (same_header (h_name a) name) eqn:E.
  - inversion H; subst. split; [left; reflexivity|exact E].
  - destruct (IH H) as [I S]. split; [right; exact I|exact S].
Qed.

Lemma get_header_none name hs :
  get_header name hs = None <-> Forall (fun h => same_header (h_name h) name = false) hs.
Proof.
  induction hs as [|a r IH]; simpl.
  - split; intros; [constructor|reflexivity].
  - destruct (same_header (h_name a) name) eqn:E.
    + split; intros H; [discriminate|]. inversion H; subst. congruence.
    + rewrite IH. split; intros H; [constructor; assumption|inversion H; assumption].
Qed.

Lemma update_header_none name f hs : get_header name hs = None -> update_header name f hs = hs.
Proof.
  induction hs as [|a r IH]; simpl; intros H; [reflexivity|].
  destruct (same_header (h_name a) name); [discriminate|]. rewrite IH by exact H. reflexivity.
Qed.

Lemma remove_header_none name hs : get_header name hs = None -> remove_header name hs = hs.
Proof.
  induction hs as [|a r IH]; simpl; intros H; [reflexivity|].
  destruct (same_header (h_name a) name); [discriminate|]. rewrite IH by exact H. reflexivity.
Qed.

(* the first header with that name splits the list; update / remove act exactly there *)
Lemma get_header_split name hs h :
  get_header name hs = Some h ->
  exists l1 l2, hs = l1 ++ h :: l2 /\
                Forall (fun x => same_header (h_name x) name = false) l1 /\
                same_header (h_name h) name = true /\
                (forall f, update_header name f hs = l1 ++ {| h_name := h_name h; h_val := f (h_val h) |} :: l2) /\
                remove_header name hs = l1 ++ l2.
Proof.
  induction hs as [|a r IH]; simpl; intros H; [discriminate|].
  destruct (same_header (h_name a) name) eqn:E.
  - inversion H; subst. exists [], r. repeat split; auto.
  - destruct (IH H) as (l1 & l2 & E1 & F & S & U & R).
    exists (a :: l1), l2. subst r. repeat split; auto.
    + intros f. simpl. rewrite U. reflexivity.
    + simpl. rewrite R. reflexivity.
Qed.

Lemma update_header_names name f hs : map h_name (update_header name f hs) = map h_name hs.
Proof.
  induction hs as [|a r IH]; simpl; [reflexivity|].
  destruct (same_header (h_name a) name); simpl; [reflexivity|rewrite IH; reflexivity].
Qed.

Lemma update_header_length name f hs : List.length (update_header name f hs) = List.length hs.
Proof. rewrite <- (map_length h_name), update_header_names, map_length. reflexivity. Qed.

Lemma get_header_update name f hs :
  get_header name (update_header name f hs) =
  match get_header name hs with
  | Some h => Some {| h_name := h_name h; h_val := f (h_val h) |}
  | None => None
  end.
Proof.
  induction hs as [|a r IH]; simpl; [reflexivity|].
  destruct (same_header (h_name a) name) eqn:E; simpl; rewrite E; [reflexivity|exact IH].
Qed.

Lemma get_header_update_other name name' f hs :
  (forall n, same_header n name = true -> same_header n name' = false) ->
  get_header name' (update_header name f hs) = get_header name' hs.
Proof.
  intros D. induction hs as [|a r IH]; simpl; [reflexivity|].
  destruct (same_header (h_name a) name) eqn:E; simpl.
  - rewrite (D _ E). reflexivity.
  - rewrite IH. reflexivity.
Qed.

Lemma in_update_header name f hs x :
  In x (update_header name f hs) ->
  In x hs \/ exists h, get_header name hs = Some h /\ x = {| h_name := h_name h; h_val := f (h_val h) |}.
Proof.
  induction hs as [|a r IH]; simpl; intros H; [contradiction|].
  destruct (same_header (h_name a) name) eqn:E.
  - destruct H as [H|H]; [right; exists a; auto|left; right; exact H].
  - destruct H as [H|H]; [left; left; exact H|].
    destruct (IH H) as [I|I]; [left; right; exact I|right; exact I].
Qed.

Lemma in_remove_header name hs x : In x (remove_header name hs) -> In x hs.
Proof.
  induction hs as [|a r IH]; simpl; intros H; [contradiction|].
  destruct (same_header (h_name a) name); [right; exact H|].
  destruct H as [H|H]; [left; exact H|right; exact (IH H)].
Qed.

Lemma in_insert_at {A} n (x y : A) l : In y (insert_at n x l) <-> y = x \/ In y l.
Proof.
  unfold insert_at. rewrite in_app_iff. simpl. rewrite <- (firstn_skipn n l) at 3. rewrite in_app_iff.
  split; intros H; intuition auto.
Qed.

Lemma insert_at_length {A} n (x : A) l : List.length (insert_at n x l) = S (List.length l).
Proof.
  unfold insert_at. rewrite app_length. simpl. rewrite <- plus_n_Sm, <- app_length, firstn_skipn. reflexivity.
Qed.

(* ================================================================== 2. the non-routing view *)

(* argument order of the model's own look-ups: same_header <name in the message> <name asked for> *)
Definition routing_name (n : bytes) : bool :=
  same_header n (s2b "Via") || same_header n (s2b "Route") ||
  same_header n (s2b "Record-Route") || same_header n (s2b "Content-Length").

Definition view (m : message) : bytes * list (bytes * bytes) * bytes :=
  (start_line_print (m_start m),
   map (fun h => (h_name h, hval_print (h_val h)))
       (filter (fun h => negb (routing_name (h_name h))) (m_headers m)),
   m_body m).

(* the header component, on lists *)
Definition view_hs (hs : list header) : list (bytes * bytes) :=
  map (fun h => (h_name h, hval_print (h_val h))) (filter (fun h => negb (routing_name (h_name h))) hs).

Lemma view_eq m : view m = (start_line_print (m_start m), view_hs (m_headers m), m_body m).
Proof. reflexivity. Qed.
Lemma view_with_headers m hs :
  view (with_headers m hs) = (start_line_print (m_start m), view_hs hs, m_body m).
Proof. reflexivity. Qed.
Lemma view_with_headers_eq m hs : view_hs hs = view_hs (m_headers m) -> view (with_headers m hs) = view m.
Proof. intros H. rewrite view_with_headers, H. reflexivity. Qed.

Lemma routing_via n : same_header n (s2b "Via") = true -> routing_name n = true.
Proof. unfold routing_name. intros ->. reflexivity. Qed.
Lemma routing_route n : same_header n (s2b "Route") = true -> routing_name n = true.
Proof. unfold routing_name. intros ->. rewrite orb_true_r. reflexivity. Qed.
Lemma routing_record_route n : same_header n (s2b "Record-Route") = true -> routing_name n = true.
Proof. unfold routing_name. intros ->. rewrite !orb_true_r. reflexivity. Qed.
Lemma routing_content_length n : same_header n (s2b "Content-Length") = true -> routing_name n = true.
Proof. unfold routing_name. intros ->. rewrite !orb_true_r. reflexivity. Qed.

Lemma view_hs_nil : view_hs [] = [].
Proof. reflexivity. Qed.
Lemma view_hs_cons h hs :
  view_hs (h :: hs) = if routing_name (h_name h) then view_hs hs
                      else (h_name h, hval_print (h_val h)) :: view_hs hs.
Proof. unfold view_hs. simpl. destruct (routing_name (h_name h)); reflexivity. Qed.
Lemma view_hs_app l1 l2 : view_hs (l1 ++ l2) = view_hs l1 ++ view_hs l2.
Proof. unfold view_hs. rewrite filter_app, map_app. reflexivity. Qed.

(* update: the touched header is a routing header, or its printed value does not change *)
Lemma view_hs_update name f hs :
  (forall h, get_header name hs = Some h ->
             routing_name (h_name h) = true \/ hval_print (f (h_val h)) = hval_print (h_val h)) ->
  view_hs (update_header name f hs) = view_hs hs.
Proof.
  intros H. destruct (get_header name hs) as [h|] eqn:G.
  - destruct (get_header_split _ _ _ G) as (l1 & l2 & E & _ & _ & U & _).
    rewrite U, E, !view_hs_app, !view_hs_cons. simpl.
    destruct (H h eq_refl) as [R|P]; [rewrite R; reflexivity|rewrite P; reflexivity].
  - rewrite update_header_none by exact G. reflexivity.
Qed.

Lemma view_hs_remove name hs :
  (forall h, get_header name hs = Some h -> routing_name (h_name h) = true) ->
  view_hs (remove_header name hs) = view_hs hs.
Proof.
  intros H. destruct (get_header name hs) as [h|] eqn:G.
  - destruct (get_header_split _ _ _ G) as (l1 & l2 & E & _ & _ & _ & R).
    rewrite R, E, !view_hs_app, view_hs_cons, (H h eq_refl). reflexivity.
  - rewrite remove_header_none by exact G. reflexivity.
Qed.

Lemma view_hs_insert n h hs : routing_name (h_name h) = true -> view_hs (insert_at n h hs) = view_hs hs.
Proof.
  intros R. unfold insert_at. rewrite view_hs_app, view_hs_cons, R, <- view_hs_app, firstn_skipn. reflexivity.
Qed.

(* ================================================================== 3. stable *)

(* a raw From / To / CSeq value that the proxy may decode is re-encoded to the same bytes *)
Definition stable_h (h : header) : Prop :=
  match h_val h with
  | HRaw s =>
      ((same_header (h_name h) (s2b "From") = true \/ same_header (h_name h) (s2b "To") = true) ->
       forall f, parse_fromto s = Ok f -> fromto_print f = s) /\
      (same_header (h_name h) (s2b "CSeq") = true ->
       forall c, parse_cseq s = Ok c -> cseq_print c = s)
  | _ => True
  end.
Definition stable_hs (hs : list header) : Prop := Forall stable_h hs.
Definition stable (m : message) : Prop := stable_hs (m_headers m).

Definition typed (v : hval) : bool := match v with HRaw _ => false | _ => true end.
Lemma stable_h_typed n v : typed v = true -> stable_h {| h_name := n; h_val := v |}.
Proof. unfold stable_h. simpl. destruct v; simpl; intros H; try exact I. discriminate. Qed.

(* the reading of [stable] asked for in the property: every header *)
Lemma stable_spec m :
  stable m <->
  forall h s, In h (m_headers m) -> h_val h = HRaw s ->
    ((same_header (h_name h) (s2b "From") = true \/ same_header (h_name h) (s2b "To") = true) ->
     forall f, parse_fromto s = Ok f -> fromto_print f = s) /\
    (same_header (h_name h) (s2b "CSeq") = true -> forall c, parse_cseq s = Ok c -> cseq_print c = s).
Proof.
  unfold stable, stable_hs. rewrite Forall_forall. split.
  - intros H h s I V. specialize (H h I). unfold stable_h in H. rewrite V in H. exact H.
  - intros H h Hin. unfold stable_h. destruct (h_val h) eqn:V; try exact I. exact (H h s Hin V).
Qed.

Lemma stable_hs_update name f hs :
  stable_hs hs ->
  (forall h, get_header name hs = Some h -> stable_h {| h_name := h_name h; h_val := f (h_val h) |}) ->
  stable_hs (update_header name f hs).
Proof.
  unfold stable_hs. rewrite !Forall_forall. intros S H x I.
  destruct (in_update_header _ _ _ _ I) as [J|(h & G & ->)]; [exact (S x J)|exact (H h G)].
Qed.

Lemma stable_hs_remove name hs : stable_hs hs -> stable_hs (remove_header name hs).
Proof.
  unfold stable_hs. rewrite !Forall_forall. intros S x I. exact (S x (in_remove_header _ _ _ I)).
Qed.

Lemma stable_hs_insert n h hs : stable_h h -> stable_hs hs -> stable_hs (insert_at n h hs).
Proof.
  unfold stable_hs. rewrite !Forall_forall. intros Sh S x I. apply in_insert_at in I.
  destruct I as [->|I]; [exact Sh|exact (S x I)].
Qed.

(* ================================================================== 4. frames *)

(* a function on header lists that keeps stable and the view *)
Definition hs_frame (g : list header -> list header) : Prop :=
  forall hs, stable_hs hs -> stable_hs (g hs) /\ view_hs (g hs) = view_hs hs.
(* a function on messages that does *)
Definition frame_f (f : message -> message) : Prop :=
  forall m, stable m -> stable (f m) /\ view (f m) = view m.
(* an M-computation that does *)
Definition preserves {A} (x : M A) : Prop :=
  forall m, stable m -> let '(m', _) := x m in stable m' /\ view m' = view m.

Lemma preserves_run {A} (x : M A) m m' r :
  preserves x -> stable m -> x m = (m', r) -> stable m' /\ view m' = view m.
Proof. intros P S E. specialize (P m S). rewrite E in P. exact P. Qed.

Lemma frame_f_with_headers g : hs_frame g -> frame_f (fun m => with_headers m (g (m_headers m))).
Proof.
  intros H m S. destruct (H (m_headers m) S) as [S' V]. split; [exact S'|].
  apply view_with_headers_eq. exact V.
Qed.

Lemma frame_f_id : frame_f (fun m => m).
Proof. intros m S. split; [exact S|reflexivity]. Qed.
Lemma frame_f_comp f g : frame_f f -> frame_f g -> frame_f (fun m => g (f m)).
Proof.
  intros F G m S. destruct (F m S) as [S1 V1]. destruct (G (f m) S1) as [S2 V2].
  split; [exact S2|congruence].
Qed.

Lemma hs_frame_update_routing name v :
  typed v = true -> (forall n, same_header n name = true -> routing_name n = true) ->
  hs_frame (update_header name (fun _ => v)).
Proof.
  intros T R hs S. split.
  - apply stable_hs_update; [exact S|]. intros h _. apply stable_h_typed. exact T.
  - apply view_hs_update. intros h G. left. apply R. exact (proj2 (get_header_in _ _ _ G)).
Qed.

Lemma hs_frame_remove_routing name :
  (forall n, same_header n name = true -> routing_name n = true) -> hs_frame (remove_header name).
Proof.
  intros R hs S. split; [apply stable_hs_remove; exact S|].
  apply view_hs_remove. intros h G. apply R. exact (proj2 (get_header_in _ _ _ G)).
Qed.

Lemma hs_frame_insert_routing (pos : list header -> nat) h :
  typed (h_val h) = true -> routing_name (h_name h) = true ->
  hs_frame (fun hs => insert_at (pos hs) h hs).
Proof.
  intros T R hs S. split.
  - apply stable_hs_insert; [|exact S]. destruct h as [n v]. apply stable_h_typed. exact T.
  - apply view_hs_insert. exact R.
Qed.

(* ---- closure of [preserves] ---- *)
Lemma preserves_mret {A} (a : A) : preserves (mret a).
Proof. intros m S. simpl. split; [exact S|reflexivity]. Qed.
Lemma preserves_merr {A} : preserves (@merr A).
Proof. intros m S. simpl. split; [exact S|reflexivity]. Qed.
Lemma preserves_mpanic {A} : preserves (@mpanic A).
Proof. intros m S. simpl. split; [exact S|reflexivity]. Qed.
Lemma preserves_mlift {A} (r : res A) : preserves (mlift r).
Proof. intros m S. simpl. split; [exact S|reflexivity]. Qed.
Lemma preserves_mget : preserves mget.
Proof. intros m S. simpl. split; [exact S|reflexivity]. Qed.
(* any computation that only reads the message *)
Lemma preserves_read {A} (g : message -> res A) : preserves (fun m => (m, g m)).
Proof. intros m S. split; [exact S|reflexivity]. Qed.
Lemma preserves_mmodify f : frame_f f -> preserves (mmodify f).
Proof. intros F m S. simpl. exact (F m S). Qed.
Lemma preserves_mbind {A B} (x : M A) (f : A -> M B) :
  preserves x -> (forall a, preserves (f a)) -> preserves (mbind x f).
Proof.
  intros Px Pf m S. unfold mbind. specialize (Px m S). destruct (x m) as [m1 r].
  destruct Px as [S1 V1]. destruct r as [a| |]; [|split; assumption|split; assumption].
  specialize (Pf a m1 S1). destruct (f a m1) as [m2 r2]. destruct Pf as [S2 V2].
  split; [exact S2|congruence].
Qed.
Lemma preserves_mtry {A} (x : M A) : preserves x -> preserves (mtry x).
Proof.
  intros Px m S. unfold mtry. specialize (Px m S). destruct (x m) as [m1 r].
  destruct r; exact Px.
Qed.
(* case analysis on the message itself *)
Lemma preserves_ext {A} (x y : M A) : (forall m, x m = y m) -> preserves y -> preserves x.
Proof. intros E P m S. rewrite E. exact (P m S). Qed.

Lemma frame_f_fst {A} (x : M A) : preserves x -> frame_f (fun m => fst (x m)).
Proof. intros P m S. specialize (P m S). destruct (x m) as [m' r]. exact P. Qed.

(* ---- set_val ---- *)
Lemma frame_set_val_routing name v :
  typed v = true -> (forall n, same_header n name = true -> routing_name n = true) ->
  frame_f (set_val name v).
Proof.
  intros T R. exact (frame_f_with_headers _ (hs_frame_update_routing name v T R)).
Qed.

(* ---- the generic lazy getter ----
   the decoded value is stored in place; either the header is a routing header, or (on a stable
   message) the stored value prints to the raw text it was decoded from *)
Lemma preserves_typed_get {A} name (proj : hval -> option A) parse inj :
  (forall a, typed (inj a) = true) ->
  (forall h s a, stable_h h -> same_header (h_name h) name = true -> h_val h = HRaw s -> parse s = Ok a ->
                 routing_name (h_name h) = true \/ hval_print (inj a) = s) ->
  preserves (typed_get name proj parse inj).
Proof.
  intros T K m S. unfold typed_get.
  destruct (get_header name (m_headers m)) as [h|] eqn:G; [|split; [exact S|reflexivity]].
  destruct (proj (h_val h)); [split; [exact S|reflexivity]|].
  destruct (h_val h) as [s| | | | | |] eqn:V; try (split; [exact S|reflexivity]).
  destruct (parse s) as [a| |] eqn:P; try (split; [exact S|reflexivity]).
  destruct (get_header_in _ _ _ G) as [I N].
  assert (Sh : stable_h h) by (unfold stable, stable_hs in S; rewrite Forall_forall in S; exact (S h I)).
  split.
  - unfold set_val, stable. simpl. apply stable_hs_update; [exact S|].
    intros h0 _. apply stable_h_typed, T.
  - unfold set_val. apply view_with_headers_eq. apply view_hs_update.
    intros h0 G0. rewrite G in G0. inversion G0; subst h0. rewrite V. simpl.
    exact (K h s a Sh N V P).
Qed.

Lemma preserves_s_get_via : preserves s_get_via.
Proof.
  apply preserves_typed_get; [reflexivity|]. intros h s a _ N _ _. left. apply routing_via. exact N.
Qed.
Lemma preserves_s_get_route : preserves s_get_route.
Proof.
  apply preserves_typed_get; [reflexivity|]. intros h s a _ N _ _. left. apply routing_route. exact N.
Qed.
Lemma preserves_s_get_from : preserves s_get_from.
Proof.
  apply preserves_typed_get; [reflexivity|]. intros h s a Sh N V P. right. simpl.
  unfold stable_h in Sh. rewrite V in Sh. exact (proj1 Sh (or_introl N) a P).
Qed.
Lemma preserves_s_get_to : preserves s_get_to.
Proof.
  apply preserves_typed_get; [reflexivity|]. intros h s a Sh N V P. right. simpl.
  unfold stable_h in Sh. rewrite V in Sh. exact (proj1 Sh (or_intror N) a P).
Qed.
Lemma preserves_s_get_cseq : preserves s_get_cseq.
Proof.
  apply preserves_typed_get; [reflexivity|]. intros h s a Sh N V P. right. simpl.
  unfold stable_h in Sh. rewrite V in Sh. exact (proj2 Sh N a P).
Qed.

Lemma preserves_s_get_raw name : preserves (s_get_raw name).
Proof. apply preserves_read. Qed.
Lemma preserves_s_get_expires d : preserves (s_get_expires d).
Proof. apply (preserves_read (fun m => Ok (get_expires m d))). Qed.

Lemma preserves_s_get_method : preserves s_get_method.
Proof.
  intros m S. unfold s_get_method. destruct (m_start m).
  - split; [exact S|reflexivity].
  - apply (preserves_mbind s_get_cseq); [exact preserves_s_get_cseq|intros c; apply preserves_mret|exact S].
Qed.

Lemma preserves_s_top_via : preserves s_top_via.
Proof.
  apply preserves_mbind; [exact preserves_s_get_via|]. intros [|v r]; [apply preserves_merr|apply preserves_mret].
Qed.

Lemma preserves_s_client_transaction : preserves s_client_transaction.
Proof.
  apply preserves_mbind; [exact preserves_s_get_cseq|]. intros c.
  apply preserves_mbind; [exact preserves_s_top_via|]. intros v.
  apply preserves_mbind; [apply preserves_mlift|]. intros b. apply preserves_mret.
Qed.

Lemma frame_remove_header_routing name :
  (forall n, same_header n name = true -> routing_name n = true) ->
  frame_f (fun m => with_headers m (remove_header name (m_headers m))).
Proof. intros R. exact (frame_f_with_headers _ (hs_frame_remove_routing name R)). Qed.

Lemma preserves_s_pop_via : preserves s_pop_via.
Proof.
  apply preserves_mbind; [exact preserves_s_get_via|].
  assert (Rm : preserves (mmodify (fun m => with_headers m (remove_header (s2b "Via") (m_headers m))))).
  { apply preserves_mmodify, frame_remove_header_routing. exact routing_via. }
  intros [|v [|v' r]]; try exact Rm.
  apply preserves_mmodify, frame_set_val_routing; [reflexivity|exact routing_via].
Qed.

Lemma preserves_s_pop_route : preserves s_pop_route.
Proof.
  apply preserves_mbind; [exact preserves_s_get_route|].
  assert (Rm : preserves (mmodify (fun m => with_headers m (remove_header (s2b "Route") (m_headers m))))).
  { apply preserves_mmodify, frame_remove_header_routing. exact routing_route. }
  intros [|v [|v' r]]; try exact Rm.
  apply preserves_mmodify, frame_set_val_routing; [reflexivity|exact routing_route].
Qed.

Lemma preserves_s_set_received peer port : preserves (s_set_received peer port).
Proof.
  apply preserves_mbind; [exact preserves_s_get_via|].
  intros [|v r]; [apply preserves_merr|].
  apply preserves_mmodify, frame_set_val_routing; [reflexivity|exact routing_via].
Qed.

(* ForEachViaParam *)
Lemma decode_all_vias_frame hs :
  view_hs (fst (decode_all_vias hs)) = view_hs hs /\
  (stable_hs hs -> stable_hs (fst (decode_all_vias hs))).
Proof.
  induction hs as [|h r [IHv IHs]]; [split; [reflexivity|intros H; exact H]|].
  simpl. destruct (decode_all_vias r) as [r' vs] eqn:D. simpl in IHv, IHs.
  assert (Keep : view_hs (h :: r') = view_hs (h :: r) /\ (stable_hs (h :: r) -> stable_hs (h :: r'))).
  { split; [rewrite !view_hs_cons, IHv; reflexivity|].
    intros S. inversion S; subst. constructor; [assumption|apply IHs; assumption]. }
  destruct (same_header (h_name h) (s2b "Via")) eqn:N; [|exact Keep].
  destruct (h_val h) as [s|l| | | | |] eqn:V; try exact Keep.
  destruct (parse_via s) as [l| |]; try exact Keep.
  simpl. split.
  - rewrite !view_hs_cons. simpl. rewrite (routing_via _ N). exact IHv.
  - intros S. inversion S; subst. constructor; [apply stable_h_typed; reflexivity|apply IHs; assumption].
Qed.

Lemma preserves_s_all_via_params : preserves s_all_via_params.
Proof.
  intros m S. unfold s_all_via_params.
  destruct (decode_all_vias_frame (m_headers m)) as [V St].
  destruct (decode_all_vias (m_headers m)) as [hs vs]. simpl in V, St.
  split; [exact (St S)|apply view_with_headers_eq; exact V].
Qed.

Lemma preserves_s_get_dialog : preserves s_get_dialog.
Proof.
  apply preserves_mbind; [apply preserves_s_get_raw|]. intros cid.
  apply preserves_mbind; [exact preserves_s_get_from|]. intros f.
  apply preserves_mbind; [apply preserves_mlift|]. intros ftag.
  apply preserves_mbind; [exact preserves_s_get_to|]. intros t.
  apply preserves_mbind; [apply preserves_mlift|]. intros ttag. apply preserves_mret.
Qed.

(* ---- AddVia / AddRecordRoute ---- *)
Lemma same_header_refl n : same_header n n = true.
Proof. unfold same_header, equal_fold. rewrite beq_refl. reflexivity. Qed.

Lemma frame_add_via v : frame_f (add_via v).
Proof.
  unfold add_via.
  apply (frame_f_with_headers
           (fun hs => insert_at (match find_header_pos (s2b "Via") hs with Some i => i | None => O end)
                                {| h_name := s2b "Via"; h_val := HVia [v] |} hs)).
  apply hs_frame_insert_routing; [reflexivity|]. apply routing_via, same_header_refl.
Qed.

Lemma frame_add_record_route r : frame_f (add_record_route r).
Proof.
  unfold add_record_route.
  apply (frame_f_with_headers
           (fun hs => insert_at (find_record_route_pos hs)
                                {| h_name := s2b "Record-Route"; h_val := HRecRoute [r] |} hs)).
  apply hs_frame_insert_routing; [reflexivity|]. apply routing_record_route, same_header_refl.
Qed.

Print Assumptions preserves_typed_get.
Print Assumptions preserves_s_get_dialog.
Print Assumptions preserves_s_all_via_params.
Print Assumptions frame_add_record_route.
