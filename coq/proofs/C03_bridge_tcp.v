(* C03_bridge_tcp.v — the judge bridge of C03 (proofs/C03_bridge.v: the executable judge
   SpecProxy.judge_C03_event accepts what the MODEL emits) lifted to TCP events: a request that arrives on
   an ACCEPTED TCP connection ([EvTcpData cid data]).  For such a request the receiving transport is the
   KTcpListen transport (lc_addr, lc_tcp) of the listen entry: the own Route entry is the one naming the
   listener's address and its TCP port, and a Request-URI "listener address : TCP port" is addressed to the
   service.  The judge does the same with [ji_tcp = true]: j_own / j_service_match / j_choose c lc true
   compare with [listener_port lc true] = lc_tcp.

   Parts:
     A. the judge's choice is the model's, for any receiving transport (C03_bridge.remaining_agree,
        service_agree, choose_agree fix [false] / udp_transport): remaining_agree_gen, service_agree_gen,
        choose_agree_gen.
     B. the model side for any [tcp] argument of process_message (C03_bridge.pm_request_udp / choice_udp /
        would_send fix [None]): on a connection the request is first filed for the responses
        (C06.pm_conn: Via / CSeq decoded in place, the connection stored in the transport table), so the
        message and the proxy object that enter HandleMessage are named through pm_conn:
        stamped_msg, conn_p, pre_msg_c, ctx1_c, routed_msg_c, pm_request_c, choice_c, would_send_c.
     C. what filing the connection does to the transport table: only tcp keys change
        (pm_conn_lookup), hence C02.udp_slot_ok and C02.tcp_slot_ok survive it (pm_conn_udp_slot,
        pm_conn_tcp_slot); the pool keeps its members (C06.pm_conn_same_rr).
     D. judge_C03_tcp_unfold; C03_judge_bridge_tcp_msg_ex / C03_judge_bridge_tcp_msg (process_message
        level); tcp_messages_single; C03_judge_bridge_tcp_step, C03_judge_bridge_tcp_step_no_tcp
        (proxy_step level).
     E. concrete runs t3_*: EvTcpAccept, then EvTcpData with a request with two Via headers on a listener
        whose TCP port (5062) differs from its UDP port (5060): (1) own Route entry = TCP port, next hop
        over udp; (2) no Route, Request-URI names the service: backend; (3) Request-URI = listener
        address : TCP port: backend; (4) own entry then a transport=tcp next hop: dial + bytes on the new
        connection.  The hypotheses of the step theorem hold, verdict 0 BY THE THEOREM.  Sensitivity: the
        same judge answers 2 / 3 on a wrong output / no output, and the port that makes an entry own (or a
        Request-URI the listener's) on a connection is the TCP port, not the UDP port.

   HYPOTHESES compared with C03_judge_bridge_udp / C03_judge_bridge_step:
     H_conn  find (fun y => Nat.eqb (fst y) cid) (js_conns stj) = Some (cid, (li, cn_peer cn, cn_peer_port cn)):
             the judge takes the listen entry of the connection from its own bookkeeping (j_input).  (The
             judge of C03 never looks at the peer address / port; they are in the statement because the
             record has that shape.)
     H_from  cn_from cn = tcp_transport lc: the connection is an ACCEPTED one.  NEEDED: for a connection the
             proxy dialled cn_from is a KTcpConn transport with port 0; the model would compare the Route
             entry / the Request-URI with that port while the judge compares with lc_tcp.
     H_mark  (li < dial_mark)%nat: the judge's record is one of an ACCEPTED connection.  The judge files the
             connections the proxy dialled with the listen entry + SpecProxy.dial_mark and, for a request read
             on one of those, takes no Route entry for the proxy's own and no Request-URI for the listener's
             address:port (j_choose_d true); example t3_dialled_not_own, not a theorem here.
     ports  (0 < lc_udp lc \/ 0 < lc_tcp lc) instead of (0 < lc_udp lc): the listen entry has a first
             transport (the one the backends see in Via / Record-Route); WEAKER than the UDP hypothesis.
     step level only:
     H_find  find (fun y => Nat.eqb (cn_id y) cid) (st_conns st) = Some cn  (the record the model uses),
     H_li    cn_li cn = li,
     H_open  cn_open cn = true.  NEW and NEEDED (C07 / C13 do not need it: their judges accept an empty
             observation): on a connection the model holds closed the model emits nothing, while the judge
             of C03 answers 3 when a hop is prescribed.  The judge's bookkeeping drops the connections it
             saw closed (js_step_c), so a record in js_conns is a record of an open connection.
     H_one   trim_left rest = []: nothing but blanks behind the message, tcp_messages stops after it.
             With more messages in the chunk the model would emit the outputs of all of them.
     pools   [pools_agree stj st] = the first half of C03_bridge.agree (the only half the UDP proof used).
   NOT needed: anything about the received-support flag (cn_received_support / received_on lc:
   judge_C03_event does not read it; it changes the top Via only); cn_id cn = cid at the message level; the
   judge's [single_message jin]: when it is false the judge answers 0 without looking, when it is true
   the argument goes through, so it is not a hypothesis.  (It cannot be derived from H_one in general: the
   judge takes the body length from the first Content-Length / l header, the model from get_header_int.)
   KEPT from the UDP theorem: the premise on the observation side for a TCP next hop (when the model writes
   nothing on a connection the judge must see a refusing peer), see C03_bridge.v.
   NOT lifted: C03_bridge.agree_step_udp (preservation of the bookkeeping agreement) has no TCP
   counterpart here.
   Everything is proved (Print Assumptions at the end: closed under the global context). *)
From Coq Require Import List Ascii String ZArith NArith Bool Arith Lia.
From Model Require Import Bytes BytesLemmas Wire Uri Hdr Message Msg Rx Glob StaticRoute RoundRobin Pins
     Proxy RunProxy SpecProxy SpecC14.
From Model.proofs Require Import C14_uri C14_hdr MsgLemmas C06 C01 C13 C03 C13_bridge C03_bridge.
From Model.proofs Require C05 C07 C02 C04.
Import ListNotations.
Open Scope list_scope.

(* the ServerTransport of an accepted connection: the listener (Proxy.proxy_step, EvTcpAccept) *)
Definition tcp_transport (lc : listen_cfg) : stransport :=
  {| t_kind := KTcpListen; t_addr := lc_addr lc; t_port := lc_tcp lc |}.

(* ================================================================== A. the judge's choice, any transport *)
(* C03_bridge.remaining_agree with the judge's [tcp] flag as a parameter *)
Lemma remaining_agree_gen c lc tcp from hs :
  t_addr from = lc_addr lc -> t_port from = listener_port lc tcp -> route_domain hs ->
  match (match tview hs with e :: r => if j_own c lc tcp e then r else e :: r | [] => [] end) with
  | [] => drop_own c from (entries_of hs) = []
  | e :: _ => exists b rest, wf_relem b = true /\ e = rp_relem b /\
                             drop_own c from (entries_of hs) = EDec (embed_relem b) :: rest
  end.
Proof.
  intros Ha Hp D. destruct hs as [|h1 rest]; [reflexivity|]. destruct D as ((l1 & G1) & D2).
  destruct l1 as [|a l1]; [destruct G1 as ((NE & _) & _); contradiction|].
  rewrite (tview_good h1 rest (a :: l1) G1), (entries_good h1 rest (a :: l1) G1). cbn [map app].
  assert (Wa : wf_relem a = true) by (apply (good_hdr_wf _ _ _ G1); left; reflexivity).
  rewrite (own_agree c lc tcp from a Ha Hp Wa). unfold drop_own.
  destruct (designates c from (embed_relem a)).
  - destruct l1 as [|b l1].
    + cbn [map app]. destruct rest as [|h2 rest']; [reflexivity|]. destruct D2 as (l2 & G2).
      destruct l2 as [|b l2]; [destruct G2 as ((NE & _) & _); contradiction|].
      rewrite (tview_good h2 rest' (b :: l2) G2), (entries_good h2 rest' (b :: l2) G2). cbn [map app].
      exists b. eexists. split; [apply (good_hdr_wf _ _ _ G2); left; reflexivity|]. split; reflexivity.
    + cbn [map app]. exists b. eexists.
      split; [apply (good_hdr_wf _ _ _ G1); right; left; reflexivity|]. split; reflexivity.
  - exists a. eexists. split; [exact Wa|]. split; reflexivity.
Qed.

(* C03_bridge.service_agree: the service name / the receiving listener's own address and port *)
Lemma service_agree_gen c lc tcp from m meth au ver :
  t_addr from = lc_addr lc -> t_port from = listener_port lc tcp ->
  wf_addr au = true -> m_start m = SReq meth (embed_addr au) ver ->
  j_service_match c lc tcp (rp_addr au) = is_my_message (new_my_name (c_name c)) from m.
Proof.
  intros Ha Hp W Em. unfold j_service_match, is_my_message. rewrite Em, Ha, Hp.
  destruct au as [u|s]; cbn [rp_addr embed_addr wf_addr] in *.
  - destruct (j_uri_sipuri2 u W) as (txt & ->). rewrite (proj2 (ju_facts txt _ u W)).
    unfold mk_ju. cbn [ju_sip ju_host ju_user embed_sipuri u_host u_user]. reflexivity.
  - rewrite (j_uri_other s W). reflexivity.
Qed.

(* C03_bridge.choose_agree for a message received through [from], judged with the flag [tcp] *)
Theorem choose_agree_gen : forall c lc tcp from data jin m rest q,
  t_addr from = lc_addr lc -> t_port from = listener_port lc tcp ->
  j_read data = Some jin -> parse_message data = Ok (m, rest) -> j_request jin = Some q ->
  route_domain_in (RS m) -> to_domain m -> ruri_domain jin -> routes_ok c ->
  is_request m = true /\ hop_rel c (j_choose c lc tcp q) (effective_hop c from m).
Proof.
  intros c lc tcp from data jin m rest q Ha Hp J P Q Dom DT DR RO.
  pose proof (read_headers_agree _ _ _ _ J P) as HR.
  destruct (read_agree _ _ _ _ J P) as (_ & _ & _ & _ & PS).
  unfold j_request in Q. unfold j_is_response in Q.
  destruct (has_prefix (s2b "SIP/") (jm_start jin)) eqn:Resp; [discriminate Q|].
  destruct (fields (jm_start jin)) as [|meth [|u [|ver [|x y]]]] eqn:F; try discriminate Q.
  injection Q as <-.
  destruct (start_agree _ _ _ _ _ PS Resp F (proj1 DR)) as (a & Em & Pa).
  destruct (proj2 DR meth u ver F) as (au & Wau & ->).
  rewrite (parse_addr_spec_rp au Wau) in Pa. injection Pa as <-.
  split; [unfold is_request; rewrite Em; reflexivity|].
  unfold j_choose. cbn [jq_routes jq_to jq_ruri].
  rewrite (j_flat_input _ _ HR). fold (RS m).
  assert (RD : route_domain (RS m)).
  { apply domain_in_good; [|exact Dom]. unfold RS, sel.
    pose proof (raw_trimmed_of_rel _ _ HR) as T. rewrite Forall_forall in *.
    intros h Ih. apply filter_In in Ih. apply T, Ih. }
  pose proof (remaining_agree_gen c lc tcp from (RS m) Ha Hp RD) as RA.
  rewrite effective_hop_spec. unfold route_view. fold (RS m).
  destruct (match tview (RS m) with e :: r => if j_own c lc tcp e then r else e :: r | [] => [] end) as [|e erest].
  2:{ destruct RA as (b & rest' & Wb & -> & ->).
      destruct (wf_relem_parts b Wb) as [Hn _]. destruct (wf_nameaddr_parts _ Hn) as [_ Hw].
      unfold rp_relem. rewrite (j_entry_nameaddr _ _ Hn).
      cbn [embed_relem r_addr embed_nameaddr na_addr].
      destruct (an_addr (ar_na b)) as [ub|s]; cbn [embed_addr rp_addr wf_addr] in *.
      - destruct (j_uri_sipuri2 ub Hw) as (txt & ->). destruct (ju_facts txt (emb_user (au_user ub)) ub Hw) as (T1 & T2).
        rewrite T1, T2. unfold mk_ju at 1 2. cbn [ju_sip ju_host hop_rel].
        eexists _, _, _. split; [reflexivity|]. split; [reflexivity|apply port_range_embed, Hw].
      - rewrite (j_uri_other s Hw). exact I. }
  rewrite RA.
  assert (SV : hop_rel c (if j_service_match c lc tcp (rp_addr au) then HBackend else HDrop)
                 (if is_my_message (new_my_name (c_name c)) from m then HopBackend else HopNone)).
  { rewrite (service_agree_gen c lc tcp from m meth au ver Ha Hp Wau Em).
    destruct (is_my_message _ _ m); reflexivity. }
  unfold lower_choice, static_hop, decoded_to.
  pose proof (j_first_to _ _ HR) as JT. unfold to_domain in DT.
  destruct (get_header (s2b "To") (m_headers m)) as [h|].
  2:{ rewrite JT. exact SV. }
  destruct JT as (s & Ev & ->). destruct DT as (f & Wf & Ef). rewrite Ev in Ef. injection Ef as ->.
  rewrite Ev, (parse_fromto_rp f Wf), (fromto_host_embed f), (j_entry_fromto f Wf).
  pose proof (wf_fromto_addr f Wf) as Wa.
  destruct (a_ft_addr f) as [uf|sf]; cbn [rp_addr wf_addr] in *.
  - destruct (j_uri_sipuri2 uf Wa) as (txt & ->). unfold mk_ju at 1 2. cbn [ju_sip ju_host].
    destruct (find_route (route_table_of c) (au_host uf)) as [it|] eqn:FR; [|exact SV].
    cbn [hop_rel]. eexists _, _, _. split; [reflexivity|]. split; [reflexivity|exact (RO _ _ FR)].
  - rewrite (j_uri_other sf Wa). exact SV.
Qed.

(* ================================================================== B. the model side, any [tcp] *)
(* the message after learning and stamping (what pm_conn receives) *)
Definition stamped_msg (peer : bytes) (pp : Z) (from : stransport) (rs : bool) (m0 : message) (x : ctx) : message :=
  let m1 := fst (pm_learn peer from m0 x) in
  if (is_request m1 && rs)%bool then fst (s_set_received peer pp m1) else m1.
(* the proxy object after the connection has been filed for the responses ([x_p x] for a datagram) *)
Definition conn_p (e : env) (tcp : option nat) (peer : bytes) (pp : Z) (from : stransport) (rs : bool)
           (m0 : message) (x : ctx) : pstate :=
  match snd (pm_conn e tcp (stamped_msg peer pp from rs m0 x) x) with Ok p1 => p1 | _ => x_p x end.
(* the message that enters HandleMessage, the state it is processed in, the message after the route steps *)
Definition pre_msg_c (e : env) (tcp : option nat) (peer : bytes) (pp : Z) (from : stransport) (rs : bool)
           (m0 : message) (x : ctx) : message :=
  fst (mtry (try_remove_top_route (e_cfg e) from) (fst (pm_conn e tcp (stamped_msg peer pp from rs m0 x) x))).
Definition ctx1_c (e : env) (tcp : option nat) (peer : bytes) (pp : Z) (from : stransport) (rs : bool)
           (m0 : message) (x : ctx) : ctx :=
  {| x_learned := learned_after peer from m0 x; x_p := conn_p e tcp peer pp from rs m0 x; x_conns := x_conns x;
     x_world := x_world x; x_outs := x_outs x |}.
Definition routed_msg_c (e : env) (tcp : option nat) (peer : bytes) (pp : Z) (from : stransport) (rs : bool)
           (m0 : message) (x : ctx) : message :=
  fst (next_request_hop (c_keep_next_hop (e_cfg e)) (route_table_of (e_cfg e)) (pre_msg_c e tcp peer pp from rs m0 x)).

(* C03_bridge.pm_request_udp for any [tcp] *)
Lemma pm_request_c e tcp peer pp from rs m0 x x' :
  is_request m0 = true -> process_message e peer pp from rs tcp m0 x = Ok x' ->
  (forall nm, disjoint_names nm (s2b "Via") -> disjoint_names nm (s2b "CSeq") -> disjoint_names nm (s2b "Route") ->
              frame nm m0 (pre_msg_c e tcp peer pp from rs m0 x)) /\
  route_view (pre_msg_c e tcp peer pp from rs m0 x) = drop_own (e_cfg e) from (route_view m0) /\
  snd (pm_conn e tcp (stamped_msg peer pp from rs m0 x) x) = Ok (conn_p e tcp peer pp from rs m0 x) /\
  x' = fst (handle_message e from (pre_msg_c e tcp peer pp from rs m0 x) (ctx1_c e tcp peer pp from rs m0 x)).
Proof.
  intros R. rewrite process_message_unfold. unfold pre_msg_c, ctx1_c, conn_p, stamped_msg.
  destruct (pm_learn_spec peer from m0 x) as (L & F1).
  destruct (pm_learn peer from m0 x) as [m1 l1]. cbn [fst snd] in L, F1 |- *. subst l1. cbv zeta.
  set (m2 := if (is_request m1 && rs)%bool then fst (s_set_received peer pp m1) else m1).
  assert (F2 : forall nm, disjoint_names nm (s2b "Via") -> frame nm m1 m2).
  { intros nm D. subst m2. destruct (is_request m1 && rs)%bool; [|apply frame_refl].
    apply (mframe_set_received _ D). }
  assert (F02 : forall nm, disjoint_names nm (s2b "Via") -> frame nm m0 m2).
  { intros nm D. eapply frame_trans; [apply F1; exact D|apply F2; exact D]. }
  pose proof (pm_conn_frame e tcp m2 x) as F3.
  destruct (pm_conn e tcp m2 x) as [m3 rp]. cbn [fst snd] in F3 |- *.
  destruct rp as [p1| |]; try discriminate.
  intros H. unfold pm_tail in H. cbv zeta in H.
  set (m4 := fst (mtry (try_remove_top_route (e_cfg e) from) m3)) in *.
  assert (F03 : forall nm, disjoint_names nm (s2b "Via") -> disjoint_names nm (s2b "CSeq") -> frame nm m0 m3).
  { intros nm D1 D2. eapply frame_trans; [apply F02; exact D1|apply F3; assumption]. }
  assert (F34 : forall nm, disjoint_names nm (s2b "Route") -> frame nm m3 m4).
  { intros nm D. apply (mframe_try _ _ (mframe_try_remove_top_route nm (e_cfg e) from D)). }
  assert (R4 : is_response m4 = false).
  { unfold is_response. replace (is_request m4) with true; [reflexivity|]. symmetry.
    rewrite (frame_request (s2b "To") m3 m4 (F34 _ dj_To_Route)).
    rewrite (frame_request _ _ _ (F03 _ dj_To_Via dj_To_CSeq)). exact R. }
  rewrite R4 in H. injection H as <-.
  split; [intros nm D1 D2 D3; eapply frame_trans; [apply F03; assumption|apply F34; exact D3]|].
  split; [|split; reflexivity].
  subst m4. rewrite try_remove_top_route_pops_iff_own.
  rewrite (route_view_frame m0 m3 (F03 _ dj_Route_Via dj_Route_CSeq)). reflexivity.
Qed.

(* C03_bridge.choice_udp for any [tcp]: C03_choice with the proxy object and the relayed message named *)
Lemma choice_c e tcp peer pp from rs m0 x x' :
  is_request m0 = true -> process_message e peer pp from rs tcp m0 x = Ok x' ->
  hop_goal e (ctx1_c e tcp peer pp from rs m0 x) (routed_msg_c e tcp peer pp from rs m0 x) x'
           (effective_hop (e_cfg e) from m0).
Proof.
  intros R H. destruct (pm_request_c _ _ _ _ _ _ _ _ _ R H) as (F4 & V4 & _ & ->).
  unfold routed_msg_c. set (m4 := pre_msg_c e tcp peer pp from rs m0 x) in *.
  set (x1 := ctx1_c e tcp peer pp from rs m0 x).
  assert (R4 : is_request m4 = true)
    by (rewrite (frame_request _ _ _ (F4 _ dj_To_Via dj_To_CSeq dj_To_Route)); exact R).
  rewrite (handle_message_request e from m4 _ R4).
  set (keep := c_keep_next_hop (e_cfg e)). set (rt := route_table_of (e_cfg e)).
  pose proof (next_request_hop_choice keep rt m4) as CH. cbv zeta in CH.
  pose proof (frame_next_request_hop (s2b "Via") keep rt m4 dj_Via_Route dj_Via_To) as FN.
  destruct (next_request_hop keep rt m4) as [m1 r]. cbn [fst snd] in *.
  assert (ST : static_hop rt m4 = static_hop rt m0).
  { unfold static_hop. rewrite (decoded_to_frame m0 m4 (F4 _ dj_To_Via dj_To_CSeq dj_To_Route)). reflexivity. }
  assert (MY : is_my_message (new_my_name (c_name (e_cfg e))) from m1 =
               is_my_message (new_my_name (c_name (e_cfg e))) from m0).
  { apply is_my_message_start. rewrite (proj1 (proj2 FN)).
    exact (proj1 (proj2 (F4 _ dj_To_Via dj_To_CSeq dj_To_Route))). }
  assert (LC : match static_hop rt m4 with Some v => r = Ok v | None => is_ok r = false end ->
               hop_goal e x1 m1
                 (fst match r with
                      | Ok (host, port, transport) => send_message e host port transport (decorate e (x_learned x1) host m1) x1
                      | _ => if is_my_message (new_my_name (c_name (e_cfg e))) from m1 then send_to_backend e m1 x1
                             else (x1, m1)
                      end) (lower_choice (e_cfg e) from m0)).
  { intros BC. unfold lower_choice. fold rt. rewrite <- ST.
    destruct (static_hop rt m4) as [[[h p] t]|].
    - rewrite BC. reflexivity.
    - rewrite <- MY. destruct r as [v| |]; try discriminate BC;
        destruct (is_my_message (new_my_name (c_name (e_cfg e))) from m1); reflexivity. }
  rewrite effective_hop_spec, <- V4. revert CH.
  destruct (route_view m4) as [|[rp|v] rest]; intros CH.
  - apply LC, CH.
  - destruct (na_addr (r_addr rp)) as [u|s].
    + rewrite CH. reflexivity.
    + apply LC, CH.
  - apply LC, CH.
Qed.

(* the message the model serialises for the request (C03_bridge.would_send for any [tcp]) *)
Definition would_send_c (e : env) (tcp : option nat) (peer : bytes) (pp : Z) (from : stransport) (rs : bool)
           (m0 : message) (x : ctx) : message :=
  let m1 := routed_msg_c e tcp peer pp from rs m0 x in
  match effective_hop (e_cfg e) from m0 with
  | HopAddr host _ _ => C07.sent_msg (decorate e (learned_after peer from m0 x) host m1)
  | HopBackend => match first_transport (e_lc e) with
                  | Some t0 => backend_message e t0 (conn_p e tcp peer pp from rs m0 x) m1
                  | None => m1 end
  | _ => m1
  end.

(* ================================================================== C. filing the connection and the table *)
Lemma tcp_key_neq k host port tid :
  has_prefix (s2b "tcp://") k = false -> k = full_addr (s2b "tcp") host port tid -> False.
Proof. intros H E. subst k. rewrite C02.tcp_key_prefix in H. discriminate H. Qed.

(* the slot [k] does not hold a connection (cleanExpiredTransport only drops expired connections) *)
Definition no_conn_at (k : bytes) (p : pstate) : Prop :=
  match alookup k (ps_table p) with Some f => forall c ex, fo_pri f <> Some (PConn c ex) | None => True end.

Lemma clean_lookup_same now p k : no_conn_at k p ->
  alookup k (ps_table (clean_expired now p)) = alookup k (ps_table p).
Proof.
  unfold no_conn_at. destruct (alookup k (ps_table p)) as [f|] eqn:E; intros H.
  - apply C02.clean_lookup_keep; assumption.
  - apply C02.clean_lookup_none. exact E.
Qed.

Lemma get_transport_tcp_lookup now host port tid p k :
  has_prefix (s2b "tcp://") k = false -> no_conn_at k p ->
  alookup k (ps_table (fst (get_transport now (s2b "tcp") host port tid p))) = alookup k (ps_table p).
Proof.
  intros Hk Hn. pose proof (clean_lookup_same now p k Hn) as C.
  assert (N1 : k <> full_addr (s2b "tcp") host port tid) by (intros E; exact (tcp_key_neq _ _ _ _ Hk E)).
  assert (N0 : k <> full_addr (s2b "tcp") host port []) by (intros E; exact (tcp_key_neq _ _ _ _ Hk E)).
  assert (TL : to_lower (s2b "tcp") = s2b "tcp") by reflexivity.
  unfold get_transport. cbv zeta. rewrite TL.
  change (negb (supported_proto (s2b "tcp"))) with false. cbv iota.
  destruct (alookup (full_addr (s2b "tcp") host port tid) (ps_table (clean_expired now p))); [exact C|].
  change (beq (s2b "tcp") (s2b "udp")) with false. cbv iota.
  destruct (alookup (full_addr (s2b "tcp") host port []) (ps_table (clean_expired now p)));
    cbn [fst ps_table with_table with_clients].
  - rewrite (alookup_aset_other _ _ _ _ N1). exact C.
  - rewrite (alookup_aset_other _ _ _ _ N1), (alookup_aset_other _ _ _ _ N0). exact C.
Qed.

Lemma set_primary_lookup key pr p k : k <> key -> alookup k (ps_table (set_primary key pr p)) = alookup k (ps_table p).
Proof.
  intros N. unfold set_primary. destruct (alookup key (ps_table p)); [|reflexivity].
  cbn [ps_table with_table]. apply alookup_aset_other, N.
Qed.

(* filing the connection (handleRawMessage on a TCP request) touches tcp keys only *)
Lemma pm_conn_lookup e tcp m2 x p1 k :
  snd (pm_conn e tcp m2 x) = Ok p1 -> has_prefix (s2b "tcp://") k = false -> no_conn_at k (x_p x) ->
  alookup k (ps_table p1) = alookup k (ps_table (x_p x)).
Proof.
  intros H Hk Hn. revert H.
  unfold pm_conn. destruct tcp as [c|]; [|intros H; injection H as <-; reflexivity].
  destruct (is_request m2); [|intros H; injection H as <-; reflexivity].
  destruct (mtry next_response_hop m2) as [m' hop].
  destruct hop as [oh| |]; try (intros H; injection H as <-; reflexivity).
  match goal with |- context [match ?X with Ok _ => _ | Err => _ | Panic => _ end] => destruct X as [host| |] end;
    try discriminate.
  destruct oh as [hp|]; [|intros H; injection H as <-; reflexivity].
  destruct (mtry s_client_transaction m') as [m'' tid].
  destruct tid as [[t|]| |]; try (intros H; injection H as <-; reflexivity).
  match goal with |- context [get_transport ?a ?b ?c0 ?d ?f ?g] =>
    pose proof (get_transport_tcp_lookup a c0 d f g k Hk Hn) as G;
    pose proof (C02.get_transport_key a b c0 d f g) as GK;
    destruct (get_transport a b c0 d f g) as [p' rk] end.
  cbn [fst] in G. destruct rk as [key| |]; intros H; injection H as <-; try exact G.
  rewrite set_primary_lookup; [exact G|].
  intros E. rewrite (GK p' key eq_refl) in E. exact (tcp_key_neq _ _ _ _ Hk E).
Qed.

Lemma pm_conn_udp_slot e tcp m2 x p1 ip port :
  snd (pm_conn e tcp m2 x) = Ok p1 -> C02.udp_slot_ok ip port (x_p x) -> C02.udp_slot_ok ip port p1.
Proof.
  intros H S. unfold C02.udp_slot_ok in *.
  rewrite (pm_conn_lookup e tcp m2 x p1 (C02.udp_key ip port) H); [exact S|exact (C02.udp_key_not_tcp ip port [])|].
  unfold no_conn_at. destruct (alookup (C02.udp_key ip port) (ps_table (x_p x))) as [f|]; [|exact I].
  intros c ex. destruct S as [S|S]; rewrite S; discriminate.
Qed.

Lemma pm_conn_tcp_slot e tcp m2 x p1 :
  snd (pm_conn e tcp m2 x) = Ok p1 -> C02.tcp_slot_ok (x_p x) -> C02.tcp_slot_ok p1.
Proof.
  intros H H0. revert H.
  unfold pm_conn. destruct tcp as [c|]; [|intros H; injection H as <-; exact H0].
  destruct (is_request m2); [|intros H; injection H as <-; exact H0].
  destruct (mtry next_response_hop m2) as [m' hop].
  destruct hop as [oh| |]; try (intros H; injection H as <-; exact H0).
  match goal with |- context [match ?X with Ok _ => _ | Err => _ | Panic => _ end] => destruct X as [host| |] end;
    try discriminate.
  destruct oh as [hp|]; [|intros H; injection H as <-; exact H0].
  destruct (mtry s_client_transaction m') as [m'' tid].
  destruct tid as [[t|]| |]; try (intros H; injection H as <-; exact H0).
  match goal with |- context [get_transport ?a ?b ?c0 ?d ?f ?g] =>
    pose proof (C02.tso_get_transport a b c0 d f g H0) as H1; destruct (get_transport a b c0 d f g) as [p' rk] end.
  cbn [fst] in H1. destruct rk as [key| |]; intros H; injection H as <-; try exact H1.
  apply C02.tso_set_primary; [exact H1|]. intros _. apply C02.pnu_conn.
Qed.

(* ================================================================== D. the bridge *)
Lemma judge_C03_tcp_unfold pc st cid li ip port data outs closed jin lc :
  find (fun y => Nat.eqb (fst y) cid) (js_conns st) = Some (cid, (li, ip, port)) -> (li < dial_mark)%nat ->
  j_read data = Some jin -> nth_opt (c_listens (pc_cfg pc)) li = Some lc ->
  judge_C03_event pc st (EvTcpData cid data) outs closed =
  if (jm_has_cl jin && single_message jin)%bool then
    match j_request jin with
    | Some q =>
        if Nat.ltb 1 (List.length (msgs_of outs)) then 1%nat
        else match j_choose (pc_cfg pc) lc true q with
             | HOut => O
             | HDrop => match msgs_of outs with [] => O | _ => 2%nat end
             | HHop d => if dest_ok pc st d (msgs_of outs) then O else match msgs_of outs with [] => 3%nat | _ => 2%nat end
             | HBackend =>
                 match msgs_of outs, backend_labels (match nth_opt (js_backends st) li with Some l => l | None => [] end) with
                 | [], [] => O
                 | [], _ => 3%nat
                 | [(l, _)], _ => if mem_bytes l (backend_labels (match nth_opt (js_backends st) li with Some l => l | None => [] end))
                                  then O else 2%nat
                 | _, _ => 1%nat
                 end
             end
    | None => O
    end
  else O.
Proof.
  intros Fd HMk J N. unfold judge_C03_event. rewrite (C07_bridge.j_input_accepted st cid li ip port data Fd HMk).
  cbv beta iota zeta delta [ji_data ji_li ji_tcp]. rewrite J, N.
  rewrite (C07_bridge.ji_dialled_accepted st cid li ip port data Fd HMk).
  cbv beta iota. cbn [negb orb]. reflexivity.
Qed.

(* THE BRIDGE, process_message level, for a request read on the accepted connection [cn] (the model is run
   with the peer, the transport and the received-support flag of the record and with [Some (cn_id cn)]).
   Same hypotheses as C03_judge_bridge_udp, on the state BEFORE the message (the connection is filed in the
   transport table before the request is routed: part C carries the table conditions over), plus H_conn and
   H_from; the port hypothesis is weaker (see the head of the file). *)
Theorem C03_judge_bridge_tcp_msg_ex :
  forall pc stj cid li lc cn data closed jin m rest e x x' l,
  nth_opt (c_listens (pc_cfg pc)) li = Some lc -> e_cfg e = pc_cfg pc -> e_lc e = lc ->
  find (fun y => Nat.eqb (fst y) cid) (js_conns stj) = Some (cid, (li, cn_peer cn, cn_peer_port cn)) ->
  (li < dial_mark)%nat ->
  cn_from cn = {| t_kind := KTcpListen; t_addr := lc_addr lc; t_port := lc_tcp lc |} ->
  j_read data = Some jin -> parse_message data = Ok (m, rest) ->
  route_domain_in (RS m) -> to_domain m -> ruri_domain jin ->
  hosts_ok (pc_cfg pc) -> routes_ok (pc_cfg pc) -> (0 < lc_udp lc \/ 0 < lc_tcp lc)%Z ->
  fx_udp_via_listener (e_fx e) = true -> fx_stale_pin (e_fx e) = true ->
  nth_opt (js_backends stj) li = Some l -> pool_agree l (x_p x) ->
  Forall (backend_ok (pc_udp_endpoints pc)) l ->
  (forall ip port, C02.udp_slot_ok ip port (x_p x)) -> C02.tcp_slot_ok (x_p x) ->
  fits_datagram (write_message (would_send_c e (Some (cn_id cn)) (cn_peer cn) (cn_peer_port cn) (cn_from cn)
                                  (cn_received_support cn) m x)) = true ->
  process_message e (cn_peer cn) (cn_peer_port cn) (cn_from cn) (cn_received_support cn) (Some (cn_id cn)) m x = Ok x' ->
  exists pre, x_outs x' = x_outs x ++ pre /\ (msg_count pre <= 1)%nat /\
    ((forall q ip port, j_request jin = Some q -> j_choose (pc_cfg pc) lc true q = HHop (JTcp ip port) ->
        msg_count pre = 0%nat -> dest_ok pc stj (JTcp ip port) [] = true) ->
     judge_C03_event pc stj (EvTcpData cid data)
       (map labelled (filter (visible (pc_udp_endpoints pc)) pre)) closed = 0%nat).
Proof.
  intros pc stj cid li lc cn data closed jin m rest e x x' l
         N He Hlc Fd HMk Hcf J P Dom DT DR HO RO Hport Hfx1 Hfx2 Nl PA BO Hslot Htso Hfit H.
  change (cn_from cn = tcp_transport lc) in Hcf. rewrite Hcf in H, Hfit.
  destruct (C03_at_most_one _ _ _ _ _ _ _ _ _ H) as (pre & O & C).
  exists pre. split; [exact O|]. split; [exact C|]. intros Htcp.
  rewrite (judge_C03_tcp_unfold pc stj cid li (cn_peer cn) (cn_peer_port cn) data _ closed jin lc Fd HMk J N).
  change (msgs_of (map labelled (filter (visible (pc_udp_endpoints pc)) pre))) with (obs pc pre).
  destruct (jm_has_cl jin && single_message jin)%bool; [|reflexivity].
  destruct (j_request jin) as [q|] eqn:Q; [|reflexivity].
  pose proof (obs_len pc pre) as OL.
  assert (LT : Nat.ltb 1 (List.length (obs pc pre)) = false) by (apply Nat.ltb_ge; lia).
  rewrite LT.
  destruct (choose_agree_gen (pc_cfg pc) lc true (tcp_transport lc) data jin m rest q eq_refl eq_refl
              J P Q Dom DT DR RO) as (R & HR).
  pose proof (choice_c e (Some (cn_id cn)) (cn_peer cn) (cn_peer_port cn) (tcp_transport lc)
                (cn_received_support cn) m x x' R H) as CH.
  destruct (pm_request_c e (Some (cn_id cn)) (cn_peer cn) (cn_peer_port cn) (tcp_transport lc)
              (cn_received_support cn) m x x' R H) as (_ & _ & CP & _).
  pose proof (pm_conn_same_rr _ _ _ _ _ CP) as SR.
  unfold would_send_c in Hfit. rewrite He in CH, Hfit.
  specialize (Htcp q).
  set (x1 := ctx1_c e (Some (cn_id cn)) (cn_peer cn) (cn_peer_port cn) (tcp_transport lc) (cn_received_support cn) m x) in *.
  set (m1 := routed_msg_c e (Some (cn_id cn)) (cn_peer cn) (cn_peer_port cn) (tcp_transport lc) (cn_received_support cn) m x) in *.
  assert (PA1 : pool_agree l (x_p x1)) by exact (pool_agree_same _ _ _ (same_rr_pool _ _ SR) PA).
  assert (Slot1 : forall ip port, C02.udp_slot_ok ip port (x_p x1))
    by (intros ip port; exact (pm_conn_udp_slot _ _ _ _ _ ip port CP (Hslot ip port))).
  assert (Tso1 : C02.tcp_slot_ok (x_p x1)) by exact (pm_conn_tcp_slot _ _ _ _ _ CP Htso).
  assert (PRE : forall extra, x_outs x' = x_outs x1 ++ extra -> pre = extra).
  { intros extra E. rewrite O in E. exact (app_same_inv _ _ _ E). }
  destruct (j_choose (pc_cfg pc) lc true q) as [| |d|] eqn:JC; cbn [hop_rel] in HR.
  - reflexivity.
  - (* nothing *)
    rewrite HR in CH. cbn [hop_goal] in CH.
    rewrite (PRE [] (eq_trans (f_equal x_outs CH) (eq_sym (app_nil_r _)))). reflexivity.
  - (* an address *)
    destruct HR as (host & port & tr & EH & -> & PR). rewrite EH in CH, Hfit. cbn [hop_goal] in CH.
    set (mm := decorate e (x_learned x1) host m1) in *.
    assert (ANY : dest_ok pc stj JAny (obs pc pre) = true) by (apply Nat.leb_le; lia).
    destruct (beq (to_lower tr) (s2b "udp")) eqn:TU.
    + destruct (get_ip (pc_cfg pc) host) as [ip|] eqn:GI.
      * assert (JD : j_dest (pc_cfg pc) tr host port = JUdp ip port)
          by (unfold j_dest, lower_is; rewrite TU, GI; reflexivity).
        rewrite JD. apply beq_eq in TU.
        assert (RS1 : resolvable ip port = true).
        { unfold resolvable. rewrite (get_ip_ipv4 _ _ _ HO GI). cbn [andb].
          apply andb_true_iff. split; apply Z.leb_le; lia. }
        assert (GI' : get_ip (e_cfg e) host = Some ip) by (rewrite He; exact GI).
        pose proof (C02.C02_dest_udp e host port tr mm x1 ip TU GI' RS1 (Slot1 ip port) Hfit) as OUT.
        rewrite <- CH in OUT. rewrite (PRE _ OUT), dest_ok_udp. reflexivity.
      * assert (JD : j_dest (pc_cfg pc) tr host port = JAny)
          by (unfold j_dest, lower_is; rewrite TU, GI; reflexivity).
        rewrite JD, ANY. reflexivity.
    + destruct (beq (to_lower tr) (s2b "tcp")) eqn:TT.
      * destruct (get_ip (pc_cfg pc) host) as [ip|] eqn:GI.
        -- assert (JD : j_dest (pc_cfg pc) tr host port = JTcp ip port)
             by (unfold j_dest, lower_is; rewrite TU, TT, GI; reflexivity).
           rewrite JD in *. apply beq_eq in TT.
           destruct (C02.C02_dest_tcp e host port tr mm x1 Hfx1 TT Tso1) as (outs & O2 & SH).
           rewrite <- CH in O2. rewrite (PRE _ O2) in *.
           destruct (obs_tcp pc _ _ SH) as [(E0 & C0)|(c & E1)].
           ++ rewrite E0, (Htcp ip port eq_refl eq_refl C0). reflexivity.
           ++ rewrite E1. reflexivity.
        -- assert (JD : j_dest (pc_cfg pc) tr host port = JAny)
             by (unfold j_dest, lower_is; rewrite TU, TT, GI; reflexivity).
           rewrite JD, ANY. reflexivity.
      * assert (JD : j_dest (pc_cfg pc) tr host port = JDrop)
          by (unfold j_dest, lower_is; rewrite TU, TT; reflexivity).
        rewrite JD. apply beq_neq in TU, TT.
        pose proof (C03_unsupported_transport_dropped e host port tr mm x1 TU TT) as OUT.
        rewrite <- CH in OUT.
        rewrite (PRE [] (eq_trans OUT (eq_sym (app_nil_r _)))). reflexivity.
  - (* the pool *)
    rewrite HR in CH, Hfit. cbn [hop_goal] in CH.
    assert (FT : exists t0, first_transport (e_lc e) = Some t0).
    { unfold first_transport. rewrite Hlc.
      destruct (Z.ltb 0 (lc_udp lc)) eqn:A; [eexists; reflexivity|].
      destruct (Z.ltb 0 (lc_tcp lc)) eqn:B; [eexists; reflexivity|].
      exfalso. apply Z.ltb_ge in A. apply Z.ltb_ge in B. lia. }
    destruct FT as (t0 & FT). rewrite FT in Hfit.
    assert (HD : forall a, In a l -> backend_dest a <> None).
    { intros a Ia. rewrite Forall_forall in BO. destruct (BO a Ia) as (ip & port & E & _). rewrite E. discriminate. }
    destruct (backend_outs e m1 x1 l t0 Hfx2 PA1 FT HD Hfit) as (extra & O2 & EX).
    rewrite <- CH in O2. rewrite (PRE _ O2). rewrite Nl.
    destruct l as [|a0 l0].
    + rewrite EX. reflexivity.
    + destruct EX as (a & d & b & Ia & BD & ->).
      rewrite Forall_forall in BO. destruct (BO a Ia) as (ip & port & BD' & CAN & VIS).
      rewrite BD' in BD. injection BD as <-. rewrite obs_udp, VIS.
      assert (HI : In (udp_label ip port) (backend_labels (a0 :: l0))).
      { unfold backend_labels.
        replace (udp_label ip port) with (s2b "udp:" ++ a) by (rewrite <- CAN; reflexivity).
        apply (in_map (fun a => s2b "udp:" ++ a)). exact Ia. }
      exact (backend_verdict (udp_label ip port) b (a0 :: l0) HI).
Qed.

(* REQUESTED FORM: [pre] is what process_message appends for the message read from connection cid.
   (cn_li cn = li, cn_id cn = cid, trim_left rest = [] and single_message are not needed at this level,
   nothing is needed about the received-support flag: see the head of the file.) *)
Theorem C03_judge_bridge_tcp_msg :
  forall pc stj cid li lc cn data closed jin m rest e x x' l pre,
  nth_opt (c_listens (pc_cfg pc)) li = Some lc -> e_cfg e = pc_cfg pc -> e_lc e = lc ->
  find (fun y => Nat.eqb (fst y) cid) (js_conns stj) = Some (cid, (li, cn_peer cn, cn_peer_port cn)) ->
  (li < dial_mark)%nat ->
  cn_from cn = {| t_kind := KTcpListen; t_addr := lc_addr lc; t_port := lc_tcp lc |} ->
  j_read data = Some jin -> parse_message data = Ok (m, rest) ->
  route_domain_in (RS m) -> to_domain m -> ruri_domain jin ->
  hosts_ok (pc_cfg pc) -> routes_ok (pc_cfg pc) -> (0 < lc_udp lc \/ 0 < lc_tcp lc)%Z ->
  fx_udp_via_listener (e_fx e) = true -> fx_stale_pin (e_fx e) = true ->
  nth_opt (js_backends stj) li = Some l -> pool_agree l (x_p x) ->
  Forall (backend_ok (pc_udp_endpoints pc)) l ->
  (forall ip port, C02.udp_slot_ok ip port (x_p x)) -> C02.tcp_slot_ok (x_p x) ->
  fits_datagram (write_message (would_send_c e (Some (cn_id cn)) (cn_peer cn) (cn_peer_port cn) (cn_from cn)
                                  (cn_received_support cn) m x)) = true ->
  process_message e (cn_peer cn) (cn_peer_port cn) (cn_from cn) (cn_received_support cn) (Some (cn_id cn)) m x = Ok x' ->
  x_outs x' = x_outs x ++ pre ->
  (forall q ip port, j_request jin = Some q -> j_choose (pc_cfg pc) lc true q = HHop (JTcp ip port) ->
     msg_count pre = 0%nat -> dest_ok pc stj (JTcp ip port) [] = true) ->
  judge_C03_event pc stj (EvTcpData cid data)
    (map labelled (filter (visible (pc_udp_endpoints pc)) pre)) closed = 0%nat.
Proof.
  intros pc stj cid li lc cn data closed jin m rest e x x' l pre
         N He Hlc Fd HMk Hcf J P Dom DT DR HO RO Hport Hfx1 Hfx2 Nl PA BO Hslot Htso Hfit H EO Htcp.
  destruct (C03_judge_bridge_tcp_msg_ex pc stj cid li lc cn data closed jin m rest e x x' l
              N He Hlc Fd HMk Hcf J P Dom DT DR HO RO Hport Hfx1 Hfx2 Nl PA BO Hslot Htso Hfit H) as (pre' & O & _ & K).
  rewrite O in EO. apply app_inv_head in EO. subst pre'. apply K, Htcp.
Qed.

(* ---- one step of the proxy ---- *)
(* only keep-alive blanks left: the reader waits, whatever the fuel *)
Lemma tcp_messages_blank f e cn s x : trim_left s = [] -> tcp_messages f e cn s x = Ok x.
Proof. intros T. destruct f as [|f]; cbn [tcp_messages]; [reflexivity|]. rewrite T. reflexivity. Qed.

Lemma parse_message_nonblank data m rest : parse_message data = Ok (m, rest) -> trim_left data <> [].
Proof.
  intros P E. unfold parse_message in P. rewrite E in P.
  cbv beta iota zeta delta [read_line] in P. discriminate P.
Qed.

(* a chunk holding exactly one message (then only blanks): tcp_messages = process_message of that message *)
Lemma tcp_messages_single e cn data x m rest :
  parse_message data = Ok (m, rest) -> trim_left rest = [] ->
  tcp_messages (S (List.length data)) e cn data x =
  process_message e (cn_peer cn) (cn_peer_port cn) (cn_from cn) (cn_received_support cn) (Some (cn_id cn)) m x.
Proof.
  intros P T. cbn [tcp_messages].
  destruct (trim_left data) as [|c0 r0] eqn:TD; [exfalso; exact (parse_message_nonblank _ _ _ P TD)|].
  rewrite P.
  destruct (process_message e (cn_peer cn) (cn_peer_port cn) (cn_from cn) (cn_received_support cn)
                            (Some (cn_id cn)) m x) as [x1| |]; [|reflexivity|reflexivity].
  apply tcp_messages_blank. exact T.
Qed.

(* the half of C03_bridge.agree the bridge uses: the judge's backend lists against the pools *)
Definition pools_agree (stj : jstate) (st : state) : Prop :=
  forall li p, nth_p (st_proxies st) li = Some p ->
    exists l, nth_opt (js_backends stj) li = Some l /\ pool_agree l p.
Lemma agree_pools stj st : agree stj st -> pools_agree stj st.
Proof. intros [A _]. exact A. Qed.

Definition step_would_send_tcp (fx : fixes) (c : cfg) (now : Z) (br : bytes) (st : state) (lc : listen_cfg)
           (cn : conn) (p : pstate) (m : message) : message :=
  let e := mk_env fx c (item_rs_of (fx_wiring fx)) (cn_li cn) lc now br in
  would_send_c e (Some (cn_id cn)) (cn_peer cn) (cn_peer_port cn) (cn_from cn) (cn_received_support cn) m
    {| x_learned := st_learned st; x_p := p; x_conns := st_conns st; x_world := st_world st; x_outs := [] |}.

(* THE BRIDGE for one step of the whole proxy on a chunk read on connection [cid]: [outs] is what RunProxy
   prints for the event; [cn] is the model's record of the connection (open, accepted). *)
Theorem C03_judge_bridge_tcp_step :
  forall pc stj fx now br st st' outs cid li lc cn p data closed jin m rest,
  nth_opt (c_listens (pc_cfg pc)) li = Some lc ->
  find (fun y => Nat.eqb (cn_id y) cid) (st_conns st) = Some cn ->
  find (fun y => Nat.eqb (fst y) cid) (js_conns stj) = Some (cid, (li, cn_peer cn, cn_peer_port cn)) ->
  (li < dial_mark)%nat ->
  cn_li cn = li -> cn_open cn = true ->
  cn_from cn = {| t_kind := KTcpListen; t_addr := lc_addr lc; t_port := lc_tcp lc |} ->
  j_read data = Some jin -> parse_message data = Ok (m, rest) -> trim_left rest = [] ->
  route_domain_in (RS m) -> to_domain m -> ruri_domain jin ->
  hosts_ok (pc_cfg pc) -> routes_ok (pc_cfg pc) -> (0 < lc_udp lc \/ 0 < lc_tcp lc)%Z ->
  fx_udp_via_listener fx = true -> fx_stale_pin fx = true ->
  pools_agree stj st -> nth_p (st_proxies st) li = Some p ->
  (forall l, nth_opt (js_backends stj) li = Some l -> Forall (backend_ok (pc_udp_endpoints pc)) l) ->
  (forall ip port, C02.udp_slot_ok ip port p) -> C02.tcp_slot_ok p ->
  fits_datagram (write_message (step_would_send_tcp fx (pc_cfg pc) now br st lc cn p m)) = true ->
  proxy_step fx (pc_cfg pc) now br st (EvTcpData cid data) = Ok (st', outs) ->
  (forall q ip port, j_request jin = Some q -> j_choose (pc_cfg pc) lc true q = HHop (JTcp ip port) ->
     msg_count outs = 0%nat -> dest_ok pc stj (JTcp ip port) [] = true) ->
  judge_C03_event pc stj (EvTcpData cid data)
    (map labelled (filter (visible (pc_udp_endpoints pc)) outs)) closed = 0%nat.
Proof.
  intros pc stj fx now br st st' outs cid li lc cn p data closed jin m rest
         N Fc Fd HMk Hli Hop Hcf J P Hr Dom DT DR HO RO Hport Hfx1 Hfx2 AG Np BO Hslot Htso Hfit H Htcp.
  subst li.
  destruct (AG (cn_li cn) p Np) as (l & Nl & PA).
  unfold proxy_step in H. rewrite Fc, Hop in H. cbv beta iota zeta in H. rewrite N in H.
  unfold run_ctx in H. rewrite Np in H.
  rewrite (tcp_messages_single _ cn data _ m rest P Hr) in H.
  match type of H with context [process_message ?e ?a ?b ?f ?r ?t ?mm ?xx] =>
    destruct (process_message e a b f r t mm xx) as [x'| |] eqn:PM; try discriminate H;
    destruct (C03_judge_bridge_tcp_msg_ex pc stj cid (cn_li cn) lc cn data closed jin m rest e xx x' l
                N eq_refl eq_refl Fd HMk Hcf J P Dom DT DR HO RO Hport Hfx1 Hfx2 Nl PA (BO l Nl) Hslot Htso Hfit PM)
      as (pre & O & _ & K) end.
  cbn [x_outs app] in O. injection H as _ <-. rewrite O in *. apply K. exact Htcp.
Qed.

(* ... with conditions on the input, the configuration and the two states only, when the hop the judge reads
   in the request is not a TCP destination *)
Corollary C03_judge_bridge_tcp_step_no_tcp :
  forall pc stj fx now br st st' outs cid li lc cn p data closed jin m rest,
  nth_opt (c_listens (pc_cfg pc)) li = Some lc ->
  find (fun y => Nat.eqb (cn_id y) cid) (st_conns st) = Some cn ->
  find (fun y => Nat.eqb (fst y) cid) (js_conns stj) = Some (cid, (li, cn_peer cn, cn_peer_port cn)) ->
  (li < dial_mark)%nat ->
  cn_li cn = li -> cn_open cn = true ->
  cn_from cn = {| t_kind := KTcpListen; t_addr := lc_addr lc; t_port := lc_tcp lc |} ->
  j_read data = Some jin -> parse_message data = Ok (m, rest) -> trim_left rest = [] ->
  route_domain_in (RS m) -> to_domain m -> ruri_domain jin ->
  hosts_ok (pc_cfg pc) -> routes_ok (pc_cfg pc) -> (0 < lc_udp lc \/ 0 < lc_tcp lc)%Z ->
  fx_udp_via_listener fx = true -> fx_stale_pin fx = true ->
  pools_agree stj st -> nth_p (st_proxies st) li = Some p ->
  (forall l, nth_opt (js_backends stj) li = Some l -> Forall (backend_ok (pc_udp_endpoints pc)) l) ->
  (forall ip port, C02.udp_slot_ok ip port p) -> C02.tcp_slot_ok p ->
  fits_datagram (write_message (step_would_send_tcp fx (pc_cfg pc) now br st lc cn p m)) = true ->
  proxy_step fx (pc_cfg pc) now br st (EvTcpData cid data) = Ok (st', outs) ->
  (forall q ip port, j_request jin = Some q -> j_choose (pc_cfg pc) lc true q <> HHop (JTcp ip port)) ->
  judge_C03_event pc stj (EvTcpData cid data)
    (map labelled (filter (visible (pc_udp_endpoints pc)) outs)) closed = 0%nat.
Proof.
  intros pc stj fx now br st st' outs cid li lc cn p data closed jin m rest
         N Fc Fd HMk Hli Hop Hcf J P Hr Dom DT DR HO RO Hport Hfx1 Hfx2 AG Np BO Hslot Htso Hfit H NT.
  apply (C03_judge_bridge_tcp_step pc stj fx now br st st' outs cid li lc cn p data closed jin m rest
           N Fc Fd HMk Hli Hop Hcf J P Hr Dom DT DR HO RO Hport Hfx1 Hfx2 AG Np BO Hslot Htso Hfit H).
  intros q ip port Q JC _. exfalso. exact (NT q ip port Q JC).
Qed.

(* ================================================================== E. concrete instances *)
(* a decidable sufficient condition for the two table conditions: every key is a tcp key and no entry holds
   a UDP client (true after EvTcpAccept on a fresh proxy: one entry, the accepted connection) *)
Definition slots_b (p : pstate) : bool :=
  forallb (fun kv => has_prefix (s2b "tcp://") (fst kv) &&
                     match fo_pri (snd kv) with Some (PUdp _ _) | Some (PUdpVia _ _) => false | _ => true end)
          (ps_table p).
Lemma slots_b_sound p : slots_b p = true -> (forall ip port, C02.udp_slot_ok ip port p) /\ C02.tcp_slot_ok p.
Proof.
  unfold slots_b. intros H. rewrite forallb_forall in H. split.
  - intros ip port. unfold C02.udp_slot_ok.
    assert (Q : has_prefix (s2b "tcp://") (C02.udp_key ip port) = false) by exact (C02.udp_key_not_tcp ip port []).
    destruct (alookup (C02.udp_key ip port) (ps_table p)) as [f|] eqn:E; [|exact I].
    apply alookup_in in E. specialize (H _ E). cbn [fst] in H. rewrite Q in H. discriminate H.
  - intros k f HI _ ip port. specialize (H _ HI). cbn [fst snd] in H.
    apply andb_true_iff in H. destruct H as [_ H].
    destruct (fo_pri f) as [[a b|a b|c ex]|]; try discriminate H; split; discriminate.
Qed.

(* the configuration of proofs/C01.v with a listener whose TCP port (5062) differs from its UDP port
   (5060); the driver owns sockets at the peer 10.0.0.9:5070 and at the backend 10.0.0.2:5080; the peer
   10.0.0.7:5080 accepts connections.  A peer connects from 10.0.0.9:40000, then sends one request
   (two Via headers, a body, a keep-alive CR LF behind it) on the connection. *)
Definition t3_lc : listen_cfg :=
  {| lc_addr := s2b "10.0.0.1"; lc_udp := 5060; lc_tcp := 5062; lc_backends := [s2b "10.0.0.2:5080"];
     lc_dynamic := false; lc_no_received := false; lc_def_route := false; lc_must_rr := true |}.
Definition t3_cfg : cfg :=
  {| c_name := c_name C01.ex_cfg; c_keep_next_hop := false; c_dialog_timeout := 3600;
     c_routes := c_routes C01.ex_cfg; c_hosts := []; c_listens := [t3_lc] |}.
Definition t3_pc : proxy_case :=
  {| pc_cfg := t3_cfg; pc_tcp_listeners := [(s2b "10.0.0.7", 5080%Z)];
     pc_udp_endpoints := [(s2b "10.0.0.9", 5070%Z); (s2b "10.0.0.2", 5080%Z)]; pc_events := []; pc_waits := [] |}.
Definition t3_st0 : state := init_state t3_cfg 0 [(s2b "10.0.0.7", 5080%Z)].
Definition t3_accept : event := EvTcpAccept 0 (s2b "10.0.0.9") 40000%Z.
(* model state and judge bookkeeping after the accept *)
Definition t3_st1 : state :=
  match proxy_step all_fixed t3_cfg 500 (branch_of 0) t3_st0 t3_accept with Ok (s, _) => s | _ => t3_st0 end.
Definition t3_js1 : jstate := js_step_c (js_init t3_cfg) t3_accept [] [].
Definition t3_cn : conn :=
  {| cn_id := 0; cn_li := 0; cn_open := true; cn_peer := s2b "10.0.0.9"; cn_peer_port := 40000;
     cn_from := {| t_kind := KTcpListen; t_addr := lc_addr t3_lc; t_port := lc_tcp t3_lc |};
     cn_received_support := true |}.
Definition t3_p1 : pstate :=
  match nth_p (st_proxies t3_st1) 0 with Some p => p | None => init_pstate t3_cfg 0 t3_lc end.
Definition t3_step (d : bytes) : res (state * list output) :=
  proxy_step all_fixed (pc_cfg t3_pc) 1000 (branch_of 1) t3_st1 (EvTcpData 0 d).
Definition t3_outs (d : bytes) : list output := match t3_step d with Ok (_, o) => o | _ => [] end.
Definition t3_tail : bytes :=
  s2b "Via: SIP/2.0/TCP 10.0.0.9:5070;branch=z9hG4bKabc;rport" ++ crlf ++
  s2b "Via: SIP/2.0/UDP 10.0.0.8:5071;branch=z9hG4bK0" ++ crlf ++
  s2b "From: <sip:alice@a.example.com>;tag=1" ++ crlf ++
  s2b "To: <sip:svc@example.com>" ++ crlf ++
  s2b "Call-ID: call-1@host" ++ crlf ++
  s2b "CSeq: 7 INVITE" ++ crlf ++
  s2b "Content-Length: 3" ++ crlf ++ crlf ++ s2b "abc" ++ crlf.

Example t3_accept_ok : proxy_step all_fixed t3_cfg 500 (branch_of 0) t3_st0 t3_accept = Ok (t3_st1, []).
Proof. vm_compute. reflexivity. Qed.
Example t3_hyp_model_conn : find (fun y => Nat.eqb (cn_id y) 0) (st_conns t3_st1) = Some t3_cn.
Proof. vm_compute. reflexivity. Qed.
Example t3_hyp_judge_conn :
  find (fun y => Nat.eqb (fst y) 0) (js_conns t3_js1) = Some (0%nat, (0%nat, cn_peer t3_cn, cn_peer_port t3_cn)).
Proof. vm_compute. reflexivity. Qed.
Example t3_hyp_proxy : nth_p (st_proxies t3_st1) 0 = Some t3_p1.
Proof. vm_compute. reflexivity. Qed.
Example t3_hyp_slots : (forall ip port, C02.udp_slot_ok ip port t3_p1) /\ C02.tcp_slot_ok t3_p1.
Proof. apply slots_b_sound. vm_compute. reflexivity. Qed.
(* the accepted connection is in the table (the conditions are not about an empty table) *)
Example t3_table_keys : map fst (ps_table t3_p1) = [s2b "tcp://10.0.0.9:40000"].
Proof. vm_compute. reflexivity. Qed.

Lemma t3_pools : pools_agree t3_js1 t3_st1.
Proof.
  intros li p Np.
  assert (SP : st_proxies t3_st1 = [t3_p1]) by (vm_compute; reflexivity).
  rewrite SP in Np. destruct li as [|li]; [|destruct li; discriminate Np].
  assert (E : p = t3_p1) by (injection Np as <-; reflexivity). subst p.
  exists [s2b "10.0.0.2:5080"]. split; [vm_compute; reflexivity|].
  assert (E1 : rr_backends (ps_rr t3_p1) = [s2b "10.0.0.2:5080"]) by (vm_compute; reflexivity).
  assert (E2 : ps_backends t3_p1 = [(s2b "10.0.0.2:5080", 0%nat)]) by (vm_compute; reflexivity).
  split; [intros a; rewrite E1; tauto|]. split.
  - intros a g I. rewrite E2 in I. destruct I as [I|[]]. injection I as <- _. left. reflexivity.
  - intros _. vm_compute. reflexivity.
Qed.

(* the step theorem instantiated on the case: what remains to check on a concrete chunk *)
Lemma t3_bridge d :
  j_read d = Some (jin_of d) -> parse_message d = Ok (parsed d, crlf) ->
  route_domain_in (RS (parsed d)) -> to_domain (parsed d) -> ruri_domain (jin_of d) ->
  fits_datagram (write_message (step_would_send_tcp all_fixed t3_cfg 1000 (branch_of 1) t3_st1 t3_lc t3_cn t3_p1
                                  (parsed d))) = true ->
  (forall ip port, option_map (j_choose t3_cfg t3_lc true) (j_request (jin_of d)) <> Some (HHop (JTcp ip port))) \/
  msg_count (t3_outs d) = 1%nat ->
  is_ok (t3_step d) = true ->
  judge_C03_event t3_pc t3_js1 (EvTcpData 0 d)
    (map labelled (filter (visible (pc_udp_endpoints t3_pc)) (t3_outs d))) [] = 0%nat.
Proof.
  intros J P Dom DT DR Hfit NT OK.
  assert (Hrun : exists s, t3_step d = Ok (s, t3_outs d)).
  { unfold t3_outs. destruct (t3_step d) as [[s o]| |]; [exists s; reflexivity|discriminate OK|discriminate OK]. }
  destruct Hrun as (s & Hrun). unfold t3_step in Hrun.
  refine (C03_judge_bridge_tcp_step t3_pc t3_js1 all_fixed 1000%Z (branch_of 1) t3_st1 s (t3_outs d)
            0%nat 0%nat t3_lc t3_cn t3_p1 d [] (jin_of d) (parsed d) crlf
            eq_refl t3_hyp_model_conn t3_hyp_judge_conn C07_bridge.zero_below_mark eq_refl eq_refl eq_refl J P eq_refl Dom DT DR _ _ _
            eq_refl eq_refl t3_pools t3_hyp_proxy _ (proj1 t3_hyp_slots) (proj2 t3_hyp_slots) Hfit Hrun _).
  - intros n ip A. discriminate A.
  - apply routes_ok_b_sound. vm_compute. reflexivity.
  - left. unfold t3_lc. cbn [lc_udp]. lia.
  - intros l E.
    assert (B : js_backends t3_js1 = [[s2b "10.0.0.2:5080"]]) by (vm_compute; reflexivity).
    rewrite B in E. injection E as <-. constructor; [|constructor].
    exists (s2b "10.0.0.2"), 5080%Z. split; [vm_compute; reflexivity|]. split; vm_compute; reflexivity.
  - intros q ip port Q JC C0. destruct NT as [NT|C1]; [|rewrite C1 in C0; discriminate C0].
    exfalso. apply (NT ip port). rewrite Q. cbn [option_map]. f_equal. exact JC.
Qed.

Definition t3_to : a_fromto :=
  {| af_addr := AFName {| an_display := [];
                          an_addr := AASip {| au_secure := false; au_user := Some (s2b "svc", None);
                                              au_host := s2b "example.com"; au_port := None;
                                              au_params := []; au_headers := [] |} |};
     af_params := [] |}.
Lemma t3_to_domain d :
  get_header (s2b "To") (m_headers (parsed d)) = Some {| h_name := s2b "To"; h_val := HRaw (rp_fromto t3_to) |} ->
  to_domain (parsed d).
Proof. intros E. unfold to_domain. rewrite E. exists t3_to. split; [vm_compute; reflexivity|reflexivity]. Qed.
(* (the first premise is the first conjunct of ruri_domain since strings.Fields is modelled Unicode-aware:
   on the start line Fields splits where the ASCII splitter does) *)
Lemma t3_ruri_domain d meth au ver :
  fields_go (jm_start (jin_of d)) = fields (jm_start (jin_of d)) ->
  fields (jm_start (jin_of d)) = [meth; rp_addr au; ver] -> wf_addr au = true -> ruri_domain (jin_of d).
Proof.
  intros G E W. split; [exact G|]. intros meth' u ver' F. rewrite E in F. injection F as _ <- _. exists au. split; [exact W|reflexivity].
Qed.

(* 1. Route: own entry = the listener's address and its TCP port 5062, next hop 10.0.0.9:5070 (udp), one
      more entry *)
Definition t3_routes : list a_relem :=
  [b13_elem "" "10.0.0.1" (Some 5062%Z); b13_elem "" "10.0.0.9" (Some 5070%Z); b13_elem """Far"" " "far.example.com" None].
Definition t3_req_route : bytes :=
  s2b "INVITE sip:bob@elsewhere.example SIP/2.0" ++ crlf ++
  s2b "Route: <sip:10.0.0.1:5062;lr>,<sip:10.0.0.9:5070;lr>,""Far"" <sip:far.example.com;lr>" ++ crlf ++ t3_tail.
Example t3_two_vias :
  List.length (filter (fun h => is_via (h_name h)) (m_headers (parsed t3_req_route))) = 2%nat.
Proof. vm_compute. reflexivity. Qed.
Example t3_route_accepted :
  map (fun o => fst (labelled o)) (t3_outs t3_req_route) = [s2b "udp:10.0.0.9:5070"] /\
  option_map (j_choose t3_cfg t3_lc true) (j_request (jin_of t3_req_route)) = Some (HHop (JUdp (s2b "10.0.0.9") 5070%Z)) /\
  judge_C03_event t3_pc t3_js1 (EvTcpData 0 t3_req_route)
    (map labelled (filter (visible (pc_udp_endpoints t3_pc)) (t3_outs t3_req_route))) [] = 0%nat.
Proof.
  split; [vm_compute; reflexivity|]. split; [vm_compute; reflexivity|]. apply t3_bridge.
  - vm_compute. reflexivity.
  - vm_compute. reflexivity.
  - assert (E : RS (parsed t3_req_route) = [{| h_name := s2b "Route"; h_val := HRaw (rp_route t3_routes) |}])
      by (vm_compute; reflexivity).
    rewrite E. cbn [route_domain_in]. split; [|exact I]. exists t3_routes.
    split; [discriminate|]. split; [vm_compute; reflexivity|]. split; [vm_compute; reflexivity|reflexivity].
  - apply t3_to_domain. vm_compute. reflexivity.
  - apply (t3_ruri_domain _ (s2b "INVITE") (b3_uri "bob" "elsewhere.example") (s2b "SIP/2.0"));
      vm_compute; reflexivity.
  - vm_compute. reflexivity.
  - left. intros ip port.
    assert (E : option_map (j_choose t3_cfg t3_lc true) (j_request (jin_of t3_req_route)) =
                Some (HHop (JUdp (s2b "10.0.0.9") 5070%Z))) by (vm_compute; reflexivity).
    rewrite E. discriminate.
  - vm_compute. reflexivity.
Qed.

(* 2. no Route, no static route for the To host, the Request-URI names the service: a backend *)
Definition t3_req_svc : bytes := s2b "INVITE sip:bob@example.com SIP/2.0" ++ crlf ++ t3_tail.
Example t3_backend_accepted :
  map (fun o => fst (labelled o)) (t3_outs t3_req_svc) = [s2b "udp:10.0.0.2:5080"] /\
  option_map (j_choose t3_cfg t3_lc true) (j_request (jin_of t3_req_svc)) = Some HBackend /\
  judge_C03_event t3_pc t3_js1 (EvTcpData 0 t3_req_svc)
    (map labelled (filter (visible (pc_udp_endpoints t3_pc)) (t3_outs t3_req_svc))) [] = 0%nat.
Proof.
  split; [vm_compute; reflexivity|]. split; [vm_compute; reflexivity|]. apply t3_bridge.
  - vm_compute. reflexivity.
  - vm_compute. reflexivity.
  - assert (E : RS (parsed t3_req_svc) = []) by (vm_compute; reflexivity). rewrite E. exact I.
  - apply t3_to_domain. vm_compute. reflexivity.
  - apply (t3_ruri_domain _ (s2b "INVITE") (b3_uri "bob" "example.com") (s2b "SIP/2.0")); vm_compute; reflexivity.
  - vm_compute. reflexivity.
  - left. intros ip port.
    assert (E : option_map (j_choose t3_cfg t3_lc true) (j_request (jin_of t3_req_svc)) = Some HBackend)
      by (vm_compute; reflexivity).
    rewrite E. discriminate.
  - vm_compute. reflexivity.
Qed.

(* 3. the Request-URI is the listener's address and its TCP port: addressed to the listener, a backend *)
Definition t3_self (port : Z) : a_addr :=
  AASip {| au_secure := false; au_user := None; au_host := s2b "10.0.0.1"; au_port := Some port;
           au_params := []; au_headers := [] |}.
Definition t3_req_self : bytes := s2b "INVITE sip:10.0.0.1:5062 SIP/2.0" ++ crlf ++ t3_tail.
Example t3_self_accepted :
  map (fun o => fst (labelled o)) (t3_outs t3_req_self) = [s2b "udp:10.0.0.2:5080"] /\
  option_map (j_choose t3_cfg t3_lc true) (j_request (jin_of t3_req_self)) = Some HBackend /\
  judge_C03_event t3_pc t3_js1 (EvTcpData 0 t3_req_self)
    (map labelled (filter (visible (pc_udp_endpoints t3_pc)) (t3_outs t3_req_self))) [] = 0%nat.
Proof.
  split; [vm_compute; reflexivity|]. split; [vm_compute; reflexivity|]. apply t3_bridge.
  - vm_compute. reflexivity.
  - vm_compute. reflexivity.
  - assert (E : RS (parsed t3_req_self) = []) by (vm_compute; reflexivity). rewrite E. exact I.
  - apply t3_to_domain. vm_compute. reflexivity.
  - apply (t3_ruri_domain _ (s2b "INVITE") (t3_self 5062) (s2b "SIP/2.0")); vm_compute; reflexivity.
  - vm_compute. reflexivity.
  - left. intros ip port.
    assert (E : option_map (j_choose t3_cfg t3_lc true) (j_request (jin_of t3_req_self)) = Some HBackend)
      by (vm_compute; reflexivity).
    rewrite E. discriminate.
  - vm_compute. reflexivity.
Qed.

(* 4. Route: own entry, then a next hop with transport=tcp at a peer that accepts connections: the proxy
      dials (connection 1: connection 0 is the accepted one) and writes on the new connection *)
Definition t3_tcp_routes : list a_relem := [b13_elem "" "10.0.0.1" (Some 5062%Z); b3_tcp_elem].
Definition t3_req_tcp : bytes :=
  s2b "INVITE sip:bob@elsewhere.example SIP/2.0" ++ crlf ++
  s2b "Route: <sip:10.0.0.1:5062;lr>,<sip:10.0.0.7:5080;transport=tcp;lr>" ++ crlf ++ t3_tail.
Example t3_tcp_accepted :
  map (fun o => fst (labelled o)) (t3_outs t3_req_tcp) = [s2b "dial:10.0.0.7:5080"; s2b "conn:1"] /\
  judge_C03_event t3_pc t3_js1 (EvTcpData 0 t3_req_tcp)
    (map labelled (filter (visible (pc_udp_endpoints t3_pc)) (t3_outs t3_req_tcp))) [] = 0%nat.
Proof.
  split; [vm_compute; reflexivity|]. apply t3_bridge.
  - vm_compute. reflexivity.
  - vm_compute. reflexivity.
  - assert (E : RS (parsed t3_req_tcp) = [{| h_name := s2b "Route"; h_val := HRaw (rp_route t3_tcp_routes) |}])
      by (vm_compute; reflexivity).
    rewrite E. cbn [route_domain_in]. split; [|exact I]. exists t3_tcp_routes.
    split; [discriminate|]. split; [vm_compute; reflexivity|]. split; [vm_compute; reflexivity|reflexivity].
  - apply t3_to_domain. vm_compute. reflexivity.
  - apply (t3_ruri_domain _ (s2b "INVITE") (b3_uri "bob" "elsewhere.example") (s2b "SIP/2.0"));
      vm_compute; reflexivity.
  - vm_compute. reflexivity.
  - right. vm_compute. reflexivity.
  - vm_compute. reflexivity.
Qed.

(* SENSITIVITY 1: wrong outputs.  For the request of run 1 (next hop 10.0.0.9:5070): the same judge, same
   bookkeeping, same event answers 2 when the message shows up at the backend instead, 3 when nothing is
   observed, 1 when it shows up twice; for the request of run 2 (backend) it answers 2 when the message
   goes to the peer and 3 when nothing is observed. *)
Example t3_wrong_rejected :
  judge_C03_event t3_pc t3_js1 (EvTcpData 0 t3_req_route) [(s2b "udp:10.0.0.2:5080", t3_req_route)] [] = 2%nat /\
  judge_C03_event t3_pc t3_js1 (EvTcpData 0 t3_req_route) [] [] = 3%nat /\
  judge_C03_event t3_pc t3_js1 (EvTcpData 0 t3_req_route)
    [(s2b "udp:10.0.0.9:5070", t3_req_route); (s2b "udp:10.0.0.9:5070", t3_req_route)] [] = 1%nat /\
  judge_C03_event t3_pc t3_js1 (EvTcpData 0 t3_req_svc) [(s2b "udp:10.0.0.9:5070", t3_req_svc)] [] = 2%nat /\
  judge_C03_event t3_pc t3_js1 (EvTcpData 0 t3_req_svc) [] [] = 3%nat.
Proof. repeat split; vm_compute; reflexivity. Qed.
(* without the judge's record of the connection there is no verdict (H_conn is not idle) *)
Example t3_unknown_conn :
  judge_C03_event t3_pc (js_init t3_cfg) (EvTcpData 0 t3_req_route) [] [] = 0%nat.
Proof. vm_compute. reflexivity. Qed.

(* SENSITIVITY 2: on a connection the port that counts is the TCP port.
   (a) first Route entry naming the UDP port 5060: NOT own on the connection; model and judge take it for
       the next hop (a datagram to 10.0.0.1:5060, where the driver has no socket: nothing observed,
       accepted); the outputs of run 1 (own entry popped, relayed to 10.0.0.9:5070) are rejected with 2.
   (b) Request-URI 10.0.0.1:5060: not the listener on the connection, not the service name: model and judge
       drop it; a relay to the backend is rejected with 2. *)
Definition t3_req_route_udp : bytes :=
  s2b "INVITE sip:bob@elsewhere.example SIP/2.0" ++ crlf ++
  s2b "Route: <sip:10.0.0.1:5060;lr>,<sip:10.0.0.9:5070;lr>,""Far"" <sip:far.example.com;lr>" ++ crlf ++ t3_tail.
Definition t3_req_self_udp : bytes := s2b "INVITE sip:10.0.0.1:5060 SIP/2.0" ++ crlf ++ t3_tail.
Example t3_port_matters :
  map (fun o => fst (labelled o)) (t3_outs t3_req_route_udp) = [s2b "udp:10.0.0.1:5060"] /\
  option_map (j_choose t3_cfg t3_lc true) (j_request (jin_of t3_req_route_udp))
    = Some (HHop (JUdp (s2b "10.0.0.1") 5060%Z)) /\
  judge_C03_event t3_pc t3_js1 (EvTcpData 0 t3_req_route_udp)
    (map labelled (filter (visible (pc_udp_endpoints t3_pc)) (t3_outs t3_req_route_udp))) [] = 0%nat /\
  judge_C03_event t3_pc t3_js1 (EvTcpData 0 t3_req_route_udp)
    (map labelled (filter (visible (pc_udp_endpoints t3_pc)) (t3_outs t3_req_route))) [] = 2%nat /\
  t3_outs t3_req_self_udp = [] /\
  option_map (j_choose t3_cfg t3_lc true) (j_request (jin_of t3_req_self_udp)) = Some HDrop /\
  judge_C03_event t3_pc t3_js1 (EvTcpData 0 t3_req_self_udp) [] [] = 0%nat /\
  judge_C03_event t3_pc t3_js1 (EvTcpData 0 t3_req_self_udp)
    (map labelled (filter (visible (pc_udp_endpoints t3_pc)) (t3_outs t3_req_self))) [] = 2%nat.
Proof. repeat split; vm_compute; reflexivity. Qed.

(* SENSITIVITY 3: DIALLED vs ACCEPTED connections.  A request whose first Route entry names the listener's
   address and its TCP port, then 10.0.0.9:5070.
   (a) it arrives on a connection THE PROXY DIALLED (connection 0 of a fresh proxy, opened at event 0 towards the
       TCP next hop 10.0.0.7:5080 of a datagram): that connection is read by its own transport (listener
       address, port 0 in the model / an OS-chosen port in the code), so the entry is NOT the proxy's own; it is
       the next hop: a datagram to 10.0.0.1:5062, where the driver owns no socket: nothing is observed.  The
       judge, whose bookkeeping filed connection 0 with the mark (conn_dialled), reads the same hop and accepts
       (the judge that did not tell dialled from accepted connections answered 3 here: last conjunct of (c)).
       The Route set relayed is the one the judge of C13 expects as well.
   (b) the same bytes on the ACCEPTED connection 0 of t3_st1: the entry is own, popped; relayed to
       10.0.0.9:5070; verdict 0.
   (c) the two bookkeepings do not accept each other's run: 2 (relayed although ... elsewhere) and 3. *)
Definition t3_req_own2 : bytes :=
  s2b "INVITE sip:bob@elsewhere.example SIP/2.0" ++ crlf ++
  s2b "Route: <sip:10.0.0.1:5062;lr>,<sip:10.0.0.9:5070;lr>" ++ crlf ++ t3_tail.
Definition t3d_run (st : state) (n : nat) (ev : event) : state * list output :=
  match proxy_step all_fixed t3_cfg 1000 (branch_of n) st ev with Ok r => r | _ => (st, []) end.
Definition t3d_shown (outs : list output) : list (bytes * bytes) :=
  map labelled (filter (visible (pc_udp_endpoints t3_pc)) outs).
Definition t3d_ev0 : event := EvUdp 0 (s2b "10.0.0.9") 5070%Z b3_req_tcp.
Definition t3d_st1 : state := fst (t3d_run t3_st0 0 t3d_ev0).
Definition t3d_outs0 : list output := snd (t3d_run t3_st0 0 t3d_ev0).
Definition t3d_js1 : jstate := js_step_c (js_init t3_cfg) t3d_ev0 (t3d_shown t3d_outs0) [].
Definition t3d_ev1 : event := EvTcpData 0 t3_req_own2.
Definition t3d_st2 : state := fst (t3d_run t3d_st1 1 t3d_ev1).
Definition t3d_outs1 : list output := snd (t3d_run t3d_st1 1 t3d_ev1).
Example t3_dialled_not_own :
  (* (a) *)
  proxy_step all_fixed t3_cfg 1000 (branch_of 0) t3_st0 t3d_ev0 = Ok (t3d_st1, t3d_outs0) /\
  proxy_step all_fixed t3_cfg 1000 (branch_of 1) t3d_st1 t3d_ev1 = Ok (t3d_st2, t3d_outs1) /\
  map (fun o => fst (labelled o)) t3d_outs0 = [s2b "dial:10.0.0.7:5080"; s2b "conn:0"] /\
  judge_C03_event t3_pc (js_init t3_cfg) t3d_ev0 (t3d_shown t3d_outs0) [] = 0%nat /\
  js_conns t3d_js1 = [(0%nat, (dial_mark, s2b "10.0.0.7", 5080%Z))] /\ conn_dialled t3d_js1 0 = true /\
  map (fun o => fst (labelled o)) t3d_outs1 = [s2b "udp:10.0.0.1:5062"] /\ t3d_shown t3d_outs1 = [] /\
  judge_C03_event t3_pc t3d_js1 t3d_ev1 (t3d_shown t3d_outs1) [] = 0%nat /\
  map (fun o => option_map (fun om => j_flat is_route (jm_headers om)) (j_read (snd o))) t3d_outs1
    = [Some [s2b "<sip:10.0.0.9:5070;lr>"]] /\
  judge_C13_event t3_pc t3d_js1 t3d_ev1 (map labelled t3d_outs1) [] = 0%nat /\
  (* (b) *)
  map (fun o => fst (labelled o)) (t3_outs t3_req_own2) = [s2b "udp:10.0.0.9:5070"] /\
  conn_dialled t3_js1 0 = false /\
  judge_C03_event t3_pc t3_js1 t3d_ev1 (t3d_shown (t3_outs t3_req_own2)) [] = 0%nat /\
  (* (c) *)
  judge_C03_event t3_pc t3d_js1 t3d_ev1 (t3d_shown (t3_outs t3_req_own2)) [] = 2%nat /\
  judge_C03_event t3_pc t3_js1 t3d_ev1 (t3d_shown t3d_outs1) [] = 3%nat.
Proof. repeat match goal with |- _ /\ _ => split end; vm_compute; reflexivity. Qed.

Print Assumptions choose_agree_gen.
Print Assumptions choice_c.
Print Assumptions pm_conn_udp_slot.
Print Assumptions pm_conn_tcp_slot.
Print Assumptions tcp_messages_single.
Print Assumptions C03_judge_bridge_tcp_msg_ex.
Print Assumptions C03_judge_bridge_tcp_msg.
Print Assumptions C03_judge_bridge_tcp_step.
Print Assumptions C03_judge_bridge_tcp_step_no_tcp.
Print Assumptions t3_route_accepted.
Print Assumptions t3_backend_accepted.
Print Assumptions t3_self_accepted.
Print Assumptions t3_tcp_accepted.
Print Assumptions t3_dialled_not_own.
