(* TB.v — theorems about ProxyTB.v (backends reached over TCP, a conservative extension of Proxy.v).

   Part 1  TB_conservative, TB_conservative_entry, TB_conservative_history:
           on a listen entry whose backends are UDP the extended step IS Proxy.proxy_step (cache untouched).
   Part 2  TB_copy_faithful (+ _response / _hop / _not_mine / _backend), TB_copy_faithful_process,
           TB_copy_faithful_process_response: the copied pipeline differs from the original only where a
           backend is reached.
   Part 3  TB_send_reuse, TB_send_dial, TB_send_refused, TB_send_malformed, TB_send_one_message: TCPBackend.Send.
   Part 4  TB_payload_agrees, TB_rotation_agrees: the message written to a TCP backend is the one the UDP model writes.
   Part 5  TB_at_most_one_message, TB_at_most_one, TB_at_most_one_tcp (C03 over TCP backends).
   Part 6  TB_sticky_step, TB_unpinned_step (C04 over TCP backends).
   Part 7  TB_remove_closes, TB_remove_no_cached.
   Part 8  concrete runs (non-vacuity): TB_ex_first_request, TB_ex_same_bytes, TB_ex_reuse_and_redial, TB_ex_pinned,
           TB_ex_remove, TB_ex_conservative, and instances of the hypotheses of the step theorems.
   Part 9  TB_cache_ok_step, TB_cache_ok_history, tb_key_inj, TB_cached_peer: after any history the connection cached
           for a backend object is a connection to that backend's address.
   Part 10 conns_fresh: TB_conns_fresh_init / _proxy_step / _step / _history / _reachable (connection numbers are unique and
           below the next one), TB_remove_closes_reachable, TB_cached_conn_unique.
   Every statement below is closed under the global context (see the audit at the end of the file). *)
From Coq Require Import List Ascii String ZArith Bool Arith Lia.
From Model Require Import Bytes BytesLemmas Uri Hdr Message Msg Rx Glob StaticRoute RoundRobin Pins Proxy RunProxy ProxyTB.
From Model.proofs Require C03 C04 C05 C06 C15.
Import ListNotations.
Open Scope Z_scope.

(* ================================================================== Part 1: conservative extension *)
(* per entry: the listen entry the event belongs to (if any) is not a TCP-backend entry *)
Theorem TB_conservative_entry : forall tb fx c now br st cache ev,
  match ev_li st ev with Some li => is_tb tb li = false | None => True end ->
  proxy_step_tb tb fx c now br st cache ev = lift_step (proxy_step fx c now br st ev) cache.
Proof.
  intros tb fx c now br st cache ev H. unfold proxy_step_tb.
  destruct (ev_li st ev) as [li|]; [rewrite H|]; reflexivity.
Qed.

Theorem TB_conservative : forall tb fx c now br st cache ev,
  (forall li, is_tb tb li = false) ->
  proxy_step_tb tb fx c now br st cache ev = lift_step (proxy_step fx c now br st ev) cache.
Proof.
  intros tb fx c now br st cache ev H. apply TB_conservative_entry. destruct (ev_li st ev); [apply H|exact I].
Qed.

(* an all-false (or empty) flag list *)
Lemma is_tb_all_false tb : forallb negb tb = true -> forall li, is_tb tb li = false.
Proof.
  unfold is_tb. induction tb as [|b r IH]; intros H li; [destruct li; reflexivity|].
  cbn [forallb] in H. apply andb_true_iff in H. destruct H as [Hb Hr].
  destruct li as [|li]; cbn [nth_opt]; [destruct b; [discriminate|reflexivity]|apply IH; exact Hr].
Qed.

(* histories: events with their instant and branch (C04.hist), folded with the extended step *)
Fixpoint run_tb (tb : list bool) (fx : fixes) (c : cfg) (st : state) (cache : bcache) (h : C04.hist)
  : res (state * bcache * list (list output)) :=
  match h with
  | [] => Ok (st, cache, [])
  | (now, br, ev) :: r =>
      match proxy_step_tb tb fx c now br st cache ev with
      | Ok (st1, cache1, o) =>
          match run_tb tb fx c st1 cache1 r with
          | Ok (st2, cache2, os) => Ok (st2, cache2, o :: os)
          | Err => Err
          | Panic => Panic
          end
      | Err => Err
      | Panic => Panic
      end
  end.
Definition lift_run (r : res (state * list (list output))) (cache : bcache) : res (state * bcache * list (list output)) :=
  match r with Ok (st', os) => Ok (st', cache, os) | Err => Err | Panic => Panic end.

(* with no TCP entry the extended run of ANY history is the Proxy run (C04.run), the cache untouched: every
   theorem about histories of proxy_step holds of the extended model *)
Theorem TB_conservative_history : forall tb fx c, (forall li, is_tb tb li = false) ->
  forall h st cache, run_tb tb fx c st cache h = lift_run (C04.run fx c st h) cache.
Proof.
  intros tb fx c H h. induction h as [|[[now br] ev] r IH]; intros st cache; cbn [run_tb C04.run]; [reflexivity|].
  rewrite (TB_conservative tb fx c now br st cache ev H).
  destruct (proxy_step fx c now br st ev) as [[st1 o]| |]; cbn [lift_step rbind]; try reflexivity.
  rewrite IH. destruct (C04.run fx c st1 r) as [[st2 os]| |]; reflexivity.
Qed.

(* ================================================================== Part 2: the copy is faithful *)
(* the only place where handle_message_tb leaves handle_message: a request without next hop (no Route entry left,
   no static route) that names the service *)
Definition reaches_backend (e : env) (from : stransport) (m : message) : bool :=
  is_request m &&
  (negb (is_ok (snd (next_request_hop (c_keep_next_hop (e_cfg e)) (route_table_of (e_cfg e)) m))) &&
   is_my_message (new_my_name (c_name (e_cfg e))) from
                 (fst (next_request_hop (c_keep_next_hop (e_cfg e)) (route_table_of (e_cfg e)) m))).
Definition lift_hm (r : ctx * message) (cache : bcache) : ctx * message * bcache :=
  let '(x', m') := r in (x', m', cache).

Theorem TB_copy_faithful : forall e from m x cache,
  reaches_backend e from m = false ->
  handle_message_tb e from m x cache = lift_hm (handle_message e from m x) cache.
Proof.
  intros e from m x cache. unfold reaches_backend, handle_message_tb, lift_hm.
  destruct (is_request m) eqn:R; [|intros _; reflexivity].
  cbn [andb]. unfold handle_message. rewrite R.
  destruct (next_request_hop (c_keep_next_hop (e_cfg e)) (route_table_of (e_cfg e)) m) as [m1 r]. cbn [fst snd].
  destruct r as [[[h p] t]| |]; cbn [is_ok negb andb]; intros H; [reflexivity| |]; rewrite H; reflexivity.
Qed.

(* ... and there both sides are their sendToBackend *)
Theorem TB_copy_faithful_backend : forall e from m x cache,
  reaches_backend e from m = true ->
  let m1 := fst (next_request_hop (c_keep_next_hop (e_cfg e)) (route_table_of (e_cfg e)) m) in
  handle_message_tb e from m x cache = send_to_backend_tb e m1 x cache /\
  handle_message e from m x = send_to_backend e m1 x.
Proof.
  intros e from m x cache. unfold reaches_backend, handle_message_tb, handle_message.
  destruct (is_request m) eqn:R; [|intros H; discriminate H].
  cbn [andb].
  destruct (next_request_hop (c_keep_next_hop (e_cfg e)) (route_table_of (e_cfg e)) m) as [m1 r]. cbn [fst snd].
  destruct r as [[[h p] t]| |]; cbn [is_ok negb andb]; intros H; [discriminate H| |]; rewrite H; split; reflexivity.
Qed.

Theorem TB_copy_faithful_response : forall e from m x cache,
  is_request m = false ->
  handle_message_tb e from m x cache = (let '(x', m') := handle_message e from m x in (x', m', cache)).
Proof.
  intros e from m x cache R. apply (TB_copy_faithful e from m x cache). unfold reaches_backend. rewrite R. reflexivity.
Qed.
Theorem TB_copy_faithful_hop : forall e from m x cache v,
  snd (next_request_hop (c_keep_next_hop (e_cfg e)) (route_table_of (e_cfg e)) m) = Ok v ->
  handle_message_tb e from m x cache = (let '(x', m') := handle_message e from m x in (x', m', cache)).
Proof.
  intros e from m x cache v H. apply (TB_copy_faithful e from m x cache). unfold reaches_backend. rewrite H.
  cbn [is_ok negb andb]. apply andb_false_r.
Qed.
Theorem TB_copy_faithful_not_mine : forall e from m x cache,
  is_my_message (new_my_name (c_name (e_cfg e))) from
    (fst (next_request_hop (c_keep_next_hop (e_cfg e)) (route_table_of (e_cfg e)) m)) = false ->
  handle_message_tb e from m x cache = (let '(x', m') := handle_message e from m x in (x', m', cache)).
Proof.
  intros e from m x cache H. apply (TB_copy_faithful e from m x cache). unfold reaches_backend. rewrite H.
  rewrite !andb_false_r. reflexivity.
Qed.

(* ---- handleRawMessage: the common prefix, as one function.  [pm_reach] is the message (and the context)
   that reaches HandleMessage. ---- *)
Definition pm_reach (e : env) (peer : bytes) (peer_port : Z) (from : stransport) (rs : bool)
           (tcp : option nat) (m0 : message) (x : ctx) : res (message * ctx) :=
  let '(m1, l1) := C06.pm_learn peer from m0 x in
  let m2 := if (is_request m1 && rs)%bool then fst (s_set_received peer peer_port m1) else m1 in
  let '(m3, rp) := C06.pm_conn e tcp m2 x in
  match rp with
  | Panic => Panic
  | Err => Err
  | Ok p1 =>
      let m4 := fst (mtry (try_remove_top_route (e_cfg e) from) m3) in
      let '(m5, p2) :=
        if is_response m4 then
          let '(m', r) := handle_dialog e peer peer_port p1 m4 in
          (m', match r with Ok p' => p' | _ => p1 end)
        else (m4, p1) in
      Ok (m5, {| x_learned := l1; x_p := p2; x_conns := x_conns x; x_world := x_world x; x_outs := x_outs x |})
  end.

Lemma process_message_reach e peer peer_port from rs tcp m0 x :
  process_message e peer peer_port from rs tcp m0 x =
  match pm_reach e peer peer_port from rs tcp m0 x with
  | Ok (m5, x1) => Ok (fst (handle_message e from m5 x1))
  | Err => Err
  | Panic => Panic
  end.
Proof.
  rewrite C06.process_message_unfold. unfold pm_reach, C06.pm_tail.
  destruct (C06.pm_learn peer from m0 x) as [m1 l1]. cbv zeta.
  destruct (C06.pm_conn e tcp _ x) as [m3 [p1| |]]; try reflexivity.
  match goal with |- context [if is_response ?m4 then ?A else ?B] => destruct (if is_response m4 then A else B) as [m5 p2] end.
  reflexivity.
Qed.

Lemma process_message_tb_reach e peer peer_port from rs tcp m0 x cache :
  process_message_tb e peer peer_port from rs tcp m0 x cache =
  match pm_reach e peer peer_port from rs tcp m0 x with
  | Ok (m5, x1) => let '(x2, _, cache2) := handle_message_tb e from m5 x1 cache in Ok (x2, cache2)
  | Err => Err
  | Panic => Panic
  end.
Proof.
  unfold process_message_tb, pm_reach. fold (C06.pm_learn peer from m0 x).
  destruct (C06.pm_learn peer from m0 x) as [m1 l1]. cbv zeta.
  set (m2 := if (is_request m1 && rs)%bool then fst (s_set_received peer peer_port m1) else m1).
  fold (C06.pm_conn e tcp m2 x). destruct (C06.pm_conn e tcp m2 x) as [m3 [p1| |]]; try reflexivity.
  match goal with |- context [if is_response ?m4 then ?A else ?B] => destruct (if is_response m4 then A else B) as [m5 p2] end.
  reflexivity.
Qed.

Definition lift_pm (r : res ctx) (cache : bcache) : res (ctx * bcache) :=
  match r with Ok x' => Ok (x', cache) | Err => Err | Panic => Panic end.

(* the whole per-message pipeline: when the message that reaches HandleMessage does not go to a backend, the
   copy computes what the original computes, and the cache is untouched *)
Theorem TB_copy_faithful_process : forall e peer peer_port from rs tcp m0 x cache,
  match pm_reach e peer peer_port from rs tcp m0 x with
  | Ok (m5, _) => reaches_backend e from m5 = false
  | _ => True
  end ->
  process_message_tb e peer peer_port from rs tcp m0 x cache =
  match process_message e peer peer_port from rs tcp m0 x with
  | Ok x' => Ok (x', cache) | Err => Err | Panic => Panic end.
Proof.
  intros e peer pp from rs tcp m0 x cache H. rewrite process_message_tb_reach, process_message_reach.
  destruct (pm_reach e peer pp from rs tcp m0 x) as [[m5 x1]| |]; try reflexivity.
  rewrite (TB_copy_faithful e from m5 x1 cache H). unfold lift_hm.
  destruct (handle_message e from m5 x1) as [x' m']. reflexivity.
Qed.

(* a response is still a response when it reaches HandleMessage *)
Lemma pm_reach_response e peer peer_port from rs tcp m0 x : is_request m0 = false ->
  exists m5 x1, pm_reach e peer peer_port from rs tcp m0 x = Ok (m5, x1) /\ is_request m5 = false.
Proof.
  intros R. unfold pm_reach, C06.pm_learn. rewrite R. cbn [andb]. cbv iota beta. rewrite R. cbn [andb]. cbv iota beta.
  assert (T : C06.pm_conn e tcp m0 x = (m0, Ok (x_p x))).
  { unfold C06.pm_conn. destruct tcp; [rewrite R|]; reflexivity. }
  rewrite T. cbv iota beta zeta.
  pose proof (C04.pres_try C04.NR _ (C04.pres_try_remove_top_route C04.NR (e_cfg e) from C04.NR_noroute) m0) as K4.
  set (m4 := fst (mtry (try_remove_top_route (e_cfg e) from) m0)) in *.
  assert (R4 : is_response m4 = true).
  { rewrite (C04.k_is_response C04.NR m0 m4 K4). unfold is_response. rewrite R. reflexivity. }
  rewrite R4.
  destruct (C04.handle_dialog_run e peer peer_port (x_p x) m4) as (m5 & E5 & K5). rewrite E5.
  eexists. eexists. split; [reflexivity|].
  rewrite (C04.k_is_request C04.names m4 m5 K5), (C04.k_is_request C04.NR m0 m4 K4). exact R.
Qed.

(* every response, any transport, any state *)
Theorem TB_copy_faithful_process_response : forall e peer peer_port from rs tcp m x cache,
  is_request m = false ->
  process_message_tb e peer peer_port from rs tcp m x cache =
  match process_message e peer peer_port from rs tcp m x with
  | Ok x' => Ok (x', cache) | Err => Err | Panic => Panic end.
Proof.
  intros e peer pp from rs tcp m x cache R. apply TB_copy_faithful_process.
  destruct (pm_reach_response e peer pp from rs tcp m x R) as (m5 & x1 & -> & R5).
  unfold reaches_backend. rewrite R5. reflexivity.
Qed.

(* ================================================================== Part 3: TCPBackend.Send *)
Definition tb_listens (x : ctx) (ip : bytes) (port : Z) : bool :=
  existsb (fun '(h, pt) => beq h ip && Z.eqb pt port) (w_tcp_listeners (x_world x)).
(* the cached connection of the object, if it can still be written *)
Definition tb_usable (x : ctx) (key : bytes) (cache : bcache) : option nat :=
  match alookup key cache with
  | Some c => if conn_open (x_conns x) c then Some c else None
  | None => None
  end.
(* the failed write forgets the cached connection *)
Definition tb_forget (key : bytes) (cache : bcache) : bcache :=
  match alookup key cache with Some _ => adel key cache | None => cache end.
Definition tb_new_conn (e : env) (x : ctx) (ip : bytes) (port : Z) : conn :=
  {| cn_id := w_next_conn (x_world x); cn_li := e_li e; cn_open := true; cn_peer := ip; cn_peer_port := port;
     cn_from := tb_local; cn_received_support := e_item_rs e |}.
Definition tb_dial_ctx (e : env) (x : ctx) (ip : bytes) (port : Z) : ctx :=
  {| x_learned := x_learned x; x_p := x_p x; x_conns := x_conns x ++ [tb_new_conn e x ip port];
     x_world := {| w_tcp_listeners := w_tcp_listeners (x_world x); w_next_conn := S (w_next_conn (x_world x)) |};
     x_outs := x_outs x |}.

(* the whole function, case by case *)
Lemma tcp_backend_send_cases e a g b x cache :
  tcp_backend_send e a g b x cache =
  match last_index_byte ":"%char a with
  | None => (x, cache, [], false)
  | Some pos =>
      let ip := firstn pos a in
      let port := atoi_val (skipn (S pos) a) in
      let key := tb_key (e_li e) a g in
      match tb_usable x key cache with
      | Some c => (x, cache, [(DConn c, b)], true)
      | None =>
          if tb_listens x ip port
          then (tb_dial_ctx e x ip port, aset key (w_next_conn (x_world x)) (tb_forget key cache),
                [(DDial ip port (w_next_conn (x_world x)), []); (DConn (w_next_conn (x_world x)), b)], true)
          else (x, tb_forget key cache, [], false)
      end
  end.
Proof.
  unfold tcp_backend_send, tb_usable, tb_forget, tb_listens, tb_dial_ctx, tb_new_conn.
  destruct (last_index_byte ":"%char a) as [pos|]; [|reflexivity]. cbv zeta.
  destruct (alookup (tb_key (e_li e) a g) cache) as [c|]; [destruct (conn_open (x_conns x) c)|]; reflexivity.
Qed.

Theorem TB_send_reuse : forall e a g b x cache pos c,
  last_index_byte ":"%char a = Some pos ->
  alookup (tb_key (e_li e) a g) cache = Some c -> conn_open (x_conns x) c = true ->
  tcp_backend_send e a g b x cache = (x, cache, [(DConn c, b)], true).
Proof.
  intros e a g b x cache pos c LI A O. rewrite tcp_backend_send_cases, LI. cbv zeta. unfold tb_usable. rewrite A, O. reflexivity.
Qed.

Lemma conn_open_new cs cn : cn_open cn = true -> conn_open (cs ++ [cn]) (cn_id cn) = true.
Proof.
  intros O. unfold conn_open. rewrite existsb_app. cbn [existsb]. rewrite Nat.eqb_refl, O. cbn. apply orb_true_r.
Qed.

Theorem TB_send_dial : forall e a g b x cache pos,
  last_index_byte ":"%char a = Some pos ->
  let ip := firstn pos a in
  let port := atoi_val (skipn (S pos) a) in
  let key := tb_key (e_li e) a g in
  let c := w_next_conn (x_world x) in
  (* no cached connection, or the cached one is closed *)
  (alookup key cache = None \/ exists c0, alookup key cache = Some c0 /\ conn_open (x_conns x) c0 = false) ->
  (* the backend accepts connections *)
  existsb (fun '(h, pt) => beq h ip && Z.eqb pt port) (w_tcp_listeners (x_world x)) = true ->
  exists x' cache',
    tcp_backend_send e a g b x cache = (x', cache', [(DDial ip port c, []); (DConn c, b)], true) /\
    x_conns x' = x_conns x ++ [{| cn_id := c; cn_li := e_li e; cn_open := true; cn_peer := ip; cn_peer_port := port;
                                  cn_from := tb_local; cn_received_support := e_item_rs e |}] /\
    conn_open (x_conns x') c = true /\
    alookup key cache' = Some c /\
    cache' = aset key c (tb_forget key cache) /\
    w_next_conn (x_world x') = S c /\ w_tcp_listeners (x_world x') = w_tcp_listeners (x_world x) /\
    x_p x' = x_p x /\ x_learned x' = x_learned x /\ x_outs x' = x_outs x.
Proof.
  intros e a g b x cache pos LI ip port key c NU L.
  exists (tb_dial_ctx e x ip port), (aset key c (tb_forget key cache)).
  split.
  - rewrite tcp_backend_send_cases, LI. cbv zeta. fold ip port key c.
    assert (U : tb_usable x key cache = None).
    { unfold tb_usable. destruct NU as [->|(c0 & -> & ->)]; reflexivity. }
    rewrite U. unfold tb_listens. fold ip port. rewrite L. reflexivity.
  - split; [reflexivity|]. split; [apply (conn_open_new (x_conns x) (tb_new_conn e x ip port)); reflexivity|].
    split; [apply alookup_aset_same|]. repeat split.
Qed.

Theorem TB_send_refused : forall e a g b x cache pos,
  last_index_byte ":"%char a = Some pos ->
  let ip := firstn pos a in
  let port := atoi_val (skipn (S pos) a) in
  let key := tb_key (e_li e) a g in
  (alookup key cache = None \/ exists c0, alookup key cache = Some c0 /\ conn_open (x_conns x) c0 = false) ->
  existsb (fun '(h, pt) => beq h ip && Z.eqb pt port) (w_tcp_listeners (x_world x)) = false ->
  exists cache',
    (* no output, no new connection, nothing else changed *)
    tcp_backend_send e a g b x cache = (x, cache', [], false) /\
    (* the stale entry, if any, is gone; every other entry is as before *)
    alookup key cache' = None /\ cache' = tb_forget key cache /\
    (forall k, k <> key -> alookup k cache' = alookup k cache).
Proof.
  intros e a g b x cache pos LI ip port key NU L. exists (tb_forget key cache). split.
  - rewrite tcp_backend_send_cases, LI. cbv zeta. fold ip port key.
    assert (U : tb_usable x key cache = None).
    { unfold tb_usable. destruct NU as [->|(c0 & -> & ->)]; reflexivity. }
    rewrite U. unfold tb_listens. fold ip port. rewrite L. reflexivity.
  - unfold tb_forget. destruct (alookup key cache) eqn:A.
    + split; [apply alookup_adel_same|]. split; [reflexivity|]. intros k NE. apply alookup_adel_other. exact NE.
    + split; [exact A|]. split; reflexivity.
Qed.

(* an address without ':' (net.Dial fails on it): nothing at all *)
Theorem TB_send_malformed : forall e a g b x cache,
  last_index_byte ":"%char a = None -> tcp_backend_send e a g b x cache = (x, cache, [], false).
Proof. intros e a g b x cache LI. rewrite tcp_backend_send_cases, LI. reflexivity. Qed.

(* every case: at most one output carries bytes, and those bytes are [b]; the send succeeds iff exactly one
   does; the proxy state proper (pstate, learned routes, earlier outputs) is not touched; connections are only added *)
Theorem TB_send_one_message : forall e a g b x cache x' cache' outs ok,
  tcp_backend_send e a g b x cache = (x', cache', outs, ok) ->
  C06.one_msg b outs /\
  (ok = true -> C06.msg_count outs = 1%nat) /\ (ok = false -> outs = []) /\
  x_p x' = x_p x /\ x_learned x' = x_learned x /\ x_outs x' = x_outs x /\
  (exists extra, x_conns x' = x_conns x ++ extra) /\
  w_tcp_listeners (x_world x') = w_tcp_listeners (x_world x).
Proof.
  intros e a g b x cache x' cache' outs ok. rewrite tcp_backend_send_cases.
  assert (Z0 : forall cache0, (x, cache0, @nil output, false) = (x', cache', outs, ok) ->
               C06.one_msg b outs /\ (ok = true -> C06.msg_count outs = 1%nat) /\ (ok = false -> outs = []) /\
               x_p x' = x_p x /\ x_learned x' = x_learned x /\ x_outs x' = x_outs x /\
               (exists extra, x_conns x' = x_conns x ++ extra) /\
               w_tcp_listeners (x_world x') = w_tcp_listeners (x_world x)).
  { intros cache0 H. injection H as <- _ <- <-. split; [apply C06.one_msg_nil|]. split; [discriminate|].
    repeat split. exists []. rewrite app_nil_r. reflexivity. }
  destruct (last_index_byte ":"%char a) as [pos|]; [|apply Z0]. cbv zeta.
  destruct (tb_usable x (tb_key (e_li e) a g) cache) as [c|].
  - intros H. injection H as <- _ <- <-. split; [apply C06.one_msg_single; reflexivity|].
    split; [reflexivity|]. split; [discriminate|]. repeat split. exists []. rewrite app_nil_r. reflexivity.
  - destruct (tb_listens x (firstn pos a) (atoi_val (skipn (S pos) a))); [|apply Z0].
    intros H. injection H as <- _ <- <-. split; [apply C06.one_msg_dial, C06.one_msg_single; reflexivity|].
    split; [reflexivity|]. split; [discriminate|]. repeat split. eexists. reflexivity.
Qed.

(* ================================================================== Part 4: the payload *)
Ltac in_names := cbn; tauto.

(* the pstate side of the context handed to TCPBackend.Send plays no part in it *)
Lemma tcp_backend_send_with_p e a g b x p cache :
  tcp_backend_send e a g b (with_p x p) cache =
  let '(x2, c2, o, ok) := tcp_backend_send e a g b x cache in (with_p x2 p, c2, o, ok).
Proof.
  rewrite !tcp_backend_send_cases. destruct (last_index_byte ":"%char a) as [pos|]; [|reflexivity]. cbv zeta.
  unfold tb_usable, tb_listens, tb_dial_ctx, tb_new_conn, with_p. cbn [x_conns x_world x_learned x_p x_outs].
  destruct (alookup (tb_key (e_li e) a g) cache) as [c|].
  - destruct (conn_open (x_conns x) c); [reflexivity|].
    destruct (existsb _ (w_tcp_listeners (x_world x))); reflexivity.
  - destruct (existsb _ (w_tcp_listeners (x_world x))); reflexivity.
Qed.

(* Backend.Send over TCP: outputs, and what it leaves alone *)
Lemma backend_send_tb_spec e bk b x cache x' cache' outs ok :
  backend_send_tb e bk b x cache = (x', cache', outs, ok) ->
  C06.one_msg b outs /\ (ok = true -> C06.msg_count outs = 1%nat) /\ (ok = false -> outs = []) /\
  x_learned x' = x_learned x /\ x_outs x' = x_outs x /\
  ps_pins (x_p x') = ps_pins (x_p x) /\ ps_backends (x_p x') = ps_backends (x_p x) /\
  ps_has_rr (x_p x') = ps_has_rr (x_p x) /\
  ps_rr (x_p x') = match bk with BObj _ _ => ps_rr (x_p x) | BRR => fst (rr_dispatch (ps_rr (x_p x))) end.
Proof.
  unfold backend_send_tb. destruct bk as [a g|].
  - intros H. destruct (TB_send_one_message _ _ _ _ _ _ _ _ _ _ H) as (O & K1 & K0 & P & L & XO & _).
    split; [exact O|]. split; [exact K1|]. split; [exact K0|]. split; [exact L|]. split; [exact XO|].
    rewrite P. repeat split.
  - destruct (rr_dispatch (ps_rr (x_p x))) as [r' o]. cbn [fst].
    assert (Z0 : (with_p x (with_rr (x_p x) r'), cache, @nil output, false) = (x', cache', outs, ok) ->
                 C06.one_msg b outs /\ (ok = true -> C06.msg_count outs = 1%nat) /\ (ok = false -> outs = []) /\
                 x_learned x' = x_learned x /\ x_outs x' = x_outs x /\
                 ps_pins (x_p x') = ps_pins (x_p x) /\ ps_backends (x_p x') = ps_backends (x_p x) /\
                 ps_has_rr (x_p x') = ps_has_rr (x_p x) /\ ps_rr (x_p x') = r').
    { intros H. injection H as <- _ <- <-. split; [apply C06.one_msg_nil|]. split; [discriminate|]. repeat split. }
    destruct o as [a|]; [|exact Z0]. destruct (alookup a (ps_backends (x_p x))) as [g|]; [|exact Z0].
    intros H. destruct (TB_send_one_message _ _ _ _ _ _ _ _ _ _ H) as (O & K1 & K0 & P & L & XO & _).
    split; [exact O|]. split; [exact K1|]. split; [exact K0|]. split; [exact L|]. split; [exact XO|].
    rewrite P. repeat split.
Qed.

(* Backend.Send over UDP (Proxy.backend_send): the same frame *)
Lemma backend_send_frame bk b p p2 outs ok : backend_send bk b p = (p2, outs, ok) ->
  C06.one_msg b outs /\ (ok = false -> outs = []) /\
  ps_pins p2 = ps_pins p /\ ps_backends p2 = ps_backends p /\ ps_has_rr p2 = ps_has_rr p /\
  ps_rr p2 = match bk with BObj _ _ => ps_rr p | BRR => fst (rr_dispatch (ps_rr p)) end.
Proof.
  unfold backend_send. cbv zeta. destruct bk as [a g|].
  - destruct (_ && _)%bool; intros H; injection H as <- <- <-.
    + split; [|split; [discriminate|repeat split]].
      destruct (last_index_byte ":"%char a); [apply C06.one_msg_single; reflexivity|apply C06.one_msg_nil].
    + split; [apply C06.one_msg_nil|]. repeat split.
  - destruct (rr_dispatch (ps_rr p)) as [r' o]. cbn [fst].
    destruct o as [a|]; [destruct (fits_datagram b)|]; intros H; injection H as <- <- <-.
    + split; [|split; [discriminate|repeat split]].
      destruct (last_index_byte ":"%char a); [apply C06.one_msg_single; reflexivity|apply C06.one_msg_nil].
    + split; [apply C06.one_msg_nil|]. repeat split.
    + split; [apply C06.one_msg_nil|]. repeat split.
Qed.

(* the backend sendToBackend selects is C04's [stb_sel] *)
Lemma stb_found_sel e p m :
  (let '(p1, ob) := match snd (find_backend_by_dialog e p m) with Ok v => v | _ => (p, None) end in
   (p1, match ob with Some b => b | None => BRR end)) = C04.stb_sel e p m.
Proof. unfold C04.stb_sel. destruct (C04.fbd_run e p m) as (m1 & E & _). rewrite E. reflexivity. Qed.

(* the transaction pin both models add after a successful send *)
Definition tb_pin (e : env) (b : bref) (m2 : message) (p : pstate) : pstate :=
  match snd (mtry s_client_transaction m2) with
  | Ok (Some t) => with_pins p (pins_add (e_now e) t (bref_val b) (get_expires (fst (mtry s_client_transaction m2)) 0) (ps_pins p))
  | _ => p
  end.
Lemma tb_pin_frame e b m2 p :
  ps_rr (tb_pin e b m2 p) = ps_rr p /\ ps_backends (tb_pin e b m2 p) = ps_backends p /\
  ps_has_rr (tb_pin e b m2 p) = ps_has_rr p.
Proof. unfold tb_pin. destruct (snd (mtry s_client_transaction m2)) as [[t|]| |]; repeat split. Qed.
Lemma tb_pin_pins e b m2 p p' : ps_pins p = ps_pins p' -> ps_pins (tb_pin e b m2 p) = ps_pins (tb_pin e b m2 p').
Proof. intros E. unfold tb_pin. destruct (snd (mtry s_client_transaction m2)) as [[t|]| |]; cbn [ps_pins with_pins]; rewrite ?E; reflexivity. Qed.

Lemma send_to_backend_unfold e m x t0 : ps_has_rr (x_p x) = true -> first_transport (e_lc e) = Some t0 ->
  send_to_backend e m x =
  let '(p1, b) := C04.stb_sel e (x_p x) m in
  let m2 := C06.backend_message e t0 (x_p x) m in
  let '(p2, outs, ok) := backend_send b (write_message m2) p1 in
  if ok then ({| x_learned := x_learned x; x_p := tb_pin e b m2 p2; x_conns := x_conns x; x_world := x_world x;
                 x_outs := x_outs x ++ outs |}, fst (mtry s_client_transaction m2))
  else ({| x_learned := x_learned x; x_p := p2; x_conns := x_conns x; x_world := x_world x; x_outs := x_outs x |}, m2).
Proof.
  intros HR FT. rewrite <- stb_found_sel. unfold send_to_backend, C06.backend_message, tb_pin. cbv zeta. rewrite HR, FT. cbn [negb].
  destruct (find_backend_by_dialog e (x_p x) m) as [m1 r]. cbn [fst snd].
  destruct r as [[p1 ob]| |]; cbv beta iota zeta;
    match goal with |- context [backend_send ?b ?bs ?p] => destruct (backend_send b bs p) as [[p2 outs] ok] end;
    (destruct ok; [|reflexivity]);
    match goal with |- context [mtry s_client_transaction ?m2] => destruct (mtry s_client_transaction m2) as [m3 tid] end;
    reflexivity.
Qed.

Lemma send_to_backend_tb_unfold e m x cache t0 : ps_has_rr (x_p x) = true -> first_transport (e_lc e) = Some t0 ->
  send_to_backend_tb e m x cache =
  let '(p1, b) := C04.stb_sel e (x_p x) m in
  let m2 := C06.backend_message e t0 (x_p x) m in
  let '(x2, cache2, outs, ok) := backend_send_tb e b (write_message m2) (with_p x p1) cache in
  if ok then ({| x_learned := x_learned x2; x_p := tb_pin e b m2 (x_p x2); x_conns := x_conns x2; x_world := x_world x2;
                 x_outs := x_outs x2 ++ outs |}, fst (mtry s_client_transaction m2), cache2)
  else (x2, m2, cache2).
Proof.
  intros HR FT. rewrite <- stb_found_sel. unfold send_to_backend_tb, C06.backend_message, tb_pin. cbv zeta. rewrite HR, FT. cbn [negb].
  destruct (find_backend_by_dialog e (x_p x) m) as [m1 r]. cbn [fst snd].
  destruct r as [[p1 ob]| |]; cbv beta iota zeta;
    match goal with |- context [backend_send_tb ?e ?b ?bs ?x ?c] => destruct (backend_send_tb e b bs x c) as [[[x2 cache2] outs] ok] end;
    (destruct ok; [|reflexivity]);
    match goal with |- context [mtry s_client_transaction ?m2] => destruct (mtry s_client_transaction m2) as [m3 tid] end;
    reflexivity.
Qed.

(* no rotation object, or no transport: nothing happens in either model *)
Lemma send_to_backend_off e m x :
  ps_has_rr (x_p x) = false \/ first_transport (e_lc e) = None -> send_to_backend e m x = (x, m).
Proof.
  intros H. unfold send_to_backend. cbv zeta. destruct H as [H|H]; [rewrite H; reflexivity|].
  destruct (ps_has_rr (x_p x)); cbn [negb]; [rewrite H|]; reflexivity.
Qed.
Lemma send_to_backend_tb_off e m x cache :
  ps_has_rr (x_p x) = false \/ first_transport (e_lc e) = None -> send_to_backend_tb e m x cache = (x, m, cache).
Proof.
  intros H. unfold send_to_backend_tb. cbv zeta. destruct H as [H|H]; [rewrite H; reflexivity|].
  destruct (ps_has_rr (x_p x)); cbn [negb]; [rewrite H|]; reflexivity.
Qed.

(* did the send succeed (UDP model / TCP model) *)
Definition stb_ok (e : env) (m : message) (x : ctx) : bool :=
  ps_has_rr (x_p x) &&
  match first_transport (e_lc e) with
  | None => false
  | Some t0 => snd (backend_send (snd (C04.stb_sel e (x_p x) m)) (write_message (C06.backend_message e t0 (x_p x) m))
                                 (fst (C04.stb_sel e (x_p x) m)))
  end.
Definition stb_ok_tb (e : env) (m : message) (x : ctx) (cache : bcache) : bool :=
  ps_has_rr (x_p x) &&
  match first_transport (e_lc e) with
  | None => false
  | Some t0 => snd (backend_send_tb e (snd (C04.stb_sel e (x_p x) m)) (write_message (C06.backend_message e t0 (x_p x) m))
                                    (with_p x (fst (C04.stb_sel e (x_p x) m))) cache)
  end.

(* TB_payload_agrees.  ONE message [m2] - the request after findBackendByDialog has looked at it, with the Via
   and (by policy) the Record-Route of the listener's first transport - is what either model writes: every
   byte-carrying output of the UDP send and of the TCP send carries write_message m2.  Whenever the two sends
   have the same outcome (both succeed, or both fail) the returned messages coincide and the pin tables
   coincide; the rotation, the member set and the learned routes coincide in every case. *)
Theorem TB_payload_agrees : forall e m x cache,
  let xu := fst (send_to_backend e m x) in
  let mu := snd (send_to_backend e m x) in
  let xt := fst (fst (send_to_backend_tb e m x cache)) in
  let mt := snd (fst (send_to_backend_tb e m x cache)) in
  exists extra_u extra_t,
    x_outs xu = x_outs x ++ extra_u /\ x_outs xt = x_outs x ++ extra_t /\
    (forall t0, first_transport (e_lc e) = Some t0 ->
       let m2 := px_add_record_route (pa_must_rr (wire_proxy (e_lc e))) t0
                   (px_add_via e t0 (fst (find_backend_by_dialog e (x_p x) m))) in
       C06.one_msg (write_message m2) extra_u /\ C06.one_msg (write_message m2) extra_t) /\
    (first_transport (e_lc e) = None -> extra_u = [] /\ extra_t = []) /\
    (stb_ok e m x = false -> extra_u = []) /\
    (stb_ok_tb e m x cache = true -> C06.msg_count extra_t = 1%nat) /\
    (stb_ok_tb e m x cache = false -> extra_t = []) /\
    (stb_ok e m x = stb_ok_tb e m x cache -> mt = mu /\ ps_pins (x_p xt) = ps_pins (x_p xu)) /\
    ps_rr (x_p xt) = ps_rr (x_p xu) /\ ps_backends (x_p xt) = ps_backends (x_p xu) /\
    ps_has_rr (x_p xt) = ps_has_rr (x_p xu) /\ x_learned xt = x_learned xu.
Proof.
  intros e m x cache. cbv zeta. unfold stb_ok, stb_ok_tb.
  destruct (ps_has_rr (x_p x)) eqn:HR.
  2:{ rewrite (send_to_backend_off e m x (or_introl HR)), (send_to_backend_tb_off e m x cache (or_introl HR)).
      cbn [fst snd andb]. exists [], []. rewrite app_nil_r.
      split; [reflexivity|]. split; [reflexivity|].
      split; [intros t1 _; cbv zeta; split; apply C06.one_msg_nil|].
      split; [intros _; split; reflexivity|].
      split; [intros _; reflexivity|].
      split; [intros H; discriminate H|].
      split; [intros _; reflexivity|].
      split; [intros _; split; reflexivity|].
      repeat split. }
  destruct (first_transport (e_lc e)) as [t0|] eqn:FT.
  2:{ rewrite (send_to_backend_off e m x (or_intror FT)), (send_to_backend_tb_off e m x cache (or_intror FT)).
      cbn [fst snd andb]. exists [], []. rewrite app_nil_r.
      split; [reflexivity|]. split; [reflexivity|].
      split; [intros t1 E; discriminate E|].
      split; [intros _; split; reflexivity|].
      split; [intros _; reflexivity|].
      split; [intros H; discriminate H|].
      split; [intros _; reflexivity|].
      split; [intros _; split; reflexivity|].
      repeat split. }
  rewrite (send_to_backend_unfold e m x t0 HR FT), (send_to_backend_tb_unfold e m x cache t0 HR FT). cbn [andb].
  destruct (C04.stb_sel e (x_p x) m) as [p1 bk]. cbn [fst snd]. cbv zeta.
  set (m2 := C06.backend_message e t0 (x_p x) m).
  destruct (backend_send bk (write_message m2) p1) as [[p2 outs] oku] eqn:BU.
  destruct (backend_send_tb e bk (write_message m2) (with_p x p1) cache) as [[[x2 cache2] outt] okt] eqn:BT.
  cbn [snd].
  destruct (backend_send_frame _ _ _ _ _ _ BU) as (OU & NU & PU & BKU & HU & RU).
  destruct (backend_send_tb_spec _ _ _ _ _ _ _ _ _ BT) as (OT & K1 & K0 & LT & XT & PT & BKT & HT & RT).
  cbn [with_p x_p x_learned x_outs] in LT, XT, PT, BKT, HT, RT.
  assert (M2 : forall t1, Some t0 = Some t1 ->
               write_message (px_add_record_route (pa_must_rr (wire_proxy (e_lc e))) t1
                  (px_add_via e t1 (fst (find_backend_by_dialog e (x_p x) m)))) = write_message m2).
  { intros t1 E. injection E as <-. reflexivity. }
  destruct (tb_pin_frame e bk m2 p2) as (F1 & F2 & F3). destruct (tb_pin_frame e bk m2 (x_p x2)) as (G1 & G2 & G3).
  exists (if oku then outs else []), (if okt then outt else []).
  split; [destruct oku; cbn [fst x_outs]; [reflexivity|rewrite app_nil_r; reflexivity]|].
  split; [destruct okt; cbn [fst x_outs]; rewrite XT; [reflexivity|rewrite app_nil_r; reflexivity]|].
  split.
  { intros t1 E. cbv zeta. rewrite (M2 t1 E). split; [destruct oku|destruct okt]; try apply C06.one_msg_nil; assumption. }
  split; [intros E; discriminate E|].
  split; [intros ->; reflexivity|].
  split; [intros ->; apply K1; reflexivity|].
  split; [intros ->; reflexivity|].
  split.
  { intros <-. destruct oku; cbn [fst snd x_p].
    - split; [reflexivity|]. apply tb_pin_pins. congruence.
    - split; [reflexivity|]. congruence. }
  destruct oku, okt; cbn [fst snd x_p x_learned]; repeat split; congruence.
Qed.

(* in particular: the rotation moves exactly as in the UDP model, whatever the outcome of the TCP send *)
Theorem TB_rotation_agrees : forall e m x cache,
  ps_rr (x_p (fst (fst (send_to_backend_tb e m x cache)))) = ps_rr (x_p (fst (send_to_backend e m x))) /\
  ps_backends (x_p (fst (fst (send_to_backend_tb e m x cache)))) = ps_backends (x_p (fst (send_to_backend e m x))).
Proof.
  intros e m x cache. destruct (TB_payload_agrees e m x cache) as (eu & et & _ & _ & _ & _ & _ & _ & _ & _ & R & B & _).
  split; assumption.
Qed.

(* ================================================================== Part 5: C03 over TCP backends *)
Lemma send_to_backend_tb_outs e m x cache :
  exists extra, x_outs (fst (fst (send_to_backend_tb e m x cache))) = x_outs x ++ extra /\ (C06.msg_count extra <= 1)%nat.
Proof.
  destruct (TB_payload_agrees e m x cache) as (eu & et & _ & O & M & N & _). exists et. split; [exact O|].
  destruct (first_transport (e_lc e)) as [t0|] eqn:FT.
  - pose proof (M t0) as MM. first [specialize (MM eq_refl)|specialize (MM FT)]. cbv zeta in MM.
    destruct MM as (_ & (C & _)). exact C.
  - assert (NN : eu = [] /\ et = []) by (first [exact (N eq_refl)|exact (N FT)]).
    destruct NN as (_ & ->). apply Nat.le_0_l.
Qed.

Lemma pm_reach_frame e peer peer_port from rs tcp m0 x m5 x1 :
  pm_reach e peer peer_port from rs tcp m0 x = Ok (m5, x1) ->
  x_outs x1 = x_outs x /\ x_conns x1 = x_conns x /\ x_world x1 = x_world x.
Proof.
  unfold pm_reach. destruct (C06.pm_learn peer from m0 x) as [m1 l1]. cbv zeta.
  destruct (C06.pm_conn e tcp _ x) as [m3 [p1| |]]; try discriminate.
  match goal with |- context [if is_response ?m4 then ?A else ?B] => destruct (if is_response m4 then A else B) as [m6 p2] end.
  intros H. injection H as _ <-. repeat split.
Qed.

(* ANY decoded message (request or response) on a TCP-backend entry, any state, configuration and cache: the
   outputs appended while it is processed contain at most one byte-carrying output *)
Theorem TB_at_most_one_message : forall e peer peer_port from rs tcp m x cache x' cache',
  process_message_tb e peer peer_port from rs tcp m x cache = Ok (x', cache') ->
  exists extra, x_outs x' = x_outs x ++ extra /\ (C06.msg_count extra <= 1)%nat.
Proof.
  intros e peer pp from rs tcp m x cache x' cache'. rewrite process_message_tb_reach.
  destruct (pm_reach e peer pp from rs tcp m x) as [[m5 x1]| |] eqn:PR; try discriminate.
  destruct (pm_reach_frame _ _ _ _ _ _ _ _ _ _ PR) as (O1 & _).
  destruct (reaches_backend e from m5) eqn:RB.
  - pose proof (TB_copy_faithful_backend e from m5 x1 cache RB) as E. cbv zeta in E. destruct E as (E & _). rewrite E.
    destruct (send_to_backend_tb_outs e (fst (next_request_hop (c_keep_next_hop (e_cfg e)) (route_table_of (e_cfg e)) m5)) x1 cache)
      as (extra & O & C).
    revert O. destruct (send_to_backend_tb e _ x1 cache) as [[x2 mm] c2]. cbn [fst].
    intros O H. injection H as <- _. exists extra. rewrite O, O1. split; [reflexivity|exact C].
  - rewrite (TB_copy_faithful e from m5 x1 cache RB). unfold lift_hm.
    destruct (C06.handle_message_shape e from m5 x1) as (_ & extra & O & C).
    revert O. destruct (handle_message e from m5 x1) as [x2 mm]. cbn [fst].
    intros O H. injection H as <- _. exists extra. rewrite O, O1. split; [reflexivity|exact C].
Qed.

(* one datagram in, at most one message out: every listen entry, TCP backends or not *)
Theorem TB_at_most_one : forall tb fx c now br st cache li src sport data st' cache' outs,
  proxy_step_tb tb fx c now br st cache (EvUdp li src sport data) = Ok (st', cache', outs) ->
  (C06.msg_count outs <= 1)%nat.
Proof.
  intros tb fx c now br st cache li src sport data st' cache' outs. unfold proxy_step_tb. cbn [ev_li].
  destruct (is_tb tb li); cbn [negb].
  - destruct (nth_opt (c_listens c) li) as [lc|]; [|intros H; injection H as _ _ <-; apply Nat.le_0_l].
    destruct (parse_message data) as [[m rest]| |]; try (intros H; injection H as _ _ <-; apply Nat.le_0_l).
    unfold run_ctx_tb. destruct (nth_p (st_proxies st) li) as [p|]; [|intros H; injection H as _ _ <-; apply Nat.le_0_l].
    match goal with |- context [process_message_tb ?e ?a ?b ?f ?r ?t ?m ?x ?ch] =>
      destruct (process_message_tb e a b f r t m x ch) as [[x' ch']| |] eqn:PM end; try discriminate.
    intros H. injection H as _ _ <-. apply TB_at_most_one_message in PM. destruct PM as (extra & -> & C). exact C.
  - unfold lift_step. destruct (proxy_step fx c now br st (EvUdp li src sport data)) as [[st1 o]| |] eqn:E; try discriminate.
    intros H. injection H as _ _ <-. exact (C03.C03_at_most_one_udp _ _ _ _ _ _ _ _ _ _ _ E).
Qed.

(* a TCP chunk on a connection of a TCP-backend entry (a client's connection or a backend's): one group of outputs
   per processed message, each with at most one byte-carrying output *)
Lemma tcp_messages_tb_outs fuel : forall e c s x cache x' cache',
  tcp_messages_tb fuel e c s x cache = Ok (x', cache') ->
  exists chunks, x_outs x' = x_outs x ++ List.concat chunks /\
                 (List.length chunks <= List.length (parse_stream fuel s))%nat /\
                 Forall (fun ch => (C06.msg_count ch <= 1)%nat) chunks.
Proof.
  induction fuel as [|f IH]; intros e c s x cache x' cache' H; cbn [tcp_messages_tb] in H.
  - injection H as <- _. exists []. cbn. rewrite app_nil_r. auto using Nat.le_0_l.
  - destruct (trim_left s) eqn:T.
    { injection H as <- _. exists []. cbn [List.concat List.length]. rewrite app_nil_r. auto using Nat.le_0_l. }
    cbn [parse_stream]. destruct (parse_message s) as [[m rest]| |].
    + destruct (process_message_tb e (cn_peer c) (cn_peer_port c) (cn_from c) (cn_received_support c)
                                   (Some (cn_id c)) m x cache) as [[x1 cache1]| |] eqn:PM; try discriminate.
      apply TB_at_most_one_message in PM. destruct PM as (extra & O1 & C1).
      apply IH in H. destruct H as (chunks & O2 & L & F). exists (extra :: chunks).
      cbn [List.concat List.length]. rewrite O2, O1, <- app_assoc. split; [reflexivity|]. split; [lia|].
      constructor; assumption.
    + injection H as <- _. exists []. cbn. rewrite app_nil_r. auto using Nat.le_0_l.
    + injection H as <- _. exists []. cbn. rewrite app_nil_r. auto using Nat.le_0_l.
Qed.

Theorem TB_at_most_one_tcp : forall tb fx c now br st cache cid data st' cache' outs,
  proxy_step_tb tb fx c now br st cache (EvTcpData cid data) = Ok (st', cache', outs) ->
  exists chunks, outs = List.concat chunks /\
                 (List.length chunks <= List.length (parse_stream (S (List.length data)) data))%nat /\
                 Forall (fun ch => (C06.msg_count ch <= 1)%nat) chunks.
Proof.
  intros tb fx c now br st cache cid data st' cache' outs. unfold proxy_step_tb.
  destruct (negb _).
  { unfold lift_step. destruct (proxy_step fx c now br st (EvTcpData cid data)) as [[st1 o]| |] eqn:E; try discriminate.
    intros H. injection H as _ _ <-. exact (C03.C03_at_most_one_tcp _ _ _ _ _ _ _ _ _ E). }
  cbv beta iota zeta.
  assert (Z0 : forall st0 ch0, Ok (st, cache, @nil output) = Ok (st0, ch0, outs) ->
              exists chunks, outs = List.concat chunks /\
                 (List.length chunks <= List.length (parse_stream (S (List.length data)) data))%nat /\
                 Forall (fun ch => (C06.msg_count ch <= 1)%nat) chunks).
  { intros st0 ch0 H. injection H as _ _ <-. exists []. split; [reflexivity|]. split; [apply Nat.le_0_l|constructor]. }
  destruct (find _ (st_conns st)) as [cn|]; [|apply Z0].
  destruct (cn_open cn); [|apply Z0].
  destruct (nth_opt (c_listens c) (cn_li cn)) as [lc|]; [|apply Z0].
  unfold run_ctx_tb. destruct (nth_p (st_proxies st) (cn_li cn)) as [p|]; [|apply Z0].
  match goal with |- context [tcp_messages_tb ?f ?e ?c ?s ?x ?ch] =>
    destruct (tcp_messages_tb f e c s x ch) as [[x' ch']| |] eqn:TM end; try discriminate.
  intros H. injection H as _ _ <-. apply tcp_messages_tb_outs in TM. destruct TM as (chunks & O & L & F).
  exists chunks. cbn [x_outs app] in O. auto.
Qed.

(* ================================================================== Part 6: C04 over TCP backends *)
(* the transaction pin, as a function of the received request (C04.send_to_backend_spec's computation) *)
Lemma tb_pin_spec e t0 p0 m bk p :
  tb_pin e bk (C06.backend_message e t0 p0 m) p =
  match snd (s_get_cseq m) with
  | Ok c => with_pins p (pins_add (e_now e) (C04.trans_key e c) (bref_val bk) (get_expires m 0) (ps_pins p))
  | _ => p
  end.
Proof.
  unfold tb_pin, C06.backend_message. destruct (C04.fbd_run e p0 m) as (m1 & E1 & K1). rewrite E1. cbn [fst].
  fold (C04.fwd_msg e t0 m1).
  pose proof (C04.mtry_snd s_client_transaction (C04.fwd_msg e t0 m1)) as S3.
  pose proof (C04.pres_try C04.names _ C04.P_tid (C04.fwd_msg e t0 m1)) as K3.
  destruct (mtry s_client_transaction (C04.fwd_msg e t0 m1)) as [m3 tid]. cbn [fst snd] in S3, K3 |- *.
  rewrite C04.s_client_transaction_snd, C04.fwd_msg_tid, (C04.k_cseq C04.names m m1 K1 ltac:(in_names)) in S3. subst tid.
  assert (KE : get_expires m3 0 = get_expires m 0).
  { assert (K : C04.keeps C04.NQ m m3).
    { eapply C04.keeps_trans; [eapply C04.keeps_incl; [apply C04.NQ_names|exact K1]|].
      eapply C04.keeps_trans; [eapply C04.keeps_incl; [apply C04.NQ_NP|apply C04.fwd_msg_keeps]|].
      eapply C04.keeps_incl; [apply C04.NQ_names|exact K3]. }
    apply (C04.k_expires C04.NQ m m3 K). in_names. }
  destruct (snd (s_get_cseq m)) as [c| |]; cbn [rbind C04.opt_res]; [|reflexivity|reflexivity].
  rewrite KE. reflexivity.
Qed.

(* what happens to the pin of the dialog itself (C04_sticky_step's last clause), for either outcome of the send *)
Lemma sticky_pin_clause e m p d addr g ex (okb : bool) :
  C04.pin_at d (pin_val_backend addr g) ex (ps_pins p) -> e_now e < ex ->
  (forall c, snd (s_get_cseq m) = Ok c -> C04.trans_key e c <> d) ->
  let p1 := if C04.notify_terminated (C04.req_method m) m
            then with_pins (with_pins p (ps_pins p)) (pins_remove d (ps_pins p)) else with_pins p (ps_pins p) in
  let pf := if okb
            then match snd (s_get_cseq m) with
                 | Ok c => with_pins p1 (pins_add (e_now e) (C04.trans_key e c) (bref_val (BObj addr g)) (get_expires m 0) (ps_pins p1))
                 | _ => p1 end
            else p1 in
  if C04.notify_terminated (C04.req_method m) m
  then alookup d (p_tab (ps_pins pf)) = None
  else C04.pin_at d (pin_val_backend addr g) ex (ps_pins pf).
Proof.
  intros P L NK p1 pf. subst pf p1. destruct okb.
  - destruct (C04.notify_terminated (C04.req_method m) m).
    + destruct (snd (s_get_cseq m)) as [c| |] eqn:EC; cbn [ps_pins with_pins pins_remove p_tab];
        try apply alookup_adel_same.
      unfold pins_add. cbn [p_tab p_timeout p_next_clean].
      assert (H0 : alookup d (aset (C04.trans_key e c)
                     {| pin_backend := bref_val (BObj addr g);
                        pin_expire := e_now e + pins_lifetime (pins_remove d (ps_pins p)) (get_expires m 0) |}
                     (adel d (p_tab (ps_pins p)))) = None).
      { rewrite alookup_aset_other by (intros H; apply (NK c eq_refl); symmetry; exact H). apply alookup_adel_same. }
      destruct (_ <? _); cbn [p_tab]; [apply C15.alookup_clean_none|]; exact H0.
    + destruct (snd (s_get_cseq m)) as [c| |] eqn:EC; cbn [ps_pins with_pins]; try exact P.
      apply C04.pin_at_add_other; [apply (NK c eq_refl)|lia|exact P].
  - destruct (C04.notify_terminated (C04.req_method m) m); cbn [ps_pins with_pins pins_remove p_tab].
    + apply alookup_adel_same.
    + exact P.
Qed.

(* TB_sticky_step.  A request that reaches sendToBackend on a TCP-backend entry, whose dialog is pinned (unexpired)
   to the backend object (addr, g) that is still registered: it is written on ONE connection to addr - the cached one
   when that is open, otherwise a newly dialled one (peer = addr's ip and port) - and on nothing else; when addr
   does not accept the connection nothing is written.  The rotation and the member set are untouched; the pin stays
   (except after a terminating NOTIFY, which removes it after having used it).  Hypotheses = C04_sticky_step's,
   plus the form of the address. *)
Theorem TB_sticky_step : forall e m x cache t0 d addr g ex pos,
  fx_indialog_invite (e_fx e) = true ->
  ps_has_rr (x_p x) = true -> first_transport (e_lc e) = Some t0 ->
  is_request m = true -> C04.dialog_of m = Ok d ->
  C04.pin_at d (pin_val_backend addr g) ex (ps_pins (x_p x)) -> e_now e < ex ->
  alookup addr (ps_backends (x_p x)) = Some g -> C04.gen_ok g ->
  last_index_byte ":"%char addr = Some pos ->
  let ip := firstn pos addr in
  let port := atoi_val (skipn (S pos) addr) in
  let key := tb_key (e_li e) addr g in
  let n := w_next_conn (x_world x) in
  let b := C04.fwd_bytes e t0 (x_p x) m in
  let x' := fst (fst (send_to_backend_tb e m x cache)) in
  let cache' := snd (send_to_backend_tb e m x cache) in
  (* where the bytes go *)
  match tb_usable x key cache with
  | Some c => x_outs x' = x_outs x ++ [(DConn c, b)] /\ x_conns x' = x_conns x /\ x_world x' = x_world x /\ cache' = cache
  | None =>
      if tb_listens x ip port
      then x_outs x' = x_outs x ++ [(DDial ip port n, []); (DConn n, b)] /\
           x_conns x' = x_conns x ++ [{| cn_id := n; cn_li := e_li e; cn_open := true; cn_peer := ip; cn_peer_port := port;
                                         cn_from := tb_local; cn_received_support := e_item_rs e |}] /\
           w_next_conn (x_world x') = S n /\ alookup key cache' = Some n
      else x_outs x' = x_outs x /\ x_conns x' = x_conns x /\ x_world x' = x_world x /\ alookup key cache' = None
  end /\
  (* the rotation did not move, the members did not change *)
  ps_rr (x_p x') = ps_rr (x_p x) /\ ps_backends (x_p x') = ps_backends (x_p x) /\ x_learned x' = x_learned x /\
  (* the pin stays, except after a terminating NOTIFY which removes it after having used it *)
  ((forall c, snd (s_get_cseq m) = Ok c -> C04.trans_key e c <> d) ->
   if C04.notify_terminated (C04.req_method m) m
   then alookup d (p_tab (ps_pins (x_p x'))) = None
   else C04.pin_at d (pin_val_backend addr g) ex (ps_pins (x_p x'))).
Proof.
  intros e m x cache t0 d addr g ex pos FX HR FT R D P L A G LI ip port key n b x' cache'.
  subst x' cache'. rewrite (send_to_backend_tb_unfold e m x cache t0 HR FT).
  rewrite (C04.stb_sel_pinned e (x_p x) m d addr g ex FX R D P L G A). cbv beta iota zeta.
  set (p1 := if C04.notify_terminated (C04.req_method m) m
             then with_pins (with_pins (x_p x) (ps_pins (x_p x))) (pins_remove d (ps_pins (x_p x)))
             else with_pins (x_p x) (ps_pins (x_p x))).
  assert (B1 : ps_backends p1 = ps_backends (x_p x)) by (subst p1; destruct (C04.notify_terminated _ _); reflexivity).
  assert (R1 : ps_rr p1 = ps_rr (x_p x)) by (subst p1; destruct (C04.notify_terminated _ _); reflexivity).
  change (write_message (C06.backend_message e t0 (x_p x) m)) with b.
  unfold backend_send_tb. cbv beta iota.
  rewrite tcp_backend_send_with_p, tcp_backend_send_cases, LI. cbv zeta. fold ip port key n.
  destruct (tb_usable x key cache) as [c|].
  - cbn [fst snd with_p x_learned x_p x_conns x_world x_outs].
    rewrite (tb_pin_spec e t0 (x_p x) m (BObj addr g)).
    split; [repeat split|]. split; [destruct (snd (s_get_cseq m)); exact R1|]. split; [destruct (snd (s_get_cseq m)); exact B1|].
    split; [reflexivity|]. intros NK. exact (sticky_pin_clause e m (x_p x) d addr g ex true P L NK).
  - destruct (tb_listens x ip port).
    + cbn [fst snd with_p tb_dial_ctx x_learned x_p x_conns x_world x_outs w_next_conn].
      rewrite (tb_pin_spec e t0 (x_p x) m (BObj addr g)).
      split; [split; [reflexivity|split; [reflexivity|split; [reflexivity|apply alookup_aset_same]]]|].
      split; [destruct (snd (s_get_cseq m)); exact R1|]. split; [destruct (snd (s_get_cseq m)); exact B1|].
      split; [reflexivity|]. intros NK. exact (sticky_pin_clause e m (x_p x) d addr g ex true P L NK).
    + cbn [fst snd with_p x_learned x_p x_conns x_world x_outs].
      split.
      { repeat split. unfold tb_forget. destruct (alookup key cache) eqn:AK; [apply alookup_adel_same|exact AK]. }
      split; [exact R1|]. split; [exact B1|]. split; [reflexivity|].
      intros NK. exact (sticky_pin_clause e m (x_p x) d addr g ex false P L NK).
Qed.

(* ... and when both sends succeed - the message fits a datagram (UDP model), the backend's connection is usable or
   the backend accepts a new one (TCP model) - the two models return the same message and leave the same pin table
   (TB_payload_agrees with its condition discharged) *)
Theorem TB_sticky_same_message : forall e m x cache t0 d addr g ex pos,
  fx_indialog_invite (e_fx e) = true ->
  ps_has_rr (x_p x) = true -> first_transport (e_lc e) = Some t0 ->
  is_request m = true -> C04.dialog_of m = Ok d ->
  C04.pin_at d (pin_val_backend addr g) ex (ps_pins (x_p x)) -> e_now e < ex ->
  alookup addr (ps_backends (x_p x)) = Some g -> C04.gen_ok g ->
  last_index_byte ":"%char addr = Some pos ->
  fits_datagram (C04.fwd_bytes e t0 (x_p x) m) = true ->
  (tb_usable x (tb_key (e_li e) addr g) cache <> None \/
   tb_listens x (firstn pos addr) (atoi_val (skipn (S pos) addr)) = true) ->
  snd (fst (send_to_backend_tb e m x cache)) = snd (send_to_backend e m x) /\
  ps_pins (x_p (fst (fst (send_to_backend_tb e m x cache)))) = ps_pins (x_p (fst (send_to_backend e m x))).
Proof.
  intros e m x cache t0 d addr g ex pos FX HR FT R D P L A G LI FD OK.
  destruct (TB_payload_agrees e m x cache) as (eu & et & _ & _ & _ & _ & _ & _ & _ & SAME & _).
  apply SAME. unfold stb_ok, stb_ok_tb. rewrite HR, FT. cbn [andb].
  rewrite (C04.stb_sel_pinned e (x_p x) m d addr g ex FX R D P L G A). cbn [fst snd].
  set (p1 := if C04.notify_terminated (C04.req_method m) m
             then with_pins (with_pins (x_p x) (ps_pins (x_p x))) (pins_remove d (ps_pins (x_p x)))
             else with_pins (x_p x) (ps_pins (x_p x))).
  assert (B1 : ps_backends p1 = ps_backends (x_p x)) by (subst p1; destruct (C04.notify_terminated _ _); reflexivity).
  change (write_message (C06.backend_message e t0 (x_p x) m)) with (C04.fwd_bytes e t0 (x_p x) m).
  rewrite (C04.backend_send_obj addr g (C04.fwd_bytes e t0 (x_p x) m) p1) by (rewrite B1; apply alookup_in; exact A).
  cbn [snd]. rewrite FD.
  unfold backend_send_tb. rewrite tcp_backend_send_with_p, tcp_backend_send_cases, LI. cbv zeta.
  destruct (tb_usable x (tb_key (e_li e) addr g) cache) as [c|]; [reflexivity|].
  destruct OK as [OK|OK]; [exfalso; apply OK; reflexivity|]. rewrite OK. reflexivity.
Qed.

(* TB_unpinned_step.  A request without a live pin (C04_unpinned_step's hypotheses): the rotation advances exactly
   as in the UDP model, and the bytes go through TCPBackend.Send of the object currently registered under the
   address the rotation yields (TB_send_reuse / TB_send_dial / TB_send_refused say what that does). *)
Theorem TB_unpinned_step : forall e m x cache t0,
  ps_has_rr (x_p x) = true -> first_transport (e_lc e) = Some t0 -> is_request m = true ->
  (forall d, C04.dialog_of m = Ok d -> snd (pins_get (e_now e) d (ps_pins (x_p x))) = None) ->
  let b := C04.fwd_bytes e t0 (x_p x) m in
  let x' := fst (fst (send_to_backend_tb e m x cache)) in
  let cache' := snd (send_to_backend_tb e m x cache) in
  ps_rr (x_p x') = fst (rr_dispatch (ps_rr (x_p x))) /\
  ps_rr (x_p x') = ps_rr (x_p (fst (send_to_backend e m x))) /\
  ps_backends (x_p x') = ps_backends (x_p x) /\
  match snd (rr_dispatch (ps_rr (x_p x))) with
  | Some a =>
      match alookup a (ps_backends (x_p x)) with
      | Some g =>
          let '(xs, cs, outs, ok) := tcp_backend_send e a g b x cache in
          x_outs x' = x_outs x ++ outs /\ x_conns x' = x_conns xs /\ x_world x' = x_world xs /\ cache' = cs
      | None => x_outs x' = x_outs x /\ x_conns x' = x_conns x /\ x_world x' = x_world x /\ cache' = cache
      end
  | None => x_outs x' = x_outs x /\ x_conns x' = x_conns x /\ x_world x' = x_world x /\ cache' = cache
  end.
Proof.
  intros e m x cache t0 HR FT R NP b x' cache'.
  assert (RA : ps_rr (x_p x') = ps_rr (x_p (fst (send_to_backend e m x)))) by apply TB_rotation_agrees.
  pose proof (C04.C04_unpinned_step e m x t0 HR FT R NP) as RU. cbv zeta in RU. destruct RU as (_ & RU).
  split; [rewrite RA; exact RU|]. split; [exact RA|].
  subst x' cache'. rewrite (send_to_backend_tb_unfold e m x cache t0 HR FT).
  pose proof (C04.stb_sel_mem e (x_p x) m) as [(B1 & _) RR].
  assert (S : snd (C04.stb_sel e (x_p x) m) = BRR).
  { unfold C04.stb_sel, C04.fbd_pure. rewrite (C04.method_of_request m R).
    destruct (_ && _)%bool; [reflexivity|].
    destruct (C04.dialog_of m) as [d| |] eqn:ED; try reflexivity. rewrite (NP d eq_refl).
    cbv beta iota zeta. rewrite andb_false_r.
    destruct (get_raw _ m); reflexivity. }
  destruct (C04.stb_sel e (x_p x) m) as [p1 sel]. cbn [fst snd] in B1, RR, S. subst sel. cbv beta iota zeta.
  change (write_message (C06.backend_message e t0 (x_p x) m)) with b.
  unfold backend_send_tb. cbv beta iota. cbn [with_p x_p]. rewrite RR, B1.
  destruct (rr_dispatch (ps_rr (x_p x))) as [r' o]. cbn [fst snd]. cbv beta iota zeta.
  destruct o as [a|].
  2:{ cbn [fst snd with_p x_p x_outs x_conns x_world with_rr ps_backends]. rewrite B1. repeat split. }
  destruct (alookup a (ps_backends (x_p x))) as [g|].
  2:{ cbn [fst snd with_p x_p x_outs x_conns x_world with_rr ps_backends]. rewrite B1. repeat split. }
  rewrite !tcp_backend_send_with_p.
  destruct (tcp_backend_send e a g b x cache) as [[[xs cs] outs] ok] eqn:TS.
  destruct (TB_send_one_message _ _ _ _ _ _ _ _ _ _ TS) as (_ & _ & K0 & _ & _ & XO & _).
  destruct ok.
  - cbn [fst snd with_p x_p x_outs x_conns x_world].
    split; [destruct (tb_pin_frame e BRR (C06.backend_message e t0 (x_p x) m) (with_rr p1 r')) as (_ & -> & _); exact B1|].
    rewrite XO. repeat split.
  - cbn [fst snd with_p x_p x_outs x_conns x_world with_rr ps_backends].
    split; [exact B1|]. rewrite XO, (K0 eq_refl), app_nil_r. repeat split.
Qed.

(* ================================================================== Part 7: RemoveBackend closes the cached connection *)
Lemma mem_bytes_remove_all a l : mem_bytes a (remove_all a l) = false.
Proof.
  unfold mem_bytes. induction l as [|x r IH]; [reflexivity|]. cbn [remove_all].
  destruct (beq a x) eqn:E; [exact IH|]. cbn [existsb]. rewrite E. exact IH.
Qed.
Lemma conn_open_absent c cs : ~ In c (map cn_id cs) -> conn_open cs c = false.
Proof.
  unfold conn_open. induction cs as [|x r IH]; intros NI; [reflexivity|]. cbn [existsb map In] in *.
  destruct (Nat.eqb_spec (cn_id x) c) as [E|E]; [exfalso; apply NI; left; exact E|]. cbn [andb orb].
  apply IH. intros H. apply NI. right. exact H.
Qed.
Lemma conn_open_close_same c cs : NoDup (map cn_id cs) -> conn_open (close_conn c cs) c = false.
Proof.
  induction cs as [|x r IH]; intros ND; [reflexivity|]. cbn [close_conn map] in *. inversion ND as [|? ? NI ND']. subst.
  destruct (Nat.eqb_spec (cn_id x) c) as [E|E].
  - unfold conn_open. cbn [existsb cn_id cn_open]. rewrite andb_false_r. cbn [orb].
    apply (conn_open_absent c r). rewrite <- E. exact NI.
  - unfold conn_open. cbn [existsb]. destruct (Nat.eqb_spec (cn_id x) c) as [E'|_]; [contradiction|]. cbn [andb orb].
    apply IH. exact ND'.
Qed.
Lemma conn_open_close_other c' cs c : c' <> c -> conn_open (close_conn c' cs) c = conn_open cs c.
Proof.
  intros NE. unfold conn_open. induction cs as [|a r IH]; cbn [close_conn]; [reflexivity|].
  destruct (Nat.eqb_spec (cn_id a) c') as [E|E]; cbn [existsb].
  - cbn [cn_id cn_open]. destruct (Nat.eqb_spec (cn_id a) c) as [E2|E2]; [congruence|reflexivity].
  - rewrite IH. reflexivity.
Qed.

(* EvBackendRemove on a TCP-backend entry, the address being a member whose current object has a cached
   connection [cid]: that connection is closed (the first - by unique numbering: the - record numbered cid), no
   other connection changes, nothing is emitted, the cache is left as it is (the object is gone with its key: a
   later AddBackend of the same address creates a NEW generation, hence a new key), and the proxy objects are
   exactly what Proxy.proxy_step makes them: the address has left the member set and the rotation's map *)
Theorem TB_remove_closes : forall tb fx c now br st cache li addr p g cid,
  is_tb tb li = true -> nth_p (st_proxies st) li = Some p ->
  mem_bytes addr (rr_map (ps_rr p)) = true -> alookup addr (ps_backends p) = Some g ->
  alookup (tb_key li addr g) cache = Some cid ->
  exists st' stp p',
    proxy_step_tb tb fx c now br st cache (EvBackendRemove li addr) = Ok (st', cache, []) /\
    proxy_step fx c now br st (EvBackendRemove li addr) = Ok (stp, []) /\
    st_conns st' = close_conn cid (st_conns st) /\ st_conns stp = st_conns st /\
    (NoDup (map cn_id (st_conns st)) -> conn_open (st_conns st') cid = false) /\
    (forall c', c' <> cid -> conn_open (st_conns st') c' = conn_open (st_conns st) c') /\
    st_proxies st' = st_proxies stp /\ st_learned st' = st_learned stp /\ st_world st' = st_world stp /\
    nth_p (st_proxies st') li = Some p' /\
    ps_backends p' = adel addr (ps_backends p) /\ alookup addr (ps_backends p') = None /\
    ps_rr p' = fst (rr_remove addr (ps_rr p)) /\ mem_bytes addr (rr_map (ps_rr p')) = false.
Proof.
  intros tb fx c now br st cache li addr p g cid TB N M A K.
  unfold proxy_step_tb. cbn [ev_li]. rewrite TB. cbn [negb proxy_step]. rewrite N. cbv beta iota zeta. rewrite M, A, K.
  destruct (rr_remove addr (ps_rr p)) as [r' closed] eqn:RM. cbv beta iota zeta.
  eexists. eexists. eexists. split; [reflexivity|]. split; [reflexivity|].
  cbn [st_conns st_proxies st_learned st_world].
  split; [reflexivity|]. split; [reflexivity|]. split; [apply conn_open_close_same|].
  split; [intros c' NE; apply conn_open_close_other; congruence|].
  split; [reflexivity|]. split; [reflexivity|]. split; [reflexivity|].
  split; [eapply C04.nth_set_same; exact N|]. cbn [ps_backends ps_rr].
  split; [reflexivity|]. split; [apply alookup_adel_same|]. split; [reflexivity|].
  unfold rr_remove in RM. rewrite M in RM. injection RM as <- _. cbn [rr_map]. apply mem_bytes_remove_all.
Qed.

(* no cached connection for the object (or the address is not a member, or the entry has no proxy object): the
   step is the Proxy step, the cache untouched *)
Theorem TB_remove_no_cached : forall tb fx c now br st cache li addr,
  (forall p g, nth_p (st_proxies st) li = Some p -> mem_bytes addr (rr_map (ps_rr p)) = true ->
               alookup addr (ps_backends p) = Some g -> alookup (tb_key li addr g) cache = None) ->
  proxy_step_tb tb fx c now br st cache (EvBackendRemove li addr) =
  lift_step (proxy_step fx c now br st (EvBackendRemove li addr)) cache.
Proof.
  intros tb fx c now br st cache li addr H. unfold proxy_step_tb. cbn [ev_li].
  destruct (is_tb tb li); cbn [negb]; [|reflexivity].
  destruct (nth_p (st_proxies st) li) as [p|] eqn:N.
  - assert (V : (if mem_bytes addr (rr_map (ps_rr p))
                 then match alookup addr (ps_backends p) with
                      | Some g => alookup (tb_key li addr g) cache
                      | None => None end
                 else None) = None).
    { destruct (mem_bytes addr (rr_map (ps_rr p))) eqn:M; [|reflexivity].
      destruct (alookup addr (ps_backends p)) as [g|] eqn:A; [|reflexivity]. exact (H p g eq_refl M A). }
    rewrite V. unfold lift_step.
    destruct (proxy_step fx c now br st (EvBackendRemove li addr)) as [[st' outs]| |]; reflexivity.
  - cbn [proxy_step]. rewrite N. reflexivity.
Qed.

(* ================================================================== Part 8: concrete runs (non-vacuity) *)
(* one listen entry 10.0.0.1:5060 whose two backends are reached over TCP; both accept connections *)
Definition tb_lc : listen_cfg :=
  {| lc_addr := s2b "10.0.0.1"; lc_udp := 5060; lc_tcp := 5060;
     lc_backends := [s2b "10.0.0.11:5070"; s2b "10.0.0.12:5070"];
     lc_dynamic := false; lc_no_received := false; lc_def_route := false; lc_must_rr := false |}.
Definition tb_cfg : cfg :=
  {| c_name := s2b "sip.example.com"; c_keep_next_hop := false; c_dialog_timeout := 1800;
     c_routes := []; c_hosts := []; c_listens := [tb_lc] |}.
Definition tb_st0 : state := init_state tb_cfg 0 [(s2b "10.0.0.11", 5070); (s2b "10.0.0.12", 5070)].
Definition tb_flags : list bool := [true].
Definition opt (n : string) : event := EvUdp 0 (s2b "10.0.0.98") 5060 (C04.ex_options n).
Definition dests_tb (r : res (state * bcache * list (list output))) : list (list dest) :=
  match r with Ok (_, _, o) => map (map fst) o | _ => [] end.
Definition state_tb (r : res (state * bcache * list (list output))) : state * bcache :=
  match r with Ok (s, ch, _) => (s, ch) | _ => (tb_st0, []) end.

(* (a)(b)(c): INVITE, OPTIONS, OPTIONS, the backend closes connection 0, OPTIONS, OPTIONS *)
Definition tb_hist1 : C04.hist :=
  [ (C04.sec 1, s2b "z9hG4bKpx0", EvUdp 0 (s2b "10.0.0.99") 5060 C04.ex_invite);
    (C04.sec 2, s2b "z9hG4bKpx1", opt "1");
    (C04.sec 3, s2b "z9hG4bKpx2", opt "2");
    (C04.sec 4, [], EvTcpClose 0);
    (C04.sec 5, s2b "z9hG4bKpx4", opt "3");
    (C04.sec 6, s2b "z9hG4bKpx5", opt "4") ].
(* (d): INVITE, the 200 arrives on the backend's connection, BYE of that dialog, OPTIONS *)
Definition tb_hist2 : C04.hist :=
  [ (C04.sec 1, s2b "z9hG4bKpx0", EvUdp 0 (s2b "10.0.0.99") 5060 C04.ex_invite);
    (C04.sec 2, s2b "z9hG4bKpx1", EvTcpData 0 C04.ex_200);
    (C04.sec 3, s2b "z9hG4bKpx2", EvUdp 0 (s2b "10.0.0.99") 5060 C04.ex_bye);
    (C04.sec 4, s2b "z9hG4bKpx3", opt "1") ].
(* RemoveBackend after the first request *)
Definition tb_hist3 : C04.hist :=
  [ (C04.sec 1, s2b "z9hG4bKpx0", EvUdp 0 (s2b "10.0.0.99") 5060 C04.ex_invite);
    (C04.sec 2, [], EvBackendRemove 0 (s2b "10.0.0.12:5070")) ].

Definition b11 : bytes := s2b "10.0.0.11".
Definition b12 : bytes := s2b "10.0.0.12".
Definition tb_r1 := run_tb tb_flags all_fixed tb_cfg tb_st0 [] tb_hist1.
Definition tb_r2 := run_tb tb_flags all_fixed tb_cfg tb_st0 [] tb_hist2.
Definition tb_r3 := run_tb tb_flags all_fixed tb_cfg tb_st0 [] tb_hist3.

(* (a) the first request: a connection to the rotation's first pick (index 0 -> element 1) is dialled and written *)
Example TB_ex_first_request :
  dests_tb (run_tb tb_flags all_fixed tb_cfg tb_st0 [] (firstn 1 tb_hist1)) = [[DDial b12 5070 0; DConn 0]].
Proof. vm_compute. reflexivity. Qed.
(* ... and what is written is, byte for byte, the datagram the UDP model sends for the same event *)
Example TB_ex_same_bytes :
  match proxy_step_tb tb_flags all_fixed tb_cfg (C04.sec 1) (s2b "z9hG4bKpx0") tb_st0 []
                      (EvUdp 0 (s2b "10.0.0.99") 5060 C04.ex_invite),
        proxy_step all_fixed tb_cfg (C04.sec 1) (s2b "z9hG4bKpx0") tb_st0 (EvUdp 0 (s2b "10.0.0.99") 5060 C04.ex_invite) with
  | Ok (_, _, [(DDial _ _ _, []); (DConn _, b)]), Ok (_, [(DUdp _ _, b')]) => b = b'
  | _, _ => False
  end.
Proof. vm_compute. reflexivity. Qed.
(* (b) the second request dials the other backend, the third REUSES connection 0 (no dial);
   (c) after the backend closed connection 0, the next request for it (the fifth event's goes to .11 on its open
       connection 1) dials again: connection 2.  The cache ends with the two live connections. *)
Example TB_ex_reuse_and_redial :
  dests_tb tb_r1 =
  [ [DDial b12 5070 0; DConn 0]; [DDial b11 5070 1; DConn 1]; [DConn 0]; []; [DConn 1]; [DDial b12 5070 2; DConn 2] ] /\
  snd (state_tb tb_r1) = [(tb_key 0 (s2b "10.0.0.11:5070") 0, 1%nat); (tb_key 0 (s2b "10.0.0.12:5070") 1, 2%nat)].
Proof. vm_compute. split; reflexivity. Qed.
(* (d) the 200 (both tags, CSeq INVITE) arriving on connection 0 is relayed to the caller and pins the dialog to the
   object 10.0.0.12:5070#1; the BYE of the dialog is written on connection 0 although the rotation's next pick is
   10.0.0.11 - where the following OPTIONS goes *)
Example TB_ex_pinned :
  dests_tb tb_r2 =
  [ [DDial b12 5070 0; DConn 0]; [DUdp (s2b "10.0.0.99") 5060]; [DConn 0]; [DDial b11 5070 1; DConn 1] ] /\
  match nth_p (st_proxies (fst (state_tb (run_tb tb_flags all_fixed tb_cfg tb_st0 [] (firstn 2 tb_hist2))))) 0 with
  | Some p => alookup C04.ex_d (p_tab (ps_pins p)) =
              Some {| pin_backend := pin_val_backend (s2b "10.0.0.12:5070") 1; pin_expire := C04.sec 1802 |}
  | None => False
  end.
Proof. vm_compute. split; reflexivity. Qed.
(* RemoveBackend of the backend whose connection is cached: nothing is emitted, the connection is closed *)
Example TB_ex_remove :
  dests_tb tb_r3 = [[DDial b12 5070 0; DConn 0]; []] /\
  conn_open (st_conns (fst (state_tb tb_r3))) 0 = false /\
  conn_open (st_conns (fst (state_tb (run_tb tb_flags all_fixed tb_cfg tb_st0 [] (firstn 1 tb_hist3))))) 0 = true.
Proof. vm_compute. repeat split. Qed.
(* the same events on the same configuration with UDP backends: TB_conservative_history at work *)
Example TB_ex_conservative :
  run_tb [false] all_fixed tb_cfg tb_st0 [] tb_hist1 = lift_run (C04.run all_fixed tb_cfg tb_st0 tb_hist1) [].
Proof. apply TB_conservative_history. apply is_tb_all_false. reflexivity. Qed.

(* ---- the hypotheses of the main theorems are satisfiable: instances on the states of these runs ---- *)
Definition tb_r2a := run_tb tb_flags all_fixed tb_cfg tb_st0 [] (firstn 2 tb_hist2).   (* after INVITE and 200 *)
Definition tb_st2 : state := fst (state_tb tb_r2a).
Definition tb_cache2 : bcache := snd (state_tb tb_r2a).
Definition tb_p2 : pstate := match nth_p (st_proxies tb_st2) 0 with Some p => p | None => init_pstate tb_cfg 0 tb_lc end.
Definition tb_x2 : ctx :=
  {| x_learned := st_learned tb_st2; x_p := tb_p2; x_conns := st_conns tb_st2; x_world := st_world tb_st2; x_outs := [] |}.
Definition tb_e3 : env := mk_env all_fixed tb_cfg (item_rs_of true) 0 tb_lc (C04.sec 3) (s2b "z9hG4bKpx2").

(* TB_sticky_step on the re-INVITE the callee sends inside the pinned dialog: written on the cached connection 0 *)
Example TB_sticky_step_ex :
  let m := C04.msg_of C04.ex_reinvite in
  let b := C04.fwd_bytes tb_e3 (C04.udp_from tb_lc) (x_p tb_x2) m in
  x_outs (fst (fst (send_to_backend_tb tb_e3 m tb_x2 tb_cache2))) = x_outs tb_x2 ++ [(DConn 0, b)] /\
  ps_rr (x_p (fst (fst (send_to_backend_tb tb_e3 m tb_x2 tb_cache2)))) = ps_rr (x_p tb_x2) /\
  snd (send_to_backend_tb tb_e3 m tb_x2 tb_cache2) = tb_cache2.
Proof.
  intros m b.
  unshelve epose proof (TB_sticky_step tb_e3 m tb_x2 tb_cache2 (C04.udp_from tb_lc) C04.ex_d (s2b "10.0.0.12:5070") 1%nat
                          (C04.sec 1802) 9%nat _ _ _ _ _ _ _ _ _ _) as H.
  1-8: vm_compute; reflexivity.
  1: vm_compute; discriminate.
  1: vm_compute; reflexivity.
  cbv zeta in H. destruct H as (H1 & H2 & _).
  assert (U : tb_usable tb_x2 (tb_key (e_li tb_e3) (s2b "10.0.0.12:5070") 1) tb_cache2 = Some 0%nat) by (vm_compute; reflexivity).
  rewrite U in H1. destruct H1 as (O & _ & _ & CE). split; [exact O|]. split; [exact H2|exact CE].
Qed.

(* TB_unpinned_step on the first INVITE (no To tag: no dialog) *)
Example TB_unpinned_step_ex :
  let e := mk_env all_fixed tb_cfg (item_rs_of true) 0 tb_lc (C04.sec 1) (s2b "z9hG4bKpx0") in
  let x := {| x_learned := []; x_p := init_pstate tb_cfg 0 tb_lc; x_conns := []; x_world := st_world tb_st0; x_outs := [] |} in
  ps_rr (x_p (fst (fst (send_to_backend_tb e (C04.msg_of C04.ex_invite) x [])))) = fst (rr_dispatch (ps_rr (x_p x))) /\
  snd (rr_dispatch (ps_rr (x_p x))) = Some (s2b "10.0.0.12:5070").
Proof.
  intros e x.
  unshelve epose proof (TB_unpinned_step e (C04.msg_of C04.ex_invite) x [] (C04.udp_from tb_lc) _ _ _ _) as H.
  1-3: vm_compute; reflexivity.
  1: intros d Hd; vm_compute in Hd; discriminate Hd.
  cbv zeta in H. destruct H as (H1 & _). split; [exact H1|]. vm_compute. reflexivity.
Qed.

(* TB_remove_closes on the state after the first request *)
Example TB_remove_closes_ex :
  let r := run_tb tb_flags all_fixed tb_cfg tb_st0 [] (firstn 1 tb_hist3) in
  let st := fst (state_tb r) in let cache := snd (state_tb r) in
  exists st', proxy_step_tb tb_flags all_fixed tb_cfg (C04.sec 2) [] st cache (EvBackendRemove 0 (s2b "10.0.0.12:5070"))
              = Ok (st', cache, []) /\ st_conns st' = close_conn 0 (st_conns st).
Proof.
  intros r st cache.
  unshelve epose proof (TB_remove_closes tb_flags all_fixed tb_cfg (C04.sec 2) [] st cache 0%nat (s2b "10.0.0.12:5070")
                          (match nth_p (st_proxies st) 0 with Some p => p | None => init_pstate tb_cfg 0 tb_lc end)
                          1%nat 0%nat _ _ _ _ _) as H.
  1-5: vm_compute; reflexivity.
  destruct H as (st' & stp & p' & E & _ & C & _). exists st'. split; [exact E|exact C].
Qed.

(* ================================================================== Part 9: whom the cached connection leads to *)
(* a connection record keeps its number, listen entry and peer for ever (only cn_open changes) *)
Definition same_end (cn cn' : conn) : Prop :=
  cn_id cn' = cn_id cn /\ cn_li cn' = cn_li cn /\ cn_peer cn' = cn_peer cn /\ cn_peer_port cn' = cn_peer_port cn.
Definition kept (cs cs' : list conn) : Prop := forall cn, In cn cs -> exists cn', In cn' cs' /\ same_end cn cn'.
Lemma same_end_refl cn : same_end cn cn. Proof. repeat split. Qed.
Lemma kept_refl cs : kept cs cs. Proof. intros cn I. exists cn. split; [exact I|apply same_end_refl]. Qed.
Lemma kept_trans a b c : kept a b -> kept b c -> kept a c.
Proof.
  intros H1 H2 cn I. destruct (H1 cn I) as (cn1 & I1 & (A1 & A2 & A3 & A4)).
  destruct (H2 cn1 I1) as (cn2 & I2 & (B1 & B2 & B3 & B4)). exists cn2. split; [exact I2|]. repeat split; congruence.
Qed.
Lemma kept_app cs l : kept cs (cs ++ l).
Proof. intros cn I. exists cn. split; [apply in_or_app; left; exact I|apply same_end_refl]. Qed.
Lemma kept_close c cs : kept cs (close_conn c cs).
Proof.
  induction cs as [|x r IH]; intros cn I; [destruct I|]. cbn [close_conn].
  destruct (Nat.eqb (cn_id x) c).
  - destruct I as [<-|I]; [|exists cn; split; [right; exact I|apply same_end_refl]].
    eexists. split; [left; reflexivity|]. repeat split.
  - destruct I as [<-|I]; [exists x; split; [left; reflexivity|apply same_end_refl]|].
    destruct (IH cn I) as (cn' & I' & S). exists cn'. split; [right; exact I'|exact S].
Qed.

Lemma tcp_client_send_kept n : forall li local rs id b p cs w outs p' cs' w' outs' ok,
  tcp_client_send n li local rs id b p cs w outs = (p', cs', w', outs', ok) -> kept cs cs'.
Proof.
  induction n as [|n IH]; intros li local rs id b p cs w outs p' cs' w' outs' ok; cbn [tcp_client_send].
  - intros H. injection H as <- <- <- <- <-. apply kept_refl.
  - destruct (find_client id (ps_clients p)) as [cl|]; [|intros H; injection H as <- <- <- <- <-; apply kept_refl].
    destruct (tc_cached cl) as [c|].
    + destruct (conn_open cs c); [intros H; injection H as <- <- <- <- <-; apply kept_refl|].
      intros H. exact (IH _ _ _ _ _ _ _ _ _ _ _ _ _ _ H).
    + destruct (existsb _ (w_tcp_listeners w)); [|intros H; injection H as <- <- <- <- <-; apply kept_refl].
      cbv zeta. intros H. injection H as <- <- <- <- <-. apply kept_app.
Qed.
Lemma failover_send_kept li local rs f b p cs w p' cs' w' outs ok f' :
  failover_send li local rs f b p cs w = (p', cs', w', outs, ok, f') -> kept cs cs'.
Proof.
  unfold failover_send.
  assert (SEC : forall f1 p' cs' w' outs0 outs ok f',
            match fo_sec f1 with
            | Some id => let '(p2, cs2, w2, outs2, ok) := tcp_client_send 2 li local rs id b p cs w outs0 in
                         (p2, cs2, w2, outs2, ok, f1)
            | None => (p, cs, w, outs0, false, f1)
            end = (p', cs', w', outs, ok, f') -> kept cs cs').
  { intros f1 p2 cs2 w2 outs0 outs2 ok2 f2. destruct (fo_sec f1) as [id|].
    - destruct (tcp_client_send 2 li local rs id b p cs w outs0) as [[[[p3 cs3] w3] outs3] ok3] eqn:E.
      intros H. injection H as <- <- <- <- <- <-. exact (tcp_client_send_kept _ _ _ _ _ _ _ _ _ _ _ _ _ _ _ E).
    - intros H. injection H as <- <- <- <- <- <-. apply kept_refl. }
  destruct (fo_pri f) as [[ip port|ip port|c ex]|].
  - destruct (fits_datagram b); [intros H; injection H as <- <- <- <- <- <-; apply kept_refl|apply SEC].
  - destruct (fits_datagram b); [intros H; injection H as <- <- <- <- <- <-; apply kept_refl|apply SEC].
  - destruct (conn_open cs c); [intros H; injection H as <- <- <- <- <- <-; apply kept_refl|apply SEC].
  - apply SEC.
Qed.
Lemma send_message_kept e host port tr m x : kept (x_conns x) (x_conns (fst (send_message e host port tr m x))).
Proof.
  unfold send_message. destruct (mtry s_client_transaction m) as [m1 tid].
  destruct (get_transport _ _ _ _ _ _) as [p1 rkey].
  destruct rkey as [key| |]; try apply kept_refl.
  match goal with |- context [alookup key (ps_table ?p2)] => set (P2 := p2) end.
  destruct (alookup key (ps_table P2)) as [f|]; [|apply kept_refl].
  match goal with |- context [failover_send ?a ?b ?c ?d ?e ?f ?g ?h] =>
    destruct (failover_send a b c d e f g h) as [[[[[p4 cs] w] outs] ok] f'] eqn:EF end.
  cbn. exact (failover_send_kept _ _ _ _ _ _ _ _ _ _ _ _ _ _ EF).
Qed.
Ltac send_kept :=
  match goal with |- kept _ (x_conns (fst (send_message ?e ?h ?p ?t ?m ?X))) =>
    exact (send_message_kept e h p t m X) end.
Lemma send_to_backend_conns e m x : x_conns (fst (send_to_backend e m x)) = x_conns x.
Proof.
  destruct (ps_has_rr (x_p x)) eqn:HR; [|rewrite (send_to_backend_off e m x (or_introl HR)); reflexivity].
  destruct (first_transport (e_lc e)) as [t0|] eqn:FT; [|rewrite (send_to_backend_off e m x (or_intror FT)); reflexivity].
  rewrite (send_to_backend_unfold e m x t0 HR FT). destruct (C04.stb_sel e (x_p x) m) as [p1 bk]. cbv zeta.
  destruct (backend_send bk _ p1) as [[p2 outs] ok]. destruct ok; reflexivity.
Qed.
Lemma handle_message_kept e from m x : kept (x_conns x) (x_conns (fst (handle_message e from m x))).
Proof.
  unfold handle_message. destruct (is_request m).
  - destruct (next_request_hop _ _ m) as [m1 r].
    assert (BK : kept (x_conns x)
                   (x_conns (fst (if is_my_message (new_my_name (c_name (e_cfg e))) from m1
                                  then send_to_backend e m1 x else (x, m1))))).
    { destruct (is_my_message _ from m1); [|apply kept_refl]. rewrite send_to_backend_conns. apply kept_refl. }
    destruct r as [[[host port] tr]| |]; try exact BK. send_kept.
  - destruct (mtry s_pop_via m) as [m1 r1]. destruct (mtry next_response_hop m1) as [m2 hop].
    destruct (mtry s_get_method m2) as [m3 ometh].
    destruct hop as [[[[h p] t]|]| |]; try apply kept_refl.
    destruct ometh as [[meth|]| |]; try send_kept.
    destruct (beq meth (s2b "SUBSCRIBE")); [|send_kept].
    destruct (alookup _ (ps_backends (x_p x))); [|send_kept].
    destruct (mtry s_get_dialog m3) as [m' od]. destruct od as [[d|]| |]; send_kept.
Qed.
Lemma process_message_kept e peer port from rs tcp m0 x x' :
  process_message e peer port from rs tcp m0 x = Ok x' -> kept (x_conns x) (x_conns x').
Proof.
  rewrite process_message_reach. destruct (pm_reach e peer port from rs tcp m0 x) as [[m5 x1]| |] eqn:PR; try discriminate.
  destruct (pm_reach_frame _ _ _ _ _ _ _ _ _ _ PR) as (_ & C1 & _).
  intros H. injection H as <-. rewrite <- C1. apply handle_message_kept.
Qed.
Lemma tcp_messages_kept f : forall e c s x x', tcp_messages f e c s x = Ok x' -> kept (x_conns x) (x_conns x').
Proof.
  induction f as [|f IH]; intros e c s x x'; cbn [tcp_messages].
  - intros H. injection H as <-. apply kept_refl.
  - destruct (trim_left s); [intros H; injection H as <-; apply kept_refl|].
    destruct (parse_message s) as [[m rest]| |].
    + destruct (process_message e _ _ _ _ _ m x) as [x1| |] eqn:EP; try discriminate.
      intros H. eapply kept_trans; [exact (process_message_kept _ _ _ _ _ _ _ _ _ EP)|exact (IH _ _ _ _ _ H)].
    + intros H. injection H as <-. cbn. apply kept_close.
    + intros H. injection H as <-. cbn. apply kept_close.
Qed.
Lemma proxy_step_kept fx c now br st ev st' outs :
  proxy_step fx c now br st ev = Ok (st', outs) -> kept (st_conns st) (st_conns st').
Proof.
  intros H. destruct ev as [li src sport data|li src sport|cid data|cid|li a|li a]; cbn [proxy_step] in H.
  - destruct (nth_opt (c_listens c) li) as [lc|]; [|injection H as <- _; apply kept_refl].
    destruct (parse_message data) as [[m rest]| |]; try (injection H as <- _; apply kept_refl).
    unfold run_ctx in H. destruct (nth_p (st_proxies st) li) as [p|]; [|injection H as <- _; apply kept_refl].
    destruct (process_message _ _ _ _ _ _ _ _) as [x'| |] eqn:EP; try discriminate.
    injection H as <- _. cbn [st_conns]. exact (process_message_kept _ _ _ _ _ _ _ _ _ EP).
  - destruct (nth_opt (c_listens c) li) as [lc|]; [|injection H as <- _; apply kept_refl].
    destruct (nth_p (st_proxies st) li) as [p|]; [|injection H as <- _; apply kept_refl].
    destruct (get_transport _ _ _ _ _ _) as [p1 rk]. injection H as <- _. cbn [st_conns]. apply kept_app.
  - destruct (find _ (st_conns st)) as [cn|]; [|injection H as <- _; apply kept_refl].
    destruct (cn_open cn); [|injection H as <- _; apply kept_refl].
    destruct (nth_opt (c_listens c) (cn_li cn)) as [lc|]; [|injection H as <- _; apply kept_refl].
    unfold run_ctx in H. destruct (nth_p (st_proxies st) (cn_li cn)) as [p|]; [|injection H as <- _; apply kept_refl].
    destruct (tcp_messages _ _ _ _ _) as [x'| |] eqn:EP; try discriminate.
    injection H as <- _. cbn [st_conns]. exact (tcp_messages_kept _ _ _ _ _ _ EP).
  - injection H as <- _. cbn [st_conns]. apply kept_close.
  - destruct (nth_p (st_proxies st) li) as [p|]; injection H as <- _; apply kept_refl.
  - destruct (nth_p (st_proxies st) li) as [p|]; [|injection H as <- _; apply kept_refl].
    destruct (rr_remove a (ps_rr p)) as [r' closed]. injection H as <- _. apply kept_refl.
Qed.

(* the invariant: every cached entry is filed under the key of a backend object (li, a, g) whose address has a port,
   and names a known connection of entry li whose peer is that address *)
Definition cache_ok (cs : list conn) (cache : bcache) : Prop :=
  forall k c, alookup k cache = Some c ->
    exists li a g pos cn, k = tb_key li a g /\ last_index_byte ":"%char a = Some pos /\
      In cn cs /\ cn_id cn = c /\ cn_li cn = li /\
      cn_peer cn = firstn pos a /\ cn_peer_port cn = atoi_val (skipn (S pos) a).
Lemma cache_ok_kept cs cs' cache : cache_ok cs cache -> kept cs cs' -> cache_ok cs' cache.
Proof.
  intros H K k c A. destruct (H k c A) as (li & a & g & pos & cn & E & LI & I & C1 & C2 & C3 & C4).
  destruct (K cn I) as (cn' & I' & (S1 & S2 & S3 & S4)). exists li, a, g, pos, cn'.
  split; [exact E|]. split; [exact LI|]. split; [exact I'|]. repeat split; congruence.
Qed.
Lemma alookup_forget k key (cache : bcache) c :
  alookup k (tb_forget key cache) = Some c -> alookup k cache = Some c /\ k <> key.
Proof.
  unfold tb_forget. destruct (alookup key cache) eqn:A.
  - destruct (beq_spec k key) as [->|NE]; [rewrite alookup_adel_same; discriminate|].
    rewrite alookup_adel_other by exact NE. intros H. split; assumption.
  - intros H. split; [exact H|]. intros ->. rewrite A in H. discriminate.
Qed.

Lemma tcp_backend_send_cache_ok e a g b x cache x' cache' outs ok :
  cache_ok (x_conns x) cache -> tcp_backend_send e a g b x cache = (x', cache', outs, ok) ->
  cache_ok (x_conns x') cache'.
Proof.
  intros H. rewrite tcp_backend_send_cases. destruct (last_index_byte ":"%char a) as [pos|] eqn:LI.
  2:{ intros E. injection E as <- <- _ _. exact H. }
  cbv zeta. destruct (tb_usable x (tb_key (e_li e) a g) cache) as [c|].
  { intros E. injection E as <- <- _ _. exact H. }
  destruct (tb_listens x (firstn pos a) (atoi_val (skipn (S pos) a))).
  - intros E. injection E as <- <- _ _. cbn [tb_dial_ctx x_conns]. intros k c A.
    destruct (beq_spec k (tb_key (e_li e) a g)) as [->|NE].
    + rewrite alookup_aset_same in A. injection A as <-.
      exists (e_li e), a, g, pos, (tb_new_conn e x (firstn pos a) (atoi_val (skipn (S pos) a))).
      split; [reflexivity|]. split; [exact LI|]. split; [apply in_or_app; right; left; reflexivity|]. repeat split.
    + rewrite alookup_aset_other in A by exact NE. apply alookup_forget in A. destruct A as (A & _).
      exact (cache_ok_kept (x_conns x) _ cache H (kept_app _ _) k c A).
  - intros E. injection E as <- <- _ _. intros k c A. apply alookup_forget in A. destruct A as (A & _). exact (H k c A).
Qed.
Lemma backend_send_tb_cache_ok e bk b x cache x' cache' outs ok :
  cache_ok (x_conns x) cache -> backend_send_tb e bk b x cache = (x', cache', outs, ok) ->
  cache_ok (x_conns x') cache'.
Proof.
  intros H. unfold backend_send_tb. destruct bk as [a g|].
  - apply tcp_backend_send_cache_ok. exact H.
  - destruct (rr_dispatch (ps_rr (x_p x))) as [r' o]. cbv beta iota zeta.
    destruct o as [a|]; [destruct (alookup a (ps_backends (x_p x))) as [g|]|]; cbv beta iota zeta.
    + apply tcp_backend_send_cache_ok. exact H.
    + intros E. injection E as <- <- _ _. exact H.
    + intros E. injection E as <- <- _ _. exact H.
Qed.
Lemma send_to_backend_tb_cache_ok e m x cache :
  cache_ok (x_conns x) cache ->
  cache_ok (x_conns (fst (fst (send_to_backend_tb e m x cache)))) (snd (send_to_backend_tb e m x cache)).
Proof.
  intros H.
  destruct (ps_has_rr (x_p x)) eqn:HR; [|rewrite (send_to_backend_tb_off e m x cache (or_introl HR)); exact H].
  destruct (first_transport (e_lc e)) as [t0|] eqn:FT; [|rewrite (send_to_backend_tb_off e m x cache (or_intror FT)); exact H].
  rewrite (send_to_backend_tb_unfold e m x cache t0 HR FT). destruct (C04.stb_sel e (x_p x) m) as [p1 bk]. cbv zeta.
  destruct (backend_send_tb e bk _ (with_p x p1) cache) as [[[x2 cache2] outs] ok] eqn:BT.
  apply (backend_send_tb_cache_ok e bk _ (with_p x p1) cache) in BT; [|exact H].
  destruct ok; exact BT.
Qed.
Lemma handle_message_tb_cache_ok e from m x cache :
  cache_ok (x_conns x) cache ->
  cache_ok (x_conns (fst (fst (handle_message_tb e from m x cache)))) (snd (handle_message_tb e from m x cache)).
Proof.
  intros H. destruct (reaches_backend e from m) eqn:RB.
  - pose proof (TB_copy_faithful_backend e from m x cache RB) as E. cbv zeta in E. destruct E as (E & _). rewrite E.
    apply send_to_backend_tb_cache_ok. exact H.
  - rewrite (TB_copy_faithful e from m x cache RB). unfold lift_hm.
    pose proof (handle_message_kept e from m x) as K. destruct (handle_message e from m x) as [x' m']. cbn [fst snd] in *.
    exact (cache_ok_kept _ _ _ H K).
Qed.
Lemma process_message_tb_cache_ok e peer port from rs tcp m0 x cache x' cache' :
  cache_ok (x_conns x) cache -> process_message_tb e peer port from rs tcp m0 x cache = Ok (x', cache') ->
  cache_ok (x_conns x') cache'.
Proof.
  intros H. rewrite process_message_tb_reach.
  destruct (pm_reach e peer port from rs tcp m0 x) as [[m5 x1]| |] eqn:PR; try discriminate.
  destruct (pm_reach_frame _ _ _ _ _ _ _ _ _ _ PR) as (_ & C1 & _).
  rewrite <- C1 in H. pose proof (handle_message_tb_cache_ok e from m5 x1 cache H) as K.
  destruct (handle_message_tb e from m5 x1 cache) as [[x2 mm] c2]. cbn [fst snd] in K.
  intros E. injection E as <- <-. exact K.
Qed.
Lemma tcp_messages_tb_cache_ok f : forall e c s x cache x' cache',
  cache_ok (x_conns x) cache -> tcp_messages_tb f e c s x cache = Ok (x', cache') -> cache_ok (x_conns x') cache'.
Proof.
  induction f as [|f IH]; intros e c s x cache x' cache' H; cbn [tcp_messages_tb].
  - intros E. injection E as <- <-. exact H.
  - destruct (trim_left s); [intros E; injection E as <- <-; exact H|].
    destruct (parse_message s) as [[m rest]| |].
    + destruct (process_message_tb e _ _ _ _ _ m x cache) as [[x1 cache1]| |] eqn:EP; try discriminate.
      intros E. exact (IH _ _ _ _ _ _ _ (process_message_tb_cache_ok _ _ _ _ _ _ _ _ _ _ _ H EP) E).
    + intros E. injection E as <- <-. cbn [x_conns]. exact (cache_ok_kept _ _ _ H (kept_close _ _)).
    + intros E. injection E as <- <-. cbn [x_conns]. exact (cache_ok_kept _ _ _ H (kept_close _ _)).
Qed.

(* one event *)
Theorem TB_cache_ok_step : forall tb fx c now br st cache ev st' cache' outs,
  cache_ok (st_conns st) cache ->
  proxy_step_tb tb fx c now br st cache ev = Ok (st', cache', outs) -> cache_ok (st_conns st') cache'.
Proof.
  intros tb fx c now br st cache ev st' cache' outs H. unfold proxy_step_tb.
  assert (LIFT : lift_step (proxy_step fx c now br st ev) cache = Ok (st', cache', outs) -> cache_ok (st_conns st') cache').
  { unfold lift_step. destruct (proxy_step fx c now br st ev) as [[st1 o]| |] eqn:E; try discriminate.
    intros E'. injection E' as <- <- _. exact (cache_ok_kept _ _ _ H (proxy_step_kept _ _ _ _ _ _ _ _ E)). }
  destruct (negb _); [exact LIFT|].
  destruct ev as [li src sport data|li src sport|cid data|cid|li a|li a]; try exact LIFT.
  - destruct (nth_opt (c_listens c) li) as [lc|]; [|intros E; injection E as <- <- _; exact H].
    cbv zeta. destruct (parse_message data) as [[m rest]| |]; try (intros E; injection E as <- <- _; exact H).
    unfold run_ctx_tb. destruct (nth_p (st_proxies st) li) as [p|]; [|intros E; injection E as <- <- _; exact H].
    match goal with |- context [process_message_tb ?e ?a ?b ?f ?r ?t ?m ?x ?ch] =>
      destruct (process_message_tb e a b f r t m x ch) as [[x' ch']| |] eqn:PM end; try discriminate.
    intros E. injection E as <- <- _. cbn [st_conns].
    refine (process_message_tb_cache_ok _ _ _ _ _ _ _ _ _ _ _ _ PM). exact H.
  - destruct (find _ (st_conns st)) as [cn|]; [|intros E; injection E as <- <- _; exact H].
    destruct (cn_open cn); [|intros E; injection E as <- <- _; exact H]. cbv zeta.
    destruct (nth_opt (c_listens c) (cn_li cn)) as [lc|]; [|intros E; injection E as <- <- _; exact H].
    unfold run_ctx_tb. destruct (nth_p (st_proxies st) (cn_li cn)) as [p|]; [|intros E; injection E as <- <- _; exact H].
    match goal with |- context [tcp_messages_tb ?f ?e ?c ?s ?x ?ch] =>
      destruct (tcp_messages_tb f e c s x ch) as [[x' ch']| |] eqn:TM end; try discriminate.
    intros E. injection E as <- <- _. cbn [st_conns].
    refine (tcp_messages_tb_cache_ok _ _ _ _ _ _ _ _ _ TM). exact H.
  - destruct (nth_p (st_proxies st) li) as [p|]; [|intros E; injection E as <- <- _; exact H].
    cbv zeta. destruct (proxy_step fx c now br st (EvBackendRemove li a)) as [[st1 o]| |] eqn:E; try discriminate.
    apply proxy_step_kept in E. intros E'. injection E' as <- <- _.
    destruct (if mem_bytes a (rr_map (ps_rr p)) then _ else None) as [cid|].
    + cbn [st_conns]. exact (cache_ok_kept _ _ _ H (kept_trans _ _ _ E (kept_close _ _))).
    + exact (cache_ok_kept _ _ _ H E).
Qed.

(* every history *)
Theorem TB_cache_ok_history : forall tb fx c h st cache st' cache' outss,
  cache_ok (st_conns st) cache -> run_tb tb fx c st cache h = Ok (st', cache', outss) ->
  cache_ok (st_conns st') cache'.
Proof.
  intros tb fx c h. induction h as [|[[now br] ev] r IH]; intros st cache st' cache' outss H; cbn [run_tb].
  - intros E. injection E as <- <- _. exact H.
  - destruct (proxy_step_tb tb fx c now br st cache ev) as [[[st1 cache1] o]| |] eqn:E1; try discriminate.
    destruct (run_tb tb fx c st1 cache1 r) as [[[st2 cache2] os]| |] eqn:E2; try discriminate.
    intros E. injection E as <- <- _. exact (IH _ _ _ _ _ (TB_cache_ok_step _ _ _ _ _ _ _ _ _ _ _ H E1) E2).
Qed.

(* the key names the object: it is injective *)
Lemma sep_first (c : ascii) : forall l1 l2 r1 r2,
  ~ In c l1 -> ~ In c l2 -> l1 ++ c :: r1 = l2 ++ c :: r2 -> l1 = l2 /\ r1 = r2.
Proof.
  induction l1 as [|x l1 IH]; intros [|y l2] r1 r2 N1 N2 E; cbn [app] in E.
  - injection E as ->. split; reflexivity.
  - injection E as E _. exfalso. apply N2. left. symmetry. exact E.
  - injection E as E _. exfalso. apply N1. left. exact E.
  - injection E as -> E. destruct (IH l2 r1 r2) as (-> & ->);
      [intros I; apply N1; right; exact I|intros I; apply N2; right; exact I|exact E|]. split; reflexivity.
Qed.
Lemma sep_last (c : ascii) l1 l2 r1 r2 :
  ~ In c r1 -> ~ In c r2 -> l1 ++ c :: r1 = l2 ++ c :: r2 -> l1 = l2 /\ r1 = r2.
Proof.
  intros N1 N2 E. apply (f_equal (@rev ascii)) in E. rewrite !rev_app_distr in E. cbn [rev] in E.
  rewrite <- !app_assoc in E. cbn [app] in E.
  apply sep_first in E; [|rewrite <- in_rev; exact N1|rewrite <- in_rev; exact N2].
  destruct E as (E1 & E2). apply (f_equal (@rev ascii)) in E1. apply (f_equal (@rev ascii)) in E2.
  rewrite !rev_involutive in E1, E2. split; assumption.
Qed.
Lemma itoa_no_slash z : ~ In "/"%char (itoa z).
Proof.
  intros H. pose proof (itoa_chars z) as HF.
  apply (proj1 (Forall_forall _ _) HF) in H. destruct H as [H|H]; discriminate.
Qed.
Lemma itoa_nat_inj n m : itoa (Z.of_nat n) = itoa (Z.of_nat m) -> n = m.
Proof.
  unfold itoa. destruct (Z.ltb_spec (Z.of_nat n) 0) as [L|L]; [lia|]. destruct (Z.ltb_spec (Z.of_nat m) 0) as [L'|L']; [lia|].
  intros E. pose proof (digits_val_utoa (Z.to_N (Z.of_nat n))) as A. pose proof (digits_val_utoa (Z.to_N (Z.of_nat m))) as B.
  rewrite E in A. rewrite A in B. injection B as B. rewrite !Z2N.id in B by lia. lia.
Qed.
Theorem tb_key_inj : forall li a g li' a' g', tb_key li a g = tb_key li' a' g' -> li = li' /\ a = a' /\ g = g'.
Proof.
  intros li a g li' a' g'. unfold tb_key, pin_val_backend. intros E.
  apply sep_first in E; [|apply itoa_no_slash|apply itoa_no_slash]. destruct E as (E1 & E2).
  apply sep_last in E2; [|apply C04.itoa_no_hash|apply C04.itoa_no_hash]. destruct E2 as (E2 & E3).
  split; [exact (itoa_nat_inj _ _ E1)|]. split; [exact E2|exact (itoa_nat_inj _ _ E3)].
Qed.

(* TB_cached_peer.  After ANY history that starts with an empty cache: the connection cached for the backend object
   (a, g) of listen entry li is a known connection of that entry whose peer is a's ip and port.  Together with
   TB_send_reuse / TB_sticky_step: the bytes written on "the cached connection" reach the backend's address. *)
Theorem TB_cached_peer : forall tb fx c h st0 st cache outss,
  run_tb tb fx c st0 [] h = Ok (st, cache, outss) ->
  forall li a g cid pos,
    alookup (tb_key li a g) cache = Some cid -> last_index_byte ":"%char a = Some pos ->
    exists cn, In cn (st_conns st) /\ cn_id cn = cid /\ cn_li cn = li /\
               cn_peer cn = firstn pos a /\ cn_peer_port cn = atoi_val (skipn (S pos) a).
Proof.
  intros tb fx c h st0 st cache outss R li a g cid pos A LI.
  assert (H0 : cache_ok (st_conns st0) []) by (intros k c' E; discriminate E).
  destruct (TB_cache_ok_history _ _ _ _ _ _ _ _ _ H0 R _ _ A) as (li' & a' & g' & pos' & cn & E & LI' & I & C1 & C2 & C3 & C4).
  apply tb_key_inj in E. destruct E as (<- & <- & <-). rewrite LI in LI'. injection LI' as <-.
  exists cn. repeat split; assumption.
Qed.
(* a cached entry is never filed for an address without a port *)
Corollary TB_cached_has_port : forall tb fx c h st0 st cache outss li a g cid,
  run_tb tb fx c st0 [] h = Ok (st, cache, outss) -> alookup (tb_key li a g) cache = Some cid ->
  last_index_byte ":"%char a <> None.
Proof.
  intros tb fx c h st0 st cache outss li a g cid R A.
  assert (H0 : cache_ok (st_conns st0) []) by (intros k c' E; discriminate E).
  destruct (TB_cache_ok_history _ _ _ _ _ _ _ _ _ H0 R _ _ A) as (li' & a' & g' & pos' & cn & E & LI' & _).
  apply tb_key_inj in E. destruct E as (_ & <- & _). rewrite LI'. discriminate.
Qed.

(* TB_cached_peer on the first history: the connection cached for 10.0.0.12:5070#1 is connection 2, to 10.0.0.12:5070 *)
Definition tb_st1 : state := fst (state_tb tb_r1).
Definition tb_cache1 : bcache := snd (state_tb tb_r1).
Definition tb_outs1 : list (list output) := match tb_r1 with Ok (_, _, o) => o | _ => [] end.
Example TB_cached_peer_ex :
  exists cn, In cn (st_conns tb_st1) /\ cn_id cn = 2%nat /\ cn_li cn = 0%nat /\ cn_peer cn = b12 /\ cn_peer_port cn = 5070.
Proof.
  assert (R : run_tb tb_flags all_fixed tb_cfg tb_st0 [] tb_hist1 = Ok (tb_st1, tb_cache1, tb_outs1))
    by (vm_compute; reflexivity).
  assert (A : alookup (tb_key 0 (s2b "10.0.0.12:5070") 1) tb_cache1 = Some 2%nat) by (vm_compute; reflexivity).
  assert (LI : last_index_byte ":"%char (s2b "10.0.0.12:5070") = Some 9%nat) by (vm_compute; reflexivity).
  pose proof (TB_cached_peer tb_flags all_fixed tb_cfg tb_hist1 tb_st0 tb_st1 tb_cache1 tb_outs1 R
                0%nat (s2b "10.0.0.12:5070") 1%nat 2%nat 9%nat A LI) as H.
  destruct H as (cn & I & C1 & C2 & C3 & C4).
  exists cn. split; [exact I|]. split; [exact C1|]. split; [exact C2|]. split; [exact C3|].
  rewrite C4. vm_compute. reflexivity.
Qed.

(* A NOTE on ProxyTB.tb_local (see the final report): a REQUEST that arrives from a backend on the connection the
   proxy dialled is processed with from = tb_local, and since Proxy's test "the peer is a backend" compares the bare
   ip with the "ip:port" member names, the backend's ip (and the hosts of the request's Via entries) ARE learned
   through tb_local - the comment at tb_local ("a backend's address is never learned") does not hold of the model *)
Example TB_note_backend_address_learned :
  let h := [ (C04.sec 1, s2b "z9hG4bKpx0", EvUdp 0 (s2b "10.0.0.99") 5060 C04.ex_invite);
             (C04.sec 2, s2b "z9hG4bKpx1", EvTcpData 0 (C04.ex_options "9")) ] in
  alookup b12 (st_learned (fst (state_tb (run_tb tb_flags all_fixed tb_cfg tb_st0 [] h)))) = Some tb_local /\
  alookup (s2b "10.0.0.98") (st_learned (fst (state_tb (run_tb tb_flags all_fixed tb_cfg tb_st0 [] h)))) = Some tb_local.
Proof. vm_compute. split; reflexivity. Qed.

(* ================================================================== Part 10: connection numbers are unique *)
(* every known connection has its own number, below the next one to be given out *)
Definition conns_fresh (st : state) : Prop :=
  NoDup (map cn_id (st_conns st)) /\ forall c, In c (st_conns st) -> (cn_id c < w_next_conn (st_world st))%nat.
(* the same on the list of numbers *)
Definition fresh (cs : list conn) (w : world) : Prop :=
  NoDup (map cn_id cs) /\ forall i, In i (map cn_id cs) -> (i < w_next_conn w)%nat.
Definition xfresh (x : ctx) : Prop := fresh (x_conns x) (x_world x).
Lemma conns_fresh_iff st : conns_fresh st <-> fresh (st_conns st) (st_world st).
Proof.
  unfold conns_fresh, fresh. split; intros (ND & B); (split; [exact ND|]).
  - intros i I. apply in_map_iff in I. destruct I as (c & <- & I). exact (B c I).
  - intros c I. apply B. apply in_map. exact I.
Qed.
Lemma close_conn_ids c cs : map cn_id (close_conn c cs) = map cn_id cs.
Proof.
  induction cs as [|x r IH]; [reflexivity|]. cbn [close_conn].
  destruct (Nat.eqb (cn_id x) c); cbn [map cn_id]; [reflexivity|rewrite IH; reflexivity].
Qed.
Lemma fresh_close c cs w : fresh cs w -> fresh (close_conn c cs) w.
Proof. unfold fresh. rewrite close_conn_ids. intros H. exact H. Qed.
Lemma NoDup_snoc {A} (l : list A) n : NoDup l -> ~ In n l -> NoDup (l ++ [n]).
Proof.
  induction l as [|x l IH]; intros ND NI; cbn [app].
  - constructor; [intros []|constructor].
  - inversion ND as [|? ? NX ND']; subst. constructor.
    + intros I. apply in_app_or in I. destruct I as [I|[E|[]]]; [exact (NX I)|]. apply NI. left. symmetry. exact E.
    + apply IH; [exact ND'|]. intros I. apply NI. right. exact I.
Qed.
Lemma fresh_new cs w cn l : fresh cs w -> cn_id cn = w_next_conn w ->
  fresh (cs ++ [cn]) {| w_tcp_listeners := l; w_next_conn := S (w_next_conn w) |}.
Proof.
  intros (ND & B) E. unfold fresh. rewrite map_app. cbn [map w_next_conn]. rewrite E. split.
  - apply NoDup_snoc; [exact ND|]. intros I. apply B in I. lia.
  - intros i I. apply in_app_or in I. destruct I as [I|[<-|[]]]; [apply B in I; lia|lia].
Qed.

Lemma tcp_client_send_fresh n : forall li local rs id b p cs w outs p' cs' w' outs' ok,
  tcp_client_send n li local rs id b p cs w outs = (p', cs', w', outs', ok) -> fresh cs w -> fresh cs' w'.
Proof.
  induction n as [|n IH]; intros li local rs id b p cs w outs p' cs' w' outs' ok; cbn [tcp_client_send].
  - intros H F. injection H as <- <- <- <- <-. exact F.
  - destruct (find_client id (ps_clients p)) as [cl|]; [|intros H F; injection H as <- <- <- <- <-; exact F].
    destruct (tc_cached cl) as [c|].
    + destruct (conn_open cs c); [intros H F; injection H as <- <- <- <- <-; exact F|].
      intros H. exact (IH _ _ _ _ _ _ _ _ _ _ _ _ _ _ H).
    + destruct (existsb _ (w_tcp_listeners w)); [|intros H F; injection H as <- <- <- <- <-; exact F].
      cbv zeta. intros H F. injection H as <- <- <- <- <-. apply fresh_new; [exact F|reflexivity].
Qed.
Lemma failover_send_fresh li local rs f b p cs w p' cs' w' outs ok f' :
  failover_send li local rs f b p cs w = (p', cs', w', outs, ok, f') -> fresh cs w -> fresh cs' w'.
Proof.
  unfold failover_send.
  assert (SEC : forall f1 p' cs' w' outs0 outs ok f',
            match fo_sec f1 with
            | Some id => let '(p2, cs2, w2, outs2, ok) := tcp_client_send 2 li local rs id b p cs w outs0 in
                         (p2, cs2, w2, outs2, ok, f1)
            | None => (p, cs, w, outs0, false, f1)
            end = (p', cs', w', outs, ok, f') -> fresh cs w -> fresh cs' w').
  { intros f1 p2 cs2 w2 outs0 outs2 ok2 f2. destruct (fo_sec f1) as [id|].
    - destruct (tcp_client_send 2 li local rs id b p cs w outs0) as [[[[p3 cs3] w3] outs3] ok3] eqn:E.
      intros H. injection H as <- <- <- <- <- <-. exact (tcp_client_send_fresh _ _ _ _ _ _ _ _ _ _ _ _ _ _ _ E).
    - intros H F. injection H as <- <- <- <- <- <-. exact F. }
  destruct (fo_pri f) as [[ip port|ip port|c ex]|].
  - destruct (fits_datagram b); [intros H F; injection H as <- <- <- <- <- <-; exact F|apply SEC].
  - destruct (fits_datagram b); [intros H F; injection H as <- <- <- <- <- <-; exact F|apply SEC].
  - destruct (conn_open cs c); [intros H F; injection H as <- <- <- <- <- <-; exact F|apply SEC].
  - apply SEC.
Qed.
Lemma send_message_fresh e host port tr m x : xfresh x -> xfresh (fst (send_message e host port tr m x)).
Proof.
  intros F. unfold send_message. destruct (mtry s_client_transaction m) as [m1 tid].
  destruct (get_transport _ _ _ _ _ _) as [p1 rkey].
  destruct rkey as [key| |]; try exact F.
  match goal with |- context [alookup key (ps_table ?p2)] => set (P2 := p2) end.
  destruct (alookup key (ps_table P2)) as [f|]; [|exact F].
  match goal with |- context [failover_send ?a ?b ?c ?d ?e ?f ?g ?h] =>
    destruct (failover_send a b c d e f g h) as [[[[[p4 cs] w] outs] ok] f'] eqn:EF end.
  unfold xfresh. cbn [fst x_conns x_world]. exact (failover_send_fresh _ _ _ _ _ _ _ _ _ _ _ _ _ _ EF F).
Qed.
Ltac send_fresh F :=
  match goal with |- xfresh (fst (send_message ?e ?h ?p ?t ?m ?X)) =>
    exact (send_message_fresh e h p t m X F) end.
Lemma send_to_backend_world e m x : x_world (fst (send_to_backend e m x)) = x_world x.
Proof.
  destruct (ps_has_rr (x_p x)) eqn:HR; [|rewrite (send_to_backend_off e m x (or_introl HR)); reflexivity].
  destruct (first_transport (e_lc e)) as [t0|] eqn:FT; [|rewrite (send_to_backend_off e m x (or_intror FT)); reflexivity].
  rewrite (send_to_backend_unfold e m x t0 HR FT). destruct (C04.stb_sel e (x_p x) m) as [p1 bk]. cbv zeta.
  destruct (backend_send bk _ p1) as [[p2 outs] ok]. destruct ok; reflexivity.
Qed.
Lemma handle_message_fresh e from m x : xfresh x -> xfresh (fst (handle_message e from m x)).
Proof.
  intros F. unfold handle_message. destruct (is_request m).
  - destruct (next_request_hop _ _ m) as [m1 r].
    assert (BK : xfresh (fst (if is_my_message (new_my_name (c_name (e_cfg e))) from m1
                              then send_to_backend e m1 x else (x, m1)))).
    { destruct (is_my_message _ from m1); [|exact F].
      unfold xfresh. rewrite send_to_backend_conns, send_to_backend_world. exact F. }
    destruct r as [[[host port] tr]| |]; try exact BK. send_fresh F.
  - destruct (mtry s_pop_via m) as [m1 r1]. destruct (mtry next_response_hop m1) as [m2 hop].
    destruct (mtry s_get_method m2) as [m3 ometh].
    destruct hop as [[[[h p] t]|]| |]; try exact F.
    destruct ometh as [[meth|]| |]; try send_fresh F.
    destruct (beq meth (s2b "SUBSCRIBE")); [|send_fresh F].
    destruct (alookup _ (ps_backends (x_p x))); [|send_fresh F].
    destruct (mtry s_get_dialog m3) as [m' od]. destruct od as [[d|]| |]; send_fresh F.
Qed.
Lemma process_message_fresh e peer port from rs tcp m0 x x' :
  process_message e peer port from rs tcp m0 x = Ok x' -> xfresh x -> xfresh x'.
Proof.
  rewrite process_message_reach. destruct (pm_reach e peer port from rs tcp m0 x) as [[m5 x1]| |] eqn:PR; try discriminate.
  destruct (pm_reach_frame _ _ _ _ _ _ _ _ _ _ PR) as (_ & C1 & W1).
  intros H F. injection H as <-. apply handle_message_fresh. unfold xfresh. rewrite C1, W1. exact F.
Qed.
Lemma tcp_messages_fresh f : forall e c s x x', tcp_messages f e c s x = Ok x' -> xfresh x -> xfresh x'.
Proof.
  induction f as [|f IH]; intros e c s x x'; cbn [tcp_messages].
  - intros H F. injection H as <-. exact F.
  - destruct (trim_left s); [intros H F; injection H as <-; exact F|].
    destruct (parse_message s) as [[m rest]| |].
    + destruct (process_message e _ _ _ _ _ m x) as [x1| |] eqn:EP; try discriminate.
      intros H F. exact (IH _ _ _ _ _ H (process_message_fresh _ _ _ _ _ _ _ _ _ EP F)).
    + intros H F. injection H as <-. unfold xfresh. cbn [x_conns x_world]. apply fresh_close. exact F.
    + intros H F. injection H as <-. unfold xfresh. cbn [x_conns x_world]. apply fresh_close. exact F.
Qed.
Lemma proxy_step_fresh fx c now br st ev st' outs :
  proxy_step fx c now br st ev = Ok (st', outs) -> fresh (st_conns st) (st_world st) -> fresh (st_conns st') (st_world st').
Proof.
  intros H F. destruct ev as [li src sport data|li src sport|cid data|cid|li a|li a]; cbn [proxy_step] in H.
  - destruct (nth_opt (c_listens c) li) as [lc|]; [|injection H as <- _; exact F].
    destruct (parse_message data) as [[m rest]| |]; try (injection H as <- _; exact F).
    unfold run_ctx in H. destruct (nth_p (st_proxies st) li) as [p|]; [|injection H as <- _; exact F].
    destruct (process_message _ _ _ _ _ _ _ _) as [x'| |] eqn:EP; try discriminate.
    injection H as <- _. cbn [st_conns st_world]. exact (process_message_fresh _ _ _ _ _ _ _ _ _ EP F).
  - destruct (nth_opt (c_listens c) li) as [lc|]; [|injection H as <- _; exact F].
    destruct (nth_p (st_proxies st) li) as [p|]; [|injection H as <- _; exact F].
    destruct (get_transport _ _ _ _ _ _) as [p1 rk]. injection H as <- _. cbn [st_conns st_world].
    apply fresh_new; [exact F|reflexivity].
  - destruct (find _ (st_conns st)) as [cn|]; [|injection H as <- _; exact F].
    destruct (cn_open cn); [|injection H as <- _; exact F].
    destruct (nth_opt (c_listens c) (cn_li cn)) as [lc|]; [|injection H as <- _; exact F].
    unfold run_ctx in H. destruct (nth_p (st_proxies st) (cn_li cn)) as [p|]; [|injection H as <- _; exact F].
    destruct (tcp_messages _ _ _ _ _) as [x'| |] eqn:EP; try discriminate.
    injection H as <- _. cbn [st_conns st_world]. exact (tcp_messages_fresh _ _ _ _ _ _ EP F).
  - injection H as <- _. cbn [st_conns st_world]. apply fresh_close. exact F.
  - destruct (nth_p (st_proxies st) li) as [p|]; injection H as <- _; exact F.
  - destruct (nth_p (st_proxies st) li) as [p|]; [|injection H as <- _; exact F].
    destruct (rr_remove a (ps_rr p)) as [r' closed]. injection H as <- _. exact F.
Qed.

(* the TCP-backend side *)
Lemma tcp_backend_send_fresh e a g b x cache x' cache' outs ok :
  tcp_backend_send e a g b x cache = (x', cache', outs, ok) -> xfresh x -> xfresh x'.
Proof.
  rewrite tcp_backend_send_cases. destruct (last_index_byte ":"%char a) as [pos|].
  2:{ intros E F. injection E as <- _ _ _. exact F. }
  cbv zeta. destruct (tb_usable x (tb_key (e_li e) a g) cache) as [c|].
  { intros E F. injection E as <- _ _ _. exact F. }
  destruct (tb_listens x (firstn pos a) (atoi_val (skipn (S pos) a))); intros E F; injection E as <- _ _ _; [|exact F].
  unfold xfresh, tb_dial_ctx. cbn [x_conns x_world]. apply fresh_new; [exact F|reflexivity].
Qed.
Lemma backend_send_tb_fresh e bk b x cache x' cache' outs ok :
  backend_send_tb e bk b x cache = (x', cache', outs, ok) -> xfresh x -> xfresh x'.
Proof.
  unfold backend_send_tb. destruct bk as [a g|].
  - apply tcp_backend_send_fresh.
  - destruct (rr_dispatch (ps_rr (x_p x))) as [r' o]. cbv beta iota zeta.
    destruct o as [a|]; [destruct (alookup a (ps_backends (x_p x))) as [g|]|]; cbv beta iota zeta.
    + intros E F. exact (tcp_backend_send_fresh _ _ _ _ _ _ _ _ _ _ E F).
    + intros E F. injection E as <- _ _ _. exact F.
    + intros E F. injection E as <- _ _ _. exact F.
Qed.
Lemma send_to_backend_tb_fresh e m x cache : xfresh x -> xfresh (fst (fst (send_to_backend_tb e m x cache))).
Proof.
  intros F.
  destruct (ps_has_rr (x_p x)) eqn:HR; [|rewrite (send_to_backend_tb_off e m x cache (or_introl HR)); exact F].
  destruct (first_transport (e_lc e)) as [t0|] eqn:FT; [|rewrite (send_to_backend_tb_off e m x cache (or_intror FT)); exact F].
  rewrite (send_to_backend_tb_unfold e m x cache t0 HR FT). destruct (C04.stb_sel e (x_p x) m) as [p1 bk]. cbv zeta.
  destruct (backend_send_tb e bk _ (with_p x p1) cache) as [[[x2 cache2] outs] ok] eqn:BT.
  apply (backend_send_tb_fresh e bk _ (with_p x p1) cache) in BT; [|exact F].
  destruct ok; exact BT.
Qed.
Lemma handle_message_tb_fresh e from m x cache : xfresh x -> xfresh (fst (fst (handle_message_tb e from m x cache))).
Proof.
  intros F. destruct (reaches_backend e from m) eqn:RB.
  - pose proof (TB_copy_faithful_backend e from m x cache RB) as E. cbv zeta in E. destruct E as (E & _). rewrite E.
    apply send_to_backend_tb_fresh. exact F.
  - rewrite (TB_copy_faithful e from m x cache RB). unfold lift_hm.
    pose proof (handle_message_fresh e from m x F) as K. destruct (handle_message e from m x) as [x' m']. exact K.
Qed.
Lemma process_message_tb_fresh e peer port from rs tcp m0 x cache x' cache' :
  process_message_tb e peer port from rs tcp m0 x cache = Ok (x', cache') -> xfresh x -> xfresh x'.
Proof.
  rewrite process_message_tb_reach.
  destruct (pm_reach e peer port from rs tcp m0 x) as [[m5 x1]| |] eqn:PR; try discriminate.
  destruct (pm_reach_frame _ _ _ _ _ _ _ _ _ _ PR) as (_ & C1 & W1). intros E F.
  assert (F1 : xfresh x1) by (unfold xfresh; rewrite C1, W1; exact F).
  pose proof (handle_message_tb_fresh e from m5 x1 cache F1) as K.
  destruct (handle_message_tb e from m5 x1 cache) as [[x2 mm] c2]. cbn [fst] in K. injection E as <- _. exact K.
Qed.
Lemma tcp_messages_tb_fresh f : forall e c s x cache x' cache',
  tcp_messages_tb f e c s x cache = Ok (x', cache') -> xfresh x -> xfresh x'.
Proof.
  induction f as [|f IH]; intros e c s x cache x' cache'; cbn [tcp_messages_tb].
  - intros E F. injection E as <- _. exact F.
  - destruct (trim_left s); [intros E F; injection E as <- _; exact F|].
    destruct (parse_message s) as [[m rest]| |].
    + destruct (process_message_tb e _ _ _ _ _ m x cache) as [[x1 cache1]| |] eqn:EP; try discriminate.
      intros E F. exact (IH _ _ _ _ _ _ _ E (process_message_tb_fresh _ _ _ _ _ _ _ _ _ _ _ EP F)).
    + intros E F. injection E as <- _. unfold xfresh. cbn [x_conns x_world]. apply fresh_close. exact F.
    + intros E F. injection E as <- _. unfold xfresh. cbn [x_conns x_world]. apply fresh_close. exact F.
Qed.

(* the initial state; one event of Proxy; one event of ProxyTB; every history *)
Theorem TB_conns_fresh_init : forall c now tl, conns_fresh (init_state c now tl).
Proof. intros c now tl. split; [constructor|intros cn []]. Qed.
Theorem TB_conns_fresh_proxy_step : forall fx c now br st ev st' outs,
  conns_fresh st -> proxy_step fx c now br st ev = Ok (st', outs) -> conns_fresh st'.
Proof.
  intros fx c now br st ev st' outs F H. apply conns_fresh_iff. apply conns_fresh_iff in F.
  exact (proxy_step_fresh _ _ _ _ _ _ _ _ H F).
Qed.
Theorem TB_conns_fresh_step : forall tb fx c now br st cache ev st' cache' outs,
  conns_fresh st -> proxy_step_tb tb fx c now br st cache ev = Ok (st', cache', outs) -> conns_fresh st'.
Proof.
  intros tb fx c now br st cache ev st' cache' outs F0. apply conns_fresh_iff in F0.
  intros H. apply conns_fresh_iff. revert H. unfold proxy_step_tb.
  assert (LIFT : lift_step (proxy_step fx c now br st ev) cache = Ok (st', cache', outs) -> fresh (st_conns st') (st_world st')).
  { unfold lift_step. destruct (proxy_step fx c now br st ev) as [[st1 o]| |] eqn:E; try discriminate.
    intros E'. injection E' as <- _ _. exact (proxy_step_fresh _ _ _ _ _ _ _ _ E F0). }
  destruct (negb _); [exact LIFT|].
  destruct ev as [li src sport data|li src sport|cid data|cid|li a|li a]; try exact LIFT.
  - destruct (nth_opt (c_listens c) li) as [lc|]; [|intros E; injection E as <- _ _; exact F0].
    cbv zeta. destruct (parse_message data) as [[m rest]| |]; try (intros E; injection E as <- _ _; exact F0).
    unfold run_ctx_tb. destruct (nth_p (st_proxies st) li) as [p|]; [|intros E; injection E as <- _ _; exact F0].
    match goal with |- context [process_message_tb ?e ?a ?b ?f ?r ?t ?m ?x ?ch] =>
      destruct (process_message_tb e a b f r t m x ch) as [[x' ch']| |] eqn:PM end; try discriminate.
    intros E. injection E as <- _ _. cbn [st_conns st_world].
    refine (process_message_tb_fresh _ _ _ _ _ _ _ _ _ _ _ PM _). exact F0.
  - destruct (find _ (st_conns st)) as [cn|]; [|intros E; injection E as <- _ _; exact F0].
    destruct (cn_open cn); [|intros E; injection E as <- _ _; exact F0]. cbv zeta.
    destruct (nth_opt (c_listens c) (cn_li cn)) as [lc|]; [|intros E; injection E as <- _ _; exact F0].
    unfold run_ctx_tb. destruct (nth_p (st_proxies st) (cn_li cn)) as [p|]; [|intros E; injection E as <- _ _; exact F0].
    match goal with |- context [tcp_messages_tb ?f ?e ?c ?s ?x ?ch] =>
      destruct (tcp_messages_tb f e c s x ch) as [[x' ch']| |] eqn:TM end; try discriminate.
    intros E. injection E as <- _ _. cbn [st_conns st_world].
    refine (tcp_messages_tb_fresh _ _ _ _ _ _ _ _ TM _). exact F0.
  - destruct (nth_p (st_proxies st) li) as [p|]; [|intros E; injection E as <- _ _; exact F0].
    cbv zeta. destruct (proxy_step fx c now br st (EvBackendRemove li a)) as [[st1 o]| |] eqn:E; try discriminate.
    apply (fun H => proxy_step_fresh _ _ _ _ _ _ _ _ H F0) in E. intros E'. injection E' as <- _ _.
    destruct (if mem_bytes a (rr_map (ps_rr p)) then _ else None) as [cid|].
    + cbn [st_conns st_world]. apply fresh_close. exact E.
    + exact E.
Qed.
Theorem TB_conns_fresh_history : forall tb fx c h st cache st' cache' outss,
  conns_fresh st -> run_tb tb fx c st cache h = Ok (st', cache', outss) -> conns_fresh st'.
Proof.
  intros tb fx c h. induction h as [|[[now br] ev] r IH]; intros st cache st' cache' outss F; cbn [run_tb].
  - intros E. injection E as <- _ _. exact F.
  - destruct (proxy_step_tb tb fx c now br st cache ev) as [[[st1 cache1] o]| |] eqn:E1; try discriminate.
    destruct (run_tb tb fx c st1 cache1 r) as [[[st2 cache2] os]| |] eqn:E2; try discriminate.
    intros E. injection E as <- _ _. exact (IH _ _ _ _ _ (TB_conns_fresh_step _ _ _ _ _ _ _ _ _ _ _ F E1) E2).
Qed.
(* ... in particular in every state reached from the initial one *)
Corollary TB_conns_fresh_reachable : forall tb fx c c0 now0 tl h st cache outss,
  run_tb tb fx c (init_state c0 now0 tl) [] h = Ok (st, cache, outss) -> conns_fresh st.
Proof.
  intros tb fx c c0 now0 tl h st cache outss R.
  exact (TB_conns_fresh_history _ _ _ _ _ _ _ _ _ (TB_conns_fresh_init c0 now0 tl) R).
Qed.

(* with unique numbers, "the connection numbered c" is one record *)
Lemma NoDup_map_inj {A B} (f : A -> B) (l : list A) a b :
  NoDup (map f l) -> In a l -> In b l -> f a = f b -> a = b.
Proof.
  induction l as [|x r IH]; intros ND Ia Ib E; [destruct Ia|]. cbn [map] in ND. inversion ND as [|? ? NI ND']; subst.
  destruct Ia as [->|Ia], Ib as [->|Ib].
  - reflexivity.
  - exfalso. apply NI. rewrite E. apply in_map. exact Ib.
  - exfalso. apply NI. rewrite <- E. apply in_map. exact Ia.
  - exact (IH ND' Ia Ib E).
Qed.
Lemma conn_open_unique cs cn : NoDup (map cn_id cs) -> In cn cs -> conn_open cs (cn_id cn) = cn_open cn.
Proof.
  induction cs as [|x r IH]; intros ND I; [destruct I|]. cbn [map] in ND. inversion ND as [|? ? NI ND']; subst.
  unfold conn_open. cbn [existsb]. destruct I as [->|I].
  - rewrite Nat.eqb_refl. cbn [andb]. destruct (cn_open cn); [reflexivity|]. cbn [orb].
    exact (conn_open_absent (cn_id cn) r NI).
  - destruct (Nat.eqb_spec (cn_id x) (cn_id cn)) as [E|E].
    + exfalso. apply NI. rewrite E. apply in_map. exact I.
    + cbn [andb orb]. exact (IH ND' I).
Qed.

(* TB_remove_closes in a reachable state: the cached connection IS closed (no side condition) *)
Theorem TB_remove_closes_reachable : forall tb fx c c0 now0 tl h st cache outss,
  run_tb tb fx c (init_state c0 now0 tl) [] h = Ok (st, cache, outss) ->
  forall now br li addr p g cid,
  is_tb tb li = true -> nth_p (st_proxies st) li = Some p ->
  mem_bytes addr (rr_map (ps_rr p)) = true -> alookup addr (ps_backends p) = Some g ->
  alookup (tb_key li addr g) cache = Some cid ->
  exists st' stp p',
    proxy_step_tb tb fx c now br st cache (EvBackendRemove li addr) = Ok (st', cache, []) /\
    proxy_step fx c now br st (EvBackendRemove li addr) = Ok (stp, []) /\
    st_conns st' = close_conn cid (st_conns st) /\ st_conns stp = st_conns st /\
    conn_open (st_conns st') cid = false /\
    (forall c', c' <> cid -> conn_open (st_conns st') c' = conn_open (st_conns st) c') /\
    st_proxies st' = st_proxies stp /\ st_learned st' = st_learned stp /\ st_world st' = st_world stp /\
    nth_p (st_proxies st') li = Some p' /\
    ps_backends p' = adel addr (ps_backends p) /\ alookup addr (ps_backends p') = None /\
    ps_rr p' = fst (rr_remove addr (ps_rr p)) /\ mem_bytes addr (rr_map (ps_rr p')) = false /\
    conns_fresh st'.
Proof.
  intros tb fx c c0 now0 tl h st cache outss R now br li addr p g cid TB N M A K.
  pose proof (TB_conns_fresh_reachable _ _ _ _ _ _ _ _ _ _ R) as F.
  destruct (TB_remove_closes tb fx c now br st cache li addr p g cid TB N M A K)
    as (st' & stp & p' & E1 & E2 & C & C0 & ND & O & X1 & X2 & X3 & N' & B1 & B2 & R1 & R2).
  exists st', stp, p'.
  split; [exact E1|]. split; [exact E2|]. split; [exact C|]. split; [exact C0|].
  split; [apply ND; exact (proj1 F)|]. split; [exact O|]. split; [exact X1|]. split; [exact X2|]. split; [exact X3|].
  split; [exact N'|]. split; [exact B1|]. split; [exact B2|]. split; [exact R1|]. split; [exact R2|].
  exact (TB_conns_fresh_step _ _ _ _ _ _ _ _ _ _ _ F E1).
Qed.

(* TB_cached_conn_unique.  In a reachable state the connection a backend object has cached is THE connection with
   that number: one record, to the backend's address, its number already given out; whether it can be written
   (conn_open) is that record's flag.  So "written on the cached connection" (TB_send_reuse, TB_sticky_step)
   determines the peer. *)
Theorem TB_cached_conn_unique : forall tb fx c c0 now0 tl h st cache outss,
  run_tb tb fx c (init_state c0 now0 tl) [] h = Ok (st, cache, outss) ->
  forall li a g cid pos,
    alookup (tb_key li a g) cache = Some cid -> last_index_byte ":"%char a = Some pos ->
    exists cn, In cn (st_conns st) /\ cn_id cn = cid /\ cn_li cn = li /\
               cn_peer cn = firstn pos a /\ cn_peer_port cn = atoi_val (skipn (S pos) a) /\
               (forall cn', In cn' (st_conns st) -> cn_id cn' = cid -> cn' = cn) /\
               conn_open (st_conns st) cid = cn_open cn /\
               (cid < w_next_conn (st_world st))%nat.
Proof.
  intros tb fx c c0 now0 tl h st cache outss R li a g cid pos A LI.
  destruct (TB_conns_fresh_reachable _ _ _ _ _ _ _ _ _ _ R) as (ND & B).
  destruct (TB_cached_peer _ _ _ _ _ _ _ _ R _ _ _ _ _ A LI) as (cn & I & C1 & C2 & C3 & C4).
  exists cn. split; [exact I|]. split; [exact C1|]. split; [exact C2|]. split; [exact C3|]. split; [exact C4|].
  split; [|split].
  - intros cn' I' E. apply (NoDup_map_inj cn_id (st_conns st) cn' cn ND I' I). rewrite E, C1. reflexivity.
  - rewrite <- C1. exact (conn_open_unique _ _ ND I).
  - rewrite <- C1. exact (B cn I).
Qed.

(* instances: the state after the first history *)
Example TB_conns_fresh_ex : conns_fresh tb_st1 /\ map cn_id (st_conns tb_st1) = [0; 1; 2]%nat /\ w_next_conn (st_world tb_st1) = 3%nat.
Proof.
  split.
  - assert (R : run_tb tb_flags all_fixed tb_cfg (init_state tb_cfg 0 [(s2b "10.0.0.11", 5070); (s2b "10.0.0.12", 5070)]) [] tb_hist1
                = Ok (tb_st1, tb_cache1, tb_outs1)) by (vm_compute; reflexivity).
    exact (TB_conns_fresh_reachable tb_flags all_fixed tb_cfg tb_cfg 0 [(s2b "10.0.0.11", 5070); (s2b "10.0.0.12", 5070)]
             tb_hist1 tb_st1 tb_cache1 tb_outs1 R).
  - vm_compute. split; reflexivity.
Qed.
Example TB_cached_conn_unique_ex :
  exists cn, In cn (st_conns tb_st1) /\ cn_id cn = 2%nat /\ cn_peer cn = b12 /\ cn_peer_port cn = 5070 /\
             (forall cn', In cn' (st_conns tb_st1) -> cn_id cn' = 2%nat -> cn' = cn) /\
             conn_open (st_conns tb_st1) 2 = cn_open cn.
Proof.
  assert (R : run_tb tb_flags all_fixed tb_cfg (init_state tb_cfg 0 [(s2b "10.0.0.11", 5070); (s2b "10.0.0.12", 5070)]) [] tb_hist1
              = Ok (tb_st1, tb_cache1, tb_outs1)) by (vm_compute; reflexivity).
  assert (A : alookup (tb_key 0 (s2b "10.0.0.12:5070") 1) tb_cache1 = Some 2%nat) by (vm_compute; reflexivity).
  assert (LI : last_index_byte ":"%char (s2b "10.0.0.12:5070") = Some 9%nat) by (vm_compute; reflexivity).
  pose proof (TB_cached_conn_unique tb_flags all_fixed tb_cfg tb_cfg 0 [(s2b "10.0.0.11", 5070); (s2b "10.0.0.12", 5070)]
                tb_hist1 tb_st1 tb_cache1 tb_outs1 R 0%nat (s2b "10.0.0.12:5070") 1%nat 2%nat 9%nat A LI) as H.
  destruct H as (cn & I & C1 & _ & C3 & C4 & U & O & _).
  exists cn. split; [exact I|]. split; [exact C1|]. split; [exact C3|].
  split; [rewrite C4; vm_compute; reflexivity|]. split; [exact U|exact O].
Qed.

Print Assumptions TB_conservative.
Print Assumptions TB_conservative_entry.
Print Assumptions TB_conservative_history.
Print Assumptions TB_copy_faithful.
Print Assumptions TB_copy_faithful_backend.
Print Assumptions TB_copy_faithful_process.
Print Assumptions TB_copy_faithful_process_response.
Print Assumptions TB_send_reuse.
Print Assumptions TB_send_dial.
Print Assumptions TB_send_refused.
Print Assumptions TB_send_malformed.
Print Assumptions TB_send_one_message.
Print Assumptions TB_payload_agrees.
Print Assumptions TB_rotation_agrees.
Print Assumptions TB_at_most_one_message.
Print Assumptions TB_at_most_one.
Print Assumptions TB_at_most_one_tcp.
Print Assumptions TB_sticky_step.
Print Assumptions TB_sticky_same_message.
Print Assumptions TB_unpinned_step.
Print Assumptions TB_remove_closes.
Print Assumptions TB_remove_no_cached.
Print Assumptions TB_cache_ok_step.
Print Assumptions TB_cache_ok_history.
Print Assumptions tb_key_inj.
Print Assumptions TB_cached_peer.
Print Assumptions TB_cached_has_port.
Print Assumptions TB_ex_first_request.
Print Assumptions TB_ex_same_bytes.
Print Assumptions TB_ex_reuse_and_redial.
Print Assumptions TB_ex_pinned.
Print Assumptions TB_ex_remove.
Print Assumptions TB_ex_conservative.
Print Assumptions TB_sticky_step_ex.
Print Assumptions TB_unpinned_step_ex.
Print Assumptions TB_remove_closes_ex.
Print Assumptions TB_cached_peer_ex.
Print Assumptions TB_note_backend_address_learned.
Print Assumptions TB_conns_fresh_init.
Print Assumptions TB_conns_fresh_proxy_step.
Print Assumptions TB_conns_fresh_step.
Print Assumptions TB_conns_fresh_history.
Print Assumptions TB_conns_fresh_reachable.
Print Assumptions TB_remove_closes_reachable.
Print Assumptions TB_cached_conn_unique.
Print Assumptions TB_conns_fresh_ex.
Print Assumptions TB_cached_conn_unique_ex.
