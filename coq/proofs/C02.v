(* C02 — responses follow the Via chain: pop one entry, go to the next.

   Uses the Via VIEW of C07.v: [via_hdrs m] = for every Via header of m (full / compact / any
   case of the name), in order, its decoded entries, None when the value does not decode;
   [flat_vias m] = all entries in order = snd (decode_all_vias (m_headers m)).

   Part 1  PopVia and getNextReponseHop on the view.
   Part 2  C02_response_general and its corollaries C02_response_hop (comma list / repeated
           header lines), C02_single_via_dropped, C02_undecodable_dropped.
   Part 3  C02_dest_*: what sendMessage emits for (host, port, transport); legacy witness.
   Part 4  C02_independent_of_pins.
   Part 5  C02_roundtrip.
   Part 6  process_message / proxy_step level.
   No axioms, no admits. *)
From Coq Require Import List Ascii String ZArith Bool Lia.
From Model Require Import Bytes BytesLemmas Uri Hdr Message Msg Rx Glob StaticRoute RoundRobin Pins Proxy.
From Model.proofs Require Import C07.
Import ListNotations.
Open Scope Z_scope.

(* ====================================================================== Part 1 *)
(* PopVia on the view: one entry of a longer list, else the whole first header; an undecodable
   first header (or none) makes PopVia fail and the message stays as it is *)
Definition pop_view (vh : list (option (list via_param))) : list (option (list via_param)) :=
  match vh with
  | Some (_ :: (_ :: _) as rest) :: t => Some rest :: t
  | Some _ :: t => t
  | _ => vh
  end.
(* the entry getNextReponseHop reads: first entry of the first Via header, if it decodes *)
Definition top_view (vh : list (option (list via_param))) : option via_param :=
  match vh with Some (v :: _) :: _ => Some v | _ => None end.
Definition hop_host (v : via_param) : bytes :=
  match via_get_received v with Some h => h | None => v_host v end.
Definition hop_port (v : via_param) : Z :=
  match via_get_received v with
  | Some _ => match via_get_rport v with Some p => p | None => via_get_port v end
  | None => via_get_port v
  end.

Lemma via_hdrs_remove_via m x t : via_hdrs m = x :: t ->
  via_hdrs (with_headers m (remove_header VIA (m_headers m))) = t.
Proof.
  unfold via_hdrs. intros H. destruct (via_view_cons _ _ _ H) as (pre & h & post & H1 & H2 & H3 & H4 & H5).
  cbn [m_headers with_headers]. rewrite H1, remove_header_at by assumption.
  rewrite via_view_app, nomatch_via_view by exact H2. exact H5.
Qed.

Lemma s_pop_via_view m :
  m_start (fst (s_pop_via m)) = m_start m /\ m_body (fst (s_pop_via m)) = m_body m /\
  via_hdrs (fst (s_pop_via m)) = pop_view (via_hdrs m).
Proof.
  destruct (via_hdrs m) as [|[l|] t] eqn:E.
  - destruct (s_get_via_fail m (or_introl E)) as (r & Hr & Hn).
    unfold s_pop_via, mbind. rewrite Hr. destruct r as [l| |]; [exfalso; exact (Hn l eq_refl)| |];
      cbn [fst pop_view]; rewrite E; repeat split.
  - destruct (s_get_via_ok m l t E) as (m' & Hr & (V1 & V2 & V3) & Hs).
    unfold s_pop_via, mbind. rewrite Hr. rewrite E in V3. fold VIA.
    destruct l as [|a [|b r]]; unfold mmodify; cbn [fst pop_view].
    + repeat split; try assumption. apply (via_hdrs_remove_via _ _ _ V3).
    + repeat split; try assumption. apply (via_hdrs_remove_via _ _ _ V3).
    + rewrite Hs. repeat split. apply (via_hdrs_set_via _ _ _ _ E).
  - destruct (s_get_via_fail m (or_intror (ex_intro _ t E))) as (r & Hr & Hn).
    unfold s_pop_via, mbind. rewrite Hr. destruct r as [l| |]; [exfalso; exact (Hn l eq_refl)| |];
      cbn [fst pop_view]; rewrite E; repeat split.
Qed.

Lemma next_response_hop_spec m :
  veq m (fst (next_response_hop m)) /\
  match top_view (via_hdrs m) with
  | Some v => snd (next_response_hop m) = Ok (hop_host v, hop_port v, v_transport v)
  | None => forall a, snd (next_response_hop m) <> Ok a
  end.
Proof.
  split; [apply vpres_next_response_hop|].
  destruct (via_hdrs m) as [|[l|] t] eqn:E; cbn [top_view].
  - destruct (s_get_via_fail m (or_introl E)) as (r & Hr & Hn).
    unfold next_response_hop, s_top_via, mbind. rewrite Hr.
    destruct r as [l| |]; [exfalso; exact (Hn l eq_refl)| |]; cbn; discriminate.
  - destruct (s_get_via_ok m l t E) as (m' & Hr & _ & _).
    unfold next_response_hop, s_top_via, mbind. rewrite Hr. destruct l as [|v r].
    + cbn. discriminate.
    + unfold mret at 1. unfold hop_host, hop_port. destruct (via_get_received v); reflexivity.
  - destruct (s_get_via_fail m (or_intror (ex_intro _ t E))) as (r & Hr & Hn).
    unfold next_response_hop, s_top_via, mbind. rewrite Hr.
    destruct r as [l| |]; [exfalso; exact (Hn l eq_refl)| |]; cbn; discriminate.
Qed.

Lemma mtry_unfold {A} (x : M A) m :
  mtry x m = match snd (x m) with
             | Ok a => (fst (x m), Ok (Some a)) | Err => (fst (x m), Ok None) | Panic => (fst (x m), Panic) end.
Proof. unfold mtry. destruct (x m) as [m1 r]. destruct r; reflexivity. Qed.

Lemma with_pins_same p : with_pins p (ps_pins p) = p.
Proof. destruct p; reflexivity. Qed.

(* ====================================================================== Part 2 *)
(* HandleMessage on a response, for every message, listener, configuration and state:
   exactly ONE sendMessage call, for the entry on top after the pop, on a message whose Via
   headers are the popped ones; or nothing at all (the context comes back unchanged). *)
Theorem C02_response_general : forall e from m x, is_request m = false ->
  match top_view (pop_view (via_hdrs m)) with
  | Some v2 =>
      exists m4 pins',
        handle_message e from m x =
          send_message e (hop_host v2) (hop_port v2) (v_transport v2) m4
            {| x_learned := x_learned x; x_p := with_pins (x_p x) pins'; x_conns := x_conns x;
               x_world := x_world x; x_outs := x_outs x |} /\
        m_start m4 = m_start m /\ m_body m4 = m_body m /\ via_hdrs m4 = pop_view (via_hdrs m)
  | None => fst (handle_message e from m x) = x
  end.
Proof.
  intros e from m x Hq. unfold handle_message. rewrite Hq.
  destruct (s_pop_via_view m) as (P1 & P2 & P3). rewrite <- (fst_mtry s_pop_via m) in P1, P2, P3.
  destruct (mtry s_pop_via m) as [m1 r1]. cbn [fst] in P1, P2, P3.
  destruct (next_response_hop_spec m1) as ((N1 & N2 & N3) & NS). rewrite P3 in NS.
  rewrite (mtry_unfold next_response_hop m1).
  destruct (next_response_hop m1) as [m2 r2]. cbn [fst snd] in N1, N2, N3, NS |- *.
  pose proof (vpres_mtry _ vpres_s_get_method) as VM.
  destruct (top_view (pop_view (via_hdrs m))) as [v2|].
  - subst r2. cbv iota. specialize (VM m2). destruct (mtry s_get_method m2) as [m3 ometh]. cbn [fst] in VM.
    destruct VM as (M1 & M2 & M3).
    assert (V3 : m_start m3 = m_start m /\ m_body m3 = m_body m /\ via_hdrs m3 = pop_view (via_hdrs m))
      by (repeat split; congruence).
    assert (FIN : forall m', m_start m' = m_start m /\ m_body m' = m_body m /\ via_hdrs m' = pop_view (via_hdrs m) ->
              exists m4 pins',
                send_message e (hop_host v2) (hop_port v2) (v_transport v2) m'
                  {| x_learned := x_learned x; x_p := x_p x; x_conns := x_conns x; x_world := x_world x; x_outs := x_outs x |} =
                send_message e (hop_host v2) (hop_port v2) (v_transport v2) m4
                  {| x_learned := x_learned x; x_p := with_pins (x_p x) pins'; x_conns := x_conns x; x_world := x_world x; x_outs := x_outs x |} /\
                m_start m4 = m_start m /\ m_body m4 = m_body m /\ via_hdrs m4 = pop_view (via_hdrs m)).
    { intros m' H. exists m', (ps_pins (x_p x)). rewrite with_pins_same. split; [reflexivity|exact H]. }
    destruct ometh as [[meth|]| |]; try (apply FIN; exact V3).
    destruct (beq meth (s2b "SUBSCRIBE")); [|apply FIN; exact V3].
    destruct (alookup _ (ps_backends (x_p x))) as [g|]; [|apply FIN; exact V3].
    pose proof (vpres_mtry _ vpres_s_get_dialog m3) as VD.
    destruct (mtry s_get_dialog m3) as [m' od]. cbn [fst] in VD. destruct VD as (D1 & D2 & D3).
    assert (V' : m_start m' = m_start m /\ m_body m' = m_body m /\ via_hdrs m' = pop_view (via_hdrs m))
      by (destruct V3 as (A & B & C); repeat split; congruence).
    destruct od as [[d|]| |]; try (apply FIN; exact V').
    eexists m', _. split; [reflexivity|exact V'].
  - destruct r2 as [a| |]; [exfalso; exact (NS a eq_refl)| |]; cbv iota;
      destruct (mtry s_get_method m2) as [m3 ometh]; cbn; destruct x; reflexivity.
Qed.

(* (a) the two layouts *)
Theorem C02_response_hop : forall e from m x v1 v2 rest1 t,
  is_response m = true ->
  (via_hdrs m = Some (v1 :: v2 :: rest1) :: t          (* comma list in the first Via header *)
   \/ via_hdrs m = Some [v1] :: Some (v2 :: rest1) :: t)  (* repeated header lines *) ->
  exists m4 pins',
    handle_message e from m x =
      send_message e (hop_host v2) (hop_port v2) (v_transport v2) m4
        {| x_learned := x_learned x; x_p := with_pins (x_p x) pins'; x_conns := x_conns x;
           x_world := x_world x; x_outs := x_outs x |} /\
    m_start m4 = m_start m /\ m_body m4 = m_body m /\
    via_hdrs m4 = Some (v2 :: rest1) :: t /\
    snd (decode_all_vias (m_headers m)) = v1 :: snd (decode_all_vias (m_headers m4)).
Proof.
  intros e from m x v1 v2 rest1 t Hr HV.
  assert (Hq : is_request m = false) by (unfold is_response in Hr; apply negb_true_iff; exact Hr).
  pose proof (C02_response_general e from m x Hq) as G.
  assert (PV : pop_view (via_hdrs m) = Some (v2 :: rest1) :: t) by (destruct HV as [-> | ->]; reflexivity).
  rewrite PV in G. cbn [top_view] in G. destruct G as (m4 & pins' & G1 & G2 & G3 & G4).
  exists m4, pins'. repeat split; try assumption.
  rewrite !flat_vias_decode. unfold flat_vias. rewrite G4. destruct HV as [-> | ->]; reflexivity.
Qed.

(* ... and what that single call can put on the wire: the message sendMessage serialises has
   the same Via headers *)
Corollary C02_response_hop_outs : forall e from m x v1 v2 rest1 t,
  is_response m = true ->
  (via_hdrs m = Some (v1 :: v2 :: rest1) :: t \/ via_hdrs m = Some [v1] :: Some (v2 :: rest1) :: t) ->
  exists m' outs,
    x_outs (fst (handle_message e from m x)) = x_outs x ++ outs /\
    via_hdrs m' = Some (v2 :: rest1) :: t /\
    snd (decode_all_vias (m_headers m')) = v2 :: rest1 ++ flat_view t /\
    (outs = [] \/ (exists ip p, outs = [(DUdp ip p, write_message m')]) \/ tcp_shape (write_message m') outs).
Proof.
  intros e from m x v1 v2 rest1 t Hr HV.
  destruct (C02_response_hop e from m x v1 v2 rest1 t Hr HV) as (m4 & pins' & G1 & _ & _ & G4 & _).
  rewrite G1.
  match goal with |- context [send_message ?e ?h ?p ?t ?m ?X] =>
    destruct (send_message_outs e h p t m X) as (_ & _ & outs & H1 & H2) end.
  exists (sent_msg m4), outs. cbn [x_outs] in H1.
  destruct (veq_sent_msg m4) as (_ & _ & V). rewrite G4 in V.
  split; [exact H1|]. split; [exact V|]. split; [|exact H2].
  rewrite flat_vias_decode. unfold flat_vias. rewrite V. reflexivity.
Qed.

(* (b) nothing is sent, the context is unchanged *)
Theorem C02_single_via_dropped : forall e from m x,
  is_response m = true ->
  (via_hdrs m = [] \/ (exists l, via_hdrs m = [Some l] /\ (List.length l <= 1)%nat)) ->
  fst (handle_message e from m x) = x.
Proof.
  intros e from m x Hr HV.
  assert (Hq : is_request m = false) by (unfold is_response in Hr; apply negb_true_iff; exact Hr).
  pose proof (C02_response_general e from m x Hq) as G.
  destruct HV as [H|(l & H & Hl)]; rewrite H in G; [exact G|].
  destruct l as [|a [|b r]]; cbn in Hl; try lia; exact G.
Qed.

Theorem C02_undecodable_dropped : forall e from m x t,
  is_response m = true ->
  (via_hdrs m = None :: t                                  (* first Via header does not decode *)
   \/ (exists l, via_hdrs m = Some l :: None :: t /\ (List.length l <= 1)%nat)  (* the next one does not *)
   \/ (exists l, via_hdrs m = Some l :: Some [] :: t /\ (List.length l <= 1)%nat)) ->
  fst (handle_message e from m x) = x.
Proof.
  intros e from m x t Hr HV.
  assert (Hq : is_request m = false) by (unfold is_response in Hr; apply negb_true_iff; exact Hr).
  pose proof (C02_response_general e from m x Hq) as G.
  destruct HV as [H|[(l & H & Hl)|(l & H & Hl)]]; rewrite H in G; [exact G| |];
    destruct l as [|a [|b r]]; cbn in Hl; try lia; exact G.
Qed.

(* ====================================================================== Part 3: C02_dest *)
Lemma alookup_filter_some {V} (P : bytes * V -> bool) k v l :
  alookup k l = Some v -> P (k, v) = true -> alookup k (filter P l) = Some v.
Proof.
  induction l as [|[k' v'] r IH]; cbn; [discriminate|].
  destruct (beq k k') eqn:E.
  - intros H HP. injection H as ->. apply beq_eq in E. subst k'. rewrite HP. cbn. rewrite beq_refl. reflexivity.
  - intros H HP. destruct (P (k', v')); cbn; [rewrite E|]; apply IH; assumption.
Qed.
Lemma alookup_filter_none {V} (P : bytes * V -> bool) k l : alookup k l = None -> alookup k (filter P l) = None.
Proof.
  induction l as [|[k' v'] r IH]; cbn; [reflexivity|].
  destruct (beq k k') eqn:E; [discriminate|]. intros H. destruct (P (k', v')); cbn; [rewrite E|]; apply IH; exact H.
Qed.
Lemma alookup_filter_in {V} (P : bytes * V -> bool) k v l : alookup k (filter P l) = Some v -> In (k, v) l.
Proof. intros H. apply alookup_in in H. apply filter_In in H. apply H. Qed.

Lemma clean_lookup_keep now p k f : alookup k (ps_table p) = Some f ->
  (forall c ex, fo_pri f <> Some (PConn c ex)) -> alookup k (ps_table (clean_expired now p)) = Some f.
Proof.
  intros H Hn. unfold clean_expired. destruct (Z.ltb _ 60); [exact H|]. cbn [ps_table].
  apply alookup_filter_some; [exact H|]. cbn. destruct (fo_pri f) as [[a b|a b|c ex]|]; try reflexivity.
  exfalso. exact (Hn c ex eq_refl).
Qed.
Lemma clean_lookup_none now p k : alookup k (ps_table p) = None -> alookup k (ps_table (clean_expired now p)) = None.
Proof.
  intros H. unfold clean_expired. destruct (Z.ltb _ 60); [exact H|]. cbn [ps_table]. apply alookup_filter_none. exact H.
Qed.
Lemma clean_lookup_in now p k f : alookup k (ps_table (clean_expired now p)) = Some f -> In (k, f) (ps_table p).
Proof.
  unfold clean_expired. destruct (Z.ltb _ 60); [apply alookup_in|]. cbn [ps_table]. apply alookup_filter_in.
Qed.

(* (c1) a transport other than udp / tcp (any case): nothing is sent *)
Theorem C02_dest_unsupported : forall e host port tr m x,
  supported_proto (to_lower tr) = false ->
  x_outs (fst (send_message e host port tr m x)) = x_outs x.
Proof.
  intros e host port tr m x H. unfold send_message. destruct (mtry s_client_transaction m) as [m1 tid].
  unfold get_transport. cbv zeta. rewrite H. reflexivity.
Qed.

(* (c2) udp *)
Definition udp_key (ip : bytes) (port : Z) : bytes := full_addr (s2b "udp") ip port [].
Lemma udp_key_tid ip port tid : full_addr (s2b "udp") ip port tid = udp_key ip port.
Proof. reflexivity. Qed.
(* the table slot of that destination is free, or holds a UDP client for it.  (It can hold a
   forgotten primary after a send to that destination FAILED - in the model: a datagram over
   65507 bytes; see the report) *)
Definition udp_slot_ok (ip : bytes) (port : Z) (p : pstate) : Prop :=
  match alookup (udp_key ip port) (ps_table p) with
  | None => True
  | Some f => fo_pri f = Some (PUdp ip port) \/ fo_pri f = Some (PUdpVia ip port)
  end.

Lemma get_transport_udp now tr host port tid p :
  to_lower tr = s2b "udp" -> resolvable host port = true ->
  exists p1, get_transport now tr host port tid p = (p1, Ok (udp_key host port)) /\
    match alookup (udp_key host port) (ps_table p) with
    | Some f => (forall c ex, fo_pri f <> Some (PConn c ex)) -> alookup (udp_key host port) (ps_table p1) = Some f
    | None => alookup (udp_key host port) (ps_table p1) = Some {| fo_pri := Some (PUdp host port); fo_sec := None |}
    end.
Proof.
  intros Htr Hres. unfold get_transport. cbv zeta. rewrite Htr.
  change (negb (supported_proto (s2b "udp"))) with false. cbv iota. rewrite udp_key_tid.
  change (beq (s2b "udp") (s2b "udp")) with true. cbv iota. rewrite Hres.
  destruct (alookup (udp_key host port) (ps_table p)) as [f|] eqn:EL.
  - destruct (alookup (udp_key host port) (ps_table (clean_expired now p))) as [f'|] eqn:EC.
    + eexists. split; [reflexivity|]. intros Hn. apply clean_lookup_keep; assumption.
    + eexists. split; [reflexivity|]. intros Hn. rewrite (clean_lookup_keep _ _ _ _ EL Hn) in EC. discriminate.
  - rewrite (clean_lookup_none _ _ _ EL). eexists. split; [reflexivity|].
    cbn [ps_table with_table]. apply alookup_aset_same.
Qed.

Theorem C02_dest_udp : forall e host port tr m x ip,
  to_lower tr = s2b "udp" -> get_ip (e_cfg e) host = Some ip -> resolvable ip port = true ->
  udp_slot_ok ip port (x_p x) -> fits_datagram (write_message (sent_msg m)) = true ->
  x_outs (fst (send_message e host port tr m x)) = x_outs x ++ [(DUdp ip port, write_message (sent_msg m))].
Proof.
  intros e host port tr m x ip Htr Hip Hres Hslot Hfit.
  unfold send_message. rewrite Hip. unfold sent_msg in Hfit |- *.
  destruct (mtry s_client_transaction m) as [m1 tid]. cbn [fst] in Hfit |- *.
  set (trans_id := match tid with Ok (Some t) => t | _ => [] end).
  destruct (get_transport_udp (now_s e) tr ip port trans_id (x_p x) Htr Hres) as (p1 & EG & HL). rewrite EG.
  assert (EF : exists f, alookup (udp_key ip port) (ps_table p1) = Some f /\
                         (fo_pri f = Some (PUdp ip port) \/ fo_pri f = Some (PUdpVia ip port))).
  { unfold udp_slot_ok in Hslot. destruct (alookup (udp_key ip port) (ps_table (x_p x))) as [f|].
    - exists f. split; [|exact Hslot]. apply HL. intros c ex. destruct Hslot as [H|H]; rewrite H; discriminate.
    - eexists. split; [exact HL|]. left. reflexivity. }
  destruct EF as (f & EF & Hpri). destruct f as [pri sec]. cbn [fo_pri] in Hpri.
  cbv beta iota zeta. rewrite EF.
  destruct Hpri as [-> | ->]; cbv beta iota zeta; rewrite EF; unfold failover_send; cbn [fo_pri];
    rewrite Hfit; reflexivity.
Qed.

(* (c3) tcp: no table entry under a tcp key holds a UDP client (true of every state the
   repaired tree reaches; the legacy findClientTransport broke exactly this) *)
Definition tcp_slot_ok (p : pstate) : Prop :=
  forall k f, In (k, f) (ps_table p) -> has_prefix (s2b "tcp://") k = true ->
              forall ip port, fo_pri f <> Some (PUdp ip port) /\ fo_pri f <> Some (PUdpVia ip port).
Lemma tcp_key_prefix host port tid : has_prefix (s2b "tcp://") (full_addr (s2b "tcp") host port tid) = true.
Proof. unfold full_addr. cbv zeta. destruct (_ && _)%bool; reflexivity. Qed.

Lemma get_transport_tcp now tr host port tid p p1 key :
  to_lower tr = s2b "tcp" -> tcp_slot_ok p -> get_transport now tr host port tid p = (p1, Ok key) ->
  forall f, alookup key (ps_table p1) = Some f ->
            forall ip pt, fo_pri f <> Some (PUdp ip pt) /\ fo_pri f <> Some (PUdpVia ip pt).
Proof.
  intros Htr Hslot. unfold get_transport. cbv zeta. rewrite Htr.
  change (negb (supported_proto (s2b "tcp"))) with false. cbv iota.
  destruct (alookup (full_addr (s2b "tcp") host port tid) (ps_table (clean_expired now p))) as [f0|] eqn:EC.
  - intros H. injection H as <- <-. intros f EF.
    assert (E2 : Some f0 = Some f) by (rewrite <- EC; exact EF). injection E2 as <-.
    apply clean_lookup_in in EC. apply (Hslot _ _ EC). apply tcp_key_prefix.
  - change (beq (s2b "tcp") (s2b "udp")) with false. cbv iota.
    destruct (alookup (full_addr (s2b "tcp") host port []) (ps_table (clean_expired now p))) as [f1|].
    + intros H. injection H as <- <-. intros f EF. cbn [ps_table with_table] in EF.
      rewrite alookup_aset_same in EF. injection EF as <-. intros ip pt. split; discriminate.
    + intros H. injection H as <- <-. intros f EF. cbn [ps_table with_table] in EF.
      rewrite alookup_aset_same in EF. injection EF as <-. intros ip pt. split; discriminate.
Qed.

Theorem C02_dest_tcp : forall e host port tr m x,
  fx_udp_via_listener (e_fx e) = true -> to_lower tr = s2b "tcp" -> tcp_slot_ok (x_p x) ->
  exists outs, x_outs (fst (send_message e host port tr m x)) = x_outs x ++ outs /\
               tcp_shape (write_message (sent_msg m)) outs.
Proof.
  intros e host port tr m x Hfx Htr Hslot.
  assert (NIL : forall b, exists outs, x_outs x = x_outs x ++ outs /\ tcp_shape b outs).
  { intros b. exists []. split; [symmetry; apply app_nil_r|left; reflexivity]. }
  unfold send_message, sent_msg. destruct (mtry s_client_transaction m) as [m1 tid]. cbn [fst].
  destruct (get_transport _ _ _ _ _ _) as [p1 rkey] eqn:EG.
  destruct rkey as [key| |]; try apply NIL.
  pose proof (get_transport_tcp _ _ _ _ _ _ _ _ Htr Hslot EG) as HT.
  rewrite Hfx. assert (EU : equal_fold tr (s2b "udp") = false) by (unfold equal_fold; rewrite Htr; reflexivity).
  rewrite EU. cbn [andb negb].
  assert (P2 : match alookup key (ps_table p1) with Some {| fo_pri := None |} => p1 | _ => p1 end = p1).
  { destruct (alookup key (ps_table p1)) as [[[pr|] sec]|]; reflexivity. }
  cbv zeta. rewrite P2.
  destruct (alookup key (ps_table p1)) as [f|] eqn:EF; [|apply NIL].
  match goal with |- context [failover_send ?a ?b ?c ?d ?e ?f ?g ?h] =>
    destruct (failover_send a b c d e f g h) as [[[[[p4 cs] w] outs] ok] f'] eqn:EFS end.
  cbn [fst x_outs]. exists outs. split; [reflexivity|].
  destruct (failover_send_outs _ _ _ _ _ _ _ _ _ _ _ _ _ _ EFS) as [(ip & pt & Hpri & _)|H]; [|exact H].
  exfalso. destruct (HT f eq_refl ip pt) as [N1 N2]. destruct Hpri as [Hp|Hp]; [exact (N1 Hp)|exact (N2 Hp)].
Qed.

(* in particular: never a datagram, at most one write on a connection, at most one dial *)
Corollary C02_dest_tcp_no_udp : forall e host port tr m x,
  fx_udp_via_listener (e_fx e) = true -> to_lower tr = s2b "tcp" -> tcp_slot_ok (x_p x) ->
  exists outs, x_outs (fst (send_message e host port tr m x)) = x_outs x ++ outs /\
    Forall (fun o => match fst o with DUdp _ _ => False | _ => True end) outs /\
    (List.length (filter (fun o => match fst o with DConn _ => true | _ => false end) outs) <= 1)%nat /\
    (List.length (filter (fun o => match fst o with DDial _ _ _ => true | _ => false end) outs) <= 1)%nat.
Proof.
  intros e host port tr m x Hfx Htr Hslot.
  destruct (C02_dest_tcp e host port tr m x Hfx Htr Hslot) as (outs & H1 & H2). exists outs. split; [exact H1|].
  destruct H2 as [->|[(c & ->)|[(h & p & c & ->)|(h & p & c & c' & ->)]]]; cbn; repeat split; repeat constructor.
Qed.

(* both slot conditions hold of a fresh proxy *)
Lemma slots_ok_init c now lc ip port : udp_slot_ok ip port (init_pstate c now lc) /\ tcp_slot_ok (init_pstate c now lc).
Proof. split; [exact I|intros k f []]. Qed.

(* ====================================================================== Part 4: independence *)
(* replace pin table, rotation and generation counter *)
Definition graft (pins' : pins) (rr' : rr) (gen' : nat) (p : pstate) : pstate :=
  {| ps_backends := ps_backends p; ps_rr := rr'; ps_has_rr := ps_has_rr p; ps_gen := gen'; ps_pins := pins';
     ps_table := ps_table p; ps_clients := ps_clients p; ps_last_clean := ps_last_clean p |}.

Section Graft.
Variables (pins' : pins) (rr' : rr) (gen' : nat).
Let G := graft pins' rr' gen'.

Lemma G_clean now p : clean_expired now (G p) = G (clean_expired now p).
Proof. unfold clean_expired, G, graft. cbn. destruct (Z.ltb _ 60); reflexivity. Qed.
Lemma G_get_transport now proto host port tid p :
  get_transport now proto host port tid (G p) =
  (G (fst (get_transport now proto host port tid p)), snd (get_transport now proto host port tid p)).
Proof.
  unfold get_transport. cbv zeta. rewrite G_clean. set (p' := clean_expired now p).
  destruct (negb _); [reflexivity|]. change (ps_table (G p')) with (ps_table p').
  destruct (alookup _ (ps_table p')); [reflexivity|].
  destruct (beq _ (s2b "udp")); [destruct (resolvable host port); reflexivity|].
  destruct (alookup _ (ps_table p')); reflexivity.
Qed.
Lemma G_tcp_client_send n : forall li local rs id b p cs w outs,
  tcp_client_send n li local rs id b (G p) cs w outs =
  let '(p', cs', w', outs', ok) := tcp_client_send n li local rs id b p cs w outs in (G p', cs', w', outs', ok).
Proof.
  induction n as [|n IH]; intros li local rs id b p cs w outs; cbn [tcp_client_send]; [reflexivity|].
  change (ps_clients (G p)) with (ps_clients p).
  destruct (find_client id (ps_clients p)) as [cl|]; [|reflexivity].
  destruct (tc_cached cl) as [c|].
  - destruct (conn_open cs c); [reflexivity|].
    change (with_clients (G p) ?X) with (G (with_clients p X)). apply IH.
  - destruct (existsb _ (w_tcp_listeners w)); [|reflexivity].
    change (with_clients (G p) ?X) with (G (with_clients p X)). apply IH.
Qed.
Lemma G_failover_send li local rs f b p cs w :
  failover_send li local rs f b (G p) cs w =
  let '(p', cs', w', outs, ok, f') := failover_send li local rs f b p cs w in (G p', cs', w', outs, ok, f').
Proof.
  unfold failover_send.
  assert (SEC : forall f1 outs0,
    match fo_sec f1 with
    | Some id => let '(p2, cs2, w2, outs2, ok) := tcp_client_send 2 li local rs id b (G p) cs w outs0 in (p2, cs2, w2, outs2, ok, f1)
    | None => (G p, cs, w, outs0, false, f1)
    end =
    let '(p', cs', w', outs, ok, f') :=
      match fo_sec f1 with
      | Some id => let '(p2, cs2, w2, outs2, ok) := tcp_client_send 2 li local rs id b p cs w outs0 in (p2, cs2, w2, outs2, ok, f1)
      | None => (p, cs, w, outs0, false, f1)
      end in (G p', cs', w', outs, ok, f')).
  { intros f1 outs0. destruct (fo_sec f1) as [id|]; [|reflexivity].
    rewrite G_tcp_client_send. destruct (tcp_client_send 2 li local rs id b p cs w outs0) as [[[[p2 cs2] w2] outs2] ok2]. reflexivity. }
  destruct (fo_pri f) as [[ip port|ip port|c ex]|].
  - destruct (fits_datagram b); [reflexivity|apply SEC].
  - destruct (fits_datagram b); [reflexivity|apply SEC].
  - destruct (conn_open cs c); [reflexivity|apply SEC].
  - apply SEC.
Qed.
End Graft.

(* no table entry under a udp key has lost its client (see udp_slot_ok) *)
Definition udp_known (p : pstate) : Prop :=
  forall k f, In (k, f) (ps_table p) -> has_prefix (s2b "udp://") k = true -> fo_pri f <> None.

Lemma get_transport_udp_known now tr host port tid p p1 key :
  equal_fold tr (s2b "udp") = true -> udp_known p -> get_transport now tr host port tid p = (p1, Ok key) ->
  forall f, alookup key (ps_table p1) = Some f -> fo_pri f <> None.
Proof.
  intros EU HK. assert (Htr : to_lower tr = s2b "udp") by (unfold equal_fold in EU; apply beq_eq in EU; exact EU).
  unfold get_transport. cbv zeta. rewrite Htr.
  change (negb (supported_proto (s2b "udp"))) with false. cbv iota. rewrite udp_key_tid.
  change (beq (s2b "udp") (s2b "udp")) with true. cbv iota.
  destruct (alookup (udp_key host port) (ps_table (clean_expired now p))) as [f0|] eqn:EC.
  - intros H. injection H as <- <-. intros f EF.
    assert (E2 : Some f0 = Some f) by (rewrite <- EC; exact EF). injection E2 as <-.
    apply clean_lookup_in in EC. apply (HK _ _ EC). reflexivity.
  - destruct (resolvable host port); [|discriminate].
    intros H. injection H as <- <-. intros f EF. cbn [ps_table with_table] in EF.
    assert (E2 : Some {| fo_pri := Some (PUdp host port); fo_sec := None |} = Some f)
      by (rewrite <- EF; symmetry; apply alookup_aset_same).
    injection E2 as <-. discriminate.
Qed.

Definition regraft pins' rr' gen' (l' : learned) (x : ctx) : ctx :=
  {| x_learned := l'; x_p := graft pins' rr' gen' (x_p x); x_conns := x_conns x; x_world := x_world x; x_outs := x_outs x |}.

Lemma send_message_regraft pins' rr' gen' l' e host port tr m x :
  fx_udp_via_listener (e_fx e) = true -> udp_known (x_p x) ->
  send_message e host port tr m (regraft pins' rr' gen' l' x) =
  (regraft pins' rr' gen' l' (fst (send_message e host port tr m x)), snd (send_message e host port tr m x)).
Proof.
  intros Hfx HK. unfold send_message. cbn [regraft x_learned x_p x_conns x_world x_outs].
  destruct (mtry s_client_transaction m) as [m1 tid]. rewrite G_get_transport.
  destruct (get_transport _ _ _ _ _ (x_p x)) as [p1 rkey] eqn:EG. cbn [fst snd].
  destruct rkey as [key| |]; try reflexivity.
  pose proof (fun EU => get_transport_udp_known _ _ _ _ _ _ _ _ EU HK EG) as HU.
  change (ps_table (graft pins' rr' gen' p1)) with (ps_table p1). rewrite Hfx. cbn [andb].
  set (P2 := match alookup key (ps_table p1) with Some {| fo_pri := None |} => _ | _ => p1 end).
  assert (E2 : P2 = p1).
  { subst P2. destruct (alookup key (ps_table p1)) as [[[pr|] sec]|] eqn:EF; try reflexivity.
    destruct (equal_fold tr (s2b "udp")) eqn:EU; [|reflexivity].
    exfalso. exact (HU eq_refl _ eq_refl eq_refl). }
  set (P2' := match alookup key (ps_table p1) with Some {| fo_pri := None |} => _ | _ => graft pins' rr' gen' p1 end).
  assert (E2' : P2' = graft pins' rr' gen' p1).
  { subst P2'. destruct (alookup key (ps_table p1)) as [[[pr|] sec]|] eqn:EF; try reflexivity.
    destruct (equal_fold tr (s2b "udp")) eqn:EU; [|reflexivity].
    exfalso. exact (HU eq_refl _ eq_refl eq_refl). }
  rewrite E2, E2'. change (ps_table (graft pins' rr' gen' p1)) with (ps_table p1).
  destruct (alookup key (ps_table p1)) as [f|]; [|reflexivity].
  set (P3 := if is_final_response m1 then remove_transport tr host port _ p1 else p1).
  assert (E3 : (if is_final_response m1 then remove_transport tr host port match tid with Ok (Some t) => t | _ => [] end (graft pins' rr' gen' p1)
                else graft pins' rr' gen' p1) = graft pins' rr' gen' P3).
  { subst P3. destruct (is_final_response m1); [|reflexivity]. unfold remove_transport. cbv zeta.
    destruct (negb (supported_proto (to_lower tr))); reflexivity. }
  rewrite E3, G_failover_send.
  destruct (failover_send _ _ _ f _ P3 _ _) as [[[[[p4 cs] w] outs] ok] f'].
  change (ps_table (graft pins' rr' gen' p4)) with (ps_table p4).
  destruct (alookup key (ps_table p4)); reflexivity.
Qed.

(* two contexts that differ only in learned table, pin table, rotation, generation counter *)
Definition same_core (x y : ctx) : Prop :=
  x_conns y = x_conns x /\ x_world y = x_world x /\ x_outs y = x_outs x /\
  ps_backends (x_p y) = ps_backends (x_p x) /\ ps_has_rr (x_p y) = ps_has_rr (x_p x) /\
  ps_table (x_p y) = ps_table (x_p x) /\ ps_clients (x_p y) = ps_clients (x_p x) /\
  ps_last_clean (x_p y) = ps_last_clean (x_p x).

Lemma send_message_indep e host port tr m x y :
  fx_udp_via_listener (e_fx e) = true -> udp_known (x_p x) -> same_core x y ->
  x_outs (fst (send_message e host port tr m y)) = x_outs (fst (send_message e host port tr m x)) /\
  x_conns (fst (send_message e host port tr m y)) = x_conns (fst (send_message e host port tr m x)) /\
  x_world (fst (send_message e host port tr m y)) = x_world (fst (send_message e host port tr m x)).
Proof.
  intros Hfx HK (C1 & C2 & C3 & C4 & C5 & C6 & C7 & C8).
  assert (Ey : y = regraft (ps_pins (x_p y)) (ps_rr (x_p y)) (ps_gen (x_p y)) (x_learned y) x).
  { destruct y as [ly py cy wy oy]. destruct py. cbn in *. subst. reflexivity. }
  rewrite Ey, send_message_regraft by assumption. cbn [fst regraft x_outs x_conns x_world]. repeat split.
Qed.

(* (d) where a response goes does not depend on the pin table, the rotation or the learned
   table: the outputs (destinations AND bytes) are the same *)
Theorem C02_independent_of_pins : forall e from m x pins' rr' gen' l',
  is_response m = true -> fx_udp_via_listener (e_fx e) = true -> udp_known (x_p x) ->
  let y := {| x_learned := l'; x_p := graft pins' rr' gen' (x_p x); x_conns := x_conns x;
              x_world := x_world x; x_outs := x_outs x |} in
  x_outs (fst (handle_message e from m y)) = x_outs (fst (handle_message e from m x)) /\
  x_conns (fst (handle_message e from m y)) = x_conns (fst (handle_message e from m x)) /\
  x_world (fst (handle_message e from m y)) = x_world (fst (handle_message e from m x)).
Proof.
  intros e from m x pins' rr' gen' l' Hr Hfx HK y.
  assert (Hq : is_request m = false) by (unfold is_response in Hr; apply negb_true_iff; exact Hr).
  subst y. unfold handle_message. rewrite Hq.
  destruct (mtry s_pop_via m) as [m1 r1]. destruct (mtry next_response_hop m1) as [m2 hop].
  destruct (mtry s_get_method m2) as [m3 ometh].
  cbn [x_p x_learned x_conns x_world x_outs graft ps_backends ps_pins].
  assert (SI : forall h p t mm pa pb,
     x_outs (fst (send_message e h p t mm {| x_learned := l'; x_p := with_pins (graft pins' rr' gen' (x_p x)) pb; x_conns := x_conns x; x_world := x_world x; x_outs := x_outs x |})) =
     x_outs (fst (send_message e h p t mm {| x_learned := x_learned x; x_p := with_pins (x_p x) pa; x_conns := x_conns x; x_world := x_world x; x_outs := x_outs x |})) /\
     x_conns (fst (send_message e h p t mm {| x_learned := l'; x_p := with_pins (graft pins' rr' gen' (x_p x)) pb; x_conns := x_conns x; x_world := x_world x; x_outs := x_outs x |})) =
     x_conns (fst (send_message e h p t mm {| x_learned := x_learned x; x_p := with_pins (x_p x) pa; x_conns := x_conns x; x_world := x_world x; x_outs := x_outs x |})) /\
     x_world (fst (send_message e h p t mm {| x_learned := l'; x_p := with_pins (graft pins' rr' gen' (x_p x)) pb; x_conns := x_conns x; x_world := x_world x; x_outs := x_outs x |})) =
     x_world (fst (send_message e h p t mm {| x_learned := x_learned x; x_p := with_pins (x_p x) pa; x_conns := x_conns x; x_world := x_world x; x_outs := x_outs x |}))).
  { intros h p t mm pa pb. apply send_message_indep; [exact Hfx|exact HK|repeat split]. }
  assert (SI0 : forall h p t mm,
     x_outs (fst (send_message e h p t mm {| x_learned := l'; x_p := graft pins' rr' gen' (x_p x); x_conns := x_conns x; x_world := x_world x; x_outs := x_outs x |})) =
     x_outs (fst (send_message e h p t mm {| x_learned := x_learned x; x_p := x_p x; x_conns := x_conns x; x_world := x_world x; x_outs := x_outs x |})) /\
     x_conns (fst (send_message e h p t mm {| x_learned := l'; x_p := graft pins' rr' gen' (x_p x); x_conns := x_conns x; x_world := x_world x; x_outs := x_outs x |})) =
     x_conns (fst (send_message e h p t mm {| x_learned := x_learned x; x_p := x_p x; x_conns := x_conns x; x_world := x_world x; x_outs := x_outs x |})) /\
     x_world (fst (send_message e h p t mm {| x_learned := l'; x_p := graft pins' rr' gen' (x_p x); x_conns := x_conns x; x_world := x_world x; x_outs := x_outs x |})) =
     x_world (fst (send_message e h p t mm {| x_learned := x_learned x; x_p := x_p x; x_conns := x_conns x; x_world := x_world x; x_outs := x_outs x |}))).
  { intros h p t mm. apply send_message_indep; [exact Hfx|exact HK|repeat split]. }
  destruct hop as [[[[h p] t]|]| |]; try (repeat split; reflexivity).
  destruct ometh as [[meth|]| |]; try apply SI0.
  destruct (beq meth (s2b "SUBSCRIBE")); [|apply SI0].
  destruct (alookup _ (ps_backends (x_p x))) as [g|]; [|apply SI0].
  destruct (mtry s_get_dialog m3) as [m' od]. destruct od as [[d|]| |]; try apply SI0. apply SI.
Qed.

(* ====================================================================== Part 5: round trip *)
(* where a response goes whose Via headers are those of a request the proxy relayed with its
   own Via on top and the sender's entry stamped (received-support on) *)
Theorem C02_roundtrip_return : forall e from r x br t0 src sport v rest t,
  is_response r = true -> (int_min <= sport <= int_max)%Z ->
  via_hdrs r = Some [own_via br t0] :: Some (stamp src sport v :: rest) :: t ->
  exists m4 pins',
    handle_message e from r x =
      send_message e src (if kv_has (s2b "rport") (v_params v) then sport else via_get_port v) (v_transport v) m4
        {| x_learned := x_learned x; x_p := with_pins (x_p x) pins'; x_conns := x_conns x;
           x_world := x_world x; x_outs := x_outs x |} /\
    via_hdrs m4 = Some (stamp src sport v :: rest) :: t.
Proof.
  intros e from r x br t0 src sport v rest t Hr Hp HV.
  destruct (C02_response_hop e from r x _ _ _ _ Hr (or_intror HV)) as (m4 & pins' & G1 & _ & _ & G4 & _).
  exists m4, pins'. split; [|exact G4]. rewrite G1. f_equal.
  - unfold hop_host. rewrite stamp_received. reflexivity.
  - unfold hop_port. rewrite stamp_received, stamp_rport by exact Hp. rewrite stamp_port.
    destruct (kv_has _ _); reflexivity.
Qed.

(* (e) request q from (src, sport) on a transport with received-support; every copy of it the
   proxy sends carries q's Via headers with only the sender's entry stamped; when the proxy
   pushed its own Via, ANY later response carrying that Via stack (whatever the state, the
   listener, the events in between) is sent to src - to sport iff q's top entry carried an
   rport parameter, else to its sent-by port - over the sender's transport, and carries q's
   Via headers, the stamped received/rport being the only difference *)
Theorem C02_roundtrip : forall e src sport from tcp q x x' v rest t,
  is_request q = true -> via_hdrs q = Some (v :: rest) :: t -> (int_min <= sport <= int_max)%Z ->
  process_message e src sport from true tcp q x = Ok x' ->
  exists outs, x_outs x' = x_outs x ++ outs /\
    Forall (fun o =>
      match fst o with
      | DDial _ _ _ => snd o = []
      | _ => exists q', snd o = write_message q' /\
          (via_hdrs q' = Some (stamp src sport v :: rest) :: t
           \/ exists t0, via_hdrs q' = Some [own_via (e_branch e) t0] :: Some (stamp src sport v :: rest) :: t /\
                forall e2 from2 r y, is_response r = true -> via_hdrs r = via_hdrs q' ->
                  exists m4 pins',
                    handle_message e2 from2 r y =
                      send_message e2 src (if kv_has (s2b "rport") (v_params v) then sport else via_get_port v)
                        (v_transport v) m4
                        {| x_learned := x_learned y; x_p := with_pins (x_p y) pins'; x_conns := x_conns y;
                           x_world := x_world y; x_outs := x_outs y |} /\
                    via_hdrs m4 = Some (stamp src sport v :: rest) :: t)
      end) outs.
Proof.
  intros e src sport from tcp q x x' v rest t Hq HV Hp H.
  destruct (C07_pipeline _ _ _ _ _ _ _ _ _ Hq H) as (outs & H1 & H2). exists outs. split; [exact H1|].
  rewrite HV in H2. cbn [stamp_hdrs] in H2. eapply Forall_impl; [|exact H2].
  intros o. unfold relayed_as. destruct (fst o); try (intros E; exact E);
    intros (q' & E1 & [E2|(t0 & E2)]); exists q'; (split; [exact E1|]); try (left; exact E2);
    right; exists t0; (split; [exact E2|]); intros e2 from2 r y Hr HR; rewrite E2 in HR;
    exact (C02_roundtrip_return e2 from2 r y _ _ _ _ _ _ _ Hr Hp HR).
Qed.

(* ====================================================================== Part 6: pipeline *)
Definition mpost {A} (x : M A) (P : A -> Prop) : Prop := forall m a, snd (x m) = Ok a -> P a.
Lemma mpost_mret {A} (a : A) (P : A -> Prop) : P a -> mpost (mret a) P.
Proof. intros H m a' E. cbn in E. injection E as <-. exact H. Qed.
Lemma mpost_mbind {A B} (x : M A) (f : A -> M B) (P : A -> Prop) (Q : B -> Prop) :
  mpost x P -> (forall a, P a -> mpost (f a) Q) -> mpost (mbind x f) Q.
Proof.
  intros Hx Hf m b. unfold mbind. specialize (Hx m). destruct (x m) as [m1 r]. cbn [snd] in Hx.
  destruct r as [a| |]; cbn; try discriminate. apply (Hf a (Hx a eq_refl)).
Qed.
Lemma mpost_true {A} (x : M A) : mpost x (fun _ => True).
Proof. intros m a _. exact I. Qed.

Definition pinsonly (p p' : pstate) : Prop := exists pins', p' = with_pins p pins'.
Lemma pinsonly_refl p : pinsonly p p.
Proof. exists (ps_pins p). symmetry. apply with_pins_same. Qed.
Lemma pinsonly_with p p' a : pinsonly p p' -> pinsonly p (with_pins p' a).
Proof. intros (b & ->). exists a. reflexivity. Qed.

(* handleDialog only touches the pin table *)
Lemma handle_dialog_pins e peer port p : mpost (handle_dialog e peer port p) (pinsonly p).
Proof.
  unfold handle_dialog.
  apply mpost_mbind with (P := fun pb => pinsonly p (fst pb)).
  - destruct (alookup _ (ps_backends p)); [apply mpost_mret, pinsonly_refl|].
    apply mpost_mbind with (P := fun _ => True); [apply mpost_true|intros tid _].
    destruct (pins_get (e_now e) tid (ps_pins p)) as [pins1 ob].
    apply mpost_mbind with (P := fun _ => True); [apply mpost_true|intros fin _].
    apply mpost_mret. cbn. apply pinsonly_with, pinsonly_refl.
  - intros [p1 ob] Hp. cbn [fst] in Hp. destruct ob as [b|]; [|apply mpost_mret; exact Hp].
    apply mpost_mbind with (P := fun _ => True); [apply mpost_true|intros [meth|] _]; [|apply mpost_mret; exact Hp].
    destruct (beq meth (s2b "INVITE")).
    + apply mpost_mbind with (P := fun _ => True); [apply mpost_true|intros od _].
      apply mpost_mbind with (P := fun _ => True); [apply mpost_true|intros ex _].
      destruct od; apply mpost_mret; [apply pinsonly_with|]; exact Hp.
    + destruct (beq meth (s2b "BYE")); [|apply mpost_mret; exact Hp].
      apply mpost_mbind with (P := fun _ => True); [apply mpost_true|intros od _].
      destruct od; apply mpost_mret; [apply pinsonly_with|]; exact Hp.
Qed.

(* a response through handleRawMessage: never stamped (whatever rs), no learning, then (a)/(b) *)
Theorem C02_process_response : forall e peer port from rs tcp m0 x x',
  is_response m0 = true ->
  process_message e peer port from rs tcp m0 x = Ok x' ->
  match top_view (pop_view (via_hdrs m0)) with
  | Some v2 =>
      exists m4 pins',
        x' = fst (send_message e (hop_host v2) (hop_port v2) (v_transport v2) m4
                   {| x_learned := x_learned x; x_p := with_pins (x_p x) pins'; x_conns := x_conns x;
                      x_world := x_world x; x_outs := x_outs x |}) /\
        m_start m4 = m_start m0 /\ m_body m4 = m_body m0 /\ via_hdrs m4 = pop_view (via_hdrs m0)
  | None => x_outs x' = x_outs x /\ x_conns x' = x_conns x /\ x_world x' = x_world x /\ x_learned x' = x_learned x
  end.
Proof.
  intros e peer port from rs tcp m0 x x' Hr.
  assert (Hq : is_request m0 = false) by (unfold is_response in Hr; apply negb_true_iff; exact Hr).
  unfold process_message. cbv zeta. repeat (progress (rewrite ?Hq; cbn [andb]; cbv beta iota)).
  assert (TP : match tcp with
               | Some c => (m0, Ok (x_p x))
               | None => (m0, @Ok pstate (x_p x))
               end = (m0, Ok (x_p x))) by (destruct tcp; reflexivity).
  rewrite TP. cbv beta iota zeta.
  set (m4 := fst (mtry (try_remove_top_route (e_cfg e) from) m0)).
  assert (V4 : veq m0 m4) by (apply (vpres_mtry _ (vpres_try_remove_top_route _ _))).
  rewrite (veq_is_response _ _ V4), Hr. clearbody m4.
  pose proof (vpres_handle_dialog e peer port (x_p x) m4) as VD.
  pose proof (handle_dialog_pins e peer port (x_p x) m4) as PD.
  destruct (handle_dialog e peer port (x_p x) m4) as [m5 r]. cbn [fst snd] in VD, PD.
  assert (V5 : veq m0 m5) by (eapply veq_trans; eassumption).
  assert (P2 : exists pins2, match r with Ok p' => p' | _ => x_p x end = with_pins (x_p x) pins2).
  { destruct r as [p'| |]; [exact (PD p' eq_refl)| |]; exists (ps_pins (x_p x)); symmetry; apply with_pins_same. }
  destruct P2 as (pins2 & ->). intros H. injection H as <-.
  assert (Q5 : is_request m5 = false) by (rewrite (veq_is_request _ _ V5); exact Hq).
  destruct V5 as (S5 & B5 & H5).
  match goal with |- context [handle_message e from m5 ?X] =>
    pose proof (C02_response_general e from m5 X Q5) as G end.
  rewrite H5 in G. destruct (top_view (pop_view (via_hdrs m0))) as [v2|].
  - destruct G as (m6 & pins' & G1 & G2 & G3 & G4). exists m6, pins'. rewrite G1.
    split; [reflexivity|]. repeat split; congruence.
  - rewrite G. repeat split.
Qed.

Theorem C02_step_udp : forall fx c now br st li src sport data lc p m rest st' outs,
  nth_opt (c_listens c) li = Some lc -> nth_p (st_proxies st) li = Some p ->
  parse_message data = Ok (m, rest) -> is_response m = true ->
  proxy_step fx c now br st (EvUdp li src sport data) = Ok (st', outs) ->
  match top_view (pop_view (via_hdrs m)) with
  | Some v2 =>
      exists m4 pins',
        outs = x_outs (fst (send_message (mk_env fx c (item_rs_of (fx_wiring fx)) li lc now br)
                              (hop_host v2) (hop_port v2) (v_transport v2) m4
                              {| x_learned := st_learned st; x_p := with_pins p pins'; x_conns := st_conns st;
                                 x_world := st_world st; x_outs := [] |})) /\
        m_start m4 = m_start m /\ m_body m4 = m_body m /\ via_hdrs m4 = pop_view (via_hdrs m)
  | None => outs = []
  end.
Proof.
  intros fx c now br st li src sport data lc p m rest st' outs EL EP EM Hr H.
  cbn [proxy_step] in H. rewrite EL, EM in H. unfold run_ctx in H. rewrite EP in H.
  destruct (process_message _ _ _ _ _ _ _ _) as [x'| |] eqn:E; try discriminate.
  injection H as <- <-. pose proof (C02_process_response _ _ _ _ _ _ _ _ _ Hr E) as G.
  cbn [x_learned x_p x_conns x_world x_outs] in G.
  destruct (top_view (pop_view (via_hdrs m))) as [v2|].
  - destruct G as (m4 & pins' & -> & G2). exists m4, pins'. split; [reflexivity|exact G2].
  - apply G.
Qed.

(* end to end, UDP next hop: exactly one datagram, to the resolved address of the entry on top
   after the pop, carrying the popped Via headers *)
Corollary C02_step_udp_relay_udp : forall fx c now br st li src sport data lc p m rest st' outs v2 ip,
  nth_opt (c_listens c) li = Some lc -> nth_p (st_proxies st) li = Some p ->
  parse_message data = Ok (m, rest) -> is_response m = true ->
  proxy_step fx c now br st (EvUdp li src sport data) = Ok (st', outs) ->
  top_view (pop_view (via_hdrs m)) = Some v2 ->
  to_lower (v_transport v2) = s2b "udp" -> get_ip c (hop_host v2) = Some ip ->
  resolvable ip (hop_port v2) = true -> udp_slot_ok ip (hop_port v2) p ->
  exists m', via_hdrs m' = pop_view (via_hdrs m) /\ m_start m' = m_start m /\ m_body m' = m_body m /\
             (fits_datagram (write_message m') = true -> outs = [(DUdp ip (hop_port v2), write_message m')]).
Proof.
  intros fx c now br st li src sport data lc p m rest st' outs v2 ip EL EP EM Hr H HT Htr Hip Hres Hslot.
  pose proof (C02_step_udp _ _ _ _ _ _ _ _ _ _ _ _ _ _ _ EL EP EM Hr H) as G. rewrite HT in G.
  destruct G as (m4 & pins' & -> & G2 & G3 & G4). exists (sent_msg m4).
  destruct (veq_sent_msg m4) as (V1 & V2 & V3). repeat split; try congruence.
  intros Hfit.
  match goal with |- x_outs (fst (send_message ?e ?h ?pt ?tr ?mm ?X)) = _ =>
    rewrite (C02_dest_udp e h pt tr mm X ip Htr Hip Hres Hslot Hfit) end. reflexivity.
Qed.
