(* C02 — responses follow the Via chain: pop one entry, go to the next.

   Uses the Via VIEW of C07.v: [via_hdrs m] = for every Via header of m (full / compact / any
   case of the name), in order, its decoded entries, None when the value does not decode;
   [flat_vias m] = all entries in order = snd (decode_all_vias (m_headers m)).

   Part 1  PopVia and getNextReponseHop on the view.
   Part 2  C02_response_general and its corollaries C02_response_hop (comma list / repeated
           header lines), C02_single_via_dropped, C02_undecodable_dropped.
   Part 3  C02_dest_*: what sendMessage emits for (host, port, transport); legacy witness.
   Part 4  C02_independent_of_pins.
   Part 5  C02_roundtrip.
   Part 6  process_message / proxy_step level.
   No axioms, no admits. *)
From Coq Require Import List Ascii String ZArith Bool Lia.
From Model Require Import Bytes BytesLemmas Uri Hdr Message Msg Rx Glob StaticRoute RoundRobin Pins Proxy.
From Model.proofs Require Import C07.
Import ListNotations.
Open Scope Z_scope.

(* ====================================================================== Part 1 *)
(* PopVia on the view: one entry of a longer list, else the whole first header; an undecodable
   first header (or none) makes PopVia fail and the message stays as it is *)
Definition pop_view (vh : list (option (list via_param))) : list (option (list via_param)) :=
  match vh with
  | Some (_ :: (_ :: _) as rest) :: t => Some rest :: t
  | Some _ :: t => t
  | _ => vh
  end.
(* the entry getNextReponseHop reads: first entry of the first Via header, if it decodes *)
Definition top_view (vh : list (option (list via_param))) : option via_param :=
  match vh with Some (v :: _) :: _ => Some v | _ => None end.
Definition hop_host (v : via_param) : bytes :=
  match via_get_received v with Some h => h | None => v_host v end.
Definition hop_port (v : via_param) : Z :=
  match via_get_received v with
  | Some _ => match via_get_rport v with Some p => p | None => via_get_port v end
  | None => via_get_port v
  end.

Lemma via_hdrs_remove_via m x t : via_hdrs m = x :: t ->
  via_hdrs (with_headers m (remove_header VIA (m_headers m))) = t.
Proof.
  unfold via_hdrs. intros H. destruct (via_view_cons _ _ _ H) as (pre & h & post & H1 & H2 & H3 & H4 & H5).
  cbn [m_headers with_headers]. rewrite H1, remove_header_at by assumption.
  rewrite via_view_app, nomatch_via_view by exact H2. exact H5.
Qed.

Lemma s_pop_via_view m :
  m_start (fst (s_pop_via m)) = m_start m /\ m_body (fst (s_pop_via m)) = m_body m /\
  via_hdrs (fst (s_pop_via m)) = pop_view (via_hdrs m).
Proof.
  destruct (via_hdrs m) as [|[l|] t] eqn:E.
  - destruct (s_get_via_fail m (or_introl E)) as (r & Hr & Hn).
    unfold s_pop_via, mbind. rewrite Hr. destruct r as [l| |]; [exfalso; exact (Hn l eq_refl)| |];
      cbn [fst pop_view]; rewrite E; repeat split.
  - destruct (s_get_via_ok m l t E) as (m' & Hr & (V1 & V2 & V3) & Hs).
    unfold s_pop_via, mbind. rewrite Hr. rewrite E in V3. fold VIA.
    destruct l as [|a [|b r]]; unfold mmodify; cbn [fst pop_view].
    + repeat split; try assumption. apply (via_hdrs_remove_via _ _ _ V3).
    + repeat split; try assumption. apply (via_hdrs_remove_via _ _ _ V3).
    + rewrite Hs. repeat split. apply (via_hdrs_set_via _ _ _ _ E).
  - destruct (s_get_via_fail m (or_intror (ex_intro _ t E))) as (r & Hr & Hn).
    unfold s_pop_via, mbind. rewrite Hr. destruct r as [l| |]; [exfalso; exact (Hn l eq_refl)| |];
      cbn [fst pop_view]; rewrite E; repeat split.
Qed.

Lemma next_response_hop_spec m :
  veq m (fst (next_response_hop m)) /\
  match top_view (via_hdrs m) with
  | Some v => snd (next_response_hop m) = Ok (hop_host v, hop_port v, v_transport v)
  | None => forall a, snd (next_response_hop m) <> Ok a
  end.
Proof.
  split; [apply vpres_next_response_hop|].
  destruct (via_hdrs m) as [|[l|] t] eqn:E; cbn [top_view].
  - destruct (s_get_via_fail m (or_introl E)) as (r & Hr & Hn).
    unfold next_response_hop, s_top_via, mbind. rewrite Hr.
    destruct r as [l| |]; [exfalso; exact (Hn l eq_refl)| |]; cbn; discriminate.
  - destruct (s_get_via_ok m l t E) as (m' & Hr & _ & _).
    unfold next_response_hop, s_top_via, mbind. rewrite Hr. destruct l as [|v r].
    + cbn. discriminate.
    + unfold mret at 1. unfold hop_host, hop_port. destruct (via_get_received v); reflexivity.
  - destruct (s_get_via_fail m (or_intror (ex_intro _ t E))) as (r & Hr & Hn).
    unfold next_response_hop, s_top_via, mbind. rewrite Hr.
    destruct r as [l| |]; [exfalso; exact (Hn l eq_refl)| |]; cbn; discriminate.
Qed.

Lemma mtry_unfold {A} (x : M A) m :
  mtry x m = match snd (x m) with
             | Ok a => (fst (x m), Ok (Some a)) | Err => (fst (x m), Ok None) | Panic => (fst (x m), Panic) end.
Proof. unfold mtry. destruct (x m) as [m1 r]. destruct r; reflexivity. Qed.

Lemma with_pins_same p : with_pins p (ps_pins p) = p.
Proof. destruct p; reflexivity. Qed.

(* ====================================================================== Part 2 *)
(* HandleMessage on a response, for every message, listener, configuration and state:
   exactly ONE sendMessage call, for the entry on top after the pop, on a message whose Via
   headers are the popped ones; or nothing at all (the context comes back unchanged). *)
Theorem C02_response_general : forall e from m x, is_request m = false ->
  match top_view (pop_view (via_hdrs m)) with
  | Some v2 =>
      exists m4 pins',
        handle_message e from m x =
          send_message e (hop_host v2) (hop_port v2) (v_transport v2) m4
            {| x_learned := x_learned x; x_p := with_pins (x_p x) pins'; x_conns := x_conns x;
               x_world := x_world x; x_outs := x_outs x |} /\
        m_start m4 = m_start m /\ m_body m4 = m_body m /\ via_hdrs m4 = pop_view (via_hdrs m)
  | None => fst (handle_message e from m x) = x
  end.
Proof.
  intros e from m x Hq. unfold handle_message. rewrite Hq.
  destruct (s_pop_via_view m) as (P1 & P2 & P3). rewrite <- (fst_mtry s_pop_via m) in P1, P2, P3.
  destruct (mtry s_pop_via m) as [m1 r1]. cbn [fst] in P1, P2, P3.
  destruct (next_response_hop_spec m1) as ((N1 & N2 & N3) & NS). rewrite P3 in NS.
  rewrite (mtry_unfold next_response_hop m1).
  destruct (next_response_hop m1) as [m2 r2]. cbn [fst snd] in N1, N2, N3, NS |- *.
  pose proof (vpres_mtry _ vpres_s_get_method) as VM.
  destruct (top_view (pop_view (via_hdrs m))) as [v2|].
  - subst r2. cbv iota. specialize (VM m2). destruct (mtry s_get_method m2) as [m3 ometh]. cbn [fst] in VM.
    destruct VM as (M1 & M2 & M3).
    assert (V3 : m_start m3 = m_start m /\ m_body m3 = m_body m /\ via_hdrs m3 = pop_view (via_hdrs m))
      by (repeat split; congruence).
    assert (FIN : forall m', m_start m' = m_start m /\ m_body m' = m_body m /\ via_hdrs m' = pop_view (via_hdrs m) ->
              exists m4 pins',
                send_message e (hop_host v2) (hop_port v2) (v_transport v2) m'
                  {| x_learned := x_learned x; x_p := x_p x; x_conns := x_conns x; x_world := x_world x; x_outs := x_outs x |} =
                send_message e (hop_host v2) (hop_port v2) (v_transport v2) m4
                  {| x_learned := x_learned x; x_p := with_pins (x_p x) pins'; x_conns := x_conns x; x_world := x_world x; x_outs := x_outs x |} /\
                m_start m4 = m_start m /\ m_body m4 = m_body m /\ via_hdrs m4 = pop_view (via_hdrs m)).
    { intros m' H. exists m', (ps_pins (x_p x)). rewrite with_pins_same. split; [reflexivity|exact H]. }
    destruct ometh as [[meth|]| |]; try (apply FIN; exact V3).
    destruct (beq meth (s2b "SUBSCRIBE")); [|apply FIN; exact V3].
    destruct (alookup _ (ps_backends (x_p x))) as [g|]; [|apply FIN; exact V3].
    pose proof (vpres_mtry _ vpres_s_get_dialog m3) as VD.
    destruct (mtry s_get_dialog m3) as [m' od]. cbn [fst] in VD. destruct VD as (D1 & D2 & D3).
    assert (V' : m_start m' = m_start m /\ m_body m' = m_body m /\ via_hdrs m' = pop_view (via_hdrs m))
      by (destruct V3 as (A & B & C); repeat split; congruence).
    destruct od as [[d|]| |]; try (apply FIN; exact V').
    eexists m', _. split; [reflexivity|exact V'].
  - destruct r2 as [a| |]; [exfalso; exact (NS a eq_refl)| |]; cbv iota;
      destruct (mtry s_get_method m2) as [m3 ometh]; cbn; destruct x; reflexivity.
Qed.

(* (a) the two layouts *)
Theorem C02_response_hop : forall e from m x v1 v2 rest1 t,
  is_response m = true ->
  (via_hdrs m = Some (v1 :: v2 :: rest1) :: t          (* comma list in the first Via header *)
   \/ via_hdrs m = Some [v1] :: Some (v2 :: rest1) :: t)  (* repeated header lines *) ->
  exists m4 pins',
    handle_message e from m x =
      send_message e (hop_host v2) (hop_port v2) (v_transport v2) m4
        {| x_learned := x_learned x; x_p := with_pins (x_p x) pins'; x_conns := x_conns x;
           x_world := x_world x; x_outs := x_outs x |} /\
    m_start m4 = m_start m /\ m_body m4 = m_body m /\
    via_hdrs m4 = Some (v2 :: rest1) :: t /\
    snd (decode_all_vias (m_headers m)) = v1 :: snd (decode_all_vias (m_headers m4)).
Proof.
  intros e from m x v1 v2 rest1 t Hr HV.
  assert (Hq : is_request m = false) by (unfold is_response in Hr; apply negb_true_iff; exact Hr).
  pose proof (C02_response_general e from m x Hq) as G.
  assert (PV : pop_view (via_hdrs m) = Some (v2 :: rest1) :: t) by (destruct HV as [-> | ->]; reflexivity).
  rewrite PV in G. cbn [top_view] in G. destruct G as (m4 & pins' & G1 & G2 & G3 & G4).
  exists m4, pins'. repeat split; try assumption.
  rewrite !flat_vias_decode. unfold flat_vias. rewrite G4. destruct HV as [-> | ->]; reflexivity.
Qed.

(* ... and what that single call can put on the wire: the message sendMessage serialises has
   the same Via headers *)
Corollary C02_response_hop_outs : forall e from m x v1 v2 rest1 t,
  is_response m = true ->
  (via_hdrs m = Some (v1 :: v2 :: rest1) :: t \/ via_hdrs m = Some [v1] :: Some (v2 :: rest1) :: t) ->
  exists m' outs,
    x_outs (fst (handle_message e from m x)) = x_outs x ++ outs /\
    via_hdrs m' = Some (v2 :: rest1) :: t /\
    snd (decode_all_vias (m_headers m')) = v2 :: rest1 ++ flat_view t /\
    (outs = [] \/ (exists ip p, outs = [(DUdp ip p, write_message m')]) \/ tcp_shape (write_message m') outs).
Proof.
  intros e from m x v1 v2 rest1 t Hr HV.
  destruct (C02_response_hop e from m x v1 v2 rest1 t Hr HV) as (m4 & pins' & G1 & _ & _ & G4 & _).
  rewrite G1.
  match goal with |- context [send_message ?e ?h ?p ?t ?m ?X] =>
    destruct (send_message_outs e h p t m X) as (_ & _ & outs & H1 & H2) end.
  exists (sent_msg m4), outs. cbn [x_outs] in H1.
  destruct (veq_sent_msg m4) as (_ & _ & V). rewrite G4 in V.
  split; [exact H1|]. split; [exact V|]. split; [|exact H2].
  rewrite flat_vias_decode. unfold flat_vias. rewrite V. reflexivity.
Qed.

(* (b) nothing is sent, the context is unchanged *)
Theorem C02_single_via_dropped : forall e from m x,
  is_response m = true ->
  (via_hdrs m = [] \/ (exists l, via_hdrs m = [Some l] /\ (List.length l <= 1)%nat)) ->
  fst (handle_message e from m x) = x.
Proof.
  intros e from m x Hr HV.
  assert (Hq : is_request m = false) by (unfold is_response in Hr; apply negb_true_iff; exact Hr).
  pose proof (C02_response_general e from m x Hq) as G.
  destruct HV as [H|(l & H & Hl)]; rewrite H in G; [exact G|].
  destruct l as [|a [|b r]]; cbn in Hl; try lia; exact G.
Qed.

Theorem C02_undecodable_dropped : forall e from m x t,
  is_response m = true ->
  (via_hdrs m = None :: t                                  (* first Via header does not decode *)
   \/ (exists l, via_hdrs m = Some l :: None :: t /\ (List.length l <= 1)%nat)  (* the next one does not *)
   \/ (exists l, via_hdrs m = Some l :: Some [] :: t /\ (List.length l <= 1)%nat)) ->
  fst (handle_message e from m x) = x.
Proof.
  intros e from m x t Hr HV.
  assert (Hq : is_request m = false) by (unfold is_response in Hr; apply negb_true_iff; exact Hr).
  pose proof (C02_response_general e from m x Hq) as G.
  destruct HV as [H|[(l & H & Hl)|(l & H & Hl)]]; rewrite H in G; [exact G| |];
    destruct l as [|a [|b r]]; cbn in Hl; try lia; exact G.
Qed.

(* ====================================================================== Part 3: C02_dest *)
Lemma alookup_filter_some {V} (P : bytes * V -> bool) k v l :
  alookup k l = Some v -> P (k, v) = true -> alookup k (filter P l) = Some v.
Proof.
  induction l as [|[k' v'] r IH]; cbn; [discriminate|].
  destruct (beq k k') eqn:E.
  - intros H HP. injection H as ->. apply beq_eq in E. subst k'. rewrite HP. cbn. rewrite beq_refl. reflexivity.
  - intros H HP. destruct (P (k', v')); cbn; [rewrite E|]; apply IH; assumption.
Qed.
Lemma alookup_filter_none {V} (P : bytes * V -> bool) k l : alookup k l = None -> alookup k (filter P l) = None.
Proof.
  induction l as [|[k' v'] r IH]; cbn; [reflexivity|].
  destruct (beq k k') eqn:E; [discriminate|]. intros H. destruct (P (k', v')); cbn; [rewrite E|]; apply IH; exact H.
Qed.
Lemma alookup_filter_in {V} (P : bytes * V -> bool) k v l : alookup k (filter P l) = Some v -> In (k, v) l.
Proof. intros H. apply alookup_in in H. apply filter_In in H. apply H. Qed.

Lemma clean_lookup_keep now p k f : alookup k (ps_table p) = Some f ->
  (forall c ex, fo_pri f <> Some (PConn c ex)) -> alookup k (ps_table (clean_expired now p)) = Some f.
Proof.
  intros H Hn. unfold clean_expired. destruct (Z.ltb _ 60); [exact H|]. cbn [ps_table].
  apply alookup_filter_some; [exact H|]. cbn. destruct (fo_pri f) as [[a b|a b|c ex]|]; try reflexivity.
  exfalso. exact (Hn c ex eq_refl).
Qed.
Lemma clean_lookup_none now p k : alookup k (ps_table p) = None -> alookup k (ps_table (clean_expired now p)) = None.
Proof.
  intros H. unfold clean_expired. destruct (Z.ltb _ 60); [exact H|]. cbn [ps_table]. apply alookup_filter_none. exact H.
Qed.
Lemma clean_lookup_in now p k f : alookup k (ps_table (clean_expired now p)) = Some f -> In (k, f) (ps_table p).
Proof.
  unfold clean_expired. destruct (Z.ltb _ 60); [apply alookup_in|]. cbn [ps_table]. apply alookup_filter_in.
Qed.

(* (c1) a transport other than udp / tcp (any case): nothing is sent *)
Theorem C02_dest_unsupported : forall e host port tr m x,
  supported_proto (to_lower tr) = false ->
  x_outs (fst (send_message e host port tr m x)) = x_outs x.
Proof.
  intros e host port tr m x H. unfold send_message. destruct (mtry s_client_transaction m) as [m1 tid].
  unfold get_transport. cbv zeta. rewrite H. reflexivity.
Qed.

(* (c2) udp *)
Definition udp_key (ip : bytes) (port : Z) : bytes := full_addr (s2b "udp") ip port [].
Lemma udp_key_tid ip port tid : full_addr (s2b "udp") ip port tid = udp_key ip port.
Proof. reflexivity. Qed.
(* the table slot of that destination is free, or holds a UDP client for it.  (It can hold a
   forgotten primary after a send to that destination FAILED - in the model: a datagram over
   65507 bytes; see the report) *)
Definition udp_slot_ok (ip : bytes) (port : Z) (p : pstate) : Prop :=
  match alookup (udp_key ip port) (ps_table p) with
  | None => True
  | Some f => fo_pri f = Some (PUdp ip port) \/ fo_pri f = Some (PUdpVia ip port)
  end.

Lemma get_transport_udp now tr host port tid p :
  to_lower tr = s2b "udp" -> resolvable host port = true ->
  exists p1, get_transport now tr host port tid p = (p1, Ok (udp_key host port)) /\
    match alookup (udp_key host port) (ps_table p) with
    | Some f => (forall c ex, fo_pri f <> Some (PConn c ex)) -> alookup (udp_key host port) (ps_table p1) = Some f
    | None => alookup (udp_key host port) (ps_table p1) = Some {| fo_pri := Some (PUdp host port); fo_sec := None |}
    end.
Proof.
  intros Htr Hres. unfold get_transport. cbv zeta. rewrite Htr.
  change (negb (supported_proto (s2b "udp"))) with false. cbv iota. rewrite udp_key_tid.
  change (beq (s2b "udp") (s2b "udp")) with true. cbv iota. rewrite Hres.
  destruct (alookup (udp_key host port) (ps_table p)) as [f|] eqn:EL.
  - destruct (alookup (udp_key host port) (ps_table (clean_expired now p))) as [f'|] eqn:EC.
    + eexists. split; [reflexivity|]. intros Hn. apply clean_lookup_keep; assumption.
    + eexists. split; [reflexivity|]. intros Hn. rewrite (clean_lookup_keep _ _ _ _ EL Hn) in EC. discriminate.
  - rewrite (clean_lookup_none _ _ _ EL). eexists. split; [reflexivity|].
    cbn [ps_table with_table]. apply alookup_aset_same.
Qed.

Theorem C02_dest_udp : forall e host port tr m x ip,
  to_lower tr = s2b "udp" -> get_ip (e_cfg e) host = Some ip -> resolvable ip port = true ->
  udp_slot_ok ip port (x_p x) -> fits_datagram (write_message (sent_msg m)) = true ->
  x_outs (fst (send_message e host port tr m x)) = x_outs x ++ [(DUdp ip port, write_message (sent_msg m))].
Proof.
  intros e host port tr m x ip Htr Hip Hres Hslot Hfit.
  unfold send_message. rewrite Hip. unfold sent_msg in Hfit |- *.
  destruct (mtry s_client_transaction m) as [m1 tid]. cbn [fst] in Hfit |- *.
  set (trans_id := match tid with Ok (Some t) => t | _ => [] end).
  destruct (get_transport_udp (now_s e) tr ip port trans_id (x_p x) Htr Hres) as (p1 & EG & HL). rewrite EG.
  assert (EF : exists f, alookup (udp_key ip port) (ps_table p1) = Some f /\
                         (fo_pri f = Some (PUdp ip port) \/ fo_pri f = Some (PUdpVia ip port))).
  { unfold udp_slot_ok in Hslot. destruct (alookup (udp_key ip port) (ps_table (x_p x))) as [f|].
    - exists f. split; [|exact Hslot]. apply HL. intros c ex. destruct Hslot as [H|H]; rewrite H; discriminate.
    - eexists. split; [exact HL|]. left. reflexivity. }
  destruct EF as (f & EF & Hpri). destruct f as [pri sec]. cbn [fo_pri] in Hpri.
  cbv beta iota zeta. rewrite EF.
  destruct Hpri as [-> | ->]; cbv beta iota zeta; rewrite EF; unfold failover_send; cbn [fo_pri];
    rewrite Hfit; reflexivity.
Qed.

(* (c3) tcp: no table entry under a tcp key holds a UDP client (true of every state the
   repaired tree reaches; the legacy findClientTransport broke exactly this) *)
Definition tcp_slot_ok (p : pstate) : Prop :=
  forall k f, In (k, f) (ps_table p) -> has_prefix (s2b "tcp://") k = true ->
              forall ip port, fo_pri f <> Some (PUdp ip port) /\ fo_pri f <> Some (PUdpVia ip port).
Lemma tcp_key_prefix host port tid : has_prefix (s2b "tcp://") (full_addr (s2b "tcp") host port tid) = true.
Proof. unfold full_addr. cbv zeta. destruct (_ && _)%bool; reflexivity. Qed.

Lemma get_transport_tcp now tr host port tid p p1 key :
  to_lower tr = s2b "tcp" -> tcp_slot_ok p -> get_transport now tr host port tid p = (p1, Ok key) ->
  forall f, alookup key (ps_table p1) = Some f ->
            forall ip pt, fo_pri f <> Some (PUdp ip pt) /\ fo_pri f <> Some (PUdpVia ip pt).
Proof.
  intros Htr Hslot. unfold get_transport. cbv zeta. rewrite Htr.
  change (negb (supported_proto (s2b "tcp"))) with false. cbv iota.
  destruct (alookup (full_addr (s2b "tcp") host port tid) (ps_table (clean_expired now p))) as [f0|] eqn:EC.
  - intros H. injection H as <- <-. intros f EF.
    assert (E2 : Some f0 = Some f) by (rewrite <- EC; exact EF). injection E2 as <-.
    apply clean_lookup_in in EC. apply (Hslot _ _ EC). apply tcp_key_prefix.
  - change (beq (s2b "tcp") (s2b "udp")) with false. cbv iota.
    destruct (alookup (full_addr (s2b "tcp") host port []) (ps_table (clean_expired now p))) as [f1|].
    + intros H. injection H as <- <-. intros f EF. cbn [ps_table with_table] in EF.
      rewrite alookup_aset_same in EF. injection EF as <-. intros ip pt. split; discriminate.
    + intros H. injection H as <- <-. intros f EF. cbn [ps_table with_table] in EF.
      rewrite alookup_aset_same in EF. injection EF as <-. intros ip pt. split; discriminate.
Qed.

Theorem C02_dest_tcp : forall e host port tr m x,
  fx_udp_via_listener (e_fx e) = true -> to_lower tr = s2b "tcp" -> tcp_slot_ok (x_p x) ->
  exists outs, x_outs (fst (send_message e host port tr m x)) = x_outs x ++ outs /\
               tcp_shape (write_message (sent_msg m)) outs.
Proof.
  intros e host port tr m x Hfx Htr Hslot.
  assert (NIL : forall b, exists outs, x_outs x = x_outs x ++ outs /\ tcp_shape b outs).
  { intros b. exists []. split; [symmetry; apply app_nil_r|left; reflexivity]. }
  unfold send_message, sent_msg. destruct (mtry s_client_transaction m) as [m1 tid]. cbn [fst].
  destruct (get_transport _ _ _ _ _ _) as [p1 rkey] eqn:EG.
  destruct rkey as [key| |]; try apply NIL.
  pose proof (get_transport_tcp _ _ _ _ _ _ _ _ Htr Hslot EG) as HT.
  rewrite Hfx. assert (EU : equal_fold tr (s2b "udp") = false) by (unfold equal_fold; rewrite Htr; reflexivity).
  rewrite EU. cbn [andb negb].
  assert (P2 : match alookup key (ps_table p1) with Some {| fo_pri := None |} => p1 | _ => p1 end = p1).
  { destruct (alookup key (ps_table p1)) as [[[pr|] sec]|]; reflexivity. }
  cbv zeta. rewrite P2.
  destruct (alookup key (ps_table p1)) as [f|] eqn:EF; [|apply NIL].
  match goal with |- context [failover_send ?a ?b ?c ?d ?e ?f ?g ?h] =>
    destruct (failover_send a b c d e f g h) as [[[[[p4 cs] w] outs] ok] f'] eqn:EFS end.
  cbn [fst x_outs]. exists outs. split; [reflexivity|].
  destruct (failover_send_outs _ _ _ _ _ _ _ _ _ _ _ _ _ _ EFS) as [(ip & pt & Hpri & _)|H]; [|exact H].
  exfalso. destruct (HT f eq_refl ip pt) as [N1 N2]. destruct Hpri as [Hp|Hp]; [exact (N1 Hp)|exact (N2 Hp)].
Qed.

(* in particular: never a datagram, at most one write on a connection, at most one dial *)
Corollary C02_dest_tcp_no_udp : forall e host port tr m x,
  fx_udp_via_listener (e_fx e) = true -> to_lower tr = s2b "tcp" -> tcp_slot_ok (x_p x) ->
  exists outs, x_outs (fst (send_message e host port tr m x)) = x_outs x ++ outs /\
    Forall (fun o => match fst o with DUdp _ _ => False | _ => True end) outs /\
    (List.length (filter (fun o => match fst o with DConn _ => true | _ => false end) outs) <= 1)%nat /\
    (List.length (filter (fun o => match fst o with DDial _ _ _ => true | _ => false end) outs) <= 1)%nat.
Proof.
  intros e host port tr m x Hfx Htr Hslot.
  destruct (C02_dest_tcp e host port tr m x Hfx Htr Hslot) as (outs & H1 & H2). exists outs. split; [exact H1|].
  destruct H2 as [->|[(c & ->)|[(h & p & c & ->)|(h & p & c & c' & ->)]]]; cbn; repeat split; repeat constructor.
Qed.

(* both slot conditions hold of a fresh proxy *)
Lemma slots_ok_init c now lc ip port : udp_slot_ok ip port (init_pstate c now lc) /\ tcp_slot_ok (init_pstate c now lc).
Proof. split; [exact I|intros k f []]. Qed.

(* ====================================================================== Part 4: independence *)
(* replace pin table, rotation and generation counter *)
Definition graft (pins' : pins) (rr' : rr) (gen' : nat) (p : pstate) : pstate :=
  {| ps_backends := ps_backends p; ps_rr := rr'; ps_has_rr := ps_has_rr p; ps_gen := gen'; ps_pins := pins';
     ps_table := ps_table p; ps_clients := ps_clients p; ps_last_clean := ps_last_clean p |}.

Section Graft.
Variables (pins' : pins) (rr' : rr) (gen' : nat).
Let G := graft pins' rr' gen'.

Lemma G_clean now p : clean_expired now (G p) = G (clean_expired now p).
Proof. unfold clean_expired, G, graft. cbn. destruct (Z.ltb _ 60); reflexivity. Qed.
Lemma G_get_transport now proto host port tid p :
  get_transport now proto host port tid (G p) =
  (G (fst (get_transport now proto host port tid p)), snd (get_transport now proto host port tid p)).
Proof.
  unfold get_transport. cbv zeta. rewrite G_clean. set (p' := clean_expired now p).
  destruct (negb _); [reflexivity|]. change (ps_table (G p')) with (ps_table p').
  destruct (alookup _ (ps_table p')); [reflexivity|].
  destruct (beq _ (s2b "udp")); [destruct (resolvable host port); reflexivity|].
  destruct (alookup _ (ps_table p')); reflexivity.
Qed.
Lemma G_tcp_client_send n : forall li local rs id b p cs w outs,
  tcp_client_send n li local rs id b (G p) cs w outs =
  let '(p', cs', w', outs', ok) := tcp_client_send n li local rs id b p cs w outs in (G p', cs', w', outs', ok).
Proof.
  induction n as [|n IH]; intros li local rs id b p cs w outs; cbn [tcp_client_send]; [reflexivity|].
  change (ps_clients (G p)) with (ps_clients p).
  destruct (find_client id (ps_clients p)) as [cl|]; [|reflexivity].
  destruct (tc_cached cl) as [c|].
  - destruct (conn_open cs c); [reflexivity|].
    change (with_clients (G p) ?X) with (G (with_clients p X)). apply IH.
  - destruct (existsb _ (w_tcp_listeners w)); reflexivity.
Qed.
Lemma G_failover_send li local rs f b p cs w :
  failover_send li local rs f b (G p) cs w =
  let '(p', cs', w', outs, ok, f') := failover_send li local rs f b p cs w in (G p', cs', w', outs, ok, f').
Proof.
  unfold failover_send.
  assert (SEC : forall f1 outs0,
    match fo_sec f1 with
    | Some id => let '(p2, cs2, w2, outs2, ok) := tcp_client_send 2 li local rs id b (G p) cs w outs0 in (p2, cs2, w2, outs2, ok, f1)
    | None => (G p, cs, w, outs0, false, f1)
    end =
    let '(p', cs', w', outs, ok, f') :=
      match fo_sec f1 with
      | Some id => let '(p2, cs2, w2, outs2, ok) := tcp_client_send 2 li local rs id b p cs w outs0 in (p2, cs2, w2, outs2, ok, f1)
      | None => (p, cs, w, outs0, false, f1)
      end in (G p', cs', w', outs, ok, f')).
  { intros f1 outs0. destruct (fo_sec f1) as [id|]; [|reflexivity].
    rewrite G_tcp_client_send. destruct (tcp_client_send 2 li local rs id b p cs w outs0) as [[[[p2 cs2] w2] outs2] ok2]. reflexivity. }
  destruct (fo_pri f) as [[ip port|ip port|c ex]|].
  - destruct (fits_datagram b); [reflexivity|apply SEC].
  - destruct (fits_datagram b); [reflexivity|apply SEC].
  - destruct (conn_open cs c); [reflexivity|apply SEC].
  - apply SEC.
Qed.
End Graft.

(* no table entry under a udp key has lost its client (see udp_slot_ok) *)
Definition udp_known (p : pstate) : Prop :=
  forall k f, In (k, f) (ps_table p) -> has_prefix (s2b "udp://") k = true -> fo_pri f <> None.

Lemma get_transport_udp_known now tr host port tid p p1 key :
  equal_fold tr (s2b "udp") = true -> udp_known p -> get_transport now tr host port tid p = (p1, Ok key) ->
  forall f, alookup key (ps_table p1) = Some f -> fo_pri f <> None.
Proof.
  intros EU HK. assert (Htr : to_lower tr = s2b "udp") by (unfold equal_fold in EU; apply beq_eq in EU; exact EU).
  unfold get_transport. cbv zeta. rewrite Htr.
  change (negb (supported_proto (s2b "udp"))) with false. cbv iota. rewrite udp_key_tid.
  change (beq (s2b "udp") (s2b "udp")) with true. cbv iota.
  destruct (alookup (udp_key host port) (ps_table (clean_expired now p))) as [f0|] eqn:EC.
  - intros H. injection H as <- <-. intros f EF.
    assert (E2 : Some f0 = Some f) by (rewrite <- EC; exact EF). injection E2 as <-.
    apply clean_lookup_in in EC. apply (HK _ _ EC). reflexivity.
  - destruct (resolvable host port); [|discriminate].
    intros H. injection H as <- <-. intros f EF. cbn [ps_table with_table] in EF.
    assert (E2 : Some {| fo_pri := Some (PUdp host port); fo_sec := None |} = Some f)
      by (rewrite <- EF; symmetry; apply alookup_aset_same).
    injection E2 as <-. discriminate.
Qed.

Definition regraft pins' rr' gen' (l' : learned) (x : ctx) : ctx :=
  {| x_learned := l'; x_p := graft pins' rr' gen' (x_p x); x_conns := x_conns x; x_world := x_world x; x_outs := x_outs x |}.

Lemma send_message_regraft pins' rr' gen' l' e host port tr m x :
  fx_udp_via_listener (e_fx e) = true -> udp_known (x_p x) ->
  send_message e host port tr m (regraft pins' rr' gen' l' x) =
  (regraft pins' rr' gen' l' (fst (send_message e host port tr m x)), snd (send_message e host port tr m x)).
Proof.
  intros Hfx HK. unfold send_message. cbn [regraft x_learned x_p x_conns x_world x_outs].
  destruct (mtry s_client_transaction m) as [m1 tid]. rewrite G_get_transport.
  destruct (get_transport _ _ _ _ _ (x_p x)) as [p1 rkey] eqn:EG. cbn [fst snd].
  destruct rkey as [key| |]; try reflexivity.
  pose proof (fun EU => get_transport_udp_known _ _ _ _ _ _ _ _ EU HK EG) as HU.
  change (ps_table (graft pins' rr' gen' p1)) with (ps_table p1). rewrite Hfx. cbn [andb].
  set (P2 := match alookup key (ps_table p1) with Some {| fo_pri := None |} => _ | _ => p1 end).
  assert (E2 : P2 = p1).
  { subst P2. destruct (alookup key (ps_table p1)) as [[[pr|] sec]|] eqn:EF; try reflexivity.
    destruct (equal_fold tr (s2b "udp")) eqn:EU; [|reflexivity].
    exfalso. exact (HU eq_refl _ eq_refl eq_refl). }
  set (P2' := match alookup key (ps_table p1) with Some {| fo_pri := None |} => _ | _ => graft pins' rr' gen' p1 end).
  assert (E2' : P2' = graft pins' rr' gen' p1).
  { subst P2'. destruct (alookup key (ps_table p1)) as [[[pr|] sec]|] eqn:EF; try reflexivity.
    destruct (equal_fold tr (s2b "udp")) eqn:EU; [|reflexivity].
    exfalso. exact (HU eq_refl _ eq_refl eq_refl). }
  rewrite E2, E2'. change (ps_table (graft pins' rr' gen' p1)) with (ps_table p1).
  destruct (alookup key (ps_table p1)) as [f|]; [|reflexivity].
  set (hk := if fx_resolved_key (e_fx e) then match get_ip (e_cfg e) host with Some i => i | None => host end else host).
  set (P3 := if is_final_response m1 then remove_transport tr hk port _ p1 else p1).
  assert (E3 : (if is_final_response m1 then remove_transport tr hk port match tid with Ok (Some t) => t | _ => [] end (graft pins' rr' gen' p1)
                else graft pins' rr' gen' p1) = graft pins' rr' gen' P3).
  { subst P3. destruct (is_final_response m1); [|reflexivity]. unfold remove_transport. cbv zeta.
    destruct (negb (supported_proto (to_lower tr))); reflexivity. }
  rewrite E3, G_failover_send.
  destruct (failover_send _ _ _ f _ P3 _ _) as [[[[[p4 cs] w] outs] ok] f'].
  change (ps_table (graft pins' rr' gen' p4)) with (ps_table p4).
  destruct (alookup key (ps_table p4)); reflexivity.
Qed.

(* two contexts that differ only in learned table, pin table, rotation, generation counter *)
Definition same_core (x y : ctx) : Prop :=
  x_conns y = x_conns x /\ x_world y = x_world x /\ x_outs y = x_outs x /\
  ps_backends (x_p y) = ps_backends (x_p x) /\ ps_has_rr (x_p y) = ps_has_rr (x_p x) /\
  ps_table (x_p y) = ps_table (x_p x) /\ ps_clients (x_p y) = ps_clients (x_p x) /\
  ps_last_clean (x_p y) = ps_last_clean (x_p x).

Lemma send_message_indep e host port tr m x y :
  fx_udp_via_listener (e_fx e) = true -> udp_known (x_p x) -> same_core x y ->
  x_outs (fst (send_message e host port tr m y)) = x_outs (fst (send_message e host port tr m x)) /\
  x_conns (fst (send_message e host port tr m y)) = x_conns (fst (send_message e host port tr m x)) /\
  x_world (fst (send_message e host port tr m y)) = x_world (fst (send_message e host port tr m x)).
Proof.
  intros Hfx HK (C1 & C2 & C3 & C4 & C5 & C6 & C7 & C8).
  assert (Ey : y = regraft (ps_pins (x_p y)) (ps_rr (x_p y)) (ps_gen (x_p y)) (x_learned y) x).
  { destruct y as [ly py cy wy oy]. destruct py. cbn in *. subst. reflexivity. }
  rewrite Ey, send_message_regraft by assumption. cbn [fst regraft x_outs x_conns x_world]. repeat split.
Qed.

(* (d) where a response goes does not depend on the pin table, the rotation or the learned
   table: the outputs (destinations AND bytes) are the same *)
Theorem C02_independent_of_pins : forall e from m x pins' rr' gen' l',
  is_response m = true -> fx_udp_via_listener (e_fx e) = true -> udp_known (x_p x) ->
  let y := {| x_learned := l'; x_p := graft pins' rr' gen' (x_p x); x_conns := x_conns x;
              x_world := x_world x; x_outs := x_outs x |} in
  x_outs (fst (handle_message e from m y)) = x_outs (fst (handle_message e from m x)) /\
  x_conns (fst (handle_message e from m y)) = x_conns (fst (handle_message e from m x)) /\
  x_world (fst (handle_message e from m y)) = x_world (fst (handle_message e from m x)).
Proof.
  intros e from m x pins' rr' gen' l' Hr Hfx HK y.
  assert (Hq : is_request m = false) by (unfold is_response in Hr; apply negb_true_iff; exact Hr).
  subst y. unfold handle_message. rewrite Hq.
  destruct (mtry s_pop_via m) as [m1 r1]. destruct (mtry next_response_hop m1) as [m2 hop].
  destruct (mtry s_get_method m2) as [m3 ometh].
  cbn [x_p x_learned x_conns x_world x_outs graft ps_backends ps_pins].
  assert (SI : forall h p t mm pa pb,
     x_outs (fst (send_message e h p t mm {| x_learned := l'; x_p := with_pins (graft pins' rr' gen' (x_p x)) pb; x_conns := x_conns x; x_world := x_world x; x_outs := x_outs x |})) =
     x_outs (fst (send_message e h p t mm {| x_learned := x_learned x; x_p := with_pins (x_p x) pa; x_conns := x_conns x; x_world := x_world x; x_outs := x_outs x |})) /\
     x_conns (fst (send_message e h p t mm {| x_learned := l'; x_p := with_pins (graft pins' rr' gen' (x_p x)) pb; x_conns := x_conns x; x_world := x_world x; x_outs := x_outs x |})) =
     x_conns (fst (send_message e h p t mm {| x_learned := x_learned x; x_p := with_pins (x_p x) pa; x_conns := x_conns x; x_world := x_world x; x_outs := x_outs x |})) /\
     x_world (fst (send_message e h p t mm {| x_learned := l'; x_p := with_pins (graft pins' rr' gen' (x_p x)) pb; x_conns := x_conns x; x_world := x_world x; x_outs := x_outs x |})) =
     x_world (fst (send_message e h p t mm {| x_learned := x_learned x; x_p := with_pins (x_p x) pa; x_conns := x_conns x; x_world := x_world x; x_outs := x_outs x |}))).
  { intros h p t mm pa pb. apply send_message_indep; [exact Hfx|exact HK|repeat split]. }
  assert (SI0 : forall h p t mm,
     x_outs (fst (send_message e h p t mm {| x_learned := l'; x_p := graft pins' rr' gen' (x_p x); x_conns := x_conns x; x_world := x_world x; x_outs := x_outs x |})) =
     x_outs (fst (send_message e h p t mm {| x_learned := x_learned x; x_p := x_p x; x_conns := x_conns x; x_world := x_world x; x_outs := x_outs x |})) /\
     x_conns (fst (send_message e h p t mm {| x_learned := l'; x_p := graft pins' rr' gen' (x_p x); x_conns := x_conns x; x_world := x_world x; x_outs := x_outs x |})) =
     x_conns (fst (send_message e h p t mm {| x_learned := x_learned x; x_p := x_p x; x_conns := x_conns x; x_world := x_world x; x_outs := x_outs x |})) /\
     x_world (fst (send_message e h p t mm {| x_learned := l'; x_p := graft pins' rr' gen' (x_p x); x_conns := x_conns x; x_world := x_world x; x_outs := x_outs x |})) =
     x_world (fst (send_message e h p t mm {| x_learned := x_learned x; x_p := x_p x; x_conns := x_conns x; x_world := x_world x; x_outs := x_outs x |}))).
  { intros h p t mm. apply send_message_indep; [exact Hfx|exact HK|repeat split]. }
  destruct hop as [[[[h p] t]|]| |]; try (repeat split; reflexivity).
  destruct ometh as [[meth|]| |]; try apply SI0.
  destruct (beq meth (s2b "SUBSCRIBE")); [|apply SI0].
  destruct (alookup _ (ps_backends (x_p x))) as [g|]; [|apply SI0].
  destruct (mtry s_get_dialog m3) as [m' od]. destruct od as [[d|]| |]; try apply SI0. apply SI.
Qed.

(* ====================================================================== Part 5: round trip *)
(* where a response goes whose Via headers are those of a request the proxy relayed with its
   own Via on top and the sender's entry stamped (received-support on) *)
Theorem C02_roundtrip_return : forall e from r x br t0 src sport v rest t,
  is_response r = true -> (int_min <= sport <= int_max)%Z ->
  via_hdrs r = Some [own_via br t0] :: Some (stamp src sport v :: rest) :: t ->
  exists m4 pins',
    handle_message e from r x =
      send_message e src (if kv_has (s2b "rport") (v_params v) then sport else via_get_port v) (v_transport v) m4
        {| x_learned := x_learned x; x_p := with_pins (x_p x) pins'; x_conns := x_conns x;
           x_world := x_world x; x_outs := x_outs x |} /\
    via_hdrs m4 = Some (stamp src sport v :: rest) :: t.
Proof.
  intros e from r x br t0 src sport v rest t Hr Hp HV.
  destruct (C02_response_hop e from r x _ _ _ _ Hr (or_intror HV)) as (m4 & pins' & G1 & _ & _ & G4 & _).
  exists m4, pins'. split; [|exact G4]. rewrite G1. f_equal.
  - unfold hop_host. rewrite stamp_received. reflexivity.
  - unfold hop_port. rewrite stamp_received, stamp_rport by exact Hp. rewrite stamp_port.
    destruct (kv_has _ _); reflexivity.
Qed.

(* (e) request q from (src, sport) on a transport with received-support; every copy of it the
   proxy sends carries q's Via headers with only the sender's entry stamped; when the proxy
   pushed its own Via, ANY later response carrying that Via stack (whatever the state, the
   listener, the events in between) is sent to src - to sport iff q's top entry carried an
   rport parameter, else to its sent-by port - over the sender's transport, and carries q's
   Via headers, the stamped received/rport being the only difference *)
Theorem C02_roundtrip : forall e src sport from tcp q x x' v rest t,
  is_request q = true -> via_hdrs q = Some (v :: rest) :: t -> (int_min <= sport <= int_max)%Z ->
  process_message e src sport from true tcp q x = Ok x' ->
  exists outs, x_outs x' = x_outs x ++ outs /\
    Forall (fun o =>
      match fst o with
      | DDial _ _ _ => snd o = []
      | _ => exists q', snd o = write_message q' /\
          (via_hdrs q' = Some (stamp src sport v :: rest) :: t
           \/ exists t0, via_hdrs q' = Some [own_via (e_branch e) t0] :: Some (stamp src sport v :: rest) :: t /\
                forall e2 from2 r y, is_response r = true -> via_hdrs r = via_hdrs q' ->
                  exists m4 pins',
                    handle_message e2 from2 r y =
                      send_message e2 src (if kv_has (s2b "rport") (v_params v) then sport else via_get_port v)
                        (v_transport v) m4
                        {| x_learned := x_learned y; x_p := with_pins (x_p y) pins'; x_conns := x_conns y;
                           x_world := x_world y; x_outs := x_outs y |} /\
                    via_hdrs m4 = Some (stamp src sport v :: rest) :: t)
      end) outs.
Proof.
  intros e src sport from tcp q x x' v rest t Hq HV Hp H.
  destruct (C07_pipeline _ _ _ _ _ _ _ _ _ Hq H) as (outs & H1 & H2). exists outs. split; [exact H1|].
  rewrite HV in H2. cbn [stamp_hdrs] in H2. eapply Forall_impl; [|exact H2].
  intros o. unfold relayed_as. destruct (fst o); try (intros E; exact E);
    intros (q' & E1 & [E2|(t0 & E2)]); exists q'; (split; [exact E1|]); try (left; exact E2);
    right; exists t0; (split; [exact E2|]); intros e2 from2 r y Hr HR; rewrite E2 in HR;
    exact (C02_roundtrip_return e2 from2 r y _ _ _ _ _ _ _ Hr Hp HR).
Qed.

(* ====================================================================== Part 6: pipeline *)
Definition mpost {A} (x : M A) (P : A -> Prop) : Prop := forall m a, snd (x m) = Ok a -> P a.
Lemma mpost_mret {A} (a : A) (P : A -> Prop) : P a -> mpost (mret a) P.
Proof. intros H m a' E. cbn in E. injection E as <-. exact H. Qed.
Lemma mpost_mbind {A B} (x : M A) (f : A -> M B) (P : A -> Prop) (Q : B -> Prop) :
  mpost x P -> (forall a, P a -> mpost (f a) Q) -> mpost (mbind x f) Q.
Proof.
  intros Hx Hf m b. unfold mbind. specialize (Hx m). destruct (x m) as [m1 r]. cbn [snd] in Hx.
  destruct r as [a| |]; cbn; try discriminate. apply (Hf a (Hx a eq_refl)).
Qed.
Lemma mpost_true {A} (x : M A) : mpost x (fun _ => True).
Proof. intros m a _. exact I. Qed.

Definition pinsonly (p p' : pstate) : Prop := exists pins', p' = with_pins p pins'.
Lemma pinsonly_refl p : pinsonly p p.
Proof. exists (ps_pins p). symmetry. apply with_pins_same. Qed.
Lemma pinsonly_with p p' a : pinsonly p p' -> pinsonly p (with_pins p' a).
Proof. intros (b & ->). exists a. reflexivity. Qed.

(* handleDialog only touches the pin table *)
Lemma handle_dialog_pins e peer port p : mpost (handle_dialog e peer port p) (pinsonly p).
Proof.
  unfold handle_dialog.
  apply mpost_mbind with (P := fun pb => pinsonly p (fst pb)).
  - destruct (alookup _ (ps_backends p)); [apply mpost_mret, pinsonly_refl|].
    apply mpost_mbind with (P := fun _ => True); [apply mpost_true|intros tid _].
    destruct (pins_get (e_now e) tid (ps_pins p)) as [pins1 ob].
    apply mpost_mbind with (P := fun _ => True); [apply mpost_true|intros fin _].
    apply mpost_mret. cbn. apply pinsonly_with, pinsonly_refl.
  - intros [p1 ob] Hp. cbn [fst] in Hp. destruct ob as [b|]; [|apply mpost_mret; exact Hp].
    apply mpost_mbind with (P := fun _ => True); [apply mpost_true|intros [meth|] _]; [|apply mpost_mret; exact Hp].
    destruct (beq meth (s2b "INVITE")).
    + apply mpost_mbind with (P := fun _ => True); [apply mpost_true|intros od _].
      apply mpost_mbind with (P := fun _ => True); [apply mpost_true|intros ex _].
      destruct od; apply mpost_mret; [apply pinsonly_with|]; exact Hp.
    + destruct (beq meth (s2b "BYE")); [|apply mpost_mret; exact Hp].
      apply mpost_mbind with (P := fun _ => True); [apply mpost_true|intros od _].
      destruct od; apply mpost_mret; [apply pinsonly_with|]; exact Hp.
Qed.

(* a response through handleRawMessage: never stamped (whatever rs), no learning, then (a)/(b) *)
Theorem C02_process_response : forall e peer port from rs tcp m0 x x',
  is_response m0 = true ->
  process_message e peer port from rs tcp m0 x = Ok x' ->
  match top_view (pop_view (via_hdrs m0)) with
  | Some v2 =>
      exists m4 pins',
        x' = fst (send_message e (hop_host v2) (hop_port v2) (v_transport v2) m4
                   {| x_learned := x_learned x; x_p := with_pins (x_p x) pins'; x_conns := x_conns x;
                      x_world := x_world x; x_outs := x_outs x |}) /\
        m_start m4 = m_start m0 /\ m_body m4 = m_body m0 /\ via_hdrs m4 = pop_view (via_hdrs m0)
  | None => x_outs x' = x_outs x /\ x_conns x' = x_conns x /\ x_world x' = x_world x /\ x_learned x' = x_learned x
  end.
Proof.
  intros e peer port from rs tcp m0 x x' Hr.
  assert (Hq : is_request m0 = false) by (unfold is_response in Hr; apply negb_true_iff; exact Hr).
  unfold process_message. cbv zeta. repeat (progress (rewrite ?Hq; cbn [andb]; cbv beta iota)).
  assert (TP : match tcp with
               | Some c => (m0, Ok (x_p x))
               | None => (m0, @Ok pstate (x_p x))
               end = (m0, Ok (x_p x))) by (destruct tcp; reflexivity).
  rewrite TP. cbv beta iota zeta.
  set (m4 := fst (mtry (try_remove_top_route (e_cfg e) from) m0)).
  assert (V4 : veq m0 m4) by (apply (vpres_mtry _ (vpres_try_remove_top_route _ _))).
  rewrite (veq_is_response _ _ V4), Hr. clearbody m4.
  pose proof (vpres_handle_dialog e peer port (x_p x) m4) as VD.
  pose proof (handle_dialog_pins e peer port (x_p x) m4) as PD.
  destruct (handle_dialog e peer port (x_p x) m4) as [m5 r]. cbn [fst snd] in VD, PD.
  assert (V5 : veq m0 m5) by (eapply veq_trans; eassumption).
  assert (P2 : exists pins2, match r with Ok p' => p' | _ => x_p x end = with_pins (x_p x) pins2).
  { destruct r as [p'| |]; [exact (PD p' eq_refl)| |]; exists (ps_pins (x_p x)); symmetry; apply with_pins_same. }
  destruct P2 as (pins2 & ->). intros H. injection H as <-.
  assert (Q5 : is_request m5 = false) by (rewrite (veq_is_request _ _ V5); exact Hq).
  destruct V5 as (S5 & B5 & H5).
  match goal with |- context [handle_message e from m5 ?X] =>
    pose proof (C02_response_general e from m5 X Q5) as G end.
  rewrite H5 in G. destruct (top_view (pop_view (via_hdrs m0))) as [v2|].
  - destruct G as (m6 & pins' & G1 & G2 & G3 & G4). exists m6, pins'. rewrite G1.
    split; [reflexivity|]. repeat split; congruence.
  - rewrite G. repeat split.
Qed.

Theorem C02_step_udp : forall fx c now br st li src sport data lc p m rest st' outs,
  nth_opt (c_listens c) li = Some lc -> nth_p (st_proxies st) li = Some p ->
  parse_message data = Ok (m, rest) -> is_response m = true ->
  proxy_step fx c now br st (EvUdp li src sport data) = Ok (st', outs) ->
  match top_view (pop_view (via_hdrs m)) with
  | Some v2 =>
      exists m4 pins',
        outs = x_outs (fst (send_message (mk_env fx c (item_rs_of (fx_wiring fx)) li lc now br)
                              (hop_host v2) (hop_port v2) (v_transport v2) m4
                              {| x_learned := st_learned st; x_p := with_pins p pins'; x_conns := st_conns st;
                                 x_world := st_world st; x_outs := [] |})) /\
        m_start m4 = m_start m /\ m_body m4 = m_body m /\ via_hdrs m4 = pop_view (via_hdrs m)
  | None => outs = []
  end.
Proof.
  intros fx c now br st li src sport data lc p m rest st' outs EL EP EM Hr H.
  cbn [proxy_step] in H. rewrite EL, EM in H. unfold run_ctx in H. rewrite EP in H.
  destruct (process_message _ _ _ _ _ _ _ _) as [x'| |] eqn:E; try discriminate.
  injection H as <- <-. pose proof (C02_process_response _ _ _ _ _ _ _ _ _ Hr E) as G.
  cbn [x_learned x_p x_conns x_world x_outs] in G.
  destruct (top_view (pop_view (via_hdrs m))) as [v2|].
  - destruct G as (m4 & pins' & -> & G2). exists m4, pins'. split; [reflexivity|exact G2].
  - apply G.
Qed.

(* end to end, UDP next hop: exactly one datagram, to the resolved address of the entry on top
   after the pop, carrying the popped Via headers *)
Corollary C02_step_udp_relay_udp : forall fx c now br st li src sport data lc p m rest st' outs v2 ip,
  nth_opt (c_listens c) li = Some lc -> nth_p (st_proxies st) li = Some p ->
  parse_message data = Ok (m, rest) -> is_response m = true ->
  proxy_step fx c now br st (EvUdp li src sport data) = Ok (st', outs) ->
  top_view (pop_view (via_hdrs m)) = Some v2 ->
  to_lower (v_transport v2) = s2b "udp" -> get_ip c (hop_host v2) = Some ip ->
  resolvable ip (hop_port v2) = true -> udp_slot_ok ip (hop_port v2) p ->
  exists m', via_hdrs m' = pop_view (via_hdrs m) /\ m_start m' = m_start m /\ m_body m' = m_body m /\
             (fits_datagram (write_message m') = true -> outs = [(DUdp ip (hop_port v2), write_message m')]).
Proof.
  intros fx c now br st li src sport data lc p m rest st' outs v2 ip EL EP EM Hr H HT Htr Hip Hres Hslot.
  pose proof (C02_step_udp _ _ _ _ _ _ _ _ _ _ _ _ _ _ _ EL EP EM Hr H) as G. rewrite HT in G.
  destruct G as (m4 & pins' & -> & G2 & G3 & G4). exists (sent_msg m4).
  destruct (veq_sent_msg m4) as (V1 & V2 & V3). repeat split; try congruence.
  intros Hfit.
  match goal with |- x_outs (fst (send_message ?e ?h ?pt ?tr ?mm ?X)) = _ =>
    rewrite (C02_dest_udp e h pt tr mm X ip Htr Hip Hres Hslot Hfit) end. reflexivity.
Qed.

(* ====================================================================== Part 7: the TCP slot condition is an invariant *)
(* with findClientTransport repaired, no state the proxy reaches has a UDP client under a tcp
   key: C02_dest_tcp applies to every reachable state *)
Lemma in_adel {V} k k' (f : V) t : In (k, f) (adel k' t) -> In (k, f) t.
Proof.
  induction t as [|[k0 v0] r IH]; cbn; [auto|].
  destruct (beq k' k0); cbn; intros H; [right; apply IH; exact H|].
  destruct H as [H|H]; [left; exact H|right; apply IH; exact H].
Qed.
Definition pri_not_udp (o : option primary) : Prop :=
  forall ip port, o <> Some (PUdp ip port) /\ o <> Some (PUdpVia ip port).
Definition tso_table (t : list (bytes * failover)) : Prop :=
  forall k f, In (k, f) t -> has_prefix (s2b "tcp://") k = true -> pri_not_udp (fo_pri f).
Lemma tso_iff p : tcp_slot_ok p <-> tso_table (ps_table p).
Proof. split; intros H; exact H. Qed.
Lemma tso_aset t k v : tso_table t -> (has_prefix (s2b "tcp://") k = true -> pri_not_udp (fo_pri v)) -> tso_table (aset k v t).
Proof.
  intros Ht Hv k0 f0 HI HP. apply aset_in in HI. destruct HI as [[-> ->]|HI]; [apply Hv; exact HP|exact (Ht _ _ HI HP)].
Qed.
Lemma pnu_none : pri_not_udp None. Proof. intros ip port. split; discriminate. Qed.
Lemma pnu_conn c ex : pri_not_udp (Some (PConn c ex)). Proof. intros ip port. split; discriminate. Qed.

Lemma tso_clean now p : tcp_slot_ok p -> tcp_slot_ok (clean_expired now p).
Proof.
  unfold clean_expired. destruct (Z.ltb _ 60); [auto|]. intros H k f HI. cbn [ps_table] in HI.
  apply filter_In in HI. apply H, HI.
Qed.
Lemma udp_key_not_tcp host port tid : has_prefix (s2b "tcp://") (full_addr (s2b "udp") host port tid) = false.
Proof. reflexivity. Qed.
Lemma get_transport_key now proto host port tid p p1 key :
  get_transport now proto host port tid p = (p1, Ok key) -> key = full_addr (to_lower proto) host port tid.
Proof.
  unfold get_transport. cbv zeta. destruct (negb _); [discriminate|].
  destruct (alookup _ _); [intros H; injection H as _ <-; reflexivity|].
  destruct (beq _ (s2b "udp")); [destruct (resolvable host port); [intros H; injection H as _ <-; reflexivity|discriminate]|].
  destruct (alookup _ _); intros H; injection H as _ <-; reflexivity.
Qed.
Lemma tso_get_transport now proto host port tid p :
  tcp_slot_ok p -> tcp_slot_ok (fst (get_transport now proto host port tid p)).
Proof.
  intros H. pose proof (tso_clean now p H) as HC. unfold get_transport. cbv zeta.
  destruct (negb _); [exact HC|]. destruct (alookup _ _); [exact HC|].
  destruct (beq (to_lower proto) (s2b "udp")) eqn:EB.
  - destruct (resolvable host port); [|exact HC]. cbn [fst]. apply tso_iff. cbn [ps_table with_table].
    apply tso_aset; [exact HC|]. apply beq_eq in EB. rewrite EB. intros HP.
    rewrite udp_key_not_tcp in HP. discriminate.
  - destruct (alookup _ _) as [f|]; cbn [fst]; apply tso_iff; cbn [ps_table with_table with_clients].
    + apply tso_aset; [exact HC|]. intros _. apply pnu_none.
    + apply tso_aset; [apply tso_aset; [exact HC|]|]; intros _; apply pnu_none.
Qed.
Lemma tso_set_primary key pr p :
  tcp_slot_ok p -> (has_prefix (s2b "tcp://") key = true -> pri_not_udp (Some pr)) -> tcp_slot_ok (set_primary key pr p).
Proof.
  intros H Hp. unfold set_primary. destruct (alookup key (ps_table p)); [|exact H].
  apply tso_iff. cbn [ps_table with_table]. apply tso_aset; [exact H|exact Hp].
Qed.
Lemma tso_remove_transport proto host port tid p : tcp_slot_ok p -> tcp_slot_ok (remove_transport proto host port tid p).
Proof.
  intros H. unfold remove_transport. cbv zeta. destruct (negb _); [exact H|].
  intros k f HI. cbn [ps_table with_table] in HI. apply in_adel in HI. apply H. exact HI.
Qed.
Lemma tcs_table n : forall li local rs id b p cs w outs p' cs' w' outs' ok,
  tcp_client_send n li local rs id b p cs w outs = (p', cs', w', outs', ok) -> ps_table p' = ps_table p.
Proof.
  induction n as [|n IH]; intros li local rs id b p cs w outs p' cs' w' outs' ok; cbn [tcp_client_send].
  - intros H. injection H as <- _ _ _ _. reflexivity.
  - destruct (find_client id (ps_clients p)) as [cl|]; [|intros H; injection H as <- _ _ _ _; reflexivity].
    destruct (tc_cached cl) as [c|].
    + destruct (conn_open cs c); [intros H; injection H as <- _ _ _ _; reflexivity|].
      intros H. apply IH in H. exact H.
    + destruct (existsb _ (w_tcp_listeners w)); intros H; injection H as <- _ _ _ _; reflexivity.
Qed.
Lemma fos_table li local rs f b p cs w p' cs' w' outs ok f' :
  failover_send li local rs f b p cs w = (p', cs', w', outs, ok, f') ->
  ps_table p' = ps_table p /\ (fo_pri f' = fo_pri f \/ fo_pri f' = None).
Proof.
  unfold failover_send.
  assert (SEC : forall f1 outs0 p' cs' w' outs ok f',
            match fo_sec f1 with
            | Some id => let '(p2, cs2, w2, outs2, ok) := tcp_client_send 2 li local rs id b p cs w outs0 in
                         (p2, cs2, w2, outs2, ok, f1)
            | None => (p, cs, w, outs0, false, f1)
            end = (p', cs', w', outs, ok, f') -> ps_table p' = ps_table p /\ f' = f1).
  { intros f1 outs0 p2 cs2 w2 outs2 ok2 f2. destruct (fo_sec f1) as [id|].
    - destruct (tcp_client_send 2 li local rs id b p cs w outs0) as [[[[p3 cs3] w3] outs3] ok3] eqn:E.
      intros H. injection H as <- _ _ _ _ <-. split; [exact (tcs_table _ _ _ _ _ _ _ _ _ _ _ _ _ _ _ E)|reflexivity].
    - intros H. injection H as <- _ _ _ _ <-. split; reflexivity. }
  destruct (fo_pri f) as [[ip port|ip port|c ex]|] eqn:EP.
  - destruct (fits_datagram b).
    + intros H. injection H as <- _ _ _ _ <-. split; [reflexivity|left; exact EP].
    + intros H. apply SEC in H. destruct H as [H1 ->]. split; [exact H1|right; reflexivity].
  - destruct (fits_datagram b).
    + intros H. injection H as <- _ _ _ _ <-. split; [reflexivity|left; exact EP].
    + intros H. apply SEC in H. destruct H as [H1 ->]. split; [exact H1|right; reflexivity].
  - destruct (conn_open cs c).
    + intros H. injection H as <- _ _ _ _ <-. split; [reflexivity|left; exact EP].
    + intros H. apply SEC in H. destruct H as [H1 ->]. split; [exact H1|right; reflexivity].
  - intros H. apply SEC in H. destruct H as [H1 ->]. split; [exact H1|left; exact EP].
Qed.

Lemma tso_send_message e host port tr m x :
  fx_udp_via_listener (e_fx e) = true -> tcp_slot_ok (x_p x) ->
  tcp_slot_ok (x_p (fst (send_message e host port tr m x))).
Proof.
  intros Hfx H0. unfold send_message. destruct (mtry s_client_transaction m) as [m1 tid].
  match goal with |- context [get_transport ?a ?b ?c ?d ?e0 ?f] =>
    pose proof (tso_get_transport a b c d e0 f H0) as H1;
    destruct (get_transport a b c d e0 f) as [p1 rkey] eqn:EG end.
  cbn [fst] in H1. destruct rkey as [key| |]; try exact H1.
  pose proof (get_transport_key _ _ _ _ _ _ _ _ EG) as EK.
  set (P2 := match alookup key (ps_table p1) with Some {| fo_pri := None |} => _ | _ => p1 end).
  assert (H2 : tcp_slot_ok P2).
  { subst P2. destruct (alookup key (ps_table p1)) as [[[pr|] sec]|]; try exact H1.
    rewrite Hfx. cbn [andb]. destruct (equal_fold tr (s2b "udp")) eqn:EU; cbn [negb]; [|exact H1].
    match goal with |- context [alookup ?ip (x_learned x)] => destruct (alookup ip (x_learned x)) as [[[| |] a pt]|] end; try exact H1.
    destruct (resolvable _ port); [|exact H1].
    apply tso_set_primary; [exact H1|]. intros HP. exfalso.
    unfold equal_fold in EU. apply beq_eq in EU. change (to_lower (s2b "udp")) with (s2b "udp") in EU.
    rewrite EK, EU, udp_key_not_tcp in HP. discriminate. }
  clearbody P2. destruct (alookup key (ps_table P2)) as [f|] eqn:EF; [|exact H2].
  set (P3 := if is_final_response m1 then _ else P2).
  assert (H3 : tcp_slot_ok P3) by (subst P3; destruct (is_final_response m1); [apply tso_remove_transport|]; exact H2).
  clearbody P3.
  match goal with |- context [failover_send ?a ?b ?c ?d ?e0 ?f0 ?g ?h] =>
    destruct (failover_send a b c d e0 f0 g h) as [[[[[p4 cs] w] outs] ok] f'] eqn:EFS end.
  destruct (fos_table _ _ _ _ _ _ _ _ _ _ _ _ _ _ EFS) as [T4 PF].
  assert (H4 : tcp_slot_ok p4) by (apply tso_iff; rewrite T4; exact H3).
  destruct (alookup key (ps_table p4)); cbn [fst x_p]; [|exact H4].
  apply tso_iff. cbn [ps_table with_table]. apply tso_aset; [exact H4|]. intros HP.
  destruct PF as [-> | ->]; [|apply pnu_none]. apply alookup_in in EF. exact (H2 _ _ EF HP).
Qed.

Lemma find_backend_by_dialog_pins e p : mpost (find_backend_by_dialog e p) (fun r => pinsonly p (fst r)).
Proof.
  unfold find_backend_by_dialog.
  apply mpost_mbind with (P := fun _ => True); [apply mpost_true|intros meth _].
  destruct (_ && _)%bool; [apply mpost_mret, pinsonly_refl|].
  apply mpost_mbind with (P := fun _ => True); [apply mpost_true|intros [d|] _]; [|apply mpost_mret, pinsonly_refl].
  destruct (pins_get (e_now e) d (ps_pins p)) as [pins1 ob]. cbv zeta.
  destruct (_ && _)%bool; [apply mpost_mret; cbn [fst]; apply pinsonly_with, pinsonly_with, pinsonly_refl|].
  apply mpost_mbind with (P := fun _ => True); [apply mpost_true|intros ss _].
  apply mpost_mret. cbn [fst]. destruct (_ && _)%bool; [apply pinsonly_with|]; apply pinsonly_with, pinsonly_refl.
Qed.
Lemma send_to_backend_table e m x : ps_table (x_p (fst (send_to_backend e m x))) = ps_table (x_p x).
Proof.
  unfold send_to_backend. destruct (negb _); [reflexivity|]. destruct (first_transport (e_lc e)) as [t0|]; [|reflexivity].
  pose proof (find_backend_by_dialog_pins e (x_p x) m) as PD.
  destruct (find_backend_by_dialog e (x_p x) m) as [m1 r]. cbn [snd] in PD.
  assert (P1 : ps_table (fst (match r with Ok v => v | _ => (x_p x, None) end)) = ps_table (x_p x)).
  { destruct r as [[p1 ob]| |]; try reflexivity. destruct (PD _ eq_refl) as (pp & E). cbn [fst] in E |- *. rewrite E. reflexivity. }
  destruct (match r with Ok v => v | _ => (x_p x, None) end) as [p1 ob]. cbn [fst] in P1.
  match goal with |- context [backend_send ?b ?bs p1] => destruct (backend_send b bs p1) as [[p2 outs] ok] eqn:EB end.
  assert (P2 : ps_table p2 = ps_table p1).
  { unfold backend_send in EB. destruct (match ob with Some b => b | None => BRR end) as [a g|].
    - destruct (_ && _)%bool; injection EB as <- _ _; reflexivity.
    - destruct (rr_dispatch (ps_rr p1)) as [r' o]. destruct o as [a|]; [destruct (fits_datagram _)|]; injection EB as <- _ _; reflexivity. }
  destruct ok.
  - match goal with |- context [mtry s_client_transaction ?mm] => destruct (mtry s_client_transaction mm) as [m3 tid] end.
    cbn [fst x_p]. destruct tid as [[t|]| |]; cbn [ps_table with_pins]; congruence.
  - cbn [fst x_p]. congruence.
Qed.

Ltac tso_send :=
  match goal with |- tcp_slot_ok (x_p (fst (send_message ?e ?h ?p ?t ?m ?X))) =>
    apply (tso_send_message e h p t m X); [assumption|assumption] end.
Lemma tso_handle_message e from m x :
  fx_udp_via_listener (e_fx e) = true -> tcp_slot_ok (x_p x) -> tcp_slot_ok (x_p (fst (handle_message e from m x))).
Proof.
  intros Hfx H0. unfold handle_message. destruct (is_request m).
  - destruct (next_request_hop _ _ m) as [m1 r].
    assert (BK : tcp_slot_ok (x_p (fst (if is_my_message (new_my_name (c_name (e_cfg e))) from m1
                                        then send_to_backend e m1 x else (x, m1))))).
    { destruct (is_my_message _ from m1); [|exact H0]. apply tso_iff. rewrite send_to_backend_table. exact H0. }
    destruct r as [[[host port] tr]| |]; try exact BK. tso_send.
  - destruct (mtry s_pop_via m) as [m1 r1]. destruct (mtry next_response_hop m1) as [m2 hop].
    destruct (mtry s_get_method m2) as [m3 ometh].
    assert (HP : forall a, tcp_slot_ok (with_pins (x_p x) a)) by (intros a; exact H0).
    destruct hop as [[[[h p] t]|]| |]; try exact H0.
    destruct ometh as [[meth|]| |]; try (cbn [x_p]; tso_send).
    destruct (beq meth (s2b "SUBSCRIBE")); [|cbn [x_p]; tso_send].
    destruct (alookup _ (ps_backends (x_p x))); [|cbn [x_p]; tso_send].
    destruct (mtry s_get_dialog m3) as [m' od]. destruct od as [[d|]| |]; try (cbn [x_p]; tso_send).
Qed.
Lemma tso_process_message e peer port from rs tcp m0 x x' :
  fx_udp_via_listener (e_fx e) = true -> tcp_slot_ok (x_p x) ->
  process_message e peer port from rs tcp m0 x = Ok x' -> tcp_slot_ok (x_p x').
Proof.
  intros Hfx H0. unfold process_message.
  destruct (if (is_request m0 && _)%bool then _ else _) as [m1 l1].
  set (TP := match tcp with Some c => _ | None => _ end).
  assert (HT : forall p1, snd TP = Ok p1 -> tcp_slot_ok p1).
  { subst TP. destruct tcp as [c|]; [|cbn; intros p1 E; injection E as <-; exact H0].
    destruct (is_request _); [|cbn; intros p1 E; injection E as <-; exact H0].
    destruct (mtry next_response_hop _) as [m' hop].
    destruct hop as [oh| |]; try (cbn; intros p1 E; injection E as <-; exact H0).
    destruct (if has_prefix _ _ then _ else _) as [host| |]; try (cbn; discriminate).
    destruct oh as [hh|]; [|cbn; intros p1 E; injection E as <-; exact H0].
    destruct (mtry s_client_transaction m') as [m'' tid].
    destruct tid as [[t|]| |]; try (cbn; intros p1 E; injection E as <-; exact H0).
    match goal with |- context [get_transport ?a ?b ?c0 ?d ?e0 ?f] =>
      pose proof (tso_get_transport a b c0 d e0 f H0) as H1; destruct (get_transport a b c0 d e0 f) as [p1 rk] end.
    cbn [fst] in H1. destruct rk; cbn; intros p2 E; injection E as <-; try exact H1.
    apply tso_set_primary; [exact H1|]. intros _. apply pnu_conn. }
  clearbody TP. destruct TP as [m3 rp]. cbn [snd] in HT.
  destruct rp as [p1| |]; try discriminate. specialize (HT p1 eq_refl). cbv zeta.
  set (DP := if is_response _ then _ else _).
  assert (HD : tcp_slot_ok (snd DP)).
  { subst DP. destruct (is_response _); [|exact HT].
    pose proof (handle_dialog_pins e peer port p1 (fst (mtry (try_remove_top_route (e_cfg e) from) m3))) as PD.
    destruct (handle_dialog _ _ _ _ _) as [m' r]. cbn [snd] in PD |- *.
    destruct r as [p'| |]; try exact HT. destruct (PD p' eq_refl) as (pp & ->). exact HT. }
  clearbody DP. destruct DP as [m5 p2]. cbn [snd] in HD. intros H. injection H as <-.
  apply tso_handle_message; [exact Hfx|exact HD].
Qed.
Lemma tso_tcp_messages f : forall e c s x x',
  fx_udp_via_listener (e_fx e) = true -> tcp_slot_ok (x_p x) -> tcp_messages f e c s x = Ok x' -> tcp_slot_ok (x_p x').
Proof.
  induction f as [|f IH]; intros e c s x x' Hfx H0; cbn [tcp_messages].
  - intros H. injection H as <-. exact H0.
  - destruct (trim_left s); [intros H; injection H as <-; exact H0|].
    destruct (parse_message s) as [[m rest]| |]; try (intros H; injection H as <-; exact H0).
    destruct (process_message e _ _ _ _ _ m x) as [x1| |] eqn:EP; try discriminate.
    intros H. exact (IH _ _ _ _ _ Hfx (tso_process_message _ _ _ _ _ _ _ _ _ Hfx H0 EP) H).
Qed.

Lemma Forall_set_nth_p (P : pstate -> Prop) l i p : Forall P l -> P p -> Forall P (set_nth_p l i p).
Proof.
  intros H Hp. revert i. induction H as [|a r Ha Hr IH]; intros i; [destruct i; constructor|].
  destruct i; cbn; constructor; auto.
Qed.
Lemma Forall_nth_p (P : pstate -> Prop) l i p : Forall P l -> nth_p l i = Some p -> P p.
Proof.
  intros H. revert i. unfold nth_p. induction H as [|a r Ha Hr IH]; intros i; [destruct i; discriminate|].
  destruct i; cbn; [intros E; injection E as <-; exact Ha|apply IH].
Qed.

Theorem C02_tcp_slot_step : forall fx c now br st ev st' outs,
  fx_udp_via_listener fx = true -> Forall tcp_slot_ok (st_proxies st) ->
  proxy_step fx c now br st ev = Ok (st', outs) -> Forall tcp_slot_ok (st_proxies st').
Proof.
  intros fx c now br st ev st' outs Hfx W H.
  destruct ev as [li src sport data|li src sport|cid data|cid|li a|li a]; cbn [proxy_step] in H.
  - destruct (nth_opt (c_listens c) li) as [lc|]; [|injection H as <- _; exact W].
    destruct (parse_message data) as [[m rest]| |]; try (injection H as <- _; exact W).
    unfold run_ctx in H. destruct (nth_p (st_proxies st) li) as [p|] eqn:EN; [|injection H as <- _; exact W].
    destruct (process_message _ _ _ _ _ _ _ _) as [x'| |] eqn:EP; try discriminate.
    injection H as <- _. cbn [st_proxies]. apply Forall_set_nth_p; [exact W|].
    refine (tso_process_message _ _ _ _ _ _ _ _ _ _ _ EP); [exact Hfx|exact (Forall_nth_p _ _ _ _ W EN)].
  - destruct (nth_opt (c_listens c) li) as [lc|]; [|injection H as <- _; exact W].
    destruct (nth_p (st_proxies st) li) as [p|] eqn:EN; [|injection H as <- _; exact W].
    match type of H with context [get_transport ?a ?b ?c0 ?d ?e0 ?f] =>
      pose proof (tso_get_transport a b c0 d e0 f (Forall_nth_p _ _ _ _ W EN)) as H1;
      destruct (get_transport a b c0 d e0 f) as [p1 rk] end.
    cbn [fst] in H1. injection H as <- _. cbn [st_proxies]. apply Forall_set_nth_p; [exact W|].
    destruct rk; try exact H1. apply tso_set_primary; [exact H1|]. intros _. apply pnu_conn.
  - destruct (find _ (st_conns st)) as [cn|]; [|injection H as <- _; exact W].
    destruct (cn_open cn); [|injection H as <- _; exact W].
    destruct (nth_opt (c_listens c) (cn_li cn)) as [lc|]; [|injection H as <- _; exact W].
    unfold run_ctx in H. destruct (nth_p (st_proxies st) (cn_li cn)) as [p|] eqn:EN; [|injection H as <- _; exact W].
    destruct (tcp_messages _ _ _ _ _) as [x'| |] eqn:EP; try discriminate.
    injection H as <- _. cbn [st_proxies]. apply Forall_set_nth_p; [exact W|].
    refine (tso_tcp_messages _ _ _ _ _ _ _ _ EP); [exact Hfx|exact (Forall_nth_p _ _ _ _ W EN)].
  - injection H as <- _. exact W.
  - destruct (nth_p (st_proxies st) li) as [p|] eqn:EN; [|injection H as <- _; exact W].
    injection H as <- _. cbn [st_proxies]. apply Forall_set_nth_p; [exact W|].
    exact (Forall_nth_p _ _ _ _ W EN).
  - destruct (nth_p (st_proxies st) li) as [p|] eqn:EN; [|injection H as <- _; exact W].
    destruct (rr_remove a (ps_rr p)) as [r' closed]. injection H as <- _. cbn [st_proxies].
    apply Forall_set_nth_p; [exact W|]. exact (Forall_nth_p _ _ _ _ W EN).
Qed.

Theorem C02_tcp_slot_reachable : forall fx c st,
  fx_udp_via_listener fx = true -> reachable fx c st -> Forall tcp_slot_ok (st_proxies st).
Proof.
  intros fx c st Hfx R. induction R as [now tl|st now br ev st' outs R IH H].
  - cbn [init_state st_proxies]. apply Forall_forall. intros p HI. apply in_map_iff in HI.
    destruct HI as (lc & <- & _). intros k f [].
  - exact (C02_tcp_slot_step _ _ _ _ _ _ _ _ Hfx IH H).
Qed.

(* end to end: in every reachable state of the repaired tree, a response whose next Via entry
   names TCP never leaves as a datagram: at most one dial and one write on a connection *)
Corollary C02_step_udp_relay_tcp : forall c now br st li src sport data lc p m rest st' outs v2,
  reachable all_fixed c st ->
  nth_opt (c_listens c) li = Some lc -> nth_p (st_proxies st) li = Some p ->
  parse_message data = Ok (m, rest) -> is_response m = true ->
  proxy_step all_fixed c now br st (EvUdp li src sport data) = Ok (st', outs) ->
  top_view (pop_view (via_hdrs m)) = Some v2 -> to_lower (v_transport v2) = s2b "tcp" ->
  exists m', via_hdrs m' = pop_view (via_hdrs m) /\ m_start m' = m_start m /\ m_body m' = m_body m /\
             tcp_shape (write_message m') outs.
Proof.
  intros c now br st li src sport data lc p m rest st' outs v2 R EL EP EM Hr H HT Htr.
  pose proof (C02_step_udp _ _ _ _ _ _ _ _ _ _ _ _ _ _ _ EL EP EM Hr H) as G. rewrite HT in G.
  destruct G as (m4 & pins' & -> & G2 & G3 & G4). exists (sent_msg m4).
  destruct (veq_sent_msg m4) as (V1 & V2 & V3). repeat split; try congruence.
  pose proof (Forall_nth_p _ _ _ _ (C02_tcp_slot_reachable all_fixed c st eq_refl R) EP) as HS.
  match goal with |- tcp_shape _ (x_outs (fst (send_message ?e ?h ?pt ?tr ?mm ?X))) =>
    destruct (C02_dest_tcp e h pt tr mm X eq_refl Htr HS) as (os & H1 & H2) end.
  rewrite H1. exact H2.
Qed.

(* TCP chunk carrying responses: per message, in order *)
Theorem C02_step_tcp : forall fx c now br st cid data cn lc st' outs,
  find (fun x => Nat.eqb (cn_id x) cid) (st_conns st) = Some cn ->
  nth_opt (c_listens c) (cn_li cn) = Some lc ->
  proxy_step fx c now br st (EvTcpData cid data) = Ok (st', outs) ->
  exists oss, outs = List.concat oss /\
    Forall2 (fun m os => is_response m = true ->
               match top_view (pop_view (via_hdrs m)) with
               | Some v2 => exists m', via_hdrs m' = pop_view (via_hdrs m) /\ Forall (out_is m') os
               | None => os = []
               end)
            (firstn (List.length oss) (parse_stream (S (List.length data)) data)) oss.
Proof.
  intros fx c now br st cid data cn lc st' outs EF EL H.
  cbn [proxy_step] in H. rewrite EF in H.
  destruct (cn_open cn); [|injection H as <- <-; exists []; split; [reflexivity|constructor]].
  rewrite EL in H. unfold run_ctx in H.
  destruct (nth_p (st_proxies st) (cn_li cn)) as [p|]; [|injection H as <- <-; exists []; split; [reflexivity|constructor]].
  destruct (tcp_messages _ _ _ _ _) as [x'| |] eqn:E; try discriminate.
  injection H as <- <-.
  refine (tcp_messages_outs _ _ _ _ _ _ _ _ E).
  intros m x x1 EP. destruct (is_response m) eqn:Hr.
  - pose proof (C02_process_response _ _ _ _ _ _ _ _ _ Hr EP) as G.
    destruct (top_view (pop_view (via_hdrs m))) as [v2|].
    + destruct G as (m4 & pins' & -> & _ & _ & G4).
      match goal with |- context [send_message ?e ?h ?pt ?tr ?mm ?X] =>
        destruct (send_message_out_is e h pt tr mm X) as (os & H1 & H2) end.
      exists os. split; [exact H1|]. intros _. exists (sent_msg m4). split; [|exact H2].
      destruct (veq_sent_msg m4) as (_ & _ & ->). exact G4.
    + destruct G as (G & _). exists []. split; [rewrite app_nil_r; exact G|]. intros _. reflexivity.
  - destruct (process_message_ext _ _ _ _ _ _ _ _ _ EP) as (os & Ho). exists os. split; [exact Ho|]. discriminate.
Qed.

(* ====================================================================== Examples (non-vacuity) *)
Module C02_examples.
Import C07_examples.
Open Scope string_scope.
Open Scope list_scope.
Open Scope Z_scope.
Definition ex_resp (vias : list string) : bytes :=
  text (["SIP/2.0 200 OK"] ++ vias ++ ["CSeq: 1 INVITE"; "Content-Length: 0"]).
Definition cfgh : cfg :=
  {| c_name := s2b "proxy.example"; c_keep_next_hop := false; c_dialog_timeout := 60; c_routes := [];
     c_hosts := [(s2b "ua.example", s2b "10.1.1.1")]; c_listens := [ex_lc false] |}.
Definition bk := s2b "10.0.0.2".
Definition own := "Via: SIP/2.0/UDP 127.0.0.1:5060;branch=z9hG4bKpx".

(* comma list: received + numeric rport win over the sent-by; the remaining entries stay *)
Example comma_list :
  run all_fixed cfgh (init_state cfgh 0 [])
    [EvUdp 0 bk 5070 (ex_resp ["Via: SIP/2.0/UDP 127.0.0.1:5060;branch=z9hG4bKpx, SIP/2.0/UDP 10.9.9.9:5070;rport=40000;branch=z9hG4bKabc;received=127.0.0.9, SIP/2.0/TCP 10.8.8.8;branch=z9hG4bKdef"])] =
  [[(DUdp (s2b "127.0.0.9") 40000,
     ex_resp ["Via: SIP/2.0/UDP 10.9.9.9:5070;rport=40000;branch=z9hG4bKabc;received=127.0.0.9,SIP/2.0/TCP 10.8.8.8;branch=z9hG4bKdef"])]].
Proof. vm_compute. reflexivity. Qed.

(* repeated lines, compact / odd-case names; valueless rport: the sent-by port *)
Example repeated_lines :
  run all_fixed cfgh (init_state cfgh 0 [])
    [EvUdp 0 bk 5070 (ex_resp ["v: SIP/2.0/UDP 127.0.0.1:5060;branch=z9hG4bKpx";
                               "VIA: SIP/2.0/UDP 10.9.9.9:5070;rport;branch=z9hG4bKabc;received=127.0.0.9";
                               "Via: SIP/2.0/TCP 10.8.8.8;branch=z9hG4bKdef"])] =
  [[(DUdp (s2b "127.0.0.9") 5070,
     ex_resp ["VIA: SIP/2.0/UDP 10.9.9.9:5070;rport;branch=z9hG4bKabc;received=127.0.0.9";
              "Via: SIP/2.0/TCP 10.8.8.8;branch=z9hG4bKdef"])]].
Proof. vm_compute. reflexivity. Qed.

(* no received: sent-by host through the host table, default port *)
Example host_table_default_port :
  run all_fixed cfgh (init_state cfgh 0 [])
    [EvUdp 0 bk 5070 (ex_resp [own; "Via: SIP/2.0/UDP ua.example;branch=z9hG4bKabc"])] =
  [[(DUdp (s2b "10.1.1.1") 5060, ex_resp ["Via: SIP/2.0/UDP ua.example;branch=z9hG4bKabc"])]].
Proof. vm_compute. reflexivity. Qed.

(* single Via / undecodable first / undecodable next / unsupported transport: nothing *)
Example drops :
  run all_fixed cfgh (init_state cfgh 0 [])
    [EvUdp 0 bk 5070 (ex_resp [own]);
     EvUdp 0 bk 5070 (ex_resp ["Via: garbage"; "Via: SIP/2.0/UDP 10.9.9.9:5070"]);
     EvUdp 0 bk 5070 (ex_resp [own; "Via: SIP/2.0"]);
     EvUdp 0 bk 5070 (ex_resp [own; "Via: SIP/2.0/TLS 10.9.9.9:5061;branch=z9hG4bKabc"])] =
  [[]; []; []; []].
Proof. vm_compute. reflexivity. Qed.

(* TCP next hop (lower-case transport): one dial, one write on that connection, no datagram *)
Example tcp_hop :
  run all_fixed cfgh (init_state cfgh 0 [(s2b "10.9.9.9", 5070)])
    [EvUdp 0 bk 5070 (ex_resp [own; "Via: SIP/2.0/tcp 10.9.9.9:5070;branch=z9hG4bKabc"])] =
  [[(DDial (s2b "10.9.9.9") 5070 0, []);
    (DConn 0, ex_resp ["Via: SIP/2.0/tcp 10.9.9.9:5070;branch=z9hG4bKabc"])]].
Proof. vm_compute. reflexivity. Qed.

(* before the repair of findClientTransport: 10.9.9.9 was learned through the UDP listener
   (first event), so the response for a TCP Via entry leaves as a DATAGRAM *)
Definition legacy_udp : fixes :=
  {| fx_wiring := true; fx_udp_via_listener := false; fx_indialog_invite := true; fx_bracket_host := true; fx_resolved_key := true; fx_stale_pin := true |}.
Definition evs_legacy : list event :=
  [EvUdp 0 (s2b "10.9.9.9") 5070 (ex_req ["Via: SIP/2.0/TCP 10.9.9.9:5070;branch=z9hG4bKabc"] "Route: <sip:10.0.0.2:5070;lr>");
   EvUdp 0 bk 5070 (ex_resp [own; "Via: SIP/2.0/TCP 10.9.9.9:5070;branch=z9hG4bKabc;received=10.9.9.9"])].
Example C02_legacy_refuted :
  nth 1 (run legacy_udp cfgh (init_state cfgh 0 [(s2b "10.9.9.9", 5070)]) evs_legacy) [] =
    [(DUdp (s2b "10.9.9.9") 5070, ex_resp ["Via: SIP/2.0/TCP 10.9.9.9:5070;branch=z9hG4bKabc;received=10.9.9.9"])] /\
  nth 1 (run all_fixed cfgh (init_state cfgh 0 [(s2b "10.9.9.9", 5070)]) evs_legacy) [] =
    [(DDial (s2b "10.9.9.9") 5070 0, []);
     (DConn 0, ex_resp ["Via: SIP/2.0/TCP 10.9.9.9:5070;branch=z9hG4bKabc;received=10.9.9.9"])].
Proof. split; vm_compute; reflexivity. Qed.

(* round trip: the request of C07_examples.own_via_on_top, then the response of the next hop *)
Example roundtrip :
  run all_fixed cfgh (init_state cfgh 0 [])
    [EvUdp 0 bk 5070 (ex_req ["Via: SIP/2.0/UDP 10.0.0.2:5070;branch=z9hG4bKq"] "Route: <sip:10.0.0.4;lr>");
     EvUdp 0 src 40000 (ex_req ["Via: SIP/2.0/UDP 10.9.9.9:5070;rport;branch=z9hG4bKabc"] rt);
     EvUdp 0 bk 5070 (ex_resp [own; "Via: SIP/2.0/UDP 10.9.9.9:5070;rport=40000;branch=z9hG4bKabc;received=127.0.0.9"])] =
  [[(DUdp (s2b "10.0.0.4") 5060, ex_out ["Via: SIP/2.0/UDP 10.0.0.2:5070;branch=z9hG4bKq;received=10.0.0.2"])];
   [(DUdp bk 5070, ex_out [own; "Via: SIP/2.0/UDP 10.9.9.9:5070;rport=40000;branch=z9hG4bKabc;received=127.0.0.9"])];
   [(DUdp src 40000, ex_resp ["Via: SIP/2.0/UDP 10.9.9.9:5070;rport=40000;branch=z9hG4bKabc;received=127.0.0.9"])]].
Proof. vm_compute. reflexivity. Qed.

(* FINDING (why C02_dest_udp / C02_independent_of_pins carry a condition on the table slot):
   FailOverClientTransport.Send forgets its primary after ANY send error and nothing restores
   it.  Here a provisional response of 65.6 kB arrives over TCP and is addressed to a UDP Via:
   the datagram is too big, the send fails, and from then on every NON-final response for that
   UDP destination is dropped - the same small response is relayed by a fresh proxy. *)
Definition ringing (vias : list string) (body : bytes) : bytes :=
  flat_map ln (["SIP/2.0 180 Ringing"] ++ vias ++ ["CSeq: 1 INVITE"]) ++
  s2b "Content-Length: " ++ itoa (Z.of_nat (List.length body)) ++ crlf ++ crlf ++ body.
Definition vs := [own; "Via: SIP/2.0/UDP 10.9.9.9:5070;branch=z9hG4bKabc"].
Example udp_primary_forgotten_witness :
  run all_fixed cfgh (init_state cfgh 0 [])
      [EvTcpAccept 0 bk 5070; EvTcpData 0 (ringing vs (repeat "x"%char (656 * 100))); EvUdp 0 bk 5070 (ringing vs [])] =
    [[]; []; []] /\
  map (map fst) (run all_fixed cfgh (init_state cfgh 0 []) [EvUdp 0 bk 5070 (ringing vs [])]) =
    [[DUdp (s2b "10.9.9.9") 5070]].
Proof. split; vm_compute; reflexivity. Qed.

(* the two layouts of the same three entries satisfy the hypotheses of C02_response_hop *)
Definition e1 := "SIP/2.0/UDP 127.0.0.1:5060;branch=z9hG4bKpx".
Definition e2 := "SIP/2.0/UDP 10.9.9.9:5070;rport=40000;received=127.0.0.9".
Definition e3 := "SIP/2.0/TCP 10.8.8.8".
Example layouts_ex :
  exists mc ml rc rl v1 v2 v3,
    parse_message (ex_resp [("Via: " ++ e1 ++ "," ++ e2 ++ "," ++ e3)%string]) = Ok (mc, rc) /\
    parse_message (ex_resp [("v: " ++ e1)%string; ("VIA: " ++ e2)%string; ("Via: " ++ e3)%string]) = Ok (ml, rl) /\
    is_response mc = true /\ is_response ml = true /\
    via_hdrs mc = [Some [v1; v2; v3]] /\ via_hdrs ml = [Some [v1]; Some [v2]; Some [v3]] /\
    snd (decode_all_vias (m_headers mc)) = [v1; v2; v3] /\ snd (decode_all_vias (m_headers ml)) = [v1; v2; v3] /\
    hop_host v2 = s2b "127.0.0.9" /\ hop_port v2 = 40000 /\ v_transport v2 = s2b "UDP".
Proof.
  do 7 eexists. split; [vm_compute; reflexivity|]. split; [vm_compute; reflexivity|].
  repeat (split; [vm_compute; reflexivity|]). vm_compute. reflexivity.
Qed.

(* the state conditions of C02_dest_udp / C02_dest_tcp / C02_independent_of_pins hold initially *)
Example slots_ex : udp_slot_ok (s2b "127.0.0.9") 40000 (init_pstate cfgh 0 (ex_lc false)) /\
                   tcp_slot_ok (init_pstate cfgh 0 (ex_lc false)) /\ udp_known (init_pstate cfgh 0 (ex_lc false)).
Proof. split; [exact I|]. split; intros k f []. Qed.
End C02_examples.

(* ====================================================================== stale cached connection: redial AND write *)
(* TCPClientTransport.Send runs two rounds, and the round that dials also writes.  A reconnectable client whose
   cached connection has been closed by the peer therefore spends round 1 on the failed write (the cache is
   cleared) and in round 2 dials the peer and writes the message on the fresh connection: the message is NOT
   lost.  (The model used to spend one unit of fuel on the dial alone and stayed silent in this situation; the
   correspondence check against the Go code found that.) *)
Lemma find_set_cached_eq id v l cl : find_client id l = Some cl ->
  find_client id (set_client_cached id v l) =
  Some {| tc_id := id; tc_host := tc_host cl; tc_port := tc_port cl; tc_cached := v |}.
Proof.
  unfold find_client. induction l as [|x r IH]; cbn; [discriminate|].
  destruct (Nat.eqb (tc_id x) id) eqn:E; cbn.
  - rewrite Nat.eqb_refl. intros H. injection H as <-. reflexivity.
  - rewrite E. exact IH.
Qed.
Lemma set_client_cached_twice id v1 v2 l :
  set_client_cached id v2 (set_client_cached id v1 l) = set_client_cached id v2 l.
Proof.
  induction l as [|x r IH]; cbn; [reflexivity|].
  destruct (Nat.eqb (tc_id x) id) eqn:E; cbn.
  - rewrite Nat.eqb_refl. reflexivity.
  - rewrite E, IH. reflexivity.
Qed.

Theorem C02_stale_redial : forall li local rs id b p cs w outs cl c,
  find_client id (ps_clients p) = Some cl ->
  tc_cached cl = Some c ->
  conn_open cs c = false ->
  existsb (fun '(h, pt) => beq h (tc_host cl) && Z.eqb pt (tc_port cl)) (w_tcp_listeners w) = true ->
  let c' := w_next_conn w in
  let p' := with_clients p (set_client_cached id (Some c') (ps_clients p)) in
  let cs' := cs ++ [{| cn_id := c'; cn_li := li; cn_open := true; cn_peer := tc_host cl; cn_peer_port := tc_port cl;
                       cn_from := {| t_kind := KTcpConn; t_addr := local; t_port := 0 |};
                       cn_received_support := rs |}] in
  tcp_client_send 2 li local rs id b p cs w outs =
    (p', cs', {| w_tcp_listeners := w_tcp_listeners w; w_next_conn := S c' |},
     outs ++ [(DDial (tc_host cl) (tc_port cl) c', []); (DConn c', b)], true) /\
  find_client id (ps_clients p') =
    Some {| tc_id := id; tc_host := tc_host cl; tc_port := tc_port cl; tc_cached := Some c' |} /\
  conn_open cs' c' = true.
Proof.
  intros li local rs id b p cs w outs cl c F C O L c' p' cs'. split; [|split].
  - subst p' cs' c'. cbn [tcp_client_send]. rewrite F, C, O.
    cbn [ps_clients with_clients].
    rewrite (find_set_cached_eq id None _ cl F). cbn [tc_cached tc_host tc_port].
    match goal with |- (if ?e then _ else _) = _ => replace e with true by (symmetry; exact L) end.
    rewrite set_client_cached_twice. reflexivity.
  - subst p'. cbn [ps_clients with_clients]. apply find_set_cached_eq. exact F.
  - subst cs'. unfold conn_open. rewrite existsb_app. cbn [existsb cn_id cn_open].
    rewrite Nat.eqb_refl. cbn [andb orb]. apply orb_true_r.
Qed.

(* non-vacuity: a client whose cached connection 3 is gone (no connection record at all), peer listening *)
Example C02_stale_redial_ex : forall p0 : pstate,
  let cl := {| tc_id := 0; tc_host := s2b "10.0.0.2"%string; tc_port := 5070; tc_cached := Some 3%nat |} in
  let p := with_clients p0 [cl] in
  let w := {| w_tcp_listeners := [(s2b "10.0.0.2"%string, 5070)]; w_next_conn := 4 |} in
  find_client 0 (ps_clients p) = Some cl /\ tc_cached cl = Some 3%nat /\ conn_open [] 3 = false /\
  existsb (fun '(h, pt) => beq h (tc_host cl) && Z.eqb pt (tc_port cl)) (w_tcp_listeners w) = true /\
  snd (fst (tcp_client_send 2 0 (s2b "127.0.0.1"%string) true 0 (s2b "x"%string) p [] w [])) =
    [(DDial (s2b "10.0.0.2"%string) 5070 4%nat, []); (DConn 4%nat, s2b "x"%string)].
Proof. intros p0. repeat split. Qed.

(* ====================================================================== closed proofs *)
Print Assumptions C02_response_general.
Print Assumptions C02_response_hop.
Print Assumptions C02_response_hop_outs.
Print Assumptions C02_single_via_dropped.
Print Assumptions C02_undecodable_dropped.
Print Assumptions C02_dest_unsupported.
Print Assumptions C02_dest_udp.
Print Assumptions C02_dest_tcp.
Print Assumptions C02_dest_tcp_no_udp.
Print Assumptions C02_independent_of_pins.
Print Assumptions C02_roundtrip_return.
Print Assumptions C02_roundtrip.
Print Assumptions C02_process_response.
Print Assumptions C02_step_udp.
Print Assumptions C02_step_udp_relay_udp.
Print Assumptions C02_tcp_slot_step.
Print Assumptions C02_tcp_slot_reachable.
Print Assumptions C02_step_udp_relay_tcp.
Print Assumptions C02_step_tcp.
Print Assumptions C02_examples.C02_legacy_refuted.
Print Assumptions C02_stale_redial.
