(* proofs/C16.v — C16 "Dialog identity is direction-independent and discriminating".
   For ALL byte strings (no bounds).  Main results:
     blt_irrefl, blt_asym, blt_total, blt_trichotomy      (Go's string [<] is a strict total order)
     C16_symmetric                                         (From/To exchange leaves the identifier unchanged)
     C16_legacy_refuted                                    (the pre-fix code is not symmetric)
     C16_callid_discriminates, C16_discriminates           (one change => different identifier, under sep_ok)
     half_ok_sep_ok, half_ok_distinct_tags, half_ok_tags_same_length, half_ok_equal_tags
                                                           (readable sufficient conditions for sep_ok)
     C16_K3_refuted                                        (outside sep_ok one URI change can keep the identifier)
     C16_same_id, C16_judged, C16_judged_halves            (the group judge accepts the model)
     C16_no_tag_from, C16_no_tag_to, C16_to_after_from, C16_get_dialog_string, C16_get_dialog_raw,
     C16_message_symmetric                                 (message level)
   No axioms, no admits. *)
From Coq Require Import List Ascii String ZArith NArith Bool Arith Lia.
From Model Require Import Bytes BytesLemmas Uri Hdr Message Wire SpecC16.
Import ListNotations.
Open Scope list_scope.

(* ------------------------------------------------------------------ blt is a strict total order *)
Lemma byte_ltb_irrefl x : byte_ltb x x = false.
Proof. unfold byte_ltb. apply N.ltb_irrefl. Qed.

Lemma byte_ltb_asym x y : byte_ltb x y = true -> byte_ltb y x = false.
Proof. unfold byte_ltb. rewrite N.ltb_lt, N.ltb_ge. lia. Qed.

Lemma byte_ltb_total x y : byte_ltb x y = false -> byte_ltb y x = false -> x = y.
Proof.
  unfold byte_ltb. rewrite !N.ltb_ge. intros H1 H2.
  assert (E : N_of_ascii x = N_of_ascii y) by lia.
  rewrite <- (ascii_N_embedding x), <- (ascii_N_embedding y), E. reflexivity.
Qed.

Lemma blt_irrefl x : blt x x = false.
Proof. induction x as [|c x IH]; cbn; [reflexivity|]. rewrite Ascii.eqb_refl. exact IH. Qed.

Lemma blt_asym x : forall y, blt x y = true -> blt y x = false.
Proof.
  induction x as [|c x IH]; intros [|d y] H; cbn in *; try reflexivity; try discriminate.
  rewrite (Ascii.eqb_sym d c). destruct (Ascii.eqb c d) eqn:E.
  - apply IH. exact H.
  - apply byte_ltb_asym. exact H.
Qed.

Lemma blt_total x : forall y, blt x y = false -> blt y x = false -> x = y.
Proof.
  induction x as [|c x IH]; intros [|d y] H1 H2; cbn in *; try reflexivity; try discriminate.
  rewrite (Ascii.eqb_sym d c) in H2. destruct (Ascii.eqb c d) eqn:E.
  - apply Ascii.eqb_eq in E. subst d. f_equal. apply IH; assumption.
  - apply Ascii.eqb_neq in E. exfalso. apply E. apply byte_ltb_total; assumption.
Qed.

(* exactly one of  x < y,  x = y,  y < x *)
Theorem blt_trichotomy x y :
  (blt x y = true /\ x <> y /\ blt y x = false) \/
  (blt x y = false /\ x = y /\ blt y x = false) \/
  (blt x y = false /\ x <> y /\ blt y x = true).
Proof.
  destruct (blt x y) eqn:E1.
  - left. split; [reflexivity|]. split; [|apply blt_asym; exact E1].
    intros ->. rewrite blt_irrefl in E1. discriminate.
  - destruct (blt y x) eqn:E2.
    + right. right. split; [reflexivity|]. split; [|reflexivity].
      intros ->. rewrite blt_irrefl in E2. discriminate.
    + right. left. split; [reflexivity|]. split; [|reflexivity]. apply blt_total; assumption.
Qed.

(* ------------------------------------------------------------------ halves and their canonical order *)
Definition dash : ascii := "-"%char.
Definition half (t a : bytes) : bytes := t ++ dash :: a.
(* the two halves in the order the identifier lists them *)
Definition ord_halves (t1 a1 t2 a2 : bytes) : bytes * bytes :=
  if dialog_first a1 t1 a2 t2 then (half t1 a1, half t2 a2) else (half t2 a2, half t1 a1).
Definition glue (c : bytes) (o : bytes * bytes) : bytes := c ++ dash :: fst o ++ dash :: snd o.

Lemma dialog_string_glue c t1 a1 t2 a2 :
  dialog_string c t1 a1 t2 a2 = glue c (ord_halves t1 a1 t2 a2).
Proof. unfold dialog_string, glue, ord_halves, half, dash. destruct (dialog_first a1 t1 a2 t2); reflexivity. Qed.

Lemma ord_halves_cases t1 a1 t2 a2 :
  ord_halves t1 a1 t2 a2 = (half t1 a1, half t2 a2) \/ ord_halves t1 a1 t2 a2 = (half t2 a2, half t1 a1).
Proof. unfold ord_halves. destruct (dialog_first a1 t1 a2 t2); [left|right]; reflexivity. Qed.

Lemma ord_halves_sym t1 a1 t2 a2 : ord_halves t1 a1 t2 a2 = ord_halves t2 a2 t1 a1.
Proof.
  unfold ord_halves, dialog_first.
  destruct (blt_trichotomy a1 a2) as [(L & N & G)|[(L & N & G)|(L & N & G)]]; rewrite L, G.
  - assert (E : beq a2 a1 = false) by (apply beq_neq; congruence). rewrite E. reflexivity.
  - subst a2. rewrite beq_refl. cbn.
    destruct (blt_trichotomy t1 t2) as [(L' & N' & G')|[(L' & N' & G')|(L' & N' & G')]]; rewrite L', G';
      [reflexivity|subst t2; reflexivity|reflexivity].
  - assert (E : beq a1 a2 = false) by (apply beq_neq; congruence). rewrite E. reflexivity.
Qed.

(* ------------------------------------------------------------------ 1. direction independence *)
Theorem C16_symmetric : forall c t1 a1 t2 a2,
  dialog_string c t1 a1 t2 a2 = dialog_string c t2 a2 t1 a1.
Proof. intros. rewrite !dialog_string_glue, (ord_halves_sym t1 a1 t2 a2). reflexivity. Qed.

(* non-vacuity: '-'-rich values, different URIs / equal URIs, both directions give the same non-trivial string *)
Example C16_symmetric_ex1 :
  dialog_string (s2b "a-b-c@h-1") (s2b "t-1") (s2b "sip:alice@a-1.example.com") (s2b "t-2") (s2b "sip:bob@b-2.example.com")
  = s2b "a-b-c@h-1-t-1-sip:alice@a-1.example.com-t-2-sip:bob@b-2.example.com" /\
  dialog_string (s2b "a-b-c@h-1") (s2b "t-2") (s2b "sip:bob@b-2.example.com") (s2b "t-1") (s2b "sip:alice@a-1.example.com")
  = s2b "a-b-c@h-1-t-1-sip:alice@a-1.example.com-t-2-sip:bob@b-2.example.com".
Proof. split; vm_compute; reflexivity. Qed.
Example C16_symmetric_ex2 :   (* equal URIs: the tags decide *)
  dialog_string (s2b "c-1") (s2b "zz-9") (s2b "sip:u@h-1") (s2b "aa-1") (s2b "sip:u@h-1")
  = s2b "c-1-aa-1-sip:u@h-1-zz-9-sip:u@h-1" /\
  dialog_string (s2b "c-1") (s2b "aa-1") (s2b "sip:u@h-1") (s2b "zz-9") (s2b "sip:u@h-1")
  = s2b "c-1-aa-1-sip:u@h-1-zz-9-sip:u@h-1".
Proof. split; vm_compute; reflexivity. Qed.

(* ------------------------------------------------------------------ 2. the pre-fix code is refuted *)
Theorem C16_legacy_refuted : exists c t1 a t2,
  t1 <> t2 /\ dialog_string_legacy c t1 a t2 a <> dialog_string_legacy c t2 a t1 a.
Proof.
  exists (s2b "c-1"), (s2b "aa-1"), (s2b "sip:u@h-1"), (s2b "zz-9").
  split; vm_compute; intros H; discriminate H.
Qed.

(* ------------------------------------------------------------------ 3. discrimination *)
(* the identifier the model computes for an abstract message *)
Definition c16_id (m : c16_msg) : bytes :=
  dialog_string (cm_callid m) (cm_ta m) (cm_ua m) (cm_tb m) (cm_ub m).
Definition cm_P (m : c16_msg) : bytes := half (cm_ta m) (cm_ua m).
Definition cm_Q (m : c16_msg) : bytes := half (cm_tb m) (cm_ub m).
Definition c16_ord (m : c16_msg) : bytes * bytes := ord_halves (cm_ta m) (cm_ua m) (cm_tb m) (cm_ub m).

Lemma c16_id_glue m : c16_id m = glue (cm_callid m) (c16_ord m).
Proof. apply dialog_string_glue. Qed.
Lemma c16_ord_cases m : c16_ord m = (cm_P m, cm_Q m) \/ c16_ord m = (cm_Q m, cm_P m).
Proof. apply ord_halves_cases. Qed.
Lemma c16_ord_swap m : c16_ord (c16_swap m) = c16_ord m.
Proof. unfold c16_ord, c16_swap; cbn. apply ord_halves_sym. Qed.
Lemma c16_id_swap m : c16_id (c16_swap m) = c16_id m.
Proof. unfold c16_id, c16_swap; cbn. apply C16_symmetric. Qed.

(* 3a. the Call-ID alone: cancellation of the common suffix, unconditional *)
Theorem C16_callid_discriminates : forall c c' t1 a1 t2 a2,
  c <> c' -> dialog_string c t1 a1 t2 a2 <> dialog_string c' t1 a1 t2 a2.
Proof.
  intros c c' t1 a1 t2 a2 N E. rewrite !dialog_string_glue in E. unfold glue in E.
  apply app_inv_tail in E. contradiction.
Qed.
Corollary C16_callid_discriminates_msg : forall a b,
  cm_ta a = cm_ta b -> cm_ua a = cm_ua b -> cm_tb a = cm_tb b -> cm_ub a = cm_ub b ->
  cm_callid a <> cm_callid b -> c16_id a <> c16_id b.
Proof.
  intros a b E1 E2 E3 E4 N. unfold c16_id. rewrite E1, E2, E3, E4. apply C16_callid_discriminates. exact N.
Qed.
Example C16_callid_discriminates_ex :   (* "a-b" vs "a" with '-' everywhere: still different *)
  s2b "a-b" <> s2b "a" /\
  dialog_string (s2b "a-b") (s2b "b-1") (s2b "sip:u@h-1") (s2b "b-2") (s2b "sip:v@h-2") <>
  dialog_string (s2b "a") (s2b "b-1") (s2b "sip:u@h-1") (s2b "b-2") (s2b "sip:v@h-2").
Proof. split; vm_compute; intros H; discriminate H. Qed.

(* 3b. the separator hypothesis.  [x] and [y] followed by '-' are prefix-comparable *)
Definition dashed (x : bytes) : bytes := x ++ [dash].
Definition comparable (x y : bytes) : bool :=
  has_prefix (dashed x) (dashed y) || has_prefix (dashed y) (dashed x).
(* on the two canonically ordered pairs of halves (X, Y) and (X', Y'):  X = X' or Y = Y' (then
   c-X-Y = c-X'-Y' cancels), or else X- and X'- are not prefixes one of the other *)
Definition sep_pairs (oa ob : bytes * bytes) : bool :=
  beq (fst oa) (fst ob) || beq (snd oa) (snd ob) || negb (comparable (fst oa) (fst ob)).
Definition sep_ok (a b : c16_msg) : bool := sep_pairs (c16_ord a) (c16_ord b).

Lemma has_prefix_app_eq (l1 : bytes) : forall l2 r1 r2,
  l1 ++ r1 = l2 ++ r2 -> has_prefix l1 l2 = true \/ has_prefix l2 l1 = true.
Proof.
  induction l1 as [|x l1 IH]; intros [|y l2] r1 r2 E; cbn in *; auto.
  injection E as -> E. rewrite Ascii.eqb_refl. cbn. eapply IH. exact E.
Qed.

Lemma glue_inj c oa ob : sep_pairs oa ob = true -> glue c oa = glue c ob -> oa = ob.
Proof.
  destruct oa as [xa ya], ob as [xb yb]. unfold sep_pairs, glue; cbn. intros S E.
  apply app_inv_head in E. injection E as E.
  apply orb_true_iff in S. destruct S as [S|S]; [apply orb_true_iff in S; destruct S as [S|S]|].
  - apply beq_eq in S. subst xb. apply app_inv_head in E. injection E as ->. reflexivity.
  - apply beq_eq in S. subst yb.
    change (xa ++ dash :: ya) with (xa ++ [dash] ++ ya) in E.
    change (xb ++ dash :: ya) with (xb ++ [dash] ++ ya) in E.
    rewrite !app_assoc in E. apply app_inv_tail in E. apply app_inv_tail in E. subst xb. reflexivity.
  - exfalso. apply negb_true_iff in S. unfold comparable, dashed in S.
    change (xa ++ dash :: ya) with (xa ++ [dash] ++ ya) in E.
    change (xb ++ dash :: yb) with (xb ++ [dash] ++ yb) in E.
    rewrite !app_assoc in E. apply has_prefix_app_eq in E.
    apply orb_false_iff in S. destruct S as [S1 S2]. destruct E as [E|E]; congruence.
Qed.

Lemma half_inj_tag t t' a : half t a = half t' a -> t = t'.
Proof.
  unfold half. intros E.
  change (t ++ dash :: a) with (t ++ [dash] ++ a) in E. change (t' ++ dash :: a) with (t' ++ [dash] ++ a) in E.
  rewrite !app_assoc in E. apply app_inv_tail in E. apply app_inv_tail in E. exact E.
Qed.
Lemma half_inj_addr t a a' : half t a = half t a' -> a = a'.
Proof. unfold half. intros E. apply app_inv_head in E. injection E as E. exact E. Qed.

(* what "exactly one aligned difference" means for the halves *)
Lemma c16_diff1_cases a b : c16_diff a b = 1%nat ->
  (cm_callid a <> cm_callid b /\ c16_ord a = c16_ord b) \/
  (cm_callid a = cm_callid b /\ cm_P a <> cm_P b /\ cm_Q a = cm_Q b) \/
  (cm_callid a = cm_callid b /\ cm_P a = cm_P b /\ cm_Q a <> cm_Q b).
Proof.
  destruct a as [ha ca ta ua tb ub], b as [hb cb ta' ua' tb' ub'].
  unfold c16_diff, c16_ord, cm_P, cm_Q; cbn.
  destruct (beq_spec ca cb) as [Ec|Ec]; destruct (beq_spec ta ta') as [E1|E1];
    destruct (beq_spec ua ua') as [E2|E2]; destruct (beq_spec tb tb') as [E3|E3];
    destruct (beq_spec ub ub') as [E4|E4]; cbn; intros H; try discriminate H; subst.
  - right. right. split; [reflexivity|]. split; [reflexivity|]. intros E. apply half_inj_addr in E. contradiction.
  - right. right. split; [reflexivity|]. split; [reflexivity|]. intros E. apply half_inj_tag in E. contradiction.
  - right. left. split; [reflexivity|]. split; [|reflexivity]. intros E. apply half_inj_addr in E. contradiction.
  - right. left. split; [reflexivity|]. split; [|reflexivity]. intros E. apply half_inj_tag in E. contradiction.
  - left. split; [assumption|reflexivity].
Qed.

Lemma C16_discriminates_aligned a b :
  c16_diff a b = 1%nat -> sep_ok a b = true -> c16_id a <> c16_id b.
Proof.
  intros D S E. rewrite !c16_id_glue in E. unfold sep_ok in S.
  destruct (c16_diff1_cases a b D) as [(Nc & Eo)|[(Ec & NP & EQ)|(Ec & EP & NQ)]].
  - rewrite Eo in E. unfold glue in E. apply app_inv_tail in E. contradiction.
  - rewrite Ec in E. apply glue_inj in E; [|exact S].
    destruct (c16_ord_cases a) as [Ha|Ha], (c16_ord_cases b) as [Hb|Hb]; rewrite Ha, Hb in E;
      injection E as E1 E2; congruence.
  - rewrite Ec in E. apply glue_inj in E; [|exact S].
    destruct (c16_ord_cases a) as [Ha|Ha], (c16_ord_cases b) as [Hb|Hb]; rewrite Ha, Hb in E;
      injection E as E1 E2; congruence.
Qed.

Lemma sep_ok_swap_r a b : sep_ok a (c16_swap b) = sep_ok a b.
Proof. unfold sep_ok. rewrite c16_ord_swap. reflexivity. Qed.

(* the hypotheses cm_has / c16_same = false are those under which the judge demands different
   identifiers; the proof does not need them (one aligned difference already excludes c16_same) *)
Theorem C16_discriminates : forall a b,
  cm_has a = true -> cm_has b = true -> c16_one_change a b = true -> c16_same a b = false ->
  sep_ok a b = true -> c16_id a <> c16_id b.
Proof.
  intros a b _ _ OC _ S. unfold c16_one_change in OC. apply orb_true_iff in OC.
  destruct OC as [D|D]; apply Nat.eqb_eq in D.
  - apply C16_discriminates_aligned; assumption.
  - rewrite <- (c16_id_swap b). apply C16_discriminates_aligned; [exact D|].
    rewrite sep_ok_swap_r. exact S.
Qed.

Definition mk16 (c ta ua tb ub : string) : c16_msg :=
  {| cm_has := true; cm_callid := s2b c; cm_ta := s2b ta; cm_ua := s2b ua; cm_tb := s2b tb; cm_ub := s2b ub |}.

(* non-vacuity: '-' in Call-ID, tags and hosts; a tag change, and a URI change that FLIPS the
   canonical order (alice < bob < carol); all hypotheses hold, so the identifiers differ *)
Example C16_discriminates_ex_tag :
  let a := mk16 "a-b-c@h-1" "t-1" "sip:alice@a-1.example.com" "t-2" "sip:bob@b-2.example.com" in
  let b := mk16 "a-b-c@h-1" "t-1-1" "sip:alice@a-1.example.com" "t-2" "sip:bob@b-2.example.com" in
  cm_has a = true /\ cm_has b = true /\ c16_one_change a b = true /\ c16_same a b = false /\ sep_ok a b = true.
Proof. vm_compute. repeat split. Qed.
Example C16_discriminates_ex_flip :
  let a := mk16 "a-b-c@h-1" "t-1" "sip:alice@a-1.example.com" "t-2" "sip:bob@b-2.example.com" in
  let b := mk16 "a-b-c@h-1" "t-2" "sip:bob@b-2.example.com" "t-1" "sip:carol@a-1.example.com" in
  cm_has a = true /\ cm_has b = true /\ c16_one_change a b = true /\ c16_same a b = false /\ sep_ok a b = true /\
  fst (c16_ord a) = cm_P a /\ fst (c16_ord b) = cm_P b (* = the unchanged half: the order flipped *).
Proof. vm_compute. repeat split. Qed.
Example C16_discriminates_ex_equal_uris :
  let a := mk16 "c-1" "aa-1" "sip:u@h-1" "zz-9" "sip:u@h-1" in
  let b := mk16 "c-1" "zz-9" "sip:u@h-1" "aa-2" "sip:u@h-1" in
  cm_has a = true /\ cm_has b = true /\ c16_one_change a b = true /\ c16_same a b = false /\ sep_ok a b = true.
Proof. vm_compute. repeat split. Qed.

(* ---- readable sufficient conditions for sep_ok ---- *)
(* x = y, or neither of x-, y- is a prefix of the other *)
Definition inc (x y : bytes) : bool := beq x y || negb (comparable x y).
(* per message: the two halves do not run into each other *)
Definition half_ok (m : c16_msg) : bool := inc (cm_P m) (cm_Q m).

Lemma comparable_sym x y : comparable x y = comparable y x.
Proof. unfold comparable. apply orb_comm. Qed.
Lemma inc_sym x y : inc x y = inc y x.
Proof. unfold inc. rewrite beq_sym, comparable_sym. reflexivity. Qed.
Lemma half_ok_swap m : half_ok (c16_swap m) = half_ok m.
Proof. unfold half_ok, cm_P, cm_Q, c16_swap; cbn. apply inc_sym. Qed.

Lemma sep_from_inc P P' Q oa ob :
  oa = (P, Q) \/ oa = (Q, P) -> ob = (P', Q) \/ ob = (Q, P') ->
  inc P Q = true -> inc P' Q = true -> sep_pairs oa ob = true.
Proof.
  intros [->| ->] [->| ->] I1 I2; unfold sep_pairs; cbn.
  - rewrite (beq_refl Q). rewrite orb_true_r. reflexivity.
  - unfold inc in I1. apply orb_true_iff in I1. destruct I1 as [I1|I1]; rewrite I1; [reflexivity|apply orb_true_r].
  - unfold inc in I2. rewrite beq_sym, comparable_sym in I2.
    apply orb_true_iff in I2. destruct I2 as [I2|I2]; rewrite I2; [reflexivity|apply orb_true_r].
  - rewrite (beq_refl Q). reflexivity.
Qed.

Lemma half_ok_sep_ok_aligned a b :
  c16_diff a b = 1%nat -> half_ok a = true -> half_ok b = true -> sep_ok a b = true.
Proof.
  intros D Ha Hb. unfold sep_ok, half_ok in *.
  destruct (c16_diff1_cases a b D) as [(Nc & Eo)|[(Ec & NP & EQ)|(Ec & EP & NQ)]].
  - rewrite Eo. unfold sep_pairs. rewrite beq_refl. reflexivity.
  - apply (sep_from_inc (cm_P a) (cm_P b) (cm_Q a)); [apply c16_ord_cases|rewrite EQ; apply c16_ord_cases|exact Ha|].
    rewrite EQ. exact Hb.
  - apply (sep_from_inc (cm_Q a) (cm_Q b) (cm_P a)).
    + destruct (c16_ord_cases a) as [H|H]; [right|left]; exact H.
    + rewrite EP. destruct (c16_ord_cases b) as [H|H]; [right|left]; exact H.
    + rewrite inc_sym. exact Ha.
    + rewrite EP, inc_sym. exact Hb.
Qed.

(* per-message condition => pairwise condition, for every one-change pair *)
Theorem half_ok_sep_ok : forall a b,
  c16_one_change a b = true -> half_ok a = true -> half_ok b = true -> sep_ok a b = true.
Proof.
  intros a b OC Ha Hb. unfold c16_one_change in OC. apply orb_true_iff in OC.
  destruct OC as [D|D]; apply Nat.eqb_eq in D.
  - apply half_ok_sep_ok_aligned; assumption.
  - rewrite <- sep_ok_swap_r. apply half_ok_sep_ok_aligned; [exact D|exact Ha|].
    rewrite half_ok_swap. exact Hb.
Qed.

Lemma dashed_half t u : dashed (half t u) = t ++ dash :: dashed u.
Proof. unfold dashed, half. rewrite <- app_assoc. reflexivity. Qed.

Lemma has_prefix_app_same (t : bytes) x y : has_prefix (t ++ x) (t ++ y) = has_prefix x y.
Proof. induction t as [|c t IH]; cbn; [reflexivity|]. rewrite Ascii.eqb_refl. exact IH. Qed.

Lemma has_prefix_tag_eq (t : bytes) : forall t' r r',
  ~ In dash t -> ~ In dash t' -> has_prefix (t ++ dash :: r) (t' ++ dash :: r') = true -> t = t'.
Proof.
  induction t as [|x t IH]; intros [|y t'] r r' N1 N2 H; cbn [has_prefix app In] in *.
  - reflexivity.
  - apply andb_true_iff in H. destruct H as [H _]. apply Ascii.eqb_eq in H. exfalso. apply N2. left. symmetry. exact H.
  - apply andb_true_iff in H. destruct H as [H _]. apply Ascii.eqb_eq in H. exfalso. apply N1. left. exact H.
  - apply andb_true_iff in H. destruct H as [H1 H2]. apply Ascii.eqb_eq in H1. subst y. f_equal.
    apply (IH t' r r'); [tauto|tauto|exact H2].
Qed.

Lemma has_prefix_len_eq (t : bytes) : forall t' r r',
  List.length t = List.length t' -> has_prefix (t ++ r) (t' ++ r') = true -> t = t'.
Proof.
  induction t as [|x t IH]; intros [|y t'] r r' L H; cbn in *; try discriminate; [reflexivity|].
  apply andb_true_iff in H. destruct H as [H1 H2]. apply Ascii.eqb_eq in H1. subst y. f_equal.
  apply (IH t' r r'); [lia|exact H2].
Qed.

(* class 1: the two tags of the message are different and contain no '-' (any URIs) *)
Theorem half_ok_distinct_tags : forall m,
  ~ In "-"%char (cm_ta m) -> ~ In "-"%char (cm_tb m) -> cm_ta m <> cm_tb m -> half_ok m = true.
Proof.
  intros m N1 N2 D. unfold half_ok, inc, comparable, cm_P, cm_Q. rewrite !dashed_half.
  destruct (has_prefix (cm_ta m ++ dash :: dashed (cm_ua m)) (cm_tb m ++ dash :: dashed (cm_ub m))) eqn:E1.
  { apply has_prefix_tag_eq in E1; [contradiction|exact N1|exact N2]. }
  destruct (has_prefix (cm_tb m ++ dash :: dashed (cm_ub m)) (cm_ta m ++ dash :: dashed (cm_ua m))) eqn:E2.
  { apply has_prefix_tag_eq in E2; [congruence|exact N2|exact N1]. }
  apply orb_true_r.
Qed.

(* class 2: the two tags are different and have the same length (any bytes, any URIs) *)
Theorem half_ok_tags_same_length : forall m,
  List.length (cm_ta m) = List.length (cm_tb m) -> cm_ta m <> cm_tb m -> half_ok m = true.
Proof.
  intros m L D. unfold half_ok, inc, comparable, cm_P, cm_Q. rewrite !dashed_half.
  destruct (has_prefix (cm_ta m ++ dash :: dashed (cm_ua m)) (cm_tb m ++ dash :: dashed (cm_ub m))) eqn:E1.
  { apply has_prefix_len_eq in E1; [contradiction|exact L]. }
  destruct (has_prefix (cm_tb m ++ dash :: dashed (cm_ub m)) (cm_ta m ++ dash :: dashed (cm_ua m))) eqn:E2.
  { apply has_prefix_len_eq in E2; [congruence|symmetry; exact L]. }
  apply orb_true_r.
Qed.

(* class 3: equal tags (any bytes); the URIs are equal or neither followed by '-' is a prefix of
   the other followed by '-' *)
Theorem half_ok_equal_tags : forall m,
  cm_ta m = cm_tb m -> inc (cm_ua m) (cm_ub m) = true -> half_ok m = true.
Proof.
  intros m E I. unfold half_ok, cm_P, cm_Q. rewrite <- E. unfold inc in *.
  destruct (beq_spec (cm_ua m) (cm_ub m)) as [Eu|Nu].
  - rewrite Eu, beq_refl. reflexivity.
  - cbn [orb] in I. unfold comparable in *. rewrite !dashed_half, !has_prefix_app_same.
    cbn [has_prefix]. rewrite Ascii.eqb_refl. cbn [andb]. rewrite I. apply orb_true_r.
Qed.

Example half_ok_classes_ex :
  half_ok (mk16 "c" "t1" "sip:u@h" "t2" "sip:u@h-1") = true /\        (* class 1 *)
  half_ok (mk16 "c" "a-b" "sip:u@h" "a-c" "sip:u@h-1") = true /\      (* class 2 *)
  half_ok (mk16 "c" "a-b" "sip:u@h-1" "a-b" "sip:u@h-2") = true /\    (* class 3 *)
  half_ok (mk16 "c" "a-b" "sip:u@h" "a-b" "sip:u@h-1") = false.       (* sip:u@h- is a prefix of sip:u@h-1- *)
Proof. vm_compute. repeat split. Qed.

(* 3c. outside sep_ok a single URI change can leave the identifier unchanged *)
Theorem C16_K3_refuted : exists a b,
  cm_has a = true /\ cm_has b = true /\
  cm_callid a = cm_callid b /\ cm_ta a = cm_ta b /\ cm_tb a = cm_tb b /\ cm_ub a = cm_ub b /\ cm_ua a <> cm_ua b /\
  c16_one_change a b = true /\ c16_same a b = false /\ sep_ok a b = false /\ c16_id a = c16_id b.
Proof.
  exists (mk16 "c" "t" "urn:x:1-t-urn:x:2" "t" "urn:x:1-t-urn:x:2-t-urn:x:1"),
         (mk16 "c" "t" "urn:x:2-t-urn:x:1" "t" "urn:x:1-t-urn:x:2-t-urn:x:1").
  vm_compute. repeat split. intros H; discriminate H.
Qed.

(* ------------------------------------------------------------------ 4. the group judge accepts the model *)
Lemma c16_aligned_eq_id a b : c16_aligned_eq a b = true -> c16_id a = c16_id b.
Proof.
  unfold c16_aligned_eq, c16_id. rewrite !andb_true_iff, !beq_eq.
  intros ((((E1 & E2) & E3) & E4) & E5). rewrite E1, E2, E3, E4, E5. reflexivity.
Qed.

(* the same Call-ID and the same two endpoint pairs, in either direction, give the same identifier *)
Theorem C16_same_id : forall a b, c16_same a b = true -> c16_id a = c16_id b.
Proof.
  intros a b H. unfold c16_same in H. apply orb_true_iff in H. destruct H as [H|H].
  - apply c16_aligned_eq_id. exact H.
  - rewrite <- (c16_id_swap b). apply c16_aligned_eq_id. exact H.
Qed.
Example C16_same_id_ex :
  c16_same (mk16 "a-b" "t-1" "sip:u@h-1" "t-2" "sip:u@h-1") (mk16 "a-b" "t-2" "sip:u@h-1" "t-1" "sip:u@h-1") = true.
Proof. vm_compute. reflexivity. Qed.

(* what the model answers for an abstract message *)
Definition c16_obs (m : c16_msg) : option bytes := if cm_has m then Some (c16_id m) else None.

Lemma c16_single_ok m : c16_single m (c16_obs m) = true.
Proof. unfold c16_single, c16_obs. destruct (cm_has m); reflexivity. Qed.

Lemma c16_pair_ok a b :
  (cm_has a = true -> cm_has b = true -> c16_one_change a b = true -> c16_same a b = false -> sep_ok a b = true) ->
  c16_pair a b (c16_obs a) (c16_obs b) = 0%nat.
Proof.
  intros H. unfold c16_pair, c16_obs.
  destruct (cm_has a) eqn:Ha; [|reflexivity]. destruct (cm_has b) eqn:Hb; [|reflexivity]. cbn.
  destruct (c16_same a b) eqn:Es.
  - rewrite (C16_same_id a b Es), beq_refl. reflexivity.
  - destruct (c16_one_change a b) eqn:Eo; [|reflexivity].
    assert (N : c16_id a <> c16_id b)
      by (apply C16_discriminates; auto).
    apply beq_neq in N. rewrite N. reflexivity.
Qed.

Lemma c16_scan_row_ok a : forall rest i j,
  (forall b, In b rest -> c16_pair a b (c16_obs a) (c16_obs b) = 0%nat) ->
  c16_scan_row i j a (c16_obs a) (map (fun m => (m, c16_obs m)) rest) = None.
Proof.
  induction rest as [|b r IH]; intros i j H; cbn; [reflexivity|].
  rewrite (H b (or_introl eq_refl)). apply IH. intros b' Hb'. apply H. right. exact Hb'.
Qed.

Lemma c16_scan_ok : forall ms i,
  (forall a b, In a ms -> In b ms -> c16_pair a b (c16_obs a) (c16_obs b) = 0%nat) ->
  c16_scan i (map (fun m => (m, c16_obs m)) ms) = None.
Proof.
  induction ms as [|a r IH]; intros i H; cbn; [reflexivity|].
  rewrite c16_single_ok. cbn. rewrite c16_scan_row_ok.
  - apply IH. intros x y Hx Hy. apply H; right; assumption.
  - intros b Hb. apply H; [left; reflexivity|right; exact Hb].
Qed.

Theorem C16_judged : forall (ms : list c16_msg),
  (forall a b, In a ms -> In b ms -> cm_has a = true -> cm_has b = true ->
               c16_one_change a b = true -> c16_same a b = false -> sep_ok a b = true) ->
  judge_C16 (map (fun m => (m, if cm_has m then Some (c16_id m) else None)) ms) = None.
Proof.
  intros ms H. unfold judge_C16. apply (c16_scan_ok ms 0%nat).
  intros a b Ha Hb. apply c16_pair_ok. apply H; assumption.
Qed.

(* the same with the per-message condition: every message that has a dialog is half_ok *)
Theorem C16_judged_halves : forall (ms : list c16_msg),
  (forall m, In m ms -> cm_has m = true -> half_ok m = true) ->
  judge_C16 (map (fun m => (m, if cm_has m then Some (c16_id m) else None)) ms) = None.
Proof.
  intros ms H. apply C16_judged. intros a b Ha Hb Ca Cb OC _.
  apply half_ok_sep_ok; [exact OC|apply H; assumption|apply H; assumption].
Qed.

(* boolean form of the two group hypotheses, to evaluate on generated groups *)
Definition group_sep_ok (ms : list c16_msg) : bool :=
  forallb (fun a => forallb (fun b =>
    negb (cm_has a && cm_has b && c16_one_change a b && negb (c16_same a b)) || sep_ok a b) ms) ms.
Definition group_half_ok (ms : list c16_msg) : bool :=
  forallb (fun m => negb (cm_has m) || half_ok m) ms.

Theorem C16_judged_b : forall ms, group_sep_ok ms = true ->
  judge_C16 (map (fun m => (m, if cm_has m then Some (c16_id m) else None)) ms) = None.
Proof.
  intros ms G. apply C16_judged. intros a b Ha Hb Ca Cb OC NS.
  unfold group_sep_ok in G. rewrite forallb_forall in G. specialize (G a Ha).
  rewrite forallb_forall in G. specialize (G b Hb).
  rewrite Ca, Cb, OC, NS in G. exact G.
Qed.
Lemma group_half_ok_sep_ok ms : group_half_ok ms = true -> group_sep_ok ms = true.
Proof.
  unfold group_half_ok, group_sep_ok. rewrite !forallb_forall. intros G a Ha.
  rewrite forallb_forall. intros b Hb.
  destruct (cm_has a) eqn:Ca; [|reflexivity]. destruct (cm_has b) eqn:Cb; [|reflexivity].
  destruct (c16_one_change a b) eqn:OC; [|reflexivity]. destruct (c16_same a b); [reflexivity|]. cbn.
  apply half_ok_sep_ok; [exact OC| |].
  - specialize (G a Ha). rewrite Ca in G. exact G.
  - specialize (G b Hb). rewrite Cb in G. exact G.
Qed.

(* non-vacuity: a group with both directions, one-change variants (tag, URI with an order flip,
   Call-ID), a message without dialog; '-' everywhere; the hypotheses hold and pairs of every kind
   (same / one change / unrelated) occur *)
Definition c16_group_ex : list c16_msg :=
  [ mk16 "a-b-c@h-1" "t-1" "sip:alice@a-1.example.com" "t-2" "sip:bob@b-2.example.com";
    mk16 "a-b-c@h-1" "t-2" "sip:bob@b-2.example.com" "t-1" "sip:alice@a-1.example.com";
    mk16 "a-b-c@h-1" "t-1-1" "sip:alice@a-1.example.com" "t-2" "sip:bob@b-2.example.com";
    mk16 "a-b-c@h-1" "t-2" "sip:bob@b-2.example.com" "t-1" "sip:carol@a-1.example.com";
    mk16 "a-b-c@h-1-x" "t-1" "sip:alice@a-1.example.com" "t-2" "sip:bob@b-2.example.com";
    mk16 "c-1" "aa-1" "sip:u@h-1" "zz-9" "sip:u@h-1";
    mk16 "c-1" "zz-9" "sip:u@h-1" "aa-1" "sip:u@h-1";
    {| cm_has := false; cm_callid := s2b "c-1"; cm_ta := s2b "aa-1"; cm_ua := s2b "sip:u@h-1";
       cm_tb := []; cm_ub := s2b "sip:u@h-1" |} ].
Example C16_judged_ex :
  group_half_ok c16_group_ex = true /\ group_sep_ok c16_group_ex = true /\
  existsb (fun a => existsb (fun b => c16_one_change a b && negb (c16_same a b)) c16_group_ex) c16_group_ex = true /\
  judge_C16 (map (fun m => (m, if cm_has m then Some (c16_id m) else None)) c16_group_ex) = None.
Proof. vm_compute. repeat split. Qed.
(* the judge is not trivially accepting: it rejects the K3 pair *)
Example C16_judge_rejects_K3 :
  judge_C16 (map (fun m => (m, if cm_has m then Some (c16_id m) else None))
    [mk16 "c" "t" "urn:x:1-t-urn:x:2" "t" "urn:x:1-t-urn:x:2-t-urn:x:1";
     mk16 "c" "t" "urn:x:2-t-urn:x:1" "t" "urn:x:1-t-urn:x:2-t-urn:x:1"]) = Some (0, 1, 2)%nat.
Proof. vm_compute. reflexivity. Qed.

(* ------------------------------------------------------------------ 5. message level (Message.get_dialog) *)
Lemma get_compact_From : get_compact (s2b "From") = Some (s2b "f").
Proof. vm_compute. reflexivity. Qed.
Lemma get_compact_To : get_compact (s2b "To") = Some (s2b "t").
Proof. vm_compute. reflexivity. Qed.

(* a header name that matches From (also in compact form, any case) does not match To *)
Lemma same_header_From_not_To n :
  same_header n (s2b "From") = true -> same_header n (s2b "To") = false.
Proof.
  unfold same_header. rewrite get_compact_From, get_compact_To. unfold equal_fold. intros H.
  apply orb_true_iff in H. destruct H as [H|H]; apply beq_eq in H; rewrite H; vm_compute; reflexivity.
Qed.

(* decoding one header in place does not disturb the lookup of a header with a disjoint name *)
Lemma get_header_update_other n1 n2 f :
  (forall n, same_header n n1 = true -> same_header n n2 = false) ->
  forall hs, get_header n2 (update_header n1 f hs) = get_header n2 hs.
Proof.
  intros D. induction hs as [|h r IH]; cbn; [reflexivity|].
  destruct (same_header (h_name h) n1) eqn:E1; cbn.
  - rewrite (D _ E1). reflexivity.
  - destruct (same_header (h_name h) n2); [reflexivity|exact IH].
Qed.

Lemma get_from_inv m m1 f : get_from m = Ok (m1, f) ->
  m1 = m \/ m1 = with_headers m (update_header (s2b "From") (fun _ => HFrom f) (m_headers m)).
Proof.
  unfold get_from. destruct (get_header (s2b "From") (m_headers m)) as [h|]; [|discriminate].
  destruct (h_val h) as [s|l|l|l|f0|f0|c]; try discriminate.
  - destruct (parse_fromto s) as [f1| |]; cbn; try discriminate. intros E. injection E as <- <-. right. reflexivity.
  - intros E. injection E as <- <-. left. reflexivity.
Qed.

Lemma get_to_snd m :
  rmap snd (get_to m) =
  match get_header (s2b "To") (m_headers m) with
  | None => Err
  | Some h => match h_val h with HTo f => Ok f | HRaw s => parse_fromto s | _ => Err end
  end.
Proof.
  unfold get_to. destruct (get_header (s2b "To") (m_headers m)) as [h|]; [|reflexivity].
  destruct (h_val h) as [s|l|l|l|f0|f0|c]; try reflexivity.
  destruct (parse_fromto s); reflexivity.
Qed.

(* the To value read after From was decoded is the To value of the original message *)
Theorem C16_to_after_from : forall m m1 f,
  get_from m = Ok (m1, f) -> rmap snd (get_to m1) = rmap snd (get_to m).
Proof.
  intros m m1 f H. apply get_from_inv in H. destruct H as [->| ->]; [reflexivity|].
  rewrite !get_to_snd. cbn [m_headers with_headers].
  rewrite (get_header_update_other _ _ _ same_header_From_not_To). reflexivity.
Qed.

Lemma get_call_id_cases m : (exists c, get_call_id m = Ok c) \/ get_call_id m = Err.
Proof.
  unfold get_call_id, get_raw. destruct (get_header (s2b "Call-ID") (m_headers m)) as [h|]; [|right; reflexivity].
  destruct (h_val h); try (right; reflexivity). left. eexists. reflexivity.
Qed.

(* From without a tag parameter: no dialog *)
Theorem C16_no_tag_from : forall m m1 f,
  get_from m = Ok (m1, f) -> fromto_tag f = None -> get_dialog m = Err.
Proof.
  intros m m1 f H T. unfold get_dialog.
  destruct (get_call_id_cases m) as [[c E]|E]; rewrite E; cbn; [|reflexivity].
  rewrite H. cbn. rewrite T. reflexivity.
Qed.

(* To without a tag parameter: no dialog.  [get_to] runs on the message [get_from] returned *)
Theorem C16_no_tag_to : forall m m1 f m2 t,
  get_from m = Ok (m1, f) -> get_to m1 = Ok (m2, t) -> fromto_tag t = None -> get_dialog m = Err.
Proof.
  intros m m1 f m2 t H1 H2 T. unfold get_dialog.
  destruct (get_call_id_cases m) as [[c E]|E]; rewrite E; cbn; [|reflexivity].
  rewrite H1. cbn. destruct (fromto_tag f); cbn; [|reflexivity].
  rewrite H2. cbn. rewrite T. reflexivity.
Qed.

(* the same, with To read from the ORIGINAL message *)
Theorem C16_no_tag_to' : forall m m1 f m2 t,
  get_from m = Ok (m1, f) -> get_to m = Ok (m2, t) -> fromto_tag t = None -> get_dialog m = Err.
Proof.
  intros m m1 f m2 t H1 H2 T.
  pose proof (C16_to_after_from m m1 f H1) as E. rewrite H2 in E. cbn in E.
  destruct (get_to m1) as [[m2' t']| |] eqn:G; cbn in E; try discriminate. injection E as ->.
  eapply C16_no_tag_to; eassumption.
Qed.

(* both tags present: the identifier is dialog_string of the Call-ID and the (tag, URI core) pairs *)
Theorem C16_get_dialog_string : forall m cid m1 f m2 t ftag ttag,
  get_call_id m = Ok cid -> get_from m = Ok (m1, f) -> get_to m1 = Ok (m2, t) ->
  fromto_tag f = Some ftag -> fromto_tag t = Some ttag ->
  get_dialog m = Ok (m2, dialog_string cid ftag (dialog_addr (fromto_addr_spec f))
                                           ttag (dialog_addr (fromto_addr_spec t))).
Proof.
  intros m cid m1 f m2 t ftag ttag Hc Hf Ht Tf Tt. unfold get_dialog.
  rewrite Hc. cbn. rewrite Hf. cbn. rewrite Tf. cbn. rewrite Ht. cbn. rewrite Tt. reflexivity.
Qed.

(* and conversely: an identifier exists only in that way (in particular only with both tags) *)
Theorem C16_get_dialog_inv : forall m m2 d,
  get_dialog m = Ok (m2, d) ->
  exists cid m1 f t ftag ttag,
    get_call_id m = Ok cid /\ get_from m = Ok (m1, f) /\ get_to m1 = Ok (m2, t) /\
    fromto_tag f = Some ftag /\ fromto_tag t = Some ttag /\
    d = dialog_string cid ftag (dialog_addr (fromto_addr_spec f)) ttag (dialog_addr (fromto_addr_spec t)).
Proof.
  intros m m2 d. unfold get_dialog.
  destruct (get_call_id m) as [cid| |] eqn:Hc; cbn; try discriminate.
  destruct (get_from m) as [[m1 f]| |] eqn:Hf; cbn; try discriminate.
  destruct (fromto_tag f) as [ftag|] eqn:Tf; cbn; try discriminate.
  destruct (get_to m1) as [[m2' t]| |] eqn:Ht; cbn; try discriminate.
  destruct (fromto_tag t) as [ttag|] eqn:Tt; cbn; try discriminate.
  intros E. injection E as <- <-. exists cid, m1, f, t, ftag, ttag. repeat split; first [reflexivity|assumption].
Qed.

(* raw headers (the state after parse_message): explicit resulting message *)
Theorem C16_get_dialog_raw : forall m hc cid hf sf f ht st t ftag ttag,
  get_header (s2b "Call-ID") (m_headers m) = Some hc -> h_val hc = HRaw cid ->
  get_header (s2b "From") (m_headers m) = Some hf -> h_val hf = HRaw sf -> parse_fromto sf = Ok f ->
  get_header (s2b "To") (m_headers m) = Some ht -> h_val ht = HRaw st -> parse_fromto st = Ok t ->
  fromto_tag f = Some ftag -> fromto_tag t = Some ttag ->
  get_dialog m =
    Ok (with_headers m (update_header (s2b "To") (fun _ => HTo t)
                         (update_header (s2b "From") (fun _ => HFrom f) (m_headers m))),
        dialog_string cid ftag (dialog_addr (fromto_addr_spec f)) ttag (dialog_addr (fromto_addr_spec t))).
Proof.
  intros m hc cid hf sf f ht st t ftag ttag Hc Vc Hf Vf Pf Ht Vt Pt Tf Tt.
  apply (C16_get_dialog_string m cid
           (with_headers m (update_header (s2b "From") (fun _ => HFrom f) (m_headers m))) f _ t ftag ttag).
  - unfold get_call_id, get_raw. rewrite Hc, Vc. reflexivity.
  - unfold get_from. rewrite Hf, Vf, Pf. reflexivity.
  - unfold get_to. cbn [m_headers with_headers].
    rewrite (get_header_update_other _ _ _ same_header_From_not_To), Ht, Vt, Pt. reflexivity.
  - exact Tf.
  - exact Tt.
Qed.

(* direction independence at message level: two messages of one dialog whose From/To values are
   exchanged (request one way, request the other way; URI parameters may differ, only the URI
   cores [dialog_addr] must agree) get the same answer *)
Theorem C16_message_symmetric : forall m m' cid m1 f m2 t m1' f' m2' t',
  get_call_id m = Ok cid -> get_call_id m' = Ok cid ->
  get_from m = Ok (m1, f) -> get_to m1 = Ok (m2, t) ->
  get_from m' = Ok (m1', f') -> get_to m1' = Ok (m2', t') ->
  fromto_tag f' = fromto_tag t -> fromto_tag t' = fromto_tag f ->
  dialog_addr (fromto_addr_spec f') = dialog_addr (fromto_addr_spec t) ->
  dialog_addr (fromto_addr_spec t') = dialog_addr (fromto_addr_spec f) ->
  rmap snd (get_dialog m) = rmap snd (get_dialog m').
Proof.
  intros m m' cid m1 f m2 t m1' f' m2' t' Hc Hc' Hf Ht Hf' Ht' T1 T2 A1 A2.
  unfold get_dialog. rewrite Hc, Hc'. cbn. rewrite Hf, Hf'. cbn. rewrite T1.
  destruct (fromto_tag f) as [ftag|] eqn:Tf; cbn.
  - rewrite Ht. cbn. destruct (fromto_tag t) as [ttag|] eqn:Tt; cbn; [|reflexivity].
    rewrite Ht'. cbn. rewrite T2. cbn. rewrite A1, A2, (C16_symmetric cid ftag). reflexivity.
  - destruct (fromto_tag t) as [ttag|] eqn:Tt; cbn; [|reflexivity].
    rewrite Ht'. cbn. rewrite T2. reflexivity.
Qed.

(* non-vacuity: compact / upper-case header names, name-addr with URI parameters and a port, '-' in
   Call-ID, tags and hosts; the reverse-direction message; a To without tag *)
Definition raw_msg (from to : string) : message :=
  {| m_start := SResp (s2b "SIP/2.0") 200%Z (s2b "OK");
     m_headers := [ {| h_name := s2b "Via"; h_val := HRaw (s2b "SIP/2.0/UDP h-1;branch=z9hG4bK-1") |};
                    {| h_name := s2b "f"; h_val := HRaw (s2b from) |};
                    {| h_name := s2b "TO"; h_val := HRaw (s2b to) |};
                    {| h_name := s2b "i"; h_val := HRaw (s2b "a-b-c@h-1") |} ];
     m_body := [] |}.
Definition msg_ab := raw_msg "<sip:alice@a-1.example.com;transport=tcp>;tag=t-1" "Bob <sip:bob@b-2.example.com:5060>;tag=t-2".
Definition msg_ba := raw_msg "Bob <sip:bob@b-2.example.com:5060>;tag=t-2" "<sip:alice@a-1.example.com>;tag=t-1".
Definition msg_notag := raw_msg "<sip:alice@a-1.example.com>;tag=t-1" "<sip:bob@b-2.example.com>".

Example C16_get_dialog_ex :
  rmap snd (get_dialog msg_ab) = Ok (s2b "a-b-c@h-1-t-1-sip:alice@a-1.example.com-t-2-sip:bob@b-2.example.com:5060") /\
  rmap snd (get_dialog msg_ba) = Ok (s2b "a-b-c@h-1-t-1-sip:alice@a-1.example.com-t-2-sip:bob@b-2.example.com:5060").
Proof. split; vm_compute; reflexivity. Qed.
(* the hypotheses of C16_get_dialog_raw hold on msg_ab *)
Example C16_get_dialog_raw_ex :
  match get_header (s2b "Call-ID") (m_headers msg_ab), get_header (s2b "From") (m_headers msg_ab),
        get_header (s2b "To") (m_headers msg_ab) with
  | Some hc, Some hf, Some ht =>
      match h_val hc, h_val hf, h_val ht with
      | HRaw cid, HRaw sf, HRaw st =>
          match parse_fromto sf, parse_fromto st with
          | Ok f, Ok t => cid = s2b "a-b-c@h-1" /\ fromto_tag f = Some (s2b "t-1") /\ fromto_tag t = Some (s2b "t-2")
          | _, _ => False
          end
      | _, _, _ => False
      end
  | _, _, _ => False
  end.
Proof. vm_compute. repeat split. Qed.
(* the hypotheses of C16_no_tag_to hold on msg_notag, and indeed there is no dialog *)
Example C16_no_tag_ex :
  match get_from msg_notag with
  | Ok (m1, f) => match get_to m1 with Ok (m2, t) => fromto_tag t = None | _ => False end
  | _ => False
  end /\ get_dialog msg_notag = Err.
Proof. vm_compute. split; reflexivity. Qed.
(* the hypotheses of C16_message_symmetric hold on msg_ab / msg_ba (the URI parameters differ) *)
Example C16_message_symmetric_ex :
  get_call_id msg_ab = get_call_id msg_ba /\ is_ok (get_call_id msg_ab) = true /\
  match get_from msg_ab, get_from msg_ba with
  | Ok (m1, f), Ok (m1', f') =>
      match get_to m1, get_to m1' with
      | Ok (m2, t), Ok (m2', t') =>
          fromto_tag f' = fromto_tag t /\ fromto_tag t' = fromto_tag f /\
          dialog_addr (fromto_addr_spec f') = dialog_addr (fromto_addr_spec t) /\
          dialog_addr (fromto_addr_spec t') = dialog_addr (fromto_addr_spec f) /\
          fromto_addr_spec t' <> fromto_addr_spec f
      | _, _ => False
      end
  | _, _ => False
  end.
Proof. vm_compute. repeat split. intros H; discriminate H. Qed.

(* ------------------------------------------------------------------ axiom audit *)
Print Assumptions blt_trichotomy.
Print Assumptions C16_symmetric.
Print Assumptions C16_legacy_refuted.
Print Assumptions C16_callid_discriminates.
Print Assumptions C16_callid_discriminates_msg.
Print Assumptions C16_discriminates.
Print Assumptions half_ok_sep_ok.
Print Assumptions half_ok_distinct_tags.
Print Assumptions half_ok_tags_same_length.
Print Assumptions half_ok_equal_tags.
Print Assumptions C16_K3_refuted.
Print Assumptions C16_same_id.
Print Assumptions C16_judged.
Print Assumptions C16_judged_halves.
Print Assumptions C16_judged_b.
Print Assumptions group_half_ok_sep_ok.
Print Assumptions C16_to_after_from.
Print Assumptions C16_no_tag_from.
Print Assumptions C16_no_tag_to.
Print Assumptions C16_no_tag_to'.
Print Assumptions C16_get_dialog_string.
Print Assumptions C16_get_dialog_inv.
Print Assumptions C16_get_dialog_raw.
Print Assumptions C16_message_symmetric.
